"""C16 — the variable-rate engine follows the requested ratio smoothly and faithfully.

proof          lean/SoxrModel/Properties/C16.lean over the control skeleton lean/SoxrModel/Vr/Model.lean
                (constants regenerated from vr32.c by harness/vr/gen.c): slew arithmetic, linear progression, exact
                snap, overshoot bound, immediate change and "then stays" for every state (request_settles; the
                "no unfinished slew" hypothesis went with the repair of F13), stage switch rescaling / time continuity,
                the repaired shift equals the model's (F14), frame count on the clock, CR refusal, fade alignment:
                occupancy0 aligned as a loop invariant, down-switch fades and fades down to the up-sampling stage aligned
                (F35 repaired; the negation on the pre-repair loop kept as a historical witness), and the negation for all
                runs on the CURRENT code with a solved-for witness of an up-switch fade (F41, known); the frame count of the
                whole engine (chain occupancies, chunking, hand-back, flush) at a constant ratio on every stage.
correspondence  random ratio trajectories (max ratio 0.5…64, slews 0…4000, changes in mid-slew incl. immediate ones,
                random blocks, flush) through the real engine (harness/vr/trace.c, asserts on) and through the compiled
                model soxr_vr: every field of rate_t and every FIFO occupancy after every call, plus the decision of
                soxr_set_io_ratio; plus the structured family in which F35 was found (jump up at once, fast slew down,
                long calls).  Should the model ever say that the two cross-faded streams get out of step (ghost nmis; it
                did before the repair of F35) the asserts-on run is cut before that call, that call must abort on
                `odone == odone2`, and the NDEBUG build is compared through it.
falsifier       on the real code only: integer oracles of the property on the exported state (target reached and kept,
                linear slew, increment rounding); sine-fit residual >= 80 dB and N/ratio within two frames at constant
                ratios; ramp read-back (trajectory r(t), time continuity) and second-difference bound (no discontinuity)
                over trajectories crossing every octave both ways; CR engines refuse; request-size schedules (F12); the F36
                witness with a sine (no garbage at the end of a call with three up-switches) and under UBSan;
                ASan/UBSan build with C99 shift rules (F14 stays repaired); the Lean witnesses of F13 (must end at the
                requested ratio) and of F35 (must run through the asserts-on build, streams aligned) replayed.
"""
import json, math, os, re, tempfile, glob, hashlib
from concurrent.futures import ThreadPoolExecutor
import numpy as np
from vlib import common
from checks import vrlib as V

LEVEL = "proof"
PID = "C16"
FADE = V.fade_len()     # fade_len right after a stage switch (AL(fade_coefs) - 1, from Generated.lean)
RESID_DB = -80.0        # the property: residual at least 80 dB below the signal
FRAMES_TOL = 2          # the property: N/ratio within two frames
F32 = 2.0 ** -24        # resolution of the engine's sample format (float32), for the ramp oracle


# ====================================================================== correspondence

def integer_oracles(mx, ops, groups):
    """Direct oracles of the property on the *real* engine's exported state (no model involved): returns a list of
    (op index, kind, text, f13) — f13: the failure follows an immediate request made during an unfinished slew.
    groups[n] = the real answers to op n."""
    out = []
    prev = None
    req = None          # the last request: dict(r, L, out (frames since), f13, dropped, sw (stage switch since))
    first_dropped = 0
    for n, (o, res) in enumerate(zip(ops, groups)):
        t = o.split()
        st = [V.State(l) for l in res if V.has_state(l)]
        if not st:
            continue
        s = st[-1]
        if t[0] == "ratio" and prev is not None:
            r, L = float(t[1]), int(t[2])
            f13 = L == 0 and (prev.slew != 0 or prev.newr != 0)
            if L == 0:
                # immediate_when_zero
                if s.step != V.step_of(r, s.mult):
                    out.append((n, "immediate", "after soxr_set_io_ratio(%.17g, 0) step is %d, the target is %d" % (
                        r, s.step, V.step_of(r, s.mult)), False))
                req = dict(r=r, L=0, out=0, f13=f13, dropped=False, sw=0, tol=0)
            elif prev.defr != 0:
                first_dropped += 1
                req = None            # documented usage (example 5): the first ratio is set with slew_len 0
            else:
                T = V.step_of(r, prev.mult)
                dif = T - prev.step
                if s.step != prev.step:
                    out.append((n, "request", "a slew request moved step at once: %d -> %d" % (prev.step, s.step), False))
                if 2 * abs(L * s.ss - dif) > L or (dif > 0 and s.ss < 0) or (dif < 0 and s.ss > 0):
                    out.append((n, "increment", "step_step %d is not (target-step)/slew_len rounded: target-step = %d, "
                                "slew_len = %d" % (s.ss, dif, L), False))
                if s.ss != 0 and (s.slew != L or s.newr != V.bits(r)):
                    out.append((n, "request", "slew_len/new_io_ratio not stored: slew=%d newr=%d" % (s.slew, s.newr), False))
                req = dict(r=r, L=L, out=0, f13=False, dropped=s.ss == 0, sw=0, tol=(L // 2 + 1) if s.ss == 0 else 0)
        elif t[0] in ("proc", "procn", "flush") and prev is not None:
            od = s.od
            # was a stage switch taken inside this call?  A switch sets fade_len = FADE (it then falls by 2 per output frame and
            # blocks further switches until 0), so: no switch <=> same stage and fade_len fell by exactly 2*od (or stayed 0 in
            # a call too short to hold a whole fade).  A call of >= FADE/2 frames that starts and ends without a fade in the
            # same stage may hide an up- and a down-switch: undecidable from outside, treated as switched (oracle skipped).
            if s.sn != prev.sn:
                switched = True
            elif s.fade != 0:
                switched = not (prev.fade != 0 and prev.fade - s.fade == 2 * od)
            else:
                switched = 2 * od >= prev.fade + FADE
            # slew progression between two call boundaries of one slew (no snap, no stage switch in between)
            if prev.slew != 0 and not switched and (s.slew != 0 or s.newr != 0):
                k = prev.slew - s.slew
                if k != od or s.ss != prev.ss or s.step - prev.step != k * prev.ss:
                    out.append((n, "progression", "during a slew: %d frames delivered, slew_len fell by %d, step moved by %d "
                                "(step_step %d -> %d)" % (od, k, s.step - prev.step, prev.ss, s.ss), False))
            if prev.ss * s.ss < 0:
                out.append((n, "sign", "step_step changed sign without a new request: %d -> %d" % (prev.ss, s.ss), False))
            if req is not None:
                req["out"] += od
                if req["out"] > req["L"]:
                    # more than slew_len frames after the request: the target, and nothing outstanding.  Stage switches since
                    # the snap (possibly several inside one call) rescale step by powers of two, flooring on the way up
                    # (stage_switch_rescale), so step is the rounded target of the stage now current to within the clock
                    # resolution of the coarsest stage: 2^(num_stages+1) units of 2^-33 input frames.
                    T = V.step_of(req["r"], s.mult)
                    scale_cur = 2 ** (s.sn + 1) * (2 if s.isd else 1)
                    tol = req["tol"] + max(1, 2 ** (s.ns + 1) // scale_cur)
                    if s.slew != 0 or s.newr != 0 or abs(s.step - T) > tol:
                        out.append((n, "target", "%d frames after soxr_set_io_ratio(%.17g, %d): step %d (ratio %.9g), target %d; "
                                    "slew_len=%d new_io_ratio=%.17g" % (req["out"], req["r"], req["L"], s.step, s.rate, T,
                                                                       s.slew, V.from_bits(s.newr)), req["f13"]))
                        req = None          # report once per request
        prev = s
    return out, first_dropped


ASSERT_F35 = "Assertion `odone == odone2' failed"


def deep_backwards(mres, margin=8):
    """index of the first op after which the model's state has a negative step or a clock more than `margin` samples
    before its stage's read pointer (there the real engine would read outside the FIFO head-room), or None"""
    for n, res in enumerate(mres):
        for l in res:
            if V.has_state(l):
                s = V.State(l)
                if s.cur[1] < 0 or s.cur[0] < -(margin << 32) or (s.fade != 0 and (s.fo[1] < 0 or s.fo[0] < -(margin << 32))):
                    return n
    return None


def one_trajectory(exe, seed, nops, exe_rel=None, gen=None):
    """exe: the asserts-on build.  Where the model predicts that the two cross-faded streams get out of step (F35) that build
    aborts: it is run up to that call only, then once more including it (must abort with exactly that assertion), and the
    NDEBUG build exe_rel runs the whole trajectory (every field compared through and after the misalignment)."""
    rng = common.Rng(seed)
    mx, ops = gen(rng) if gen else V.gen_traj(rng, nops)
    all_ops = ops
    mo, mres = V.model_groups(mx, ops)
    info = V.scan_model(ops, mres)
    cut = None
    stops = [x for x in (info["mis"], info["wild"]) if x is not None]
    if stops:
        cut = min(stops)
        ops, mo, mres = ops[:cut], mo[:cut], mres[:cut]
    rc, lines, err = V.run_harness(exe, ops)
    real_ops, real_res, _ = V.split_real(lines)
    res = dict(seed=seed, mx=mx, ops=ops, info=info, cut=cut, calls=len(real_res), crash=None, diff=None, oracle=[], dropped=0,
               f35=None, f35_missing=None, rel_diff=None)
    if rc:
        res["crash"] = "harness exit %d: %s" % (rc, err[-400:])
    d = V.compare(ops, mo, mres, real_ops, real_res)
    if d:
        res["diff"] = d
    if info["mis"] is not None and info["mis"] == cut and not d and not rc:
        # the call in which the model counts a mismatch: the assertion of the real code must fail there, and nowhere before
        ops1 = all_ops[:cut + 1]
        rc1, lines1, err1 = V.run_harness(exe, ops1)
        n_ans = len(V.split_real(lines1)[1])
        if rc1 and ASSERT_F35 in err1 and n_ans == len(real_res):
            res["f35"] = "op %d (%s): %s" % (cut, all_ops[cut], [l for l in err1.splitlines() if "Assertion" in l][-1][-120:])
        else:
            res["f35_missing"] = "the model counts a chunk with odone != odone2 in op %d (%s) but the asserts-on build %s" % (
                cut, all_ops[cut], "ran through it" if not rc1 else "failed differently: " + err1[-300:])
        if exe_rel:
            mo2, mres2 = V.model_groups(mx, all_ops)
            stop = deep_backwards(mres2)
            ops2 = all_ops if stop is None else all_ops[:stop]
            mo2, mres2 = mo2[:len(ops2)], mres2[:len(ops2)]
            rc2, lines2, err2 = V.run_harness(exe_rel, ops2)
            ro2, rr2, _ = V.split_real(lines2)
            d2 = V.compare(ops2, mo2, mres2, ro2, rr2)
            res["calls"] += len(rr2)
            if rc2 or d2:
                res["rel_diff"] = (d2[0] if d2 else 0, ("NDEBUG build, through the fade misalignment: " + ("exit %d %s " % (rc2, err2[-200:]) if rc2 else "") +
                                                       (d2[1] if d2 else "")), ops2)
    # group the real answers per op for the oracles
    groups, i = [], 0
    for g in mo:
        groups.append(real_res[i:i + len(g)]); i += len(g)
    try:
        res["oracle"], res["dropped"] = integer_oracles(mx, ops, groups)
    except Exception as e:             # malformed line = mismatch already reported above
        if not res["diff"] and not res["crash"]:
            res["diff"] = (0, "unparsable state line: %r" % (e,))
    return res


def corr_fails(exe, ops):
    """does this op list still show a disagreement (or a crash)?  (used for shrinking)"""
    mx = float(ops[0].split()[1])
    mo, mres = V.model_groups(mx, ops)
    info = V.scan_model(ops, mres)
    stops = [x for x in (info["mis"], info["wild"]) if x is not None]
    if stops:
        ops, mo, mres = ops[:min(stops)], mo[:min(stops)], mres[:min(stops)]
    rc, lines, _ = V.run_harness(exe, ops)
    real_ops, real_res, _ = V.split_real(lines)
    return bool(rc) or V.compare(ops, mo, mres, real_ops, real_res) is not None


def oracle_fails(exe, ops, kind):
    mx = float(ops[0].split()[1])
    mo = V.model_ops(mx, ops)
    rc, lines, _ = V.run_harness(exe, ops)
    _, real_res, _ = V.split_real(lines)
    groups, i = [], 0
    for g in mo:
        groups.append(real_res[i:i + len(g)]); i += len(g)
    try:
        o, _ = integer_oracles(mx, ops, groups)
    except Exception:
        return False
    return any(k == kind and not f13 for _, k, _, f13 in o)


def correspondence(ctx, exe, exe_rel, n_traj, nops, fails):
    """Returns (F13-class oracle hits, F35 reproductions)."""
    seeds = [ctx.rng.next() for _ in range(n_traj)]
    fam = [ctx.rng.next() for _ in range(n_traj // 2)]
    with ThreadPoolExecutor(common.NCPU) as ex:
        results = list(ex.map(lambda sd: one_trajectory(exe, sd, nops, exe_rel), seeds))
        results += list(ex.map(lambda sd: one_trajectory(exe, sd, nops, exe_rel, f35_family), fam))
    ctx.count("f35_family_trajectories", len(fam))
    ctx.count("f35_family_up_and_down_switch_runs", sum(1 for r in results[len(seeds):] if r["info"]["nsw"] >= 3))
    calls = 0
    f13_hits, f35_hits, f41_hits = [], [], []
    for r in results:
        calls += r["calls"]
        ctx.hist("traj_max_ratio", "<1" if r["mx"] < 1 else "<4" if r["mx"] < 4 else "<16" if r["mx"] < 16 else "<=64")
        ctx.hist("traj_stage_switches", min(r["info"]["nsw"], 8))
        ctx.hist("traj_class", ("immediate-request-during-slew" if r["info"]["f13"] is not None else "no-immediate-request-during-slew") +
                 ("+cut-at-fade-misalignment" if r["cut"] is not None else ""))
        ctx.count("immediate_requests_during_unfinished_slew", r["info"]["n_f13"])
        if r["info"]["sw_in_slew"]:
            ctx.count("traj_with_switch_during_slew")
        if r["info"]["shl"] is not None:
            ctx.count("traj_with_negative_left_shift")
        if r["info"]["mis"] is not None:
            ctx.count("traj_with_fade_misalignment_predicted")
        ctx.count("first_request_with_slew_dropped", r["dropped"])
        if r["info"]["wild"] is not None and (r["info"]["mis"] is None or r["info"]["wild"] < r["info"]["mis"]):
            fails.append(dict(kind="backwards", what="the model's read position runs backwards (before any fade misalignment): nothing "
                              "on the current tree is known to cause that", ops=r["ops"], seed=r["seed"]))
        if r["crash"] or r["diff"]:
            fails.append(dict(kind="correspondence", what=(r["crash"] or "") + (" | " if r["crash"] and r["diff"] else "") +
                              (r["diff"][1] if r["diff"] else ""), ops=r["ops"], seed=r["seed"]))
        if r["f35"]:
            f41_hits.append("random trajectory (seed %d) %s (the model counts the misaligned chunk in that call)" % (r["seed"], r["f35"]))
        if r["crash"] and ASSERT_F35 in r["crash"]:
            f35_hits.append("random trajectory (seed %d): the asserts-on build aborts where the model counts no misaligned chunk: %s" % (
                r["seed"], r["crash"][-160:]))
        if r["f35_missing"]:
            fails.append(dict(kind="correspondence", what=r["f35_missing"], ops=r["ops"], seed=r["seed"]))
        if r["rel_diff"]:
            fails.append(dict(kind="correspondence-ndebug", what=r["rel_diff"][1], ops=r["rel_diff"][2], seed=r["seed"]))
        for n, kind, text, f13 in r["oracle"]:
            if f13:
                f13_hits.append((r["seed"], n, text))
            else:
                fails.append(dict(kind="oracle:" + kind, what=text, ops=r["ops"][:n + 1], seed=r["seed"]))
    ctx.count("correspondence_trajectories", len(results))
    ctx.count("correspondence_calls", calls)
    ctx.count("evaluations", calls)
    nontrivial = sum(1 for r in results if r["info"]["nsw"] > 0 and r["calls"] > 50)
    ctx.count("distinct_nontrivial", nontrivial)
    for r in results[:3]:
        ctx.sample(dict(stage="correspondence", max_ratio=r["mx"], ops=len(r["ops"]), calls=r["calls"],
                        stage_switches=r["info"]["nsw"], first_ops=r["ops"][:6]))
    return f13_hits, f35_hits, f41_hits


# ====================================================================== numeric falsifier (real code only)

def run_dump(exe, ops_head, ops_tail, tmp, tag):
    """run ops with `dump` into a fresh file; returns (lines, samples)"""
    path = os.path.join(tmp, tag + ".f32")
    if os.path.exists(path):
        os.remove(path)
    rc, lines, err = V.run_harness(exe, ops_head + ["dump " + path] + ops_tail)
    y = np.fromfile(path, dtype=np.float32).astype(np.float64) if os.path.exists(path) else np.zeros(0)
    return rc, lines, err, y


def sine_fit_db(y, w):
    k = np.arange(len(y), dtype=np.float64)
    M = np.stack([np.sin(w * k), np.cos(w * k)], axis=1)
    coef, *_ = np.linalg.lstsq(M, y, rcond=None)
    res = y - M @ coef
    amp = math.hypot(coef[0], coef[1])
    rms = math.sqrt(float(np.mean(res * res)))
    return (20 * math.log10(max(rms, 1e-300) / amp) if amp > 0 else 0.0), amp


def const_ratio_case(exe, tmp, idx, mx, r, fnorm, blk):
    """constant ratio r on an engine declared for mx: an in-band sine (fnorm of the narrower Nyquist band), N input
    frames in blocks, then flush until empty.  Returns dict(resid_db, count, expect, …)."""
    w_in = math.pi * fnorm * min(1.0, 1.0 / r)
    n_calls = max(8, int(30000 * max(r, .25) / blk))
    N = n_calls * blk
    ol = int(math.ceil(blk / r)) + 64
    while math.ceil(ol * mx) < blk:          # soxr_i_for_o must not limit the input
        ol += 64
    head = ["create %.17g" % mx, "sig sine %.17g 0.5 0.3" % w_in]
    tail = ["ratio %.17g 0" % r] + ["proc %d %d" % (blk, ol)] * n_calls + ["flush %d" % (ol + 4096)] * 12
    rc, lines, err, y = run_dump(exe, head, tail, tmp, "const%d" % idx)
    _, real_res, _ = V.split_real(lines)
    st = [V.State(l) for l in real_res if V.has_state(l) and l.startswith("R ")]
    last_proc = st[n_calls - 1] if len(st) >= n_calls else None
    drained = bool(st) and st[-1].od == 0
    r_eff = last_proc.rate if last_proc else r
    a0, a1 = len(y) // 4, 3 * len(y) // 4
    db, amp = sine_fit_db(y[a0:a1], w_in * r_eff) if a1 - a0 > 200 else (0.0, 0.0)
    return dict(mx=mx, r=r, fnorm=fnorm, blk=blk, N=N, count=len(y), expect=N / r, resid_db=db, amp=amp, rc=rc, err=err[-300:],
                drained=drained, ops=head + tail)


def numeric_constant(ctx, exe, tmp, n_cases, fails):
    cases = []
    octs = [-5, -4, -3, -2, -1, 0, 1, 2, 3, 4, 5]
    for i in range(n_cases):
        o = octs[i % len(octs)]
        r = 2.0 ** o * (1.0 if ctx.rng.chance(.2) else ctx.rng.uniform(1.0, 2.0))
        if ctx.rng.chance(.3):
            mx = max(r, .5)                       # at the declared maximum
        else:
            mx = min(64.0, max(r, .5) * 2.0 ** ctx.rng.uniform(0, 3))
        if i < len(TOUR_MAXIMA):                  # every class of declared maximum, at ratios on both sides of 1.0
            mx = TOUR_MAXIMA[i]
            r = mx * 2.0 ** -ctx.rng.uniform(0, 2.5) if i % 2 else min(mx, 2.0 ** ctx.rng.uniform(-1.5, 0))
        r = min(r, mx)
        cases.append((i, mx, r, ctx.rng.uniform(.05, .6), [100, 257, 1000, 4096][ctx.rng.below(4)]))
    with ThreadPoolExecutor(common.NCPU) as ex:
        res = list(ex.map(lambda c: const_ratio_case(exe, tmp, *c), cases))
    worst_db, worst_cnt = -999.0, 0.0
    for c in res:
        ctx.count("evaluations")
        ctx.hist("constant_ratio_octave", int(math.floor(math.log2(c["r"]))))
        ctx.hist("constant_ratio_declared_maximum", "<=1" if c["mx"] <= 1 else "(1,2]" if c["mx"] <= 2 else "(2,4]" if c["mx"] <= 4 else ">4")
        if c["rc"] or not c["drained"]:
            fails.append(dict(kind="constant:run", what="run failed or did not drain: rc=%d %s" % (c["rc"], c["err"]), ops=c["ops"]))
            continue
        worst_db = max(worst_db, c["resid_db"]); worst_cnt = max(worst_cnt, abs(c["count"] - c["expect"]))
        if c["resid_db"] > RESID_DB:
            fails.append(dict(kind="constant:residual", what="ratio %.9g (max %.9g), sine at %.3f of the band: residual %.1f dB "
                              "(must be <= %.0f dB)" % (c["r"], c["mx"], c["fnorm"], c["resid_db"], RESID_DB), ops=c["ops"]))
        if abs(c["count"] - c["expect"]) > FRAMES_TOL:
            fails.append(dict(kind="constant:count", what="ratio %.9g: %d input frames gave %d output frames, N/ratio = %.2f" % (
                c["r"], c["N"], c["count"], c["expect"]), ops=c["ops"]))
    ctx.cov["constant_ratio_worst_residual_db"] = round(worst_db, 1)
    ctx.cov["constant_ratio_worst_count_error"] = round(worst_cnt, 3)
    ctx.count("constant_ratio_cases", len(res))


def octave_tour(rng, mx, both_ways=True):
    """a clean trajectory (every request waits for the previous one to finish) that crosses every octave of
    [2^-5, mx] upwards and downwards, with slews and immediate changes, in exactly delivered blocks."""
    top = math.log2(mx)
    pts = []
    o = -5.0
    while o < top:
        pts.append(o); o += rng.uniform(.6, 1.7)
    pts.append(top)
    seq = pts + (pts[::-1][1:] if both_ways else [])
    if rng.chance(.5):
        seq = seq[::-1]
    reqs = []           # (ratio, slew, frames to deliver afterwards)
    for i, o in enumerate(seq):
        r = min(mx, max(2.0 ** -5, 2.0 ** o * (1 if rng.chance(.3) else rng.uniform(.97, 1.03))))
        L = 0 if (i == 0 or rng.chance(.25)) else 200 + rng.below(3000)
        reqs.append((r, L, L + 700 + rng.below(900)))
    return reqs


def tour_ops(rng, mx, reqs, sched):
    """ops for a tour: input always ample (procn takes everything offered) so every block is delivered in full and the
    requests fall at the same output frames whatever the schedule.  sched: 'fixed' or 'random' block sizes."""
    ops = []
    marks = []          # (output frame index of the request, ratio, slew)
    done = 0
    for i, (r, L, frames) in enumerate(reqs):
        ops.append("ratio %.17g %d" % (r, L))
        marks.append((done, r, L))
        if i == 0:
            ops.append("procn %d 0" % (6000 + int(1200 * max(1.0, mx))))    # backlog: the engine never waits for input
        left = frames
        while left > 0:
            b = min(left, 256 if sched == "fixed" else 1 + rng.below(300))
            ops.append("procn %d %d" % (int(math.ceil(b * mx)) + 2, b))
            left -= b; done += b
    return ops, marks, done


def boundaries(ops, real_res):
    """per processing call: (output frames delivered up to and including the call, frames of the call, state after)"""
    out, K = [], 0
    for l in real_res:
        if l.startswith("R ") and V.has_state(l):
            s = V.State(l)
            K += s.od
            out.append((K, s.od, s))
    return out


def tour_case(exe, tmp, idx, seed, mx=None):
    """One octave tour on the real code, four probes over the same calls:
      ramp x[n] = n/scale          reads back the engine's read position (input time) directly — but every -80 dB artefact
                                   of the kernels is multiplied by the position, so its tolerance grows with the position;
      quadrature pair e^{i w n}    the phase of the output is w times the read position, whatever the gain: the precise
                                   time base (instantaneous ratio = phase advance per output frame / w);
      slow sine                    amplitude continuity (second difference)."""
    rng = common.Rng(seed)
    mx_drawn = [2.0, 4.0, 8.0, 16.0, 32.0, 64.0][rng.below(6)] * (1.0 if rng.chance(.5) else rng.uniform(.6, 1.0))
    mx = mx if mx is not None else mx_drawn
    reqs = octave_tour(rng, mx)
    ops, marks, total = tour_ops(rng, mx, reqs, "random" if rng.chance(.7) else "fixed")
    r_max = max(r for r, _, _ in reqs)
    scale = 65536.0
    w_s = 0.02 / max(1.0, r_max)
    w_q = 0.4 / max(1.0, r_max)
    A = 0.5
    floor = 10 ** (RESID_DB / 20)                       # the property's -80 dB, relative to the signal
    head = "create %.17g" % mx
    out = dict(seed=seed, mx=mx, ops=[head] + ops, fails=[], n=total, marks=len(marks))
    rc1, lines1, err1, yr = run_dump(exe, [head, "sig ramp %.17g" % scale], ops, tmp, "ramp%d" % idx)
    rc2, _, err2, ys = run_dump(exe, [head, "sig sine %.17g %g 0.1" % (w_s, A)], ops, tmp, "sine%d" % idx)
    rc3, _, err3, yc = run_dump(exe, [head, "sig sine %.17g %g %.17g" % (w_q, A, math.pi / 2)], ops, tmp, "qc%d" % idx)
    rc4, _, err4, yq = run_dump(exe, [head, "sig sine %.17g %g 0" % (w_q, A)], ops, tmp, "qs%d" % idx)
    if rc1 or rc2 or rc3 or rc4 or min(len(yr), len(ys), len(yc), len(yq)) != total or max(len(yr), len(ys), len(yc), len(yq)) != total:
        out["fails"].append(("tour:run", "run failed / short delivery: rc %d %d %d %d, delivered %d %d %d %d of %d; %s" % (
            rc1, rc2, rc3, rc4, len(yr), len(ys), len(yc), len(yq), total, (err1 + err2 + err3 + err4)[-300:])))
        return out
    _, res1, _ = V.split_real(lines1)
    b = boundaries(ops, res1)
    start = 1500
    W = 64
    z = yc + 1j * yq
    amp = np.abs(z)
    if float(np.min(amp[start:])) < 0.5 * A:
        k = int(np.argmin(amp[start:])) + start
        out["fails"].append(("tour:dropout", "quadrature probe: amplitude %.3g at output frame %d (signal %.3g)" % (amp[k], k, A)))
        return out
    posq = np.unwrap(np.angle(z)) / w_q                 # read position in input frames (minus a smooth filter delay)
    ph_noise = floor / w_q                              # a -80 dB residual moves the phase by at most 1e-4 rad

    def slope(p, k0, k1):
        k = np.arange(k0, k1, dtype=np.float64)
        return float(np.polyfit(k, p[k0:k1], 1)[0])
    tolq = lambda r: 1e-4 * r + 8 * ph_noise / W
    # (a) the engine's own clock at call boundaries where nothing moves: phase advance == step in input time
    worst = 0.0
    for (K, od, s) in b:
        if K - W < start or s.slew != 0 or s.newr != 0 or s.fade != 0 or s.ss != 0:
            continue
        if any(m[0] <= K <= m[0] + m[2] + W + 64 for m in marks):
            continue
        sl = slope(posq, K - W, K)
        worst = max(worst, abs(sl - s.rate) / tolq(s.rate))
        if abs(sl - s.rate) > tolq(s.rate):
            out["fails"].append(("tour:clock", "output frame %d: the output advances %.8g input frames per frame but the engine's step "
                                 "says %.8g (tolerance %.2g)" % (K, sl, s.rate, tolq(s.rate))))
            break
    out["clock_worst"] = worst
    # (b) the property itself: monotone during each slew, the target afterwards
    worst_t = 0.0
    for i, (K0, r, L) in enumerate(marks):
        K_next = marks[i + 1][0] if i + 1 < len(marks) else total
        if K0 - W < start:
            continue
        r_before = slope(posq, K0 - W, K0)
        ka = K0 + L + 600                               # slew over, and the 512-frame cross-fade of a switch it may have caused
        if ka + W <= K_next:
            sl = slope(posq, ka, min(K_next, ka + 4 * W))
            worst_t = max(worst_t, abs(sl - r) / tolq(r))
            if abs(sl - r) > tolq(r):
                out["fails"].append(("tour:target", "request %d (ratio %.9g, slew %d) at output frame %d: %d frames later the output "
                                     "advances %.8g input frames per frame (tolerance %.2g)" % (i, r, L, K0, ka - K0, sl, tolq(r))))
            slr = slope(yr * scale, ka, min(K_next, ka + 4 * W))
            tolr = 2e-3 * r + 8 * floor * abs(float(yr[ka]) * scale) / W
            if abs(slr - r) > tolr:
                out["fails"].append(("tour:target", "request %d (ratio %.9g, slew %d) at output frame %d: %d frames later the ramp "
                                     "read-back advances %.8g per frame (tolerance %.2g)" % (i, r, L, K0, ka - K0, slr, tolr)))
        if L >= 4 * W:
            up = r > r_before
            prev = r_before
            lo, hi = min(r, r_before), max(r, r_before)
            stepw = abs(r - r_before) * W / L
            for k in range(K0 + W, K0 + L - W, W):
                sl = slope(posq, k, k + W)
                tol = tolq(max(sl, prev))
                if (up and sl < prev - tol) or ((not up) and sl > prev + tol) or sl < lo - tol - stepw or sl > hi + tol + stepw:
                    out["fails"].append(("tour:monotone", "request %d (ratio %.7g -> %.7g over %d frames) at output frame %d: the "
                                         "ratio read from the output is %.7g after %.7g around frame %d" % (i, r_before, r, L, K0, sl, prev, k)))
                    break
                prev = sl
    out["target_worst"] = worst_t
    # (c) time continuity: the second difference of the read position is the per-frame change of the ratio
    max_dr = max([abs(marks[i][1] - marks[i - 1][1]) / max(1, marks[i][2]) for i in range(1, len(marks)) if marks[i][2] > 0] + [0.0])
    kink = np.zeros(total)
    for i in range(1, len(marks)):
        if marks[i][2] == 0:                            # an immediate change is a kink of the read position, not a jump
            k = marks[i][0]
            kink[max(0, k - 64):k + 384] = np.maximum(kink[max(0, k - 64):k + 384], abs(marks[i][1] - marks[i - 1][1]))
    d2 = np.abs(np.diff(posq, 2))
    allowed = 4 * max_dr + 4 * ph_noise + 4 * kink[1:-1] + (kink[1:-1] > 0) * 0.05 * r_max
    out["d2_worst"] = float(np.max(d2[start:] / allowed[start:])) if len(d2) > start else 0.0
    bad = np.nonzero(d2[start:] > allowed[start:])[0]
    if len(bad):
        k = int(bad[0]) + start
        out["fails"].append(("tour:time-jump", "the read position (phase of a %.3g rad/frame tone) jumps at output frame %d: second "
                             "difference %.4g input frames (allowed %.4g)" % (w_q, k, d2[k], allowed[k])))
    #     … and the ramp, whose artefacts scale with the position
    posr = yr * scale
    d2r = np.abs(np.diff(posr, 2))
    allowed = 4 * max_dr + 4 * floor * np.abs(posr[1:-1]) + 4 * kink[1:-1] + (kink[1:-1] > 0) * 0.05 * r_max + 16 * F32 * np.abs(posr[1:-1]) + 1e-3
    out["d2r_worst"] = float(np.max(d2r[start:] / allowed[start:])) if len(d2r) > start else 0.0
    bad = np.nonzero(d2r[start:] > allowed[start:])[0]
    if len(bad):
        k = int(bad[0]) + start
        out["fails"].append(("tour:time-jump", "ramp read-back jumps at output frame %d: second difference %.4g input frames "
                             "(allowed %.4g)" % (k, d2r[k], allowed[k])))
    # (d) no discontinuity in a slow sine: |second difference| <= A((w r)^2 + w |dr|) + the residual floor (-80 dB, x4)
    d2s = np.abs(np.diff(ys, 2))
    allowed = A * (1.5 * (w_s * r_max) ** 2 + 4 * w_s * max_dr) + 4 * A * floor + A * w_s * 4 * kink[1:-1]
    out["d2s_worst"] = float(np.max(d2s[start:] / allowed[start:])) if len(d2s) > start else 0.0
    bad = np.nonzero(d2s[start:] > allowed[start:])[0]
    if len(bad):
        k = int(bad[0]) + start
        out["fails"].append(("tour:discontinuity", "slow sine (%.3g rad/frame in): second difference %.3g at output frame %d "
                             "(allowed %.3g): a step in the output" % (w_s, d2s[k], k, allowed[k])))
    out["switches"] = sum(1 for i in range(1, len(b)) if b[i][2].sn != b[i - 1][2].sn)
    return out


# Declared maxima every run covers, whatever the seed: each class of num_stages0 (0: max <= 1; 1: (1, 2], where num_stages0 !=
# num_stages - 1 is still 0 but the engine can down-sample; 2: (2, 4]; ...) with a maximum inside the class and one exactly at its
# upper edge.  A tour visits every octave boundary the engine has, both ways - in particular ratio 1.0 (stage -1 <-> stage 0),
# which exists as soon as the maximum exceeds 1.
TOUR_MAXIMA = [1.5, 2.0, 3.0, 1.0, 4.0, 1.25, 8.0, 0.75, 6.0, 64.0, 16.0, 2.5]


def numeric_tours(ctx, exe, tmp, n, fails):
    seeds = [ctx.rng.next() for _ in range(n)]
    maxima = [TOUR_MAXIMA[i] if i < len(TOUR_MAXIMA) else None for i in range(n)]      # beyond the list: drawn by the tour itself
    with ThreadPoolExecutor(common.NCPU) as ex:
        res = list(ex.map(lambda a: tour_case(exe, tmp, a[0], a[1][0], a[1][1]), enumerate(zip(seeds, maxima))))
    for r in res:
        ctx.hist("tour_declared_maximum", "<=1" if r["mx"] <= 1 else "(1,2]" if r["mx"] <= 2 else "(2,4]" if r["mx"] <= 4 else ">4")
    for r in res:
        ctx.count("evaluations", r["marks"])
        ctx.count("tour_requests", r["marks"])
        ctx.count("tour_stage_switches_seen", r.get("switches", 0))
        for kind, text in r["fails"]:
            fails.append(dict(kind=kind, what=text, ops=r["ops"], seed=r["seed"]))
    ctx.count("tours", len(res))
    ctx.cov["tour_worst_fraction_of_tolerance"] = dict(
        clock=round(max([r.get("clock_worst", 0) for r in res] + [0]), 3),
        target=round(max([r.get("target_worst", 0) for r in res] + [0]), 3),
        time_second_difference=round(max([r.get("d2_worst", 0) for r in res] + [0]), 3),
        ramp_second_difference=round(max([r.get("d2r_worst", 0) for r in res] + [0]), 3),
        sine_second_difference=round(max([r.get("d2s_worst", 0) for r in res] + [0]), 3))
    if res:
        ctx.sample(dict(stage="tour", max_ratio=res[0]["mx"], requests=res[0]["marks"], frames=res[0]["n"],
                        first_ops=res[0]["ops"][:5]))


# ---------------------------------------------------------------------- constant-rate engines refuse

API_CASES = [
    # (setup ops, ratio op, expected result code)
    (["crcreate 4 1 2"], "ratio 0.7 0", 5), (["crcreate 4 1 2"], "ratio 0.5 0", 0), (["crcreate 4 1 2"], "ratio 0.5 100", 0),
    (["crcreate 1 44100 48000"], "ratio 1.0 0", 5), (["crcreate 0 3 1"], "ratio 2.9999999999 0", 5),
    (["crcreate 6 2 1"], "ratio 2.000000000000002 0", 5), (["crcreate 6 2 1"], "ratio 2.0000000000000004 0", 0),
    (["crcreate 4 1 2"], "ratio 0 0", 4), (["crcreate 4 1 2"], "ratio -1 0", 4),
    (["create 8"], "ratio 0 0", 4), (["create 8"], "ratio 3 100", 0), (["create 8", "seterr"], "ratio 3 0", 2),
    (["crcreate 4 1 2", "seterr"], "ratio 0.7 0", 2), (["nullcreate"], "ratio 1 0", 1), (["nochan 0"], "ratio 1 0", 3),
    (["nochan 1"], "ratio 1 0", 3), (["lazycreate 1"], "ratio 4 0", 0), (["lazycreate 0"], "ratio 4 0", 0),
]


def api_stage(ctx, exe, fails):
    n = 0
    for setup, rop, code in API_CASES:
        is_cr = setup[0].startswith("crcreate")
        live = is_cr or setup[0].startswith("create")            # a resampler that can process before the call
        body = (["sig noise"] + ["proc 1000 3000"] * 3) if live else []
        after = (["proc 1000 3000"] * 3 + ["hash"]) if (live or setup[0].startswith("lazycreate")) and "seterr" not in setup else []
        a = setup[:1] + body + setup[1:] + [rop] + after
        rc, lines, err = V.run_harness(exe, a)
        ops_, res_, info = V.split_real(lines)
        api = [(o, r) for o, r in zip(ops_, res_) if o.startswith("api.set")]
        mres = V.run_model([o for o, _ in api])
        n += 1
        if rc or len(api) != 1:
            fails.append(dict(kind="api:run", what="rc=%d %s" % (rc, err[-300:]), ops=a)); continue
        if api[0][1] != mres[0]:
            fails.append(dict(kind="correspondence", what="soxr_set_io_ratio decision: real `%s`, model `%s` for `%s`" % (
                api[0][1], mres[0], api[0][0]), ops=a))
        got = int(V.kv(api[0][1])["res"])
        if got != code:
            fails.append(dict(kind="api:decision", what="%s after %s returned class %d, the property says %d%s" % (
                rop, setup, got, code, " (a constant-rate engine must refuse a different ratio with an error)" if code == 5 else ""), ops=a))
        if is_cr and "seterr" not in setup:
            # refused or accepted: the stream is exactly what it is without the call
            b = setup[:1] + body + ["proc 1000 3000"] * 3 + ["hash"]
            rc2, lines2, _ = V.run_harness(exe, b)
            h1 = [l for l in lines if l.startswith("I hash")]; h2 = [l for l in lines2 if l.startswith("I hash")]
            if rc2 or h1 != h2:
                fails.append(dict(kind="api:unchanged", what="output of a constant-rate engine differs after %s: %s vs %s" % (rop, h1, h2), ops=a))
    ctx.count("api_cases", n)
    ctx.count("evaluations", n)


# ---------------------------------------------------------------------- the Lean witnesses on the real code

def rep(op, n):
    return [op] * n


WITNESSES = {
    # Properties/C16.lean Historical.opsA / opsB, and the original e20.c: (ops, last requested ratio, target of the slew it interrupts)
    "witnessA": (["create 8", "ratio 4 0"] + rep("proc 400 50", 10) + ["ratio 1 500", "proc 400 50", "ratio 3.8999999999999999 0"] +
                 rep("proc 400 50", 14), 3.9, 1.0),
    "witnessB": (["create 8", "ratio 4 0"] + rep("proc 400 50", 10) + ["ratio 2 100", "proc 400 50", "proc 400 50", "ratio 3 0"] +
                 rep("proc 400 50", 2), 3.0, 2.0),
    "e20": (["create 8", "ratio 4 0"] + rep("proc 400 50", 41) + ["ratio 1 5000"] + rep("proc 400 50", 2) + ["ratio 3.8999999999999999 0"] +
            rep("proc 400 50", 120), 3.9, 1.0),
}
# Properties/C16.lean opsF35 (`proc il ol` takes min(ceil(ol * 8), il) frames: 800, 800, 2500)
# Properties/C16.lean opsF41: an up-switch fade in which the floored current stream delivers a pair the fade-out stream has no input for
WITNESS_F41 = ["create 4", "ratio 1.5 0", "proc 3000 1000", "proc 0 5000", "ratio 2.1785714286379516 0", "proc 8 600"]
WITNESS_F35 = ["create 8", "ratio 0.25 0", "proc 3000 100", "ratio 6 0", "proc 1200 100", "ratio 1 800", "proc 2500 1400"]
# F36 (found by C07, seed 3): 0.67 -> 8.77 in one frame, then one call of 3630 frames that takes three up-switches
WITNESS_F36 = ["create 16", "ratio 0.6712862513901316 0", "ratio 8.772572708703153 1", "proc 1023 117", "proc 31850 10259", "proc 2048 481"]
UBSAN_F36 = "left shift of negative value"


def witness_stage(ctx, exe, fails, known):
    """Replays the call sequences of the F13 witnesses on the real code: since the repair they must end at the last
    requested ratio, as the model says (Historical.witnesses_repaired).  Returns the list of F13 reproductions (a stale
    target: the repair was reverted)."""
    hit = []
    for name, (ops, want, stale) in WITNESSES.items():
        rc, lines, err = V.run_harness(exe, ops)
        real_ops, real_res, _ = V.split_real(lines)
        mo, mres = V.model_groups(8.0, ops)
        d = V.compare(ops, mo, mres, real_ops, real_res)
        ctx.count("evaluations")
        states = [l for l in real_res if V.has_state(l)]
        s = V.State(states[-1]) if states and not rc else None
        if s is not None and s.slew == 0 and s.newr == 0 and s.step == V.step_of(stale, s.mult) and s.step != V.step_of(want, s.mult):
            hit.append("%s: last request soxr_set_io_ratio(%g, 0) during an unfinished slew to %g; afterwards step = %d = ratio %g "
                       "(nothing outstanding)" % (name, want, stale, s.step, s.rate))
            if "F13" in known:
                continue                   # an active known finding: the model mismatch is the same finding
        if rc or d:
            fails.append(dict(kind="correspondence", what="witness %s: %s %s" % (name, err[-200:], d[1] if d else ""), ops=ops))
            continue
        if s.step == V.step_of(want, s.mult):
            ctx.count("f13_witnesses_end_at_requested_ratio")
            if "F13" in known:
                ctx.notes.append("F13 witness %s not reproduced: the engine ends at the last requested ratio" % name)
        elif not hit:
            fails.append(dict(kind="oracle:target", what="witness %s ends at step %d, neither the requested ratio %g nor the stale "
                              "target %g" % (name, s.step, want, stale), ops=ops))
    return hit


def witness_f35_stage(ctx, exe_dbg, exe_rel, fails, known, ops=None, tag="F35", what=None):
    """A call sequence of a fade-alignment witness on the real code (default: Properties/C16.lean opsF35, repaired: the model
    says that every chunk of it is aligned, witnessF35_aligned; opsF41: the model counts one misaligned chunk in the last
    call, fade_alignment_fails_up_switch).  Where the model counts none the asserts-on build must run through; where it
    counts one the asserts-on build must abort in that call on exactly `odone == odone2` and in no earlier one; the NDEBUG
    build must equal the model on every field in both cases.  Returns (reproductions where the model counts none,
    reproductions where the model counts one)."""
    ops = ops or WITNESS_F35
    what = what or ("witness opsF35 (0.25 -> 6 at once -> slew to 1 over 800 frames, then one call of 1400 frames: up-switch, fade, "
                    "down-switch in one vr_process)")
    mo, mres = V.model_groups(float(ops[0].split()[1]), ops)
    info = V.scan_model(ops, mres)
    ctx.count("evaluations", 2)
    rc, lines, err = V.run_harness(exe_rel, ops)
    ro, rr, _ = V.split_real(lines)
    d = V.compare(ops, mo, mres, ro, rr)
    if rc or d:
        fails.append(dict(kind="correspondence", what="%s witness, NDEBUG build: %s %s" % (tag, err[-200:], d[1] if d else ""), ops=ops))
    rc1, lines1, err1 = V.run_harness(exe_dbg, ops)
    ro1, rr1, _ = V.split_real(lines1)
    aborted = bool(rc1) and ASSERT_F35 in err1
    text = None
    if aborted:
        text = ("%s, call %d: %s" % (what, len(rr1), [l for l in err1.splitlines() if "Assertion" in l][-1].split(": ", 1)[-1][-100:]))
    if info["mis"] is None:
        if aborted:
            return [text + "; the model counts no misaligned chunk"], []
        d1 = V.compare(ops, mo, mres, ro1, rr1)
        if rc1 or d1:
            fails.append(dict(kind="correspondence", what="%s witness, asserts-on build: %s %s" % (tag, err1[-200:], d1[1] if d1 else ""), ops=ops))
        else:
            ctx.count("%s_witness_aligned_on_real_code" % tag.lower())
        return [], []
    n_before = sum(len(g) for g in mo[:info["mis"]])
    if aborted and len(rr1) == n_before:
        last = V.State(mres[info["mis"]][-1])
        return [], [text + "; the model counts the misaligned chunk in that call (nmis = %d); NDEBUG build: model = engine on every field, "
                    "fadeout.at = %d" % (last.mis, last.fo[0])]
    fails.append(dict(kind="correspondence", what="%s witness: the model counts a chunk with odone != odone2 in op %d but the asserts-on "
                      "build %s" % (tag, info["mis"], "ran through it" if not rc1 else "failed differently: " + err1[-300:]), ops=ops))
    return [], []


def witness_f36_numeric(ctx, exe_rel, tmp, fails):
    """The wrong-output half of F36 on the real code: a sine through the witness; at the constant ratio after the jump
    the sine-fit residual must stay 80 dB below the signal up to the last frame of the long call and through the next
    calls (before the repair: residual at full scale in the last ~100 frames, stale FIFO memory)."""
    w, r = 0.02, 8.772572708703153
    ops = WITNESS_F36[1:] + ["proc 30000 3000"]
    rc, lines, err, y = run_dump(exe_rel, [WITNESS_F36[0], "sig sine %g 0.5 0.3" % w], ops, tmp, "f36")
    _, rr, _ = V.split_real(lines)
    ods = [V.State(l).od for l in rr if l.startswith("R ") and V.has_state(l)]
    ctx.count("evaluations")
    if rc or len(ods) < 4 or len(y) != sum(ods) or ods[1] < 3000:
        fails.append(dict(kind="oracle:f36-run", what="F36 witness with a sine: run failed or delivered %s (rc %d) %s" % (ods, rc, err[-200:]),
                          ops=WITNESS_F36)); return
    k0, k1 = ods[0], ods[0] + ods[1]
    k = np.arange(len(y), dtype=np.float64)
    M = np.stack([np.sin(w * r * k), np.cos(w * r * k)], axis=1)
    a, b = k0 + 2200, k1 - 300                      # after the three 512-frame fades, before the end of the call
    coef, *_ = np.linalg.lstsq(M[a:b], y[a:b], rcond=None)
    res = np.abs(y - M @ coef)
    amp = math.hypot(coef[0], coef[1])
    # inside the long call: the property's 80 dB; in the 150 frames after it (other filters of the chain are cross-fading there:
    # about -82 dB on the repaired code) 60 dB - the defect put both windows at full scale
    worst_in = float(np.max(res[b:k1]))
    worst_after = float(np.max(res[k1:min(len(y), k1 + 150)])) if len(y) > k1 else 0.0
    db = lambda v: round(20 * math.log10(max(v, 1e-300) / amp), 1) if amp > 0 else 0.0
    ctx.cov["f36_witness_sine_residual_db"] = dict(end_of_long_call=db(worst_in), next_150_frames=db(worst_after))
    if amp <= 0 or worst_in > amp * 10 ** (RESID_DB / 20) or worst_after > amp * 10 ** ((RESID_DB + 20) / 20):
        bad_in = worst_in > amp * 10 ** (RESID_DB / 20)
        kk = (int(np.argmax(res[b:k1])) + b) if bad_in else (int(np.argmax(res[k1:min(len(y), k1 + 150)])) + k1)
        fails.append(dict(kind="oracle:f36-garbage", what="sine through the F36 witness (0.67 -> 8.77 in one frame, one call of %d frames with three "
                          "up-switches): residual %.3g on amplitude %.3g at output frame %d (the call ends at frame %d): the interpolator reads "
                          "beyond the samples the restarted stage holds" % (ods[1], max(worst_in, worst_after), amp, kk, k1), ops=WITNESS_F36))


def f35_family(rng):
    """the structured family in which F35 was found: start low, jump at once to near the maximum (the engine climbs one octave
    stage per 512-frame fade), a fast downward slew, then long calls (an up- and a down-switch inside one vr_process)"""
    mx = [4.0, 8.0, 16.0, 11.5][rng.below(4)]
    ops = ["create %.17g" % mx, "ratio %.17g 0" % (2.0 ** -rng.uniform(0, 4))]
    ops.append("proc 3000 %d" % (50 + rng.below(300)))
    ops.append("ratio %.17g 0" % (mx * 2.0 ** -rng.uniform(0, 1.5)))
    for _ in range(1 + rng.below(3)):
        ops.append("proc %d %d" % (rng.below(3000), 100 + rng.below(700)))
    ops.append("ratio %.17g %d" % (2.0 ** -rng.uniform(0, 4), 300 + rng.below(900)))
    for _ in range(4):
        ops.append("proc %d %d" % (rng.below(3000), 300 + rng.below(1500)))
    return mx, ops


# ---------------------------------------------------------------------- F12: request-size schedules

def schedule_pair(exe, tmp, idx, seed, crossing):
    """One input, one trajectory, two request-size schedules; returns dict(equal, maxdiff, switch (bool), ops)."""
    rng = common.Rng(seed)
    mx = [4.0, 8.0, 16.0][rng.below(3)]
    if crossing:
        lo = 2.0 ** rng.uniform(-1, math.log2(mx) - 1)
        hi = min(mx, lo * 2.0 ** rng.uniform(1.1, 2.0))
        a, b_ = (lo, hi) if rng.chance(.5) else (hi, lo)
        reqs = [(a, 0, 3000), (b_, 500 + rng.below(3000), 6000)]
    else:
        k = rng.below(int(math.log2(mx)) + 2) - 1                       # one octave [2^k, 2^(k+1)) or the up-sampling range
        lo, hi = (2.0 ** k * 1.02, min(mx, 2.0 ** (k + 1)) * .98) if k >= 0 else (2.0 ** -4, .98)
        if lo >= hi:
            lo, hi = hi * .7, hi
        a = rng.uniform(lo, hi); b_ = rng.uniform(lo, hi)
        reqs = [(a, 0, 3000)] + ([(b_, 300 + rng.below(2000), 4000)] if rng.chance(.6) else [(a, 0, 3000)])
    oa, marks, total = tour_ops(common.Rng(seed + 1), mx, reqs, "fixed")
    ob, _, _ = tour_ops(common.Rng(seed + 2), mx, reqs, "random")
    head = ["create %.17g" % mx, "sig sine 0.05 0.5 0"]
    rc1, l1, e1, y1 = run_dump(exe, head, oa, tmp, "sa%d" % idx)
    rc2, l2, e2, y2 = run_dump(exe, head, ob, tmp, "sb%d" % idx)
    sw = 0
    for l in (l1, l2):
        b = boundaries(None, V.split_real(l)[1])
        sw += sum(1 for i in range(1, len(b)) if b[i][2].sn != b[i - 1][2].sn or b[i][2].fade != 0)
    ok = rc1 == 0 and rc2 == 0 and len(y1) == total and len(y2) == total
    eq = ok and bool(np.array_equal(y1.astype(np.float32).view(np.uint32), y2.astype(np.float32).view(np.uint32)))
    md = float(np.max(np.abs(y1 - y2))) if ok and len(y1) else 0.0
    first = int(np.nonzero(y1 != y2)[0][0]) if ok and not eq else -1
    return dict(ok=ok, equal=eq, maxdiff=md, first=first, switch=sw > 0, crossing=crossing, mx=mx, reqs=reqs,
                ops_a=head + oa, ops_b=head + ob, err=(e1 + e2)[-300:])


def schedule_stage(ctx, exe, tmp, n, fails):
    """Returns the list of F12 reproductions (texts)."""
    jobs = [(i, ctx.rng.next(), i % 3 == 0) for i in range(n)]
    with ThreadPoolExecutor(common.NCPU) as ex:
        res = list(ex.map(lambda j: schedule_pair(exe, tmp, *j), jobs))
    hits = []
    for r in res:
        ctx.count("evaluations")
        ctx.hist("schedule_pairs", "octave-crossing slew" if r["crossing"] else "inside one octave")
        if not r["ok"]:
            fails.append(dict(kind="schedule:run", what="run failed or short delivery: " + r["err"], ops=r["ops_a"], ops_b=r["ops_b"]))
        elif not r["equal"]:
            text = "max ratio %g, requests %s: output differs between two request-size schedules from frame %d on (max |diff| %.3g)" % (
                r["mx"], [(round(a, 4), b) for a, b, _ in r["reqs"]], r["first"], r["maxdiff"])
            if r["switch"]:
                hits.append(text)
            else:
                fails.append(dict(kind="schedule:invariance", what="no stage switch, yet " + text, ops=r["ops_a"], ops_b=r["ops_b"]))
    return hits


# ---------------------------------------------------------------------- sanitizer build (F14 stays repaired)

# gcc does not instrument `negative << n` under the repository's -std=gnu89 (C90 leaves it defined); C99 rules do.
common.VARIANTS.setdefault("san99", common.VARIANTS["san"] + " -std=gnu99")
SAN = "san99"
SAN_ENV = dict(os.environ, ASAN_OPTIONS="detect_leaks=0:abort_on_error=0", UBSAN_OPTIONS="print_stacktrace=1")


def frame0(err):
    """function of the innermost frame of the first sanitizer report"""
    m = re.search(r"#0 \S+ in (\w+)", err)
    return m.group(1) if m else ""


def san_stage(ctx, exe_san, fails, known):
    """Trajectories in the ASan/UBSan build (C99 shift rules, asserts on).  The model says where a stage switch shifts a
    negative value left (ghost `gshl`: downward slews across an octave): the pinned tree did that on the signed value
    (F14, UBSan `left shift of negative value`); the repaired code shifts the unsigned representation, so every run must
    be clean.  Returns F14 reproductions (the repair was reverted)."""
    hits = []
    f36 = []
    cases = []
    # downward slews across every octave boundary of an 8x engine, and upward ones
    for hi, lo in [(6.0, 3.0), (3.0, 1.5), (1.5, .7), (7.9, .3)]:
        cases.append(["create 8", "ratio %g 0" % hi] + rep("proc 2000 200", 6) + ["ratio %g 1500" % lo] + rep("proc 2000 200", 14))
        cases.append(["create 8", "ratio %g 0" % lo] + rep("proc 2000 200", 6) + ["ratio %g 1500" % hi] + rep("proc 2000 200", 14))
    for c in range(6 if ctx.quick else 40):
        rng = common.Rng(ctx.rng.next())
        mx, ops = V.gen_traj(rng, 120, small=True)
        cases.append(ops)
    cases.append(WITNESS_F36)

    def one(ops):
        mx = float(ops[0].split()[1])
        mo, mres = V.model_groups(mx, ops)
        info = V.scan_model(ops, mres)
        stops = [x for x in (info["mis"], info["wild"]) if x is not None]     # asserts are on: stop before an F35 abort
        ops2 = ops[:min(stops)] if stops else ops
        rc, lines, err = V.run_harness(exe_san, ops2, env=SAN_ENV)
        info["answers"] = len(V.split_real(lines)[1])
        info["answers_through_under"] = sum(len(g) for g in mo[:info["under"] + 1]) if info["under"] is not None else None
        return ops2, info, rc, err, lines
    with ThreadPoolExecutor(common.NCPU) as ex:
        res = list(ex.map(one, cases))
    for ops, info, rc, err, lines in res:
        ctx.count("evaluations")
        ctx.hist("sanitizer_runs", "with a left shift of a negative value (model)" if info["shl"] is not None else "without")
        is_shift = "left shift of negative value" in err and "vr32.c" in err and frame0(err) == "vr_process"
        # F36, by the model's signature: some half-band stage was left below its preload (info["under"]: the op after which), the
        # report is the negative shiftl(already_done, sign) of do_input_stage, and it comes in a later call, not before
        if info["under"] is not None:
            ctx.count("sanitizer_runs_with_stage_below_preload_in_model")
        if rc and UBSAN_F36 in err and frame0(err) == "do_input_stage" and info["under"] is not None and \
                info["answers"] >= info["answers_through_under"]:
            m = [l for l in err.splitlines() if "runtime error" in l][:1]
            f36.append("more than one up-switch inside one vr_process (model: %d switches in a call; a stage below its preload after op %d): %s" % (
                info["max_sw"], info["under"], m[0].strip() if m else UBSAN_F36))
            if "F36" in known:
                continue
        if rc == 0:
            if info["shl"] is not None:
                ctx.count("negative_left_shifts_clean_under_ubsan")
                if "F14" in known:
                    ctx.notes.append("the model predicts a left shift of a negative value but UBSan is silent (F14 repaired?)")
            continue
        if is_shift and info["shl"] is not None:
            m = [l for l in err.splitlines() if "runtime error" in l][:1]
            hits.append("downward slew across an octave: %s" % (m[0].strip() if m else "left shift of negative value in vr32.c"))
            if "F14" not in known:
                fails.append(dict(kind="sanitizer", what="UBSan: %s -- the stage switch shifts a negative value left again (F14 is recorded "
                                  "as fixed)" % (m[0].strip() if m else "left shift of negative value in vr32.c"), ops=ops))
        else:
            first = [l.strip() for l in err.splitlines() if "runtime error" in l or "ERROR: AddressSanitizer" in l or "Assertion" in l][:1]
            fails.append(dict(kind="sanitizer", what="ASan/UBSan report (model predicts a negative left shift: %s; a stage below its preload: %s): "
                              "%s | innermost frame %s | %s" % (info["shl"] is not None, info["under"] is not None, first[0] if first else "",
                                                                  frame0(err), err[-300:]), ops=ops))
    ctx.count("sanitizer_runs_total", len(res))
    return hits, f36


# ====================================================================== verdicts

def known_ids():
    return {f["id"]: f for f in common.known_active(PID)}


def report(ctx, exe_dbg, fails, broken):
    """One VIOLATION per kind (shrunk); if only the proof side broke, a no-input violation naming it."""
    seen = set()
    corpus_out = os.path.join(common.OUTDIR, "corpus", PID)      # mutation / revert runs (VERIF_OUT) keep their inputs out of /verif
    os.makedirs(corpus_out, exist_ok=True)
    for f in fails:
        if f["kind"] in seen:
            continue
        seen.add(f["kind"])
        ops = f.get("ops") or []
        shrunk = ops
        try:
            if f["kind"] == "correspondence" and ops and ops[0].startswith("create") and corr_fails(exe_dbg, ops):
                shrunk = V.shrink_ops(ops, lambda o: corr_fails(exe_dbg, o), budget=150 if ctx.quick else 600)
            elif f["kind"].startswith("oracle:") and ops and oracle_fails(exe_dbg, ops, f["kind"][7:]):
                shrunk = V.shrink_ops(ops, lambda o: oracle_fails(exe_dbg, o, f["kind"][7:]), budget=150 if ctx.quick else 600)
        except Exception as e:
            ctx.notes.append("shrinking failed: %r" % (e,))
        replay = dict(kind=f["kind"], ops=shrunk, original_length=len(ops),
                      how="printf '%s\\n' <ops> | build/harness/vr_trace-<variant>-*  (harness/vr/trace.c); `> ` lines piped to "
                          "lean/.lake/build/bin/soxr_vr give the model's answer")
        if "ops_b" in f:
            replay["ops_b"] = f["ops_b"]
        is_corr = f["kind"] == "correspondence"
        ctx.violation(("model and real code disagree — " if is_corr else "property violated on the real code — ") + f["kind"] + ": " + f["what"],
                      replay, no_input=False)
        if ops and ops[0].startswith("create") and (is_corr or f["kind"].startswith("oracle:")):
            h = hashlib.sha256("\n".join(shrunk).encode()).hexdigest()[:10]
            existing = glob.glob(os.path.join(corpus_out, "*.json"))
            if len(existing) < 20:
                json.dump(dict(kind=f["kind"], ops=shrunk), open(os.path.join(corpus_out, h + ".json"), "w"))
    if broken and not fails:
        ctx.violation("the proof side no longer checks and the falsifier found no failing input: " + "; ".join(broken)[:1500],
                      dict(broken=broken), no_input=True)
    elif broken:
        ctx.notes.append("proof side broken as well: " + "; ".join(broken)[:800])


def corpus_stage(ctx, exe_dbg, fails):
    files = sorted(glob.glob(os.path.join(common.VERIF, "corpus", PID, "*.json")))
    if ctx.replay:
        files = [ctx.replay]
    for p in files:
        try:
            d = json.load(open(p))
            d = d.get("replay", d)
            ops = d["ops"]
        except Exception:
            continue
        ctx.count("corpus_entries")
        if not ops or not ops[0].startswith("create"):
            continue
        try:
            if corr_fails(exe_dbg, ops):
                fails.append(dict(kind="correspondence", what="corpus entry %s still fails" % os.path.basename(p), ops=ops))
            for k in ("immediate", "request", "increment", "progression", "sign", "target"):
                if oracle_fails(exe_dbg, ops, k):
                    fails.append(dict(kind="oracle:" + k, what="corpus entry %s still fails" % os.path.basename(p), ops=ops))
        except Exception as e:
            ctx.notes.append("corpus %s: %r" % (p, e))


def run(ctx):
    broken = common.proof_stage(ctx, ["SoxrModel.Properties.C16"], "C16", exes=("soxr_vr",), gens=("Vr",))
    if not ctx.quick and not broken:
        ok, out = common.leanchecker("SoxrModel.Properties.C16")
        ctx.cov["leanchecker"] = "ok" if ok else out[-300:]
        if not ok:
            broken.append("leanchecker rejects SoxrModel.Properties.C16: " + out[-300:])
    if not os.path.exists(V.MODEL):
        broken.append("the model driver soxr_vr was not built")
    exe_dbg = common.build_harness("vr_trace", ["vr/trace.c"], variant="dbg")     # asserts on: assert(odone == odone2) etc.
    exe_rel = common.build_harness("vr_trace", ["vr/trace.c"], variant="rel")     # as shipped: the numeric falsifier
    exe_san = common.build_harness("vr_trace", ["vr/trace.c"], variant=SAN)
    known = known_ids()
    fails = []
    f13_hits, f12_hits, f14_hits, f35_hits, f36_hits, f41_hits = [], [], [], [], [], []
    model_ok = os.path.exists(V.MODEL)

    if model_ok:
        corpus_stage(ctx, exe_dbg, fails)
        # ---- correspondence + integer oracles
        n_traj, nops = (140, 260) if ctx.quick else (2500, 420)
        f13_corr, f35_corr, f41_corr = correspondence(ctx, exe_dbg, exe_rel, n_traj, nops, fails)
        ctx.count("f13_oracle_hits_in_random_trajectories", len(f13_corr))
        ctx.count("f35_assertion_aborts_in_random_trajectories", len(f35_corr))
        # ---- the Lean witnesses on the real code
        f13_hits = witness_stage(ctx, exe_rel, fails, known)
        if f13_corr and not f13_hits:
            f13_hits = ["random trajectory (seed %d, op %d): %s" % f13_corr[0]]
        a35, b35 = witness_f35_stage(ctx, exe_dbg, exe_rel, fails, known)
        a40, b40 = witness_f35_stage(ctx, exe_dbg, exe_rel, fails, known, WITNESS_F41, "F41",
                                     "witness opsF41 (ratio 1.5 run dry, then (2^32+383479223)/2^31 at once: up-switch 0 -> 1, the floored current "
                                     "stream delivers 4 pairs, the fade-out stream 3)")
        f35_hits = a35 + a40 + f35_corr           # the assertion fails where the model counts no misaligned chunk
        f41_hits = b40 + b35 + f41_corr           # ... exactly where the model counts one
        ctx.count("f41_assertion_aborts_predicted_by_model_in_random_trajectories", len(f41_corr))
        api_stage(ctx, exe_rel, fails)
    with tempfile.TemporaryDirectory(prefix="vr-c16-") as tmp:
        numeric_constant(ctx, exe_rel, tmp, 22 if ctx.quick else 400, fails)
        numeric_tours(ctx, exe_rel, tmp, 10 if ctx.quick else 300, fails)
        f12_hits = schedule_stage(ctx, exe_rel, tmp, 12 if ctx.quick else 200, fails)
        if "F36" not in known:
            witness_f36_numeric(ctx, exe_rel, tmp, fails)
    if model_ok:
        f14_hits, f36_hits = san_stage(ctx, exe_san, fails, known)

    # ---- known findings: a hit counts as known only with its specific signature and an active entry
    for fid, hits, text in (("F13", f13_hits, "soxr_set_io_ratio(r, 0) during an unfinished slew (or before its snap) does not cancel it: "),
                            ("F12", f12_hits, "VR output depends on the request sizes when a stage switch is taken: "),
                            ("F14", f14_hits, "UBSan: left shift of a negative value at a stage switch (vr32.c lshift): "),
                            ("F35", f35_hits, "the two cross-faded streams get out of step (vr32.c assert(odone == odone2)): "),
                            ("F41", f41_hits, "up-switch fade: the floored current stream delivers a pair the fade-out stream has no input for "
                                              "(vr32.c assert(odone == odone2)), in exactly the call where the model counts it: "),
                            ("F36", f36_hits, "a stage restarted in mid-call is read beyond what it holds and left below its preload; UBSan in the "
                                              "next call (vr32.c do_input_stage shiftl(already_done, sign)): ")):
        if not hits:
            continue
        ctx.cov.setdefault("known_reproductions", {})[fid] = len(hits)
        if fid in known:
            ctx.known(fid, text + hits[0])
        elif fid != "F14":                 # a reverted F14 is already reported by san_stage with its failing input
            fails.append(dict(kind="finding:" + fid, what=text + hits[0] + "  (no active entry in known_findings.d/vr.json: recorded as "
                              "fixed, or never listed)", ops=WITNESSES["witnessA"][0] if fid == "F13" else WITNESS_F35 if fid == "F35" else WITNESS_F36 if fid == "F36" else WITNESS_F41 if fid == "F41" else []))

    ctx.cov["rule"] = ("every state field of rate_t after every call equals the Lean model's (integers; doubles as bit patterns); on the "
                       "real state: step == (int64)(r*step_mult+.5) at once for slew_len 0 and once more than slew_len frames have "
                       "been delivered, step linear in the frames delivered during a slew, 2|L*step_step-(target-step)| <= L; "
                       "sine-fit residual <= -80 dB and |count - N/ratio| <= 2 at constant ratios; ramp read-back slope == ratio, "
                       "monotone during slews, second differences bounded; constant-rate engines return the error string and their "
                       "output is unchanged; two request-size schedules bit-identical unless a stage switch is taken (F12); the asserts-on "
                       "build never aborts on odone == odone2 unless the model counts a misaligned chunk in that call (F35: none since "
                       "the repair); ASan/UBSan (C99 shift rules) clean")
    ctx.assume(
        "the three floating-point expressions of vr32.c that feed integers are evaluated by the driver in IEEE binary64 (Lean Float, "
        "the platform's log()); in the theorems they are parameters (Num); at every ratio the driver also checks them against the exact "
        "dyadic evaluation used by the Lean witnesses",
        "the sample kernels (poly_fir1_u/d, half_fir, double_fir0/1, half_iir, fade weights) are not modelled: the 80 dB residual and the "
        "absence of discontinuities are measured on sampled trajectories, not proved",
        "the declared maximum ratio is below 2^30 (vr_create refuses larger ones; trajectories use 0.5 ... 64); "
        "ratio trajectories stay in [2^-6, max]; slew_len < 2^31; the first ratio is set with slew_len 0 as examples/5-variable-rate.c "
        "prescribes (a first request with slew_len > 0 is dropped by vr_set_io_ratio and the engine starts at the declared maximum: "
        "counted as first_request_with_slew_dropped, modelled as written)",
        "should the model predict a fade misalignment (nmis > 0: it did before the repair of F35, never since) the asserts-on build is "
        "run only up to that call, which must abort on the assertion, and the NDEBUG build is compared through it",
        "frame-count theorem is about the interpolator clock; the count of the whole engine (FIFO alignment, flush) is Goal_frames_full_engine, "
        "measured by the falsifier",
        "request_settles / slew_progression carry nsw = 0 (no stage switch: across a switch step is rescaled, stage_switch_*_continuous) "
        "and nmis = 0 (cross-faded streams in step: proved for down-switch fades, Goal_fade_alignment otherwise; false before the repair of F35)")
    report(ctx, exe_dbg, fails, broken)
