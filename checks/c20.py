"""C20 — allocation failure is reported as an error: no crash, no leak.

proof_stage   theorems of lean/SoxrModel/Properties/C20.lean about the heap-of-blocks model lean/SoxrModel/Alloc/Model.lean
              (every channel count, every engine site list, every oracle)
tie           fault enumeration on the real code.  harness/alloc/allocfail.c (allocation calls of libsoxr.a intercepted
              with ld --wrap) records, for a job, the ordered list of allocation calls with their call stacks; the stacks
              are symbolised (addr2line -i) into site keys '<function>:<assigned to>'; harness/alloc/sites.json says
              which sites are checked.  The recorded site list is handed to the compiled Lean model (soxr_alloc), which
              (a) reproduces the call sequence from the per-channel engine lists (structure of soxr_create / initialise
              / soxr_clear) and (b) predicts the outcome of failing call k, for every k.  The job is then re-run on the
              real code once per k with call k failing, and the real outcome class is compared with the prediction.
verdicts      prediction `error-returned op live final` must be met exactly (error reported, live blocks = prediction,
              object deletable, nothing live after soxr_delete, no bad free, no sanitizer report).
              prediction `crash-at-site s` (unchecked site): crash / unreported failure / leak there is finding F10 when
              the site is listed in known_findings.d/alloc.json; a clean error there means the site has been repaired
              (note).  Anything else is a VIOLATION with (job, k, site) as replay.
"""
import json, os, re, subprocess, time
from concurrent.futures import ThreadPoolExecutor
from vlib import common

LEVEL = "proof"
WRAP = "-no-pie -Wl,--wrap=malloc,--wrap=calloc,--wrap=realloc,--wrap=free"
SITES_FILE = os.path.join(common.HARNESS, "alloc", "sites.json")
API_SITES = ["soxr_create:p", "initialise:p->channel_ptrs", "initialise:p->shared", "initialise:p->resamplers"]
CHAN_SITE = "initialise:p->resamplers[i]"
VR = 32

# ------------------------------------------------------------------ jobs


def J(name, ir, orate, ch=1, q=4, qf=0, phase=-1, simd=-1, ops="C,P:1000:3,F,D", **kw):
    d = dict(name=name, ir=ir, orate=orate, ch=ch, q=q, qf=qf, phase=phase, simd=simd, ops=ops)
    d.update(kw)
    return d


STREAM = "C,P:300:2,P:3000:2,P:20000:1,F,D"            # FIFO growth while streaming: blocks of growing size, then drain
CLEAR = "C,P:3000:2,K,P:3000:2,F,D"                     # soxr_clear rebuilds every channel
QUICK_JOBS = [
    J("cr32s-44k-48k-stereo-clear", 44100, 48000, ch=2, q=4, simd=1, ops="C,P:1000:2,F,K,P:3000:3,D"),
    J("cr64-irrational-minphase-stream", 1, 1.2345678, ch=1, q=6, simd=0, phase=0, ops=STREAM),
    # a caller that retries: soxr_clear fails (an allocation inside it), soxr_clear again, then the object is used - the torn-down object
    # must keep refusing (round 7 of the seeded changes, `C20-fatal-error-keeps-control-block`: fatal_error and the torn-down test of
    # soxr_clear are two sites that have to agree)
    J("cr32s-stereo-clear-retry", 44100, 48000, ch=2, q=4, simd=1, ops="C,P:1000:2,K,K,P:500:1,F,D"),
    J("vr32-stereo-ratio-clear", 2, 1, ch=2, q=4, qf=VR, ops="C,P:2000:2,R:1.8:500,P:4000:2,R:1.3:0,P:2000:1,F,K,R:1.5:0,P:1000:1,D"),
    J("cr32-down-3ch-lazy", 96000, 44100, ch=3, q=1, simd=0, ops="Z,I:2.17687,P:5000:2,F,D"),
    J("cr64s-up64-dft-stream", 1, 64, ch=1, q=6, simd=1, ops="C,P:200:2,P:2000:1,F:50000,D"),
    # equal rates, equal datatypes: the planner ends with no stage at all (the stage array still has its one extra element)
    J("cr32-passthrough-stereo-clear", 48000, 48000, ch=2, q=4, simd=0, ops="C,P:1000:2,F,K,P:500:1,D"),
    # the libsamplerate-compatible wrapper (soxr-lsr.c): src_callback_new / src_callback_read / src_reset / src_delete and
    # src_new / src_process - the same allocations (deferred initialisation at the first block), reached through the wrapper's own code
    J("lsr-callback-stereo-reset", 44100, 48000, ch=2, simd=1, lsr=2, lsrcb=1, ops="Z,P:1000:2,K,P:500:1,F,D"),
    J("lsr-process-mono", 3, 2, ch=1, simd=0, lsr=0, lsrcb=0, ops="Z,P:2000:2,F,D"),
]


def thorough_jobs(rng):
    jobs = list(QUICK_JOBS)
    n = [0]

    def add(**kw):
        n[0] += 1
        kw.setdefault("name", "t%02d" % n[0])
        jobs.append(J(kw.pop("name"), kw.pop("ir"), kw.pop("orate"), **kw))
    # every engine x linear / non-linear phase x rational / irrational, create + stream + drain
    for simd, q, tag in ((0, 4, "cr32"), (1, 4, "cr32s"), (0, 6, "cr64"), (1, 6, "cr64s")):
        add(name=tag + "-rational-linear", ir=44100, orate=48000, ch=2, q=q, simd=simd, ops=STREAM)
        add(name=tag + "-rational-minphase", ir=48000, orate=44100, ch=1, q=q, simd=simd, phase=0, ops=CLEAR)
        add(name=tag + "-irrational-interm", ir=1, orate=rng.uniform(1.1, 1.9), ch=2, q=q, simd=simd, phase=25, ops=STREAM)
        add(name=tag + "-down-irrational", ir=rng.uniform(2.1, 7.9), orate=1, ch=1, q=q, simd=simd, ops=CLEAR)
        add(name=tag + "-up-large-dft", ir=1, orate=rng.choice([32, 64, 128]), ch=1, q=q, simd=simd,
            ops="C,P:100:2,P:1500:1,F:60000,D")
        add(name=tag + "-down-large", ir=rng.choice([16, 40, 100]), orate=1, ch=2, q=q, simd=simd, ops="C,P:20000:2,F,D")
    # low qualities, coefficient interpolation orders, cubic
    add(name="qq-cubic", ir=44100, orate=rng.choice([48000, 32000]), ch=2, q=0, simd=0, ops=STREAM)
    add(name="lq-16bit", ir=1, orate=2, ch=2, q=1, simd=1, ops=CLEAR)
    add(name="mq-16bit-maxphase", ir=3, orate=2, ch=1, q=2, simd=0, phase=100, ops=STREAM)
    add(name="interp-low", ir=1, orate=1.337, ch=1, q=4, simd=1, rtf=2, ops=STREAM)
    add(name="interp-high", ir=1.337, orate=1, ch=1, q=6, simd=0, rtf=3, ops=STREAM)
    add(name="vhq-32bit", ir=44100, orate=96000, ch=1, q=7, simd=1, ops=STREAM)
    add(name="hi-prec-clock", ir=1, orate=1.0001, ch=1, q=6, qf=8, simd=0, ops=STREAM)
    add(name="double-prec-flag", ir=8000, orate=11025, ch=2, q=4, qf=16, simd=rng.choice([0, 1]), ops=CLEAR)
    add(name="split-io", ir=44100, orate=22050, ch=3, q=4, simd=1, split=1, ops=STREAM)
    add(name="small-dft", ir=2, orate=3, ch=1, q=4, simd=0, ldft=10, mdft=8, ops=STREAM)
    add(name="many-channels", ir=44100, orate=48000, ch=rng.choice([5, 6, 8]), q=4, simd=1, ops="C,P:500:1,F,D")
    # variable rate
    add(name="vr-mono-up", ir=1, orate=1, ch=1, q=4, qf=VR, ops="C,R:0.7:0,P:3000:2,R:0.9:2000,P:6000:1,F,D")
    add(name="vr-3ch-clear", ir=4, orate=1, ch=3, q=4, qf=VR, ops="C,P:8000:2,R:3.1:0,P:20000:1,K,R:3.5:0,P:4000:1,F,D")
    add(name="vr-lazy", ir=2, orate=1, ch=2, q=4, qf=VR, ops="Z,I:2,R:1.7:100,P:3000:3,F,D")
    # objects built late
    add(name="lazy-channels", ir=44100, orate=48000, ch=2, q=4, simd=1, ops="Y,N:2,P:2000:2,F,D")
    add(name="lazy-ratio-cr64", ir=3, orate=1, ch=2, q=6, simd=1, ops="Z,I:3,P:9000:2,K,P:100:1,F,D")
    add(name="clear-twice", ir=1, orate=2, ch=2, q=4, simd=0, ops="C,K,K,P:1000:1,F,D")
    # stage-less and gain-only plans on every engine
    add(name="passthrough-cr64s", ir=44100, orate=44100, ch=1, q=6, simd=1, ops=CLEAR)
    add(name="passthrough-lazy-3ch", ir=1, orate=1, ch=3, q=1, simd=1, ops="Z,I:1,P:2000:2,F,D")
    add(name="passthrough-qq", ir=8000, orate=8000, ch=2, q=0, simd=0, ops=STREAM)
    return jobs


# ------------------------------------------------------------------ running the harness, parsing its log

def job_args(j, k):
    a = ["ir=%r" % float(j["ir"]), "or=%r" % float(j["orate"]), "ch=%d" % j["ch"], "q=%d" % j["q"], "qf=%d" % j["qf"],
         "phase=%g" % j["phase"], "simd=%d" % j["simd"], "ops=" + j["ops"], "k=" + k]
    for key in ("rtf", "ldft", "mdft", "coefkb", "split", "prec", "pb", "sb", "timeout", "persist", "lsr", "lsrcb"):
        if key in j:
            a.append("%s=%s" % (key, j[key]))
    return a


def run_harness(exe, j, k="all", record=1):
    env = dict(os.environ)
    env["ASAN_OPTIONS"] = "detect_leaks=0:abort_on_error=0:allocator_may_return_null=1"
    env["UBSAN_OPTIONS"] = "print_stacktrace=0"
    env.pop("SOXR_USE_SIMD", None)
    for v in ("SOXR_TRACE", "SOXR_MIN_DFT_SIZE", "SOXR_LARGE_DFT_SIZE", "SOXR_COEFS_SIZE", "SOXR_NUM_THREADS", "SOXR_COEF_INTERP",
              "SOXR_STRICT_BUF", "SOXR_NOSMALLINTOPT", "SOXR_USE_SIMD32", "SOXR_USE_SIMD64"):
        env.pop(v, None)
    p = subprocess.run([exe] + job_args(j, k) + ["record=%d" % record], stdout=subprocess.PIPE, stderr=subprocess.STDOUT, env=env,
                       universal_newlines=True, errors="replace", timeout=3600)
    return p.stdout


def parse_runs(text):
    """-> (list of runs, count).  run = dict(k, allocs=[...], frees=[ord...], cps=[...], badfree=n, poke, done, status, extra=[lines])"""
    runs, cur, count = [], None, None
    for line in text.splitlines():
        if line.startswith("@RUN"):
            m = re.match(r"@RUN k=(-?\d+) from=(-?\d+)", line)
            cur = dict(k=int(m.group(1)) if int(m.group(2)) < 0 else int(m.group(2)), persist=int(m.group(2)) >= 0, allocs=[], frees=[], cps=[], badfree=[], poke=None, done=None, status=None, extra=[], notes=[])
            runs.append(cur)
        elif line.startswith("@COUNT"):
            count = int(line.split()[1])
        elif cur is None:
            continue
        elif line.startswith("@A "):
            m = re.match(r"@A (\d+) op=(\d+) (\w+) (\d+) old=(\S+) failed=(\d) bt=(\S*)", line)
            if m:
                cur["allocs"].append(dict(ord=int(m.group(1)), op=int(m.group(2)), fn=m.group(3), size=int(m.group(4)),
                                          old=None if m.group(5) == "-" else int(m.group(5)), failed=int(m.group(6)),
                                          bt=[int(x, 16) for x in m.group(7).split(",") if x]))
        elif line.startswith("@F "):
            m = re.match(r"@F (\d+) op=(\d+)", line)
            cur["frees"].append((int(m.group(1)), int(m.group(2))))
        elif line.startswith("@BADFREE"):
            m = re.search(r"bt=(\S*)", line)
            cur["badfree"].append([int(x, 16) for x in m.group(1).split(",") if x] if m else [])
        elif line.startswith("@CP "):
            m = re.match(r"@CP op=(\d+) (\S+) err=(\d) hit=(\d) live=(\d+) ords=(\S*) msg=(.*)", line)
            if m:
                cur["cps"].append(dict(op=int(m.group(1)), tok=m.group(2), err=int(m.group(3)), hit=int(m.group(4)), live=int(m.group(5)),
                                       ords=[int(x) for x in m.group(6).split(",") if x], msg=m.group(7)))
        elif line.startswith("@POKE2"):
            m = re.match(r"@POKE2 clear=(\d) err=(\d) sticky=(\d)", line)
            cur["poke2"] = dict(clear=int(m.group(1)), err=int(m.group(2)), sticky=int(m.group(3)))
        elif line.startswith("@POKE"):
            m = re.match(r"@POKE err=(\d) odone=(\d+) sticky=(\d)", line)
            cur["poke"] = dict(err=int(m.group(1)), odone=int(m.group(2)), sticky=int(m.group(3)))
        elif line.startswith("@DONE"):
            m = re.match(r"@DONE live=(\d+) created=(\d)", line)
            cur["done"] = dict(live=int(m.group(1)), created=int(m.group(2)))
        elif line.startswith("@END"):
            cur["status"] = line.split("status=")[1].strip()
            cur = None
        elif line.startswith("@NOTE") or line.startswith("@ENGINE"):
            cur["notes"].append(line[1:])
        elif not line.startswith("@"):
            if len(cur["extra"]) < 12:
                cur["extra"].append(line[:300])
    return runs, count


# ------------------------------------------------------------------ symbolisation: call stack -> site key

class Symbols:
    def __init__(self, exe):
        self.exe, self.cache, self.src = exe, {}, {}

    def resolve(self, addrs):
        need = sorted(set(a for a in addrs if a not in self.cache and a < (1 << 40)))
        for i in range(0, len(need), 400):
            chunk = need[i:i + 400]
            out = subprocess.run(["addr2line", "-a", "-f", "-i", "-e", self.exe] + [hex(a - 1) for a in chunk],
                                 stdout=subprocess.PIPE, universal_newlines=True).stdout.splitlines()
            cur, n = None, 0
            while n < len(out):
                if out[n].startswith("0x"):
                    cur = int(out[n], 16) + 1
                    self.cache[cur] = []
                    n += 1
                else:
                    loc = out[n + 1].split(" ")[0] if n + 1 < len(out) else "??:0"
                    path, _, line = loc.rpartition(":")
                    self.cache[cur].append((out[n], path, int(line) if line.isdigit() else 0))
                    n += 2
        for a in addrs:
            self.cache.setdefault(a, [])

    def frames(self, bt):
        """innermost first, inlined frames expanded, harness and libc frames dropped"""
        self.resolve(bt)
        out = []
        for a in bt:
            for fn, path, line in self.cache.get(a, []):
                if fn.startswith("__wrap_") or fn in ("??", "_start") or os.path.basename(path) == "allocfail.c":
                    continue
                out.append((fn, path, line))
        return out

    def _lines(self, path):
        if path not in self.src:
            try:
                self.src[path] = open(path, errors="replace").read().splitlines()
            except OSError:
                self.src[path] = []
        return self.src[path]

    def line_text(self, path, line, span=1):
        ls = self._lines(path)
        text = "\n".join(ls[max(0, line - 1):line - 1 + span])
        if not re.search(r"alloc|\w\s*\(", ls[line - 1] if 0 < line <= len(ls) else ""):
            # binutils attributes code of a header that is #included in mid-file (fft4g_cache.h) to the including file:
            # take the one file of the directory whose line of that number does allocate
            d = os.path.dirname(path)
            cands = []
            for f in sorted(os.listdir(d)) if os.path.isdir(d) else []:
                if f.endswith((".h", ".c")) and os.path.join(d, f) != path:
                    l2 = self._lines(os.path.join(d, f))
                    if 0 < line <= len(l2) and re.search(r"\b\w*alloc\w*\s*\(", l2[line - 1], re.I):
                        cands.append("\n".join(l2[line - 1:line - 1 + span]))
            if len(cands) == 1:
                return cands[0]
        return text


LHS = re.compile(r"([A-Za-z_]\w*(?:(?:->|\.)\w+|\[\w+\])*)\s*=(?!=)")


def site_key(sym, bt, passthrough):
    fr = sym.frames(bt)
    if not fr:
        return "?:?", None
    i = 0
    while i + 1 < len(fr) and fr[i][0] in passthrough:
        i += 1
    fn, path, line = fr[i]
    text = sym.line_text(path, line)
    m = LHS.search(text)
    if m and not re.match(r"\s*for\s*\(", text):
        what = m.group(1)
    elif i > 0:
        what = fr[i - 1][0]
    else:
        what = "?"
    return "%s:%s" % (fn, what.lower() if what.isupper() or what.startswith("LSX_") else what), (fn, path, line)


# ------------------------------------------------------------------ one job: record, model, enumerate, compare

class Sites:
    def __init__(self):
        d = json.load(open(SITES_FILE))
        self.passthrough = set(d["passthrough"])
        self.sites = d["sites"]

    def kind(self, key):
        return self.sites.get(key, {}).get("kind", "checked")

    def life_hint(self, key):
        return self.sites.get(key, {}).get("life")

    def listed(self, key):
        return key in self.sites


def token(key, kind, life):
    return "%s|%s|%s" % (key.replace(" ", ""), "c" if kind == "checked" else "u", life)


def build_model_input(rec, keys, sites, script, nch=1):
    """From the recorded run (nothing failing) build the driver's input.  Returns (lines, problems)."""
    problems = []
    freed_in = {}
    for o, op in rec["frees"]:
        freed_in[o] = op
    final_live = set(rec["cps"][-1]["ords"]) if rec["cps"] else set()
    by_op = {}
    for a in rec["allocs"]:
        by_op.setdefault(a["op"], []).append(a)

    def life(a, key, in_create):
        h = sites.life_hint(key)
        if h == "static":
            return "g" if a["old"] is None else "r"
        if a["old"] is not None:
            return "r"
        if a["ord"] in final_live:
            return "leak"
        if freed_in.get(a["ord"]) == a["op"]:
            return "t"
        return "s" if h == "shared" else "o"

    def engine_lists(allocs, opname):
        """allocs of an initialise: 3 API sites then per channel CHAN_SITE + engine sites"""
        ks = [keys[a["ord"]] for a in allocs]
        if ks[:3] != API_SITES[1:]:
            problems.append("%s: initialise does not start with its three allocations: %s" % (opname, ks[:3]))
            return None
        engs, cur = [], None
        for a, k in zip(allocs[3:], ks[3:]):
            if k == CHAN_SITE:
                cur = []
                engs.append(cur)
            elif cur is None:
                problems.append("%s: allocation %s before the first channel's calloc" % (opname, k))
                return None
            elif k.startswith("initialise:") or k.startswith("soxr_create:"):
                problems.append("%s: unexpected allocation of the API layer %s" % (opname, k))
                return None
            else:
                lf = life(a, k, True)
                if lf == "leak":
                    problems.append("%s: block of %s (call %d) is still live after soxr_delete without any failure" % (opname, k, a["ord"]))
                    lf = "o"
                cur.append(token(k, sites.kind(k), lf))
        return engs

    lines = []
    toks = script.split(",")
    for i, tok in enumerate(toks):
        kind = tok[0]
        al = by_op.get(i, [])
        if i == 0:
            if not al or keys[al[0]["ord"]] != API_SITES[0]:
                problems.append("soxr_create does not start with its own calloc: %s" % [keys[a["ord"]] for a in al[:2]])
                return None, problems
            if len(al) > 1:
                engs = engine_lists(al[1:], "create")
                if engs is None:
                    return None, problems
                lines += ["eng " + " ".join(e) for e in engs] + ["create 1"]
            else:
                # nothing built yet: Z = channels known, ratio not; Y = no channels yet
                lines += (["eng"] * nch if kind == "Z" else []) + ["create 0" if kind in "ZY" else "create 1"]
            continue
        if kind == "D":
            break
        if kind in "PF":
            ts = []
            for a in al:
                k = keys[a["ord"]]
                lf = life(a, k, False)
                if lf not in ("r", "g"):
                    problems.append("process allocates a fresh object-owned block at %s (call %d): not covered by the model" % (k, a["ord"]))
                    lf = "r"
                ts.append(token(k, sites.kind(k), lf))
            lines.append("op process " + " ".join(ts))
        elif kind in "KRIN":
            engs = []
            if al:
                engs = engine_lists(al, tok)
                if engs is None:
                    return None, problems
            lines += ["eng " + " ".join(e) for e in engs]
            if kind == "K":
                lines.append("op clear %d" % (1 if al else 0))
            elif kind == "N":
                lines.append("op channels")
            else:
                lines.append("op ratio")
        else:
            problems.append("unknown script token " + tok)
    lines.append("run")
    return lines, problems


def run_model(lines):
    exe = os.path.join(common.LEAN, ".lake", "build", "bin", "soxr_alloc")
    rc, out, err = common.run_lines([exe], lines, timeout=600)
    res = dict(n=None, seq=None, nofail=None, k={}, flat={}, p={}, pflat={}, errors=[])
    for l in out:
        if l.startswith("n "):
            res["n"] = int(l[2:])
        elif l.startswith("seq "):
            res["seq"] = l[4:].split(" ")
        elif l == "seq":
            res["seq"] = []
        elif l.startswith("nofail "):
            res["nofail"] = l[7:]
        elif l.startswith("k "):
            m = re.match(r"k (\d+) (.*) \| (.*)", l)
            res["k"][int(m.group(1))] = m.group(2)
            res["flat"][int(m.group(1))] = m.group(3)
        elif l.startswith("p "):
            m = re.match(r"p (\d+) (.*) \| (.*)", l)
            res["p"][int(m.group(1))] = m.group(2)
            res["pflat"][int(m.group(1))] = m.group(3)
        elif l.startswith("error"):
            res["errors"].append(l)
    if rc:
        res["errors"].append("driver exit %d %s" % (rc, err[-300:]))
    return res


def real_outcome(run, k, static_ords_rec, keys_of_run, sites):
    """Classifies what the real code did when call k failed."""
    def nonstatic(ords):
        return [o for o in ords if not (sites.life_hint(keys_of_run.get(o, "")) == "static")]
    st = run["status"]
    hitcp = [c for c in run["cps"] if c["hit"]]
    out = dict(status=st, badfree=len(run["badfree"]), cls=None, op=None, live=None, final=None, poke=run["poke"],
               report=[l for l in run["extra"] if "ERROR" in l or "runtime error" in l][:2])
    if st == "timeout":
        out["cls"] = "hang"
        return out
    if st != "exit:0":
        out["cls"] = "crash"
        out["silent_before"] = bool(hitcp and not hitcp[0]["err"])
        return out
    if not hitcp:
        out["cls"] = "not-reached"
        return out
    c = hitcp[0]
    endcp = run["cps"][-1]
    out["op"] = c["op"] - 1
    out["live"] = len(nonstatic(c["ords"]))
    out["final"] = len(nonstatic(endcp["ords"]))
    out["cls"] = "error-returned" if c["err"] else "silent"
    out["msg"] = c["msg"]
    return out


def check_job(ctx, j, exe, variant, sym, sites, known_sites, results, persist=False):
    """Runs one job in one build variant.  Appends verdict records to `results`."""
    t0 = time.time()
    text = run_harness(exe, j, "all", 1)
    runs, count = parse_runs(text)
    rec = next((r for r in runs if r["k"] == -1), None)
    base = dict(job=j, variant=variant)
    if rec is None or rec["status"] != "exit:0" or count is None:
        results.append(dict(base, verdict="violation", k=None, site=None,
                            what="the job does not run to completion even when no allocation fails: status %s %s" % (
                                rec and rec["status"], rec and rec["extra"][:3])))
        return
    # site keys of the recorded calls
    keys = {}
    where = {}
    for a in rec["allocs"]:
        keys[a["ord"]], where[a["ord"]] = site_key(sym, a["bt"], sites.passthrough)
    seqkeys = [keys[i] for i in range(len(rec["allocs"]))]
    if rec["badfree"] or any(c["err"] for c in rec["cps"]):
        results.append(dict(base, verdict="violation", k=None, site=None,
                            what="no allocation fails, yet: bad frees %d, errors reported %s" % (
                                len(rec["badfree"]), [c["msg"] for c in rec["cps"] if c["err"]])))
        return
    left = [keys.get(o, "?") for o in (rec["cps"][-1]["ords"] if rec["cps"] else []) if sites.life_hint(keys.get(o, "")) != "static"]
    if left:
        results.append(dict(base, verdict="violation", k=None, site=left[0],
                            what="%d blocks are still live after soxr_delete although no allocation failed (leak): %s" % (
                                len(left), ", ".join(sorted(set(left))[:6]))))
    if "lsr" in j:
        # through the wrapper one API call spans several calls of soxr.c (src_process = soxr_set_io_ratio + soxr_process): the model of
        # soxr.c's calls is not asked; every failure is judged by the table of sites (checked => clean error, nothing live after delete)
        lines, problems, model, structure_ok = None, [], None, True
    else:
        lines, problems = build_model_input(rec, keys, sites, j["ops"], j["ch"])
        model = run_model(lines) if lines else None
        structure_ok = bool(model) and not model["errors"] and model["n"] == count and model["seq"] == seqkeys and \
            model["nofail"] == "ok final=0" and not problems
    if not structure_ok:
        what = "the recorded allocation sequence is not the one the model of soxr.c produces: "
        if problems:
            what += "; ".join(problems[:4])
        elif model:
            diff = next((i for i, (a, b) in enumerate(zip(model["seq"] or [], seqkeys)) if a != b), None)
            what += "model n=%s real n=%s nofail=%s first difference at call %s (model %s, real %s) %s" % (
                model["n"], count, model["nofail"], diff, diff is not None and model["seq"][diff], diff is not None and seqkeys[diff],
                model["errors"][:2])
        results.append(dict(base, verdict="structure", k=None, site=None, what=what, problems=problems))
        if not model or model["n"] != count:
            model = None
    # leaks of the success path are in `problems` ("still live after soxr_delete"); report them as violations with a site
    for p in problems:
        if "still live after soxr_delete" in p:
            results.append(dict(base, verdict="violation", k=None, site=None, what=p))
    stat = dict(job=j["name"], variant=variant, calls=count, checked=0, unchecked=0, classes={}, persist_runs=0, structure_ok=structure_ok)
    allruns = [(r, False) for r in runs if r["k"] >= 0]
    if persist:
        runs2, _ = parse_runs(run_harness(exe, dict(j, persist=1), "all", 0))
        allruns += [(r, True) for r in runs2 if r.get("persist")]
        stat["persist_runs"] = len(runs2)
    for run, pers in allruns:
        k = run["k"]
        key = keys.get(k, "?")
        kind = sites.kind(key)
        keys_run = dict(keys)
        for a in run["allocs"]:
            if a["ord"] > k:
                keys_run[a["ord"]] = site_key(sym, a["bt"], sites.passthrough)[0]
        real = real_outcome(run, k, None, keys_run, sites)
        pred = (model["p" if pers else "k"].get(k)) if model else None
        flat = (model["pflat" if pers else "flat"].get(k)) if model else None
        r = dict(base, k=k, site=key, kind=kind, real=real, pred=pred, where=where.get(k), persist=pers)
        stat["classes"][real["cls"]] = stat["classes"].get(real["cls"], 0) + 1
        if model and flat and ((pred.startswith("error-returned") != flat.startswith("flat-error")) or
                               (pred.startswith("crash") != flat.startswith("flat-crash"))):
            r.update(verdict="structure", what="model run and flat classification disagree: %s vs %s" % (pred, flat))
            results.append(r)
            continue
        if pred is None:
            # no usable model prediction: fall back to the table (checked => must be a clean error)
            pred = "error-returned" if kind == "checked" else "crash-at-site " + key
        if pred.startswith("error-returned"):
            stat["checked"] += 1
            m = re.match(r"error-returned op=(-?\d+) live=(\d+) final=(\d+)", pred)
            ok = real["cls"] == "error-returned" and not real["badfree"]
            detail = []
            if real["cls"] != "error-returned":
                detail.append({"crash": "the failed allocation is dereferenced / the process dies (%s %s)" % (real["status"], " ".join(real["report"])[:200]),
                               "silent": "no error is reported by the call during which the allocation failed",
                               "hang": "the call never returns", "not-reached": "call %d is never made" % k}.get(real["cls"], real["cls"]))
            if real["badfree"]:
                detail.append("%d free() of a block that is not live (double free / dangling pointer)" % real["badfree"])
            if ok and m:
                op, live, final = int(m.group(1)), int(m.group(2)), int(m.group(3))
                if real["op"] != op:
                    ok = False
                    detail.append("error reported by script call %s, the model says %s" % (real["op"], op))
                if real["live"] != live:
                    ok = False
                    detail.append("%d blocks live after the failing call, the model says %d (%s)" % (
                        real["live"], live, "leak" if real["live"] > live else "too much freed"))
                if real["final"] != final:
                    ok = False
                    detail.append("%d blocks live after soxr_delete (leak), the model says %d" % (real["final"], final))
                if op >= 0 and (not real["poke"] or not real["poke"]["err"] or not real["poke"]["sticky"]):
                    ok = False
                    detail.append("the object is not in error state after the failing call (soxr_process on it: %s)" % real["poke"])
            if ok and not m and real["final"] != 0:
                ok = False
                detail.append("%d blocks live after soxr_delete (leak)" % real["final"])
            r.update(verdict="ok" if ok else "violation", what="; ".join(detail))
        else:
            stat["unchecked"] += 1
            clean = real["cls"] == "error-returned" and not real["badfree"] and real["final"] == 0 and \
                (real["op"] < 0 and real["live"] == 0 or real["op"] >= 0 and real["live"] == 1)
            if clean and pers and key in known_sites:
                # memory stays exhausted: the NULL of this site was stored, the next (checked) call failed too and reported
                r.update(verdict="known", what="not reported at the site (a later checked call reported)")
            elif clean:
                r.update(verdict="repaired", what="site listed as unchecked now reports a clean error")
            elif real["cls"] == "error-returned":
                r.update(verdict="violation", what="error reported at a site listed as unchecked, but %d blocks live after the call, %d after "
                         "soxr_delete, %d bad frees" % (real["live"], real["final"], real["badfree"]))
            elif key in known_sites:
                r.update(verdict="known", what={"crash": "crash", "silent": "failure not reported", "hang": "hang",
                                                "not-reached": "not reached"}.get(real["cls"], real["cls"]))
            else:
                r.update(verdict="violation", what="unchecked allocation site that is not a listed finding: %s (%s %s)" % (
                    real["cls"], real["status"], " ".join(real["report"])[:200]))
        results.append(r)
    stat["engine_lists"] = [l[4:].split(" ") for l in (lines or []) if l.startswith("eng ")]
    stat["wall_s"] = round(time.time() - t0, 2)
    stat["sites"] = sorted(set(seqkeys))
    results.append(dict(base, verdict="stat", stat=stat))


def lean_witness_lists():
    """`crEngine` / `crEngineLater` / `vrEngine` of Properties/C20.lean as lists of driver tokens"""
    txt = open(os.path.join(common.LEAN, "SoxrModel", "Properties", "C20.lean")).read()
    out = {}
    for name in ("crEngine", "crEngineLater", "vrEngine"):
        m = re.search(r"def %s : List Site := \[(.*?)\]\n" % name, txt, re.S)
        if m:
            out[name] = ["%s|%s|%s" % (n, k[0], {"temp": "t", "own": "o", "shared": "s", "static": "g", "grow": "r"}[l])
                         for n, k, l in re.findall(r'⟨"([^"]+)", \.(\w+), \.(\w+)⟩', m.group(1))]
    return out


def crosscheck_sources(sym, sites, where_by_key):
    """The committed table against the source text: checked sites must be followed by their guard."""
    bad = []
    for key, locs in sorted(where_by_key.items()):
        g = sites.sites.get(key, {}).get("guard")
        if not g:
            continue
        for fn, path, line in sorted(locs):
            text = sym.line_text(path, line, 5)
            if not re.search(g, re.sub(r"\s+", " ", text)):
                bad.append("%s at %s:%d: guard /%s/ not found in: %s" % (key, os.path.basename(path), line, g, re.sub(r"\s+", " ", text)[:160]))
    return bad


def replay_cmd(j, k, variant):
    return "build/harness/allocfail-%s-* %s record=0" % (variant, " ".join("'%s'" % a if ":" in a or "," in a else a for a in job_args(j, str(k))))


def run(ctx):
    broken = common.proof_stage(ctx, ["SoxrModel.Properties.C20"], "C20", exes=("soxr_alloc",))
    sites = Sites()
    known = common.known_active("C20")
    known_sites = set(f.get("signature", {}).get("site") for f in known)
    jobs = thorough_jobs(ctx.rng)
    if ctx.quick:       # the fixed jobs and one of the others, chosen by the seed
        jobs = QUICK_JOBS + [ctx.rng.choice(jobs[len(QUICK_JOBS):])]
    variants = ["san", "rel"]
    try:
        cpu = open("/proc/cpuinfo").read()
    except OSError:
        cpu = " avx sse2 "
    if not re.search(r"\bavx\b", cpu):      # SOXR_USE_SIMD=1 would select cr64s on a CPU that cannot run it
        dropped = [j["name"] for j in jobs if j["simd"] == 1 and (j["q"] >= 6 or j["qf"] & 16) and not j["qf"] & VR]
        jobs = [j for j in jobs if j["name"] not in dropped]
        ctx.notes.append("this CPU has no AVX: the cr64s jobs are skipped: " + ", ".join(dropped))
    if getattr(ctx, "replay", None):
        rp = json.load(open(ctx.replay)).get("replay", {})
        if rp.get("job"):
            jobs = [rp["job"]]
            ctx.cov["replayed"] = dict(job=rp["job"]["name"], k=rp.get("k"), site=rp.get("site"))
    exes = {v: common.build_harness("allocfail", ["alloc/allocfail.c"], v, extra=WRAP) for v in variants}
    syms = {v: Symbols(exes[v]) for v in variants}
    results = []

    def work(arg):
        j, v = arg
        out = []
        try:
            # "every later allocation": in the sanitizer build the enumeration is repeated with memory staying exhausted
            check_job(ctx, j, exes[v], v, syms[v], sites, known_sites, out, persist=(v == "san" and not ctx.quick))
        except subprocess.TimeoutExpired:
            out.append(dict(job=j, variant=v, verdict="violation", k=None, site=None, what="enumeration of the job timed out"))
        return out
    # symbol caches are per variant and not thread-safe for writing: one thread per variant, jobs in sequence inside;
    # the harness itself is fast (a fork per k)
    def per_variant(v):
        out = []
        for j in jobs:
            out += work((j, v))
        return out
    with ThreadPoolExecutor(len(variants)) as ex:
        for out in ex.map(per_variant, variants):
            results += out

    # ---- verdicts
    where_by_key = {}
    seen_violation = set()
    known_hit = {}
    repaired = set()
    sampled = set()
    known_samples = []
    distinct = set()
    nviol = 0
    for r in results:
        v = r["verdict"]
        if v == "stat":
            s = r["stat"]
            ctx.count("evaluations", s["calls"] + s["persist_runs"])
            ctx.count("structure_ties", 1 if s["structure_ok"] else 0)
            ctx.count("runs_checked_sites", s["checked"])
            ctx.count("runs_unchecked_sites", s["unchecked"])
            for c, n in s["classes"].items():
                ctx.hist("real_outcome_" + s["variant"], c, n)
            ctx.cov.setdefault("jobs", []).append(dict(job=s["job"], variant=s["variant"], calls=s["calls"], wall_s=s["wall_s"]))
            if s["variant"] == "san" and s["job"] in (QUICK_JOBS[0]["name"], QUICK_JOBS[2]["name"]):
                w = lean_witness_lists()
                el = s["engine_lists"]
                if s["job"] == QUICK_JOBS[0]["name"]:
                    ctx.cov["witness_lists_match_recording_cr"] = el[:2] == [w.get("crEngine"), w.get("crEngineLater")]
                else:
                    ctx.cov["witness_lists_match_recording_vr"] = el[:1] == [w.get("vrEngine")]
            for k in s["sites"]:
                ctx.cov.setdefault("sites_seen", {})[k] = sites.kind(k) + ("" if sites.listed(k) else " (unlisted: assumed checked)")
            continue
        if r.get("where") and r.get("site"):
            where_by_key.setdefault(r["site"], set()).add(r["where"])
        if r.get("real") and r.get("site"):
            distinct.add((r["job"]["name"], r["site"], r["real"]["cls"]))
        if v == "ok":
            ctx.count("ties_confirmed")
            if (r["site"], r["pred"]) not in sampled:
                sampled.add((r["site"], r["pred"]))
                ctx.sample(dict(job=r["job"]["name"], variant=r["variant"], k=r["k"], site=r["site"], model=r["pred"],
                                real="%s op=%s live=%s final=%s" % (r["real"]["cls"], r["real"]["op"], r["real"]["live"], r["real"]["final"])),
                           cap=12)
        elif v == "known":
            ctx.count("known_site_hits")
            d = known_hit.setdefault(r["site"], {})
            d[r["what"]] = d.get(r["what"], 0) + 1
            if d[r["what"]] == 1 and len(known_samples) < 8 and r["variant"] == "san":
                known_samples.append(dict(job=r["job"]["name"], variant=r["variant"], k=r["k"], site=r["site"], model=r["pred"],
                                          real="%s %s %s" % (r["real"]["cls"], r["real"]["status"], " ".join(r["real"]["report"])[:160])))
        elif v == "repaired":
            repaired.add(r["site"])
        elif v == "structure":
            sig = ("structure", r["job"]["name"], r["what"][:80])
            if sig not in seen_violation:
                seen_violation.add(sig)
                broken.append("correspondence (%s, %s build): %s" % (r["job"]["name"], r["variant"], r["what"][:600]))
        elif v == "violation":
            nviol += 1
            sig = (r.get("site"), re.sub(r"\d+", "N", r["what"])[:50])
            if sig in seen_violation or len(seen_violation) >= 8:
                continue
            seen_violation.add(sig)
            j = r["job"]
            head = "job %s, %s build, no allocation failing: " % (j["name"], r["variant"]) if r["k"] is None else \
                "job %s, %s build, %s (site %s): " % (
                    j["name"], r["variant"], ("all allocation calls from %d on fail" if r.get("persist") else "allocation call %d fails") % r["k"],
                    r.get("site"))
            ctx.violation(head + r["what"],
                dict(job=j, k=r["k"], persist=bool(r.get("persist")), site=r.get("site"), source=r.get("where") and "%s:%s" % (os.path.basename(r["where"][1]), r["where"][2]),
                     variant=r["variant"], model_prediction=r.get("pred"), real=r.get("real"),
                     replay="cd /verif && " + replay_cmd(dict(j, persist=1) if r.get("persist") else j,
                                                         r["k"] if r["k"] is not None else "none", r["variant"])))
    ctx.cov["violating_runs"] = nviol
    ctx.cov["samples_known_finding"] = known_samples
    for site, d in sorted(known_hit.items()):
        ctx.known("F10 site=" + site, "allocation failure at this unchecked site: " + ", ".join("%s x%d" % kv for kv in sorted(d.items())))
    if repaired:
        ctx.notes.append("sites listed as unchecked in harness/alloc/sites.json that now report a clean error (table and "
                         "known_findings.d/alloc.json can be updated): " + ", ".join(sorted(repaired)))
        ctx.cov["repaired_sites"] = sorted(repaired)
    bad = crosscheck_sources(syms["san"], sites, where_by_key)
    ctx.cov["source_crosscheck_mismatches"] = bad
    ctx.cov["distinct_nontrivial"] = len(distinct)
    ctx.cov["distinct_sites"] = len(where_by_key)
    ctx.cov["traces_validated_against_impl"] = ctx.cov.get("structure_ties", 0)
    ctx.cov["exhaustive_in_k_per_job"] = True
    ctx.cov["rule"] = ("a case = (job, build, k, mode): allocation call k of the job fails (mode 1: only call k; mode 2, thorough tier, "
                       "sanitizer build: every call from k on), for EVERY k the job makes, in the sanitizer and the release build; the real "
                       "outcome class must equal the prediction of the Lean model run on the recorded site list.  Every case is "
                       "non-trivial (a different call fails); distinct_nontrivial counts distinct (job, site key, real outcome class) "
                       "triples, distinct_sites distinct source sites; structure_ties = jobs whose recorded call sequence equals the "
                       "sequence the model of soxr.c produces from the per-channel engine lists")
    ctx.assume("single-threaded jobs (num_threads = 1): allocation calls are totally ordered and the sequence is deterministic",
               "the libc allocator and libgomp are outside the model; only allocation calls made by objects of libsoxr are failed",
               "an engine's close frees what its create left (abstracted in the model); tested by the enumeration for every k",
               "checked/unchecked per site is data (harness/alloc/sites.json); an unlisted site is taken to be checked",
               "static caches (fft4g tables) are not owned by any object: excluded from the leak count")
    if bad and not ctx.violations:
        ctx.notes.append("source cross-check: " + "; ".join(bad[:5]))
    if broken and not ctx.violations:
        ctx.violation("proof or correspondence broke and the enumeration found no failing (job, k): " + " | ".join(broken)[:1500],
                      dict(broken=broken[:10]), no_input=True)
