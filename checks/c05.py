"""C05 Schedule invariance: streamed, pulled and one-shot output are bit-identical."""
from vlib import common
from checks import crcommon as cr

LEVEL = "proof"
PID = "C05"


GRID = cr.small_ratio_grid(8)


def make_job(rng, idx, quick):
    # the first jobs of every run walk through all small-integer ratios (each is planned in its own way); the rest are drawn at random
    cfg, env = cr.gen_config(rng, datatypes=True, channels=True, rates=GRID[idx] if idx < len(GRID) else None)
    N = rng.choice([0, 1, 2, 17, 1000, 4096, 30000]) if rng.chance(.4) else rng.below(40000 if quick else 300000)
    cap = 150000 if quick else 2000000
    N = min(N, int(cap * max(1.0, cr.io_ratio(cfg))), int(cap * cr.io_ratio(cfg)) + 3)
    if idx >= len(GRID) and rng.chance(.04):
        # soxr_runtime_spec(0): the channels of one call are processed by OpenMP threads.  A few such jobs only, with a small team that
        # sleeps while idle (many processes with spinning full-size teams starve each other)
        cfg["ch"] = 2 + rng.below(3); cfg["threads"] = 0
        env = dict(env, OMP_NUM_THREADS="4", OMP_WAIT_POLICY="PASSIVE")
        N = min(max(N, 20000), 60000)
    return {"cfg": cfg, "env": env, "N": N, "seed": rng.next() & 0xffffffff, "idx": idx}


def schedules(job, plan):
    """Three schedules over the same stream: one-shot, random push, random pull."""
    rng = common.Rng(job["seed"])
    sizes = cr.gen_sizes(rng, plan)
    N = job["N"]
    est = int(N / cr.io_ratio(job["cfg"])) + 10
    head = [cr.create_line(job["cfg"]), "limit %d" % N]
    one = head + ["proc 1 1 1 %d %d" % (N, est + 100), "hash", "oneshot %d %d" % (N, est + 100)]      # ... and the real soxr_oneshot over the same frames
    push = list(head)
    if rng.chance(.35):
        push.append("stale %d" % rng.choice([1, 37, 300, 100000]))
    push.append("eoistyle %d" % rng.below(6))  # how end-of-input is said and how the drain calls look (harness/cr/trace.c after_end)
    push.append("nullout %d" % rng.below(2))    # a call that asks for 0 frames passes out == NULL (soxr.h allows it)
    cap = [10 ** 9, 60, 3000, 10 ** 9][rng.below(4)]
    for i in range(rng.choice([3, 10, 40, 150])):
        il = min(rng.choice(sizes) if rng.chance(.6) else rng.below(3000), cap)
        ol = min(rng.choice(sizes) if rng.chance(.6) else rng.below(3000), cap)
        push.append("feed %d %d %d" % (il, ol, rng.below(2)))
    push += ["feed %d %d 0" % (N, rng.choice(sizes)), "drain %d" % max(rng.choice([1, 7, 100, 1000, est]), est // 2000 + 1), "hash"]
    split_out = int(job["cfg"].get("otype", 1)) >= 4
    pull = list(head)
    maxilen = rng.choice([0, 1, 7, 64, 1000, 100000])
    pat = rng.choice([["d1000000"], ["d1"], ["d%d" % (1 + rng.below(3000)) for _ in range(20)], ["d7", "d1", "d4096"]])
    ol = max(rng.choice([1, 5, 64, 1000, 4096, 20000, est]), est // 2000 + 1)
    if maxilen and maxilen < 8:
        ol = max(ol, est // 300 + 1)
    pull += ["setfn %d" % maxilen, "pulldrain %d %s" % (ol, " ".join(pat)), "hash"]
    return {"oneshot": one, "push": push, "pull": pull}


def run(ctx):
    broken = common.proof_stage(ctx, ["SoxrModel.Properties.C05"], "C05")
    exe = common.build_harness("crtrace", ["cr/trace.c"], "rel")
    njobs = 350 if ctx.quick else 10000
    jobs = [make_job(ctx.rng, i, ctx.quick) for i in range(njobs)]
    known = {f["id"]: f for f in common.known_active(PID)}

    def work(job):
        tr0 = cr.run_trace(exe, [cr.create_line(job["cfg"])], job["env"], timeout=120)
        if not tr0.created:
            return job, None, None
        sch = schedules(job, tr0.plan)
        out = {}
        for name, ops in sch.items():
            tr = cr.run_trace(exe, ops, job["env"], timeout=300)
            d = cr.diff_model(tr) if tr.rc == 0 else ("crash", "rc=%s" % tr.rc, tr.err[-400:], "")
            out[name] = (ops, tr, d)
        return job, tr0, out

    distinct = set()
    for job, tr0, out in cr.pmap(work, jobs):
        ctx.count("evaluations")
        if out is None:
            ctx.count("rejected_configs"); continue
        distinct.add((cr.plan_sig(tr0), job["cfg"].get("itype"), job["cfg"].get("otype")))
        ctx.hist("dist_engine", tr0.engine)
        ctx.hist("dist_types", "%s->%s" % (job["cfg"].get("itype"), job["cfg"].get("otype")))
        ctx.hist("dist_channels", job["cfg"].get("ch", 1))
        hs = {}
        problem = None
        for name, (ops, tr, d) in out.items():
            ctx.count("api_calls_compared", len(tr.results))
            ctx.count("schedules_run")
            if d:
                problem = problem or ("correspondence", name, d)
            h = tr.hashes[-1] if tr.hashes else "none(rc=%s)" % tr.rc
            hs[name] = " ".join(t for t in h.split() if not t.startswith("pos="))
            h1 = [l for l in tr.lines if l.startswith("H1 ")]
            if h1:          # soxr_oneshot itself: same frame count, same bytes, no error (clip counts are not reported by it)
                t1 = h1[-1].split()
                ref = [t for t in h.split() if not t.startswith(("pos=", "clips="))]
                hs["soxr_oneshot"] = " ".join(["H"] + [t for t in t1[1:] if not t.startswith("idone=")])
                hs[name + "(no clips)"] = " ".join(ref)
        if hs.get("soxr_oneshot") is not None and hs["soxr_oneshot"] != hs.get("oneshot(no clips)"):
            problem = ("differ", hs, None)
        hs2 = {k: v for k, v in hs.items() if k not in ("soxr_oneshot", "oneshot(no clips)")}
        if len(set(hs2.values())) > 1:
            problem = ("differ", hs, None)
        if problem:
            kn = [k for k in cr.classify_known(tr0.plan, job["cfg"]) if k in known]
            if kn:
                ctx.known(kn[0], known[kn[0]]["what"]); ctx.count("known_finding_hits"); continue
            rep = {"cfg": job["cfg"], "env": job["env"], "N": job["N"], "schedules": {k: v[0] for k, v in out.items()}, "plan": tr0.plan}
            if problem[0] == "differ":
                rep["hashes"] = hs
                ctx.violation("C05 fails on the real code: output differs between schedules %s (%s %s)" % (hs, cr.create_line(job["cfg"]), job["env"]), rep)
            else:
                d = problem[2]
                rep["correspondence"] = {"schedule": problem[1], "at": d[1], "real": d[2], "model": d[3]}
                ctx.violation("correspondence broken (Lean count model vs real code), schedule %s at %s:\n real : %s\n model: %s" % (
                    problem[1], d[1], str(d[2])[:400], str(d[3])[:400]), rep, no_input=True)
        else:
            ctx.sample({"create": cr.create_line(job["cfg"]), "env": job["env"], "N": job["N"], "hash": hs.get("push"),
                        "schedules": sorted(out)})
    # ---- the variable-rate engine at a constant ratio: the same three schedules over the same stream, delivered bytes compared.
    # (No stage switch is taken at a constant ratio, so known finding F12 - switch decisions per 64-frame chunk - does not apply; the VR
    #  control skeleton itself is modelled in C16.)
    def make_vr_job(rng, idx):
        r = 2.0 ** rng.uniform(-4.0, 4.0)
        if rng.chance(.35):
            r = rng.choice([1.0, 2.0, 2.5, 0.5, 4.0, 1.5, 3.0, 0.25, 1.0884353741496597, 0.91875, 8.0, 5.0])
        cfg = {"ir": repr(r), "or": "1", "recipe": 4, "qflags": 32, "itype": rng.choice([0, 1, 2, 3, 4, 5]), "otype": rng.choice([0, 1, 2, 3, 4, 5]),
               "ioflags": 8, "ch": 1 + rng.below(3)}
        N = rng.choice([0, 1, 2, 63, 1000, 4096]) if rng.chance(.25) else rng.below(30000 if ctx.quick else 200000)
        return {"cfg": cfg, "env": {}, "N": min(N, int(150000 * r) + 3), "seed": rng.next() & 0xffffffff, "idx": idx}

    def vr_work(job):
        tr0 = cr.run_trace(exe, [cr.create_line(job["cfg"])], job["env"], timeout=120)
        if not tr0.created:
            return job, tr0, None
        out = {}
        rr = common.Rng(job["seed"] ^ 0x5bd1e995)
        for name, ops in schedules(job, []).items():
            if name != "oneshot" and rr.chance(.6):
                # the ratio already in force is asserted again (soxr_set_io_ratio(r, 0) as a control loop does before every block) at
                # random points of the schedule: a no-op for the stream
                ops = list(ops)
                for _ in range(1 + rr.below(12)):
                    k = 2 + rr.below(max(1, len(ops) - 3))
                    if ops[k].split()[0] in ("feed", "pull", "drain", "pulldrain"):
                        ops.insert(k, "ratio %s 0" % job["cfg"]["ir"])
            out[name] = (ops, cr.run_trace(exe, ops, job["env"], timeout=300))
        return job, tr0, out

    nvr = 0
    for job, tr0, out in cr.pmap(vr_work, [make_vr_job(ctx.rng, i) for i in range(60 if ctx.quick else 2500)]):
        ctx.count("evaluations")
        if out is None:
            ctx.count("rejected_configs"); continue
        ctx.hist("dist_engine", tr0.engine)
        hs = {}
        for name, (ops, tr) in out.items():
            ctx.count("schedules_run")
            h = tr.hashes[-1] if tr.hashes else "none(rc=%s %s)" % (tr.rc, tr.err[-200:])
            hs[name] = " ".join(t for t in h.split() if not t.startswith("pos="))
        nvr += 1
        ctx.hist("vr_log2_ratio", int(__import__("math").floor(__import__("math").log2(float(job["cfg"]["ir"])))))
        if len(set(hs.values())) > 1:
            ctx.violation("C05 fails on the real code (variable-rate engine, constant ratio): output differs between schedules %s (%s)" % (hs, cr.create_line(job["cfg"])),
                          {"cfg": job["cfg"], "env": job["env"], "N": job["N"], "schedules": {k: v[0] for k, v in out.items()}, "hashes": hs})
    ctx.count("vr_constant_ratio_jobs", nvr)
    # ---- variable-rate engine, the ratio MOVES: the stream is then a function of the input, the configuration and the ratio as a
    #      function of the output position.  The same moves (immediate or slewed, across octave boundaries or inside one) are applied at
    #      the same output positions; what differs is how the output requests in between are cut (down to single frames, so that request
    #      boundaries fall inside the cross-fade of a stage switch) and how the input function supplies
    def make_vrm_job(rng, idx):
        # most jobs are drawn from the class in which the engine must be exact (no listed finding applies)
        for attempt in range(8):
            job = make_vrm_job1(rng, idx)
            if not vr_known_class(job) or rng.chance(.1):
                break
        return job

    def make_vrm_job1(rng, idx):
        mx = rng.choice([2.0, 4.0, 4.0, 8.0, 3.0, 16.0])
        import math
        nm = 1 + rng.below(3)
        immediate = rng.chance(.6)          # slews that cross an octave are known finding F12; immediate moves must be exact
        moves = []
        pos = 0
        for i in range(nm + 1):
            r = mx * 2.0 ** -rng.uniform(0.0, min(5.0, 1.0 + math.log2(mx) + 2.0))
            if rng.chance(.3):
                r = rng.choice([mx, mx / 2, mx / 4, 1.0, 1.8, 2.3, 0.9, 1.2])
            r = min(r, mx)
            moves.append((pos, r, 0 if immediate else rng.choice([0, 1, 100, 3000])))
            pos += rng.choice([1, 100, 511, 512, 513, 700, 5000]) if rng.chance(.5) else 1 + rng.below(8000)
        cfg = {"ir": repr(mx), "or": "1", "recipe": 4, "qflags": 32, "itype": rng.choice([0, 1, 2, 3]), "otype": rng.choice([0, 1, 2, 3]), "ioflags": 8, "ch": 1 + rng.below(2)}
        return {"cfg": cfg, "env": {}, "moves": moves, "tail": 600 + rng.below(5000), "seed": rng.next() & 0xffffffff, "idx": idx}

    def vr_stage(r):
        """octave stage the engine works in at ratio r: (1,2] -> 0, (2,4] -> 1, (4,8] -> 2 ...; (1/2,1] -> -1 ...  Returns the set of
        candidates (two at a power of two, where rounding of the step decides)"""
        import math
        l = math.log2(r)
        c = {math.ceil(l) - 1}
        if abs(l - round(l)) < 1e-9:
            c |= {round(l) - 1, round(l)}
        return c

    def vr_known_class(job):
        """which listed finding, if any, the moves of this job fall under.
        F12: stage switches are decided at chunk starts, which restart with every request - a SLEW across an octave boundary, an
             immediate upward move over two or more octaves, or a switch asked for within 1100 output frames of the previous one (the
             later switch waits for the running cross-fade and then for a chunk start);
        F42: a stage switch, up or down, that involves stage 2 or above (a ratio beyond 4 on either side): the coarser half-band stages are
             restarted / trimmed and their fast/full cross-fade started from whatever input is buffered at that moment.
        The ratio at the start of a move is the previous target or, if the previous slew had not finished, anywhere on its path."""
        lo = hi = float(job["cfg"]["ir"])
        mv = job["moves"]
        found = set()
        last_sw = None
        for i, (at, r, slew) in enumerate(mv):
            span = (mv[i + 1][0] if i + 1 < len(mv) else at + job["tail"]) - at
            a, b = min(lo, r), max(hi, r)
            if slew:
                if min(vr_stage(a)) != max(vr_stage(b)):
                    found.add("F12"); last_sw = at + slew
                lo, hi = (r, r) if span >= slew else (a, b)
                continue
            so, sn = vr_stage(lo) | vr_stage(hi), vr_stage(r)
            if r > lo and max(sn) - min(so) >= 2:
                found.add("F12")
            if so != sn or len(sn) > 1:
                # a switch asked for while the cross-fade of the previous one (512 output frames) may still run waits for it and is
                # then taken at a chunk start: F12's mechanism again
                if last_sw is not None and at - last_sw < 1100:
                    found.add("F12")
                last_sw = at
            if (so != sn or len(sn) > 1) and max(so | sn) >= 2:
                found.add("F42")
            lo = hi = r
        return sorted(found)

    def vrm_schedule(job, k):
        rng = common.Rng(job["seed"] + 977 * k)
        ops = [cr.create_line(job["cfg"]), "limit 4000000", "setfn %d" % rng.choice([0, 0, 1, 64, 1000])]
        pat = rng.choice([["d1000000"], ["d1"], ["d%d" % (1 + rng.below(3000)) for _ in range(12)], ["d7", "d1", "d4096"]])
        style = k if k < 2 else 2 + rng.below(2)        # 0: one request per span, 1: requests of about 100, 2: random, 3: single frames around a move

        def span(n, after_move):
            out = []
            while n:
                if style == 0: c = n
                elif style == 1: c = min(n, 100)
                elif style == 2: c = min(n, rng.choice([1, 3, 37, 64, 300, 511, 512, 1000, 5000]))
                else: c = 1 if after_move < 600 and rng.chance(.7) else min(n, 1 + rng.below(400))
                out.append("pull %d %s" % (c, " ".join(pat))); n -= c; after_move += c
            return out
        mv = job["moves"]
        for i, (at, r, slew) in enumerate(mv):
            ops.append("ratio %r %d" % (r, slew))
            nxt = mv[i + 1][0] if i + 1 < len(mv) else at + job["tail"]
            ops += span(nxt - at, 0)
        ops.append("hash")
        return ops

    def vrm_work(job):
        out = {}
        for k in range(4):
            ops = vrm_schedule(job, k)
            out["s%d" % k] = (ops, cr.run_trace(exe, ops, job["env"], timeout=300))
        return job, out

    nvrm = 0
    for job, out in cr.pmap(vrm_work, [make_vrm_job(ctx.rng, i) for i in range(60 if ctx.quick else 2000)]):
        ctx.count("evaluations")
        hs = {}
        for name, (ops, tr) in out.items():
            ctx.count("schedules_run")
            h = tr.hashes[-1] if tr.hashes and tr.rc == 0 else "none(rc=%s %s)" % (tr.rc, tr.err[-200:])
            hs[name] = " ".join(t for t in h.split() if not t.startswith("pos="))
        nvrm += 1
        ctx.hist("vr_moves", len(job["moves"]) - 1)
        cls = [k for k in vr_known_class(job) if k in known]
        ctx.hist("vr_moves_class", "+".join(cls) or "strict")
        if len(set(hs.values())) > 1 and cls:
            ctx.known(cls[0], known[cls[0]]["what"]); ctx.count("known_finding_hits"); ctx.count("vr_moving_ratio_known_jobs")
        elif len(set(hs.values())) > 1:
            ctx.violation("C05 fails on the real code (variable-rate engine, ratio moved at fixed output positions %s): output differs between "
                          "request partitions %s (%s)" % (job["moves"], hs, cr.create_line(job["cfg"])),
                          {"cfg": job["cfg"], "moves": job["moves"], "schedules": {k: v[0] for k, v in out.items()}, "hashes": hs})
    ctx.count("vr_moving_ratio_jobs", nvrm)
    # ---- locality (Properties/C05 locality_runs; Cr/Cone.lean): one input frame of the REAL engine is moved; every output frame that
    #      changes must have that input frame inside its cone, as the compiled driver computes it (`cr.cone` = coneI) from the exported plan
    def loc_job(i):
        rng = common.Rng(ctx.rng.next())
        cfg, env = cr.gen_config(rng, rates=cr.small_ratio_grid(8)[rng.below(len(cr.small_ratio_grid(8)))] if rng.chance(.5) else None, max_up=40, max_down=60)
        return {"cfg": cfg, "env": env, "seed": rng.next() & 0xffffffff}

    def loc_work(job):
        rng = common.Rng(job["seed"])
        cfg, env = job["cfg"], job["env"]
        tr0 = cr.run_trace(exe, [cr.create_line(cfg)], env, timeout=120)
        if not tr0.created or not tr0.plan or not tr0.engine.startswith("cr"):
            return job, "noplan", None
        ratio = cr.io_ratio(cfg)
        N = int(min(60000, max(2000, 12000 * ratio)))          # about 12000 output frames
        nout = int(N / ratio)
        if nout < 50 or nout > 400000:
            return job, "size", None
        at = rng.below(N)
        head = [cr.create_line(cfg), "limit %d" % N, "window 0 %d 1" % nout]
        body = ["feed %d %d 0" % (rng.choice([N, 4096, 7001, 1000]), nout + 64) for _ in range(N // 1000 + 2)] + ["hash"]     # streaming only: no end-of-input
        ta = cr.run_trace(exe, head + body, env, timeout=300)
        tb = cr.run_trace(exe, head[:2] + ["perturb %d 0.25" % at] + head[2:] + body, env, timeout=300)
        xa = [l for l in ta.lines if l.startswith("X ")]; xb = [l for l in tb.lines if l.startswith("X ")]
        if ta.rc != 0 or tb.rc != 0 or not xa or not xb:
            return job, "crash", {"rc": (ta.rc, tb.rc), "err": (ta.err[-300:], tb.err[-300:])}
        ha = xa[-1].split("h=")[1].strip().strip(",").split(","); hb = xb[-1].split("h=")[1].strip().strip(",").split(",")
        delivered = min(sum(int(r["od"]) for r in ta.results), sum(int(r["od"]) for r in tb.results), len(ha), len(hb))
        changed = [j for j in range(delivered) if ha[j] != hb[j]]
        probe = changed if len(changed) <= 600 else changed[:200] + changed[-200:] + [changed[rng.below(len(changed))] for _ in range(200)]
        lines = [l for l in tr0.model_in if l.startswith("cr.plan") or l.startswith("cr.stage")] + ["cr.cone " + " ".join(str(j) for j in probe)]
        out = cr.run_model(lines)
        cones = out[-1].split()[1:] if out and out[-1].startswith("CONE") else None
        if cones is None or len(cones) != len(probe):
            return job, "driver", {"out": out[-2:]}
        bad = []
        for j, c in zip(probe, cones):
            if c == "?":
                return job, "nofuel", None
            if c == "-":
                bad.append((j, c)); continue
            a, b = (int(v) for v in c.split("-"))
            if not (a <= at <= b):
                bad.append((j, c))
        return job, ("outside" if bad else "ok"), {"at": at, "N": N, "changed": len(changed), "first": changed[:1], "last": changed[-1:], "bad": bad[:5],
                                                   "ops": head[:2] + ["perturb %d 0.25" % at] + head[2:] + body[:3] + ["..."], "plan": cr.plan_sig(tr0)}

    nloc = nchg = 0
    for job, how, info in cr.pmap(loc_work, [loc_job(i) for i in range(40 if ctx.quick else 1200)]):
        ctx.count("evaluations")
        ctx.hist("locality_case", how)
        if how == "crash":
            ctx.violation("C05 locality: run failed: %s (%s)" % (info, cr.create_line(job["cfg"])), {"cfg": job["cfg"], "env": job["env"]}, no_input=True)
        elif how == "driver":
            ctx.violation("C05 locality: the model driver did not answer cr.cone: %s" % info, {"cfg": job["cfg"]}, no_input=True)
        elif how == "outside":
            j, c = info["bad"][0]
            ctx.violation("C05 fails on the real code: moving input frame %d changes output frame %d, whose cone of dependence is %s input frames (Cr/Cone.lean coneI on "
                          "the exported plan; locality_runs): the engine reads outside the windows of the model (%s %s)" % (info["at"], j, c, cr.create_line(job["cfg"]), job["env"]),
                          {"cfg": job["cfg"], "env": job["env"], "perturbed_input_frame": info["at"], "changed_output_frames_outside_their_cone": info["bad"],
                           "ops": info["ops"], "plan": info["plan"]})
        elif how == "ok":
            nloc += 1; nchg += info["changed"]
    ctx.count("locality_runs_compared", nloc)
    ctx.count("locality_changed_frames_inside_cone", nchg)
    ctx.cov["distinct_nontrivial"] = len(distinct)
    ctx.cov["rule"] = ("per job one configuration (all engines, datatypes, layouts, 1-4 channels, dither off) and one stream of N frames run "
                       "through three schedules on the real library — soxr_oneshot-style single call, random push (sizes around every internal "
                       "block length, with and without idone), random pull (max_ilen, supply pattern) — FNV hashes of every channel's delivered "
                       "bytes and the frame counts compared; each schedule also replayed through the Lean count model; distinct = (plan shape, "
                       "engine, datatype pair) classes.  Variable-rate engine: constant ratios 2^-4 .. 2^4 (and round ones), 1-3 channels, every datatype, "
                       "the same three schedules, hashes compared (no count model: the VR skeleton is C16's)")
    ctx.assume(*cr.CR_ASSUME)
    cr.report_broken(ctx, broken, "C05 falsifier on %d jobs found no differing schedules" % njobs)
