"""Coefficient table of the poly-phase stages: model (`lean/SoxrModel/Cr/CoefTable.lean`) vs the real `prepare_poly_fir_coefs`.

  theorems    `SoxrModel/Properties/C04Coef.lean` (table = closed form for every prototype / size / order / layout; the gain reaches
              every tap; mirror symmetry about the centre the time map uses; writes and reads inside the allocation)
  tie         `harness/cr/coeftab.c` (#includes cr.c) runs the real function on integer marker prototypes - symmetric and not, all four
              engine layouts (float / double x coef / coef4), orders 0..3, gains incl. negative - under ASan with an allocation of exactly
              `length` cells, and reads the table back through the real `coef` / `coef4` macros; the compiled driver evaluates the model
              of the loop (`prep`) and the closed form of the theorems (`spec`) on the same prototypes; every cell compared as 12 x value.
Used by C04 (centre of the stage's response) and C12 (gain once, on every tap)."""
import subprocess
from vlib import common
from checks import crcommon as cr


def gen_case(rng, i):
    ord_ = [0, 1, 2, 3][i % 4]
    simd = (i // 4) % 2
    dbl = (i // 8) % 2
    P = rng.choice([1, 2, 3, 4, 5, 7, 8, 16, 31, 64]) if rng.chance(.7) else 1 + rng.below(40)
    nc = rng.choice([1, 2, 3, 4, 5, 6, 7, 8, 9, 10, 11, 12, 13, 16, 17, 20, 23]) if rng.chance(.8) else 1 + rng.below(40)
    while nc * P > 420:
        nc = max(1, nc // 2)
    n = max(0, nc * P - 1)
    mult = rng.choice([1, 1, 3, -2, 7, 5, 12])
    if rng.chance(.5):      # symmetric, like every prototype lsx_design_lpf returns
        half = [rng.below(101) - 50 for _ in range((n + 1) // 2)]
        coefs = half + half[::-1][n % 2:]
        kind = "symmetric"
    else:
        coefs = [rng.below(101) - 50 for _ in range(n)]
        kind = "arbitrary"
    coefs = coefs[:n]
    return kind, "tab %d %d %d %d %d %d %s" % (simd, dbl, ord_, nc, P, mult, " ".join(map(str, coefs)))


def run(ctx, broken, pid):
    try:
        exe = common.build_harness("coeftab", ["cr/coeftab.c"], "san")
    except common.BuildError as e:
        ctx.violation("coefficient-table harness does not build against /repo (prepare_poly_fir_coefs / coef / coef4 changed shape): the "
                      "correspondence behind Properties/C04Coef.table_is_closed_form cannot be checked", {"stage": "coeftab", "error": str(e)[-1500:]},
                      no_input=True)
        return
    n = 160 if ctx.quick else 4000
    cases = [gen_case(ctx.rng, i) for i in range(n)]
    p = subprocess.run([exe], input="\n".join(c[1] for c in cases) + "\n", stdout=subprocess.PIPE, stderr=subprocess.PIPE,
                       universal_newlines=True, timeout=1200)
    out = p.stdout.splitlines()
    model_in = [l[2:] for l in out if l.startswith("> ")]
    real = [l[2:] for l in out if l.startswith("< COEFTAB")]
    macro = [l[2:] for l in out if l.startswith("< MACRO")]
    if p.returncode != 0 or len(real) != len(cases):
        k = len(real)
        ctx.violation("prepare_poly_fir_coefs crashes / writes outside its allocation (sanitizer) on case %d: %s | %s" % (
            k, cases[min(k, len(cases) - 1)][1][:300], p.stderr[-600:]), {"stage": "coeftab", "case": cases[min(k, len(cases) - 1)][1], "stderr": p.stderr[-3000:]})
        return
    model = cr.run_model(model_in)
    bad = 0
    for (kind, line), r, m, mc in zip(cases, real, model, macro):
        ctx.count("coeftab_cases")
        ctx.hist("coeftab_kind", kind + ":order" + line.split()[3] + (":simd" if line.split()[1] == "1" else ":plain"))
        rk, mk = cr.parse_kv(r), cr.parse_kv(m)
        ok = rk.get("len") == mk.get("len") and rk.get("cells") == mk.get("loop") == mk.get("spec") and mc.startswith("MACRO 0 ")
        ctx.count("coeftab_cells", int(rk.get("len", 0) or 0))
        if not ok and bad < 3:
            bad += 1
            rc, ml, ms = rk.get("cells", "").split(","), mk.get("loop", "").split(","), mk.get("spec", "").split(",")
            first = next((i for i in range(max(len(rc), len(ms))) if i >= len(rc) or i >= len(ms) or i >= len(ml) or not (rc[i] == ml[i] == ms[i])), -1)
            ctx.violation("the table the real prepare_poly_fir_coefs builds differs from the model (Cr/CoefTable.lean) on which "
                          "Properties/C04Coef.table_is_closed_form / gain_reaches_every_tap / table_mirror are proved: %s; first differing cell %d "
                          "(12 x value): real %s, model loop %s, closed form %s; %s" % (
                              line[:200], first, rc[first] if 0 <= first < len(rc) else "-", ml[first] if 0 <= first < len(ml) else "-",
                              ms[first] if 0 <= first < len(ms) else "-", mc),
                          {"stage": "coeftab", "harness_line": line, "real": r[:4000], "model": m[:8000], "macro": mc,
                           "theorem": "Soxr.Properties.C04Coef.table_is_closed_form (correspondence harness/cr/coeftab.c vs soxrmodel cr.coeftab)"},
                          no_input=True)
    ctx.assume("coefficient table: the model of prepare_poly_fir_coefs (Cr/CoefTable.lean) is tied to cr.c by running both on integer marker "
               "prototypes (all four layouts, orders 0..3); the poly-phase kernels' use of the table (row = phase, cell = coef/coef4 macro) is "
               "tied by the dependence-cone and impulse measurements of C05 / C04, not here")
