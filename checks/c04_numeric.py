"""Numeric falsifier half of C04 (time alignment): a library module, not a registered check.

    from checks import c04_numeric
    c04_numeric.run_numeric(ctx, quick)        # records counts / samples / violations / known findings through ctx

Everything here is MEASUREMENT on the real library (built from /repo's working tree; float64 I/O; harness/phase/run.c),
for LINEAR phase only (alignment is promised for linear phase):

* ramp read-back   x[n] = n - N/2: a linear-phase unity-gain resampler returns t_k = k*irate/orate itself (a symmetric FIR of unit DC
                   gain reproduces a linear function at its centre); compared over the whole stream (tolerance N/2*(2^(1-bits) + 8 eps): what the
                   configured precision leaves of the images of a ramp of height N/2, plus the engine's rounding) and in a window about
                   the zero crossing, where |x| <= 256 periods and the tolerance is correspondingly tight (an offset of a fraction of a
                   sample shows at every precision).
* impulse          peak index and centroid of the response to a mid-stream impulse: k = n0*orate/irate.
* long streams     phase of a reproduced sinusoid at the start and at the END of streams of up to 1e8 frames (the input is generated
                   and the least-squares fit against the property's own time axis t_k = k*irate/orate is accumulated inside the
                   harness, in long double), both clock modes: rational ratios stay aligned; irrational ratios drift by at most
                   K*2^-32 of the longer period with the standard clock and stay inside the configured precision with SOXR_HI_PREC_CLOCK
                   (plus K*io_ratio*2^-52 input periods for io_ratio itself being a rounded double).
It is never counted as proof; the clock theorems live in the framework owner's Properties/C04.lean.
"""
import math
import numpy as np
from vlib import common
from checks import crcommon as cr
from checks import phaselib as P

PID = "C04"
HI_PREC = 8          # SOXR_HI_PREC_CLOCK


MAX_REPLAYS = 10


def viol(ctx, what, replay, no_input=False):
    """ctx.violation, but at most MAX_REPLAYS replay files from this module per run (the rest are counted)"""
    n = ctx.cov.get("numeric_violations", 0)
    ctx.cov["numeric_violations"] = n + 1
    if n < MAX_REPLAYS:
        ctx.violation(what, replay, no_input)


def eng_eps(engine):
    return 2.0 ** -22 if engine.startswith("cr32") else 2.0 ** -50


def span_of(info):
    """generous bound on the support of the end-to-end response, in input frames either side"""
    s = 64.0
    rate = 1.0                    # stage input frames per resampler input frame
    for st in info["stages"]:
        k = st["kind"]
        if k == "dft":
            s += st["numTaps"] / max(1, st["L"]) / rate
            M = st["M"]
            rate *= st["L"] / float(M if M > 0 else 1 << -M)
        elif k == "half":
            s += (2 * st["prePost"] + 4) / rate
            rate *= .5
        else:
            s += (2 * st["prePost"] + 8) / rate
            den, step = float(st["den"]), float(st["step"])
            rate *= den / step if step else 1
    return int(s) + 64


# ------------------------------------------------------------------ ramp read-back

def ramp_job(c):
    try:
        info, _ = P.run(c)
        if "error" in info or "plan" not in info:
            return {"cfg": c, "skipped": info.get("error", "not the constant-rate engine")}
        ir, orr = float(c["ir"]), float(c["orr"])
        span = span_of(info)
        N = int(max(20000, 6 * span, 4000 * ir / orr + 4 * span))
        nc = N // 2
        x = np.arange(N, dtype=np.float64) - nc            # the ramp crosses zero mid-stream: what the images leave is proportional to |x|
        info, y = P.run(c, x)
        if "error" in info:
            return {"cfg": c, "error": info["error"]}
        k = np.arange(len(y), dtype=np.float64)
        t = k * (ir / orr)
        good = (t >= 2 * span) & (t <= N - 1 - 2 * span)
        wc = 256.0 * max(1.0, ir / orr)
        centre = good & (np.abs(t - nc) <= wc)
        if good.sum() < 16 or centre.sum() < 8:
            return {"cfg": c, "skipped": "stream too short for the filter (%d frames usable)" % int(good.sum())}
        err = y[good] - (t[good] - nc)
        i = int(np.argmax(np.abs(err)))
        errc = y[centre] - (t[centre] - nc)
        # a dft stage transforms whole blocks: the rounding of its FFT is proportional to the largest magnitude INSIDE the block, not to the local
        # value, so about the zero crossing the ramp may be off by what numbers of size (half a block, in input frames) cost
        rate, blk = 1.0, 0.0
        for st in info["stages"]:
            if st["kind"] == "dft" and st.get("L"):
                blk = max(blk, st["dftLen"] / st["L"] / rate)
            rate *= 0.5 if st["kind"] == "half" else (st["L"] / st["M"] if st["kind"] == "dft" and st.get("M", 0) > 0 else
                                                      st["den"] / st["step"] if st.get("step") else 1.0)
        return {"cfg": c, "engine": info["engine"], "bits": P.bits_of(info), "N": N, "span": span, "n": int(good.sum()),
                "err": float(np.abs(err).max()), "mean": float(err.mean()), "at": float(t[good][i]), "out": len(y),
                "errc": float(np.abs(errc).max()), "wc": max(wc + span, min(N / 2.0, blk)), "plan": P.plan_strs(info), "sig": P.plan_sig(info),
                "hiprec": any(s.get("hiprec") == 1 for s in info["stages"]), "irrational": P.impl_period(info) is None, "io_ratio": ir / orr}
    except Exception as e:      # noqa
        return {"cfg": c, "error": repr(e)[-500:]}


def ramp_tolerance(r):
    bits = r["bits"] or 16.0
    # images of a ramp of height N at the configured rejection + rounding of numbers of size N in the engine's arithmetic
    u = 2.0 ** (1 - bits) + 8 * eng_eps(r["engine"])
    K = r["out"]
    clock = K * r["io_ratio"] * 2.0 ** -52              # io_ratio is a rounded double
    if r["irrational"]:
        clock += K * max(1.0, r["io_ratio"]) * (2.0 ** -95 if r["hiprec"] else 2.0 ** -32)      # the property's own bound for the clock
    return r["N"] / 2.0 * u + clock, r["wc"] * u + clock + 1e-12     # whole stream (|x| <= N/2), window about the zero crossing (|x| <= wc)


# ------------------------------------------------------------------ impulse

def impulse_job(c):
    try:
        info, _ = P.run(c)
        if "error" in info or "plan" not in info:
            return {"cfg": c, "skipped": info.get("error", "not the constant-rate engine")}
        ir, orr = float(c["ir"]), float(c["orr"])
        span = span_of(info)
        fr = P.exact_fraction(c)
        if fr and fr[1] > 4096:
            fr = None
        N = int(max(8192, 8 * span))
        n0 = N // 2
        if fr:
            n0 -= n0 % fr[1]          # n0*L/M an integer: the response has a sample exactly at the input instant
        x = np.zeros(N); x[n0] = 1.0
        info, y = P.run(c, x)
        k = np.arange(len(y), dtype=np.float64)
        kc = n0 * orr / ir
        w = (k > kc - 3 * span * orr / ir) & (k < kc + 3 * span * orr / ir)
        s0 = y[w].sum()
        cen = float((k[w] * y[w]).sum() / s0) if s0 else float("nan")
        return {"cfg": c, "engine": info["engine"], "bits": P.bits_of(info), "n0": n0, "kc": kc, "peak": int(np.argmax(np.abs(y))),
                "centroid": cen, "sum": float(s0), "exact": bool(fr), "ratio": orr / ir, "top": float(np.abs(y).max()), "sig": P.plan_sig(info),
                "plan": P.plan_strs(info), "nsup": int(w.sum())}
    except Exception as e:      # noqa
        return {"cfg": c, "error": repr(e)[-500:]}


# ------------------------------------------------------------------ long streams

def long_job(job):
    c, N = job["cfg"], job["N"]
    try:
        info, _ = P.run(c)
        if "error" in info or "plan" not in info:
            return {"job": job, "skipped": info.get("error", "not the constant-rate engine")}
        ir, orr = float(c["ir"]), float(c["orr"])
        span = span_of(info)
        No = int(N * orr / ir)
        wl = int(min(20000, No // 8))
        a0 = int(3 * span * orr / ir) + 16
        wins = [(a0, a0 + wl), (No // 2, No // 2 + wl), (No - a0 - wl, No - a0)]
        f = job["x"] * float(info["q"]["pb"]) * 0.5 * min(1.0, orr / ir)
        info2, _ = P.run(c, mode="sine", n=N, f=repr(f), amp=0.5, ph0=0.3141, block=job.get("block", 1 << 16),
                         win=",".join("%d:%d" % w for w in wins), timeout=7200)
        if "error" in info2:
            return {"job": job, "error": info2["error"]}
        res = []
        for w in info2["wins"]:
            res.append({"k": (w["a"] + w["b"]) // 2, "amp": math.hypot(w["A"], w["B"]), "dt": math.atan2(w["B"], w["A"]) / (2 * math.pi * f),
                        "rms": float(w["rms"])})
        hi = any(s.get("hiprec") == 1 for s in info["stages"])
        irr = P.impl_period(info) is None
        return {"job": job, "engine": info["engine"], "bits": P.bits_of(info), "f": f, "wins": res, "out": info2["r"]["out"], "in": info2["r"]["in"],
                "hiprec": hi, "hiprec_requested": bool(int(c.get("qflags", 0) or 0) & HI_PREC), "irrational": irr, "io_ratio": ir / orr, "sig": P.plan_sig(info), "plan": P.plan_strs(info)}
    except Exception as e:      # noqa
        return {"job": job, "error": repr(e)[-500:]}


def long_tolerance(r, w):
    """allowed |timing error| in input periods after w['k'] output frames"""
    K = w["k"]
    bits = r["bits"] or 16.0
    io = r["io_ratio"]
    fit = (2.0 ** (1 - bits) + 8 * eng_eps(r["engine"])) / (2 * math.pi * r["f"])           # what the fit of a tone at the configured precision resolves
    tol = fit + K * io * 2.0 ** -52                                                           # io_ratio is a rounded double
    if r["irrational"]:
        # the property's own bound for the clock - the hi-prec one whenever the CALLER asked for it (precision 0, the cubic stage, has nothing to hold)
        want_hi = r["hiprec"] or (r.get("hiprec_requested") and (r["bits"] or 0) > 0)
        tol += K * max(1.0, io) * (2.0 ** -95 if want_hi else 2.0 ** -32)
    return tol


# ------------------------------------------------------------------ configurations

RATIONAL = [(44100, 48000), (48000, 44100), (1, 2), (2, 1), (3, 2), (2, 3), (1, 128), (96000, 44100), (8, 1), (1, 3), (5, 1), (1, 16), (147, 160),
            (8000, 44100), (192000, 48000), (1, 7), (7, 1), (4, 5)]
IRRATIONAL = [(3.14159, 1), (1, 1.41421356), (44100, 48001), (1, 2.718281828), (48000.5, 44100), (1.0000001, 1), (1, 1.0000003), (7.999, 1), (1, 63.99)]


def configs(rng, n, kinds=("rat", "irr")):
    out = []
    for i in range(n):
        kind = kinds[i % len(kinds)]
        if rng.chance(.25):
            ir, orr = cr.gen_rates(rng, max_up=260.0, max_down=400.0)
        else:
            ir, orr = rng.choice(RATIONAL if kind == "rat" else IRRATIONAL)
        rec = rng.choice([1, 2, 3, 4, 4, 5, 6, 6, 7])
        qf = rng.choice([0, 0, HI_PREC, HI_PREC, 2])
        c = P.mkcfg(float(ir), float(orr), rec, qf, rng.below(2))
        if rng.chance(.2):
            c["min"], c["large"] = 8 + rng.below(8), 13 + rng.below(8)
        if rng.chance(.15):
            c["rtflags"] = rng.choice([1, 2, 3, 8])
        out.append(c)
    return out


def confirm(cfg, env):
    """Search one configuration (keys of checks/crcommon.py) for a concrete misalignment on the real code: ramp read-back.
    Returns a description of what was measured, or None when the ramp reads back within tolerance."""
    c = P.mkcfg(float(cfg["ir"]), float(cfg["or"]), int(cfg.get("recipe", 4)), int(cfg.get("qflags", 0)), 0 if (env or {}).get("SOXR_USE_SIMD") == "0" else 1)
    for k in ("prec", "min", "large", "kb", "rtflags", "phase", "pb", "sb"):
        if k in cfg:
            c[k] = cfg[k]
    P.harness()
    r = ramp_job(c)
    if "err" not in r:
        return None
    tol, tolc = ramp_tolerance(r)
    if r["err"] > tol or r["errc"] > tolc:
        return ("ramp read-back over %d frames: output frame at t = %.3f reads %.6g input periods off t_k = k*irate/orate (tolerance %.3g); about the zero "
                "crossing %.6g (tolerance %.3g)" % (r["N"], r["at"], r["err"], tol, r["errc"], tolc))
    return None


def confirm_long(cfg, env, N=12000000, as_rational=False):
    """Search one configuration for a concrete drift on the real code: a tone through N input frames, its phase fitted near the start, the
    middle and the end.  Returns a description (with the stream as the failing input) or None."""
    c = P.mkcfg(float(cfg["ir"]), float(cfg["or"]), int(cfg.get("recipe", 4)), int(cfg.get("qflags", 0)), 0 if (env or {}).get("SOXR_USE_SIMD") == "0" else 1)
    for k in ("prec", "min", "large", "kb", "rtflags", "phase", "pb", "sb"):
        if k in cfg:
            c[k] = cfg[k]
    P.harness()
    io = float(cfg["ir"]) / float(cfg["or"])
    r = long_job({"cfg": c, "N": int(N * max(1.0, io)), "x": 0.47, "block": 1 << 16})
    if "wins" not in r:
        return None
    if as_rational:          # the ratio is one the property wants exact: no allowance for a rounded clock
        r = dict(r, irrational=False)
    for w in r["wins"]:
        tol = long_tolerance(r, w)
        if abs(w["dt"]) > tol:
            return ("a %.4f cycles/frame tone of amplitude 0.5 through %d input frames is reproduced %.3g input periods off the time axis t_k = k*irate/orate "
                    "after %d output frames (tolerance %.3g; fitted near the start: %.3g)" % (r["f"], r["in"], w["dt"], w["k"], tol, r["wins"][0]["dt"]))
    return None


def run_numeric(ctx, quick):
    """numeric falsifier of C04; `ctx` is the C04 check's context"""
    rng = ctx.rng
    P.harness()
    distinct = set()

    # --- ramp read-back
    res = P.pool_map(ramp_job, configs(rng, 48 if quick else 400))
    worst = 0.0
    for r in res:
        ctx.count("numeric_ramp_runs")
        if "skipped" in r:
            ctx.count("numeric_skipped"); continue
        if "error" in r:
            viol(ctx, "C04 numeric: ramp run failed: %s (%s)" % (r["error"], P.label(r["cfg"])), {"cfg": r["cfg"], "oracle": "ramp"}, no_input=True)
            continue
        tol, tolc = ramp_tolerance(r)
        worst = max(worst, r["err"] / tol, r["errc"] / tolc)
        distinct.add(("ramp", r["sig"]))
        ctx.hist("dist_numeric_engine", r["engine"])
        ctx.count("numeric_ramp_frames_compared", r["n"])
        if r["err"] > tol or r["errc"] > tolc:
            viol(ctx, "C04 fails on the real code: ramp read-back: about the ramp's zero crossing the output reads up to %.6g input periods off t_k = k*irate/orate "
                          "(tolerance %.3g); over the whole stream up to %.6g at t = %.3f (tolerance %.3g = N/2*(2^(1-bits) + 8 eps), N = %d, mean offset %.3g) (%s)" % (
                              r["errc"], tolc, r["err"], r["at"], tol, r["N"], r["mean"], P.label(r["cfg"])),
                          {"cfg": r["cfg"], "oracle": "ramp", "N": r["N"], "err": r["err"], "err_centre": r["errc"], "mean": r["mean"], "tolerance": [tol, tolc], "plan": r["plan"]})
        else:
            ctx.sample({"oracle": "ramp", "cfg": P.label(r["cfg"]), "N": r["N"], "max_err_input_periods": r["err"], "tolerance": tol,
                        "max_err_about_zero_crossing": r["errc"], "tolerance_there": tolc})
    ctx.cov["numeric_ramp_worst_fraction_of_tolerance"] = round(worst, 4)

    # --- impulse peak / centroid
    res = P.pool_map(impulse_job, configs(rng, 32 if quick else 300))
    worst = 0.0
    for r in res:
        ctx.count("numeric_impulse_runs")
        if "skipped" in r:
            ctx.count("numeric_skipped"); continue
        if "error" in r:
            viol(ctx, "C04 numeric: impulse run failed: %s (%s)" % (r["error"], P.label(r["cfg"])), {"cfg": r["cfg"], "oracle": "impulse"}, no_input=True)
            continue
        distinct.add(("impulse", r["sig"]))
        bits = r["bits"] or 16.0
        # centroid of a symmetric unit-DC-gain response is its centre; the images left at 2^-bits over `nsup` frames may move it
        tol_c = (2.0 ** (1 - bits) + 8 * eng_eps(r["engine"])) * r["nsup"] * max(1.0, r["ratio"]) + 1e-9
        dc = abs(r["centroid"] - r["kc"])
        worst = max(worst, dc / tol_c)
        bad = None
        if not (dc <= tol_c):
            bad = "centroid of the impulse response at output frame %.6f, the impulse is at %.6f (tolerance %.3g)" % (r["centroid"], r["kc"], tol_c)
        elif abs(r["peak"] - r["kc"]) > (0.5 if r["exact"] else 1.0) * max(1.0, 1.0):
            bad = "impulse response peaks at output frame %d, the impulse is at %.4f" % (r["peak"], r["kc"])
        if bad:
            viol(ctx, "C04 fails on the real code: %s (%s)" % (bad, P.label(r["cfg"])),
                          {"cfg": r["cfg"], "oracle": "impulse", "n0": r["n0"], "peak": r["peak"], "centroid": r["centroid"], "expected": r["kc"], "plan": r["plan"]})
    ctx.cov["numeric_impulse_worst_fraction_of_tolerance"] = round(worst, 4)

    # --- long streams, both clocks
    jobs = []
    lengths = [200000, 2000000, 10000000] if quick else [1000000, 10000000, 100000000]
    base = [((44100, 48000), 4, 0), ((48000, 44100), 6, HI_PREC), ((3.14159, 1), 4, 0), ((3.14159, 1), 4, HI_PREC), ((1, 1.41421356), 6, 0),
            ((1, 1.41421356), 6, HI_PREC), ((44100, 48001), 4, 0), ((44100, 48001), 5, HI_PREC), ((1, 2), 4, 0), ((147, 160), 3, 0),
            ((1.0000001, 1), 4, 0), ((1.0000001, 1), 6, HI_PREC), ((96000, 44100), 7, HI_PREC), ((7.999, 1), 4, 0),
            ((3.14159, 1), 1, HI_PREC), ((1, 1.41421356), 2, HI_PREC), ((44100, 48001), 1, HI_PREC)]          # 16-bit recipes with the hi-prec clock (F37)
    if quick:
        base = [base[i] for i in sorted(set([2, 3, 14 + rng.below(3)] + [rng.below(len(base)) for _ in range(4)]))]
    for (ir, orr), rec, qf in base:
        for N in lengths:
            if N >= 100000000 and rng.chance(.5) and not (qf == 0 and ir == 3.14159):
                continue          # the 1e8-frame streams: the standard-clock irrational one always, a random half of the others
            jobs.append({"cfg": P.mkcfg(float(ir), float(orr), rec, qf, rng.below(2)), "N": int(N * max(1.0, float(ir) / float(orr)) if N < 100000000 else N),
                         "x": rng.choice([0.23, 0.47, 0.71]), "block": rng.choice([1 << 16, 50000, 8192])})
    res = P.pool_map(long_job, jobs)
    worst = 0.0
    drift_seen = 0.0
    for r in res:
        ctx.count("numeric_long_runs")
        if "skipped" in r:
            ctx.count("numeric_skipped"); continue
        if "error" in r:
            viol(ctx, "C04 numeric: long-stream run failed: %s (%s)" % (r["error"], P.label(r["job"]["cfg"])), {"job": r["job"], "oracle": "long"}, no_input=True)
            continue
        job = r["job"]
        distinct.add(("long", r["sig"], r["hiprec"], r["irrational"]))
        ctx.hist("dist_numeric_long_frames", "1e%d" % int(round(math.log10(job["N"]))))
        ctx.hist("dist_numeric_clock", ("hi-prec" if r["hiprec"] else "standard") + ("/irrational" if r["irrational"] else "/rational"))
        ctx.count("numeric_long_frames", job["N"])
        for w in r["wins"]:
            tol = long_tolerance(r, w)
            worst = max(worst, abs(w["dt"]) / tol)
            if r["irrational"] and not r["hiprec"]:
                drift_seen = max(drift_seen, abs(w["dt"]))
            if abs(w["dt"]) > tol or abs(20 * math.log10(max(w["amp"], 1e-300))) > 0.4:
                viol(ctx, "C04 fails on the real code: after %d output frames (of %d input frames) a %.4f cycles/frame tone is reproduced %.3g input periods "
                              "off the time axis t_k = k*irate/orate (tolerance %.3g; amplitude %.6f) (%s, %s clock, %s)" % (
                                  w["k"], job["N"], r["f"], w["dt"], tol, w["amp"], P.label(job["cfg"]), "hi-prec" if r["hiprec"] else "standard",
                                  "irrational" if r["irrational"] else "rational"),
                              {"job": job, "oracle": "long", "window": w, "tolerance": tol, "plan": r["plan"]})
                break
        else:
            ctx.sample({"oracle": "long", "cfg": P.label(job["cfg"]), "N": job["N"], "clock": "hi-prec" if r["hiprec"] else "standard",
                        "irrational": r["irrational"], "timing_error_input_periods": [w["dt"] for w in r["wins"]]})
    ctx.cov["numeric_long_worst_fraction_of_tolerance"] = round(worst, 4)
    ctx.cov["numeric_standard_clock_largest_drift_input_periods"] = drift_seen
    ctx.cov["numeric_distinct_nontrivial"] = len(distinct)
    ctx.assume("numeric half of C04: measurement on the real library (float64 I/O); tolerances: ramp |x|max*(2^(1-bits) + 8 eps_engine); long streams "
               "(2^(1-bits) + 8 eps)/(2 pi f) + K*io_ratio*2^-52 (+ K*2^-32*max(1, io_ratio) standard clock / K*2^-95 hi-prec clock for irrational ratios)")
