"""C11 Format conversion: exact scaling, round-to-nearest, saturation, clip count.

proof stage   lean/SoxrModel/Conv (model of rint-clip.h / data-io.c on exact dyadics) + Properties/C11.lean, constants
              regenerated from /repo by harness/conv/gen.c, axiom audit
correspondence the real kernels (_soxr_interleave(_f), _soxr_deinterleave(_f): all 12 rint variants, the float casts) and
              the public API at equal rates / unit gain, against the compiled model `soxr_conv` on the same bit patterns:
              output bit patterns, clip counts, dither seed, pointer advance, x87 flag must be identical
falsifier     exact-rational property oracles on the real code's answers (nearest-even, saturation, clip count, dither
              bound, exact pass-through where representable, SOXR_NO_DITHER determinism); thorough: all 2^32 float32
              patterns on the C side against an SSE-computed oracle + monotonicity
"""
import glob, json, os, subprocess, time
from fractions import Fraction
from vlib import common
from checks import conv_gen as G

LEVEL = "proof"
PID = "C11"
MAXLINE = 8192            # samples per protocol line (bounds the model's recursion depth)


# ------------------------------------------------------------------ case generation

def mix(rng, pool, n, eng):
    """n samples: mostly boundary patterns of the pool, some near-integer values, some arbitrary bit patterns."""
    out = []
    w = G.WIDTH[eng]
    for _ in range(n):
        r = rng.below(100)
        if r < 60:
            out.append(rng.choice(pool))
        elif r < 85:
            k = rng.choice((0, 1, 2, 3, 100, 32766, 32767, 32768, (1 << 31) - 1, 1 << 31)) * (1 if rng.chance(.5) else -1)
            v = k + rng.choice((0, .5, -.5, .25, -.25, .499999, .500001, 31 / 32., -31 / 32., 1 / 32.)) + (rng.uniform(-1, 1) if rng.chance(.3) else 0)
            out.append(G.f64b(v) if eng == "f64" else G.f32b(max(-3e38, min(3e38, v))))
        else:
            out.append(rng.next() & ((1 << w) - 1))
    return out


def walk(pool, rng, lo=17, hi=49):
    """the whole pool, in order, cut into lengths lo..hi (so that unrolled body and tail both see every pattern)."""
    i, out = 0, []
    while i < len(pool):
        n = lo + rng.below(hi - lo + 1)
        out.append(pool[i:i + n])
        i += n
    return out


def channelise(chunk, ch):
    """a flat list -> (n, patterns channel-major) using n = len // ch samples per channel."""
    n = len(chunk) // ch
    return n, chunk[:n * ch]


def gen_cases(ctx):
    rng, quick = ctx.rng, ctx.quick
    reps = 1 if quick else 6
    cases = []
    pools = {"f32": G.pool_f32(), "f64": G.pool_f64(dither=True), "i16": G.pool_i16(), "i32": G.pool_i32()}
    ctx.cov["pool_sizes"] = {k: len(v) for k, v in pools.items()}
    engs = (("f", "f32"), ("d", "f64"))
    # --- the 12 rint kernels: {float, double} x {int32, int16, int16 + dither} x {mono, strided}
    for e, st in engs:
        pool = pools[st]
        for ot, dith in (("i32", False), ("i16", False), ("i16", True)):
            kern = "il-%s-%s%s" % (e, ot, "-dith" if dith else "")
            for multi in (False, True):
                for _ in range(reps):
                    for n in range(0, 50):
                        ch = (2 + rng.below(3)) if multi else 1
                        cases.append(G.Case(kern, n, ch, rng.next() if dith or rng.chance(.3) else 0, 0, mix(rng, pool, n * ch, st), st, "len"))
                ch = 2 if multi else 1
                for chunk in walk(pool, rng, 17 * ch, 49 * ch):
                    n, pats = channelise(chunk, ch)
                    cases.append(G.Case(kern, n, ch, rng.next(), 0, pats, st, "pool"))
                # many seeds on few operands: dither statistics, seed advance
                if dith:
                    for _ in range(40 * reps):
                        n = rng.choice((1, 15, 16, 17, 33, 48))
                        ch = 2 if multi else 1
                        base = G.f64b if st == "f64" else G.f32b
                        vals = [base(float(rng.choice((0, 1, -1, 5, 100, -100, 32766, -32767, 12345))) + rng.choice((0., 0., .5, -.5, .25))) for _ in range(n * ch)]
                        cases.append(G.Case(kern, n, ch, rng.next(), 0, vals, st, "seeds"))
                # stale x87 flag on entry (outside the property's hypotheses; the model follows the code there too)
                for n in (1, 3, 15, 16, 17, 31, 32, 40):
                    ch = 2 if multi else 1
                    cases.append(G.Case(kern, n, ch, rng.next(), 1, mix(rng, pool, n * ch, st), st, "stale-flag"))
    # --- floating-point outputs of interleave (casts, memcpy for the same type)
    for e, st in engs:
        pool = pools[st]
        for ot in ("f32", "f64"):
            kern = "il-%s-%s" % (e, ot)
            for ch in (1, 2, 3):
                for n in list(range(0, 50, 1 if not quick else 3)):
                    cases.append(G.Case(kern, n, ch, 0, 0, mix(rng, pool, n * ch, st), st, "len"))
            for ch in (1, 2):
                for chunk in walk(pool, rng, 200, 400):
                    n, pats = channelise(chunk, ch)
                    cases.append(G.Case(kern, n, ch, 0, 0, pats, st, "pool"))
    # --- deinterleave: 4 input types x 2 engines
    for e, st in engs:
        for it in G.TYPES:
            kern = "de-%s-%s" % (e, it)
            pool = pools[it]
            for ch in (1, 2, 3):
                for n in list(range(0, 50, 1 if not quick else 3)):
                    src = pool if it in ("f32", "f64") else None
                    pats = mix(rng, pool, n * ch, it) if src else [rng.choice(pool) for _ in range(n * ch)]
                    cases.append(G.Case(kern, n, ch, 0, 0, pats, it, "len"))
            for ch in (1, 2):
                if quick and ch == 2 and it == "i16":
                    continue
                for chunk in walk(pool, rng, 1000, 4000):
                    n, pats = channelise(chunk, ch)
                    cases.append(G.Case(kern, n, ch, 0, 0, pats, it, "pool"))
    return cases, pools


def api_value_ok(it, ot, b):
    """operands the unit-gain path may see when a scaling stage (the cubic stage at x = 0) is present: finite, moderate."""
    if G.FS_LOG2[it] == G.FS_LOG2[ot]:
        return True
    v = G.decode(it, b)
    return v[0] == "fin" and abs(v[1]) < (1 << 40)


def gen_api_cases(ctx, pools):
    rng, quick = ctx.rng, ctx.quick
    cases = []
    scaled = {}
    for it in G.TYPES:
        for ot in G.TYPES:
            j = G.FS_LOG2[ot] - G.FS_LOG2[it]
            if it in ("f32", "f64"):
                key = (it, j)
                if key not in scaled:
                    scaled[key] = [b for b in (G.pool_f32(j) if it == "f32" else G.pool_f64(j)) if api_value_ok(it, ot, b)]
                pool = scaled[key]
            else:
                pool = pools[it]
            for e in ("f", "d"):
                for lay in ("ii", "is", "si", "ss"):
                    for ch in ((1, 2) if quick else (1, 2, 3)):
                        if quick and lay in ("is", "si") and ch == 1:
                            continue
                        for n in ((1, 16, 37) if quick else (0, 1, 2, 15, 16, 17, 33, 49, 150)):
                            pats = [rng.choice(pool) for _ in range(n * ch)]
                            cases.append(G.Case("api-%s-%s-%s-%s" % (e, it, ot, lay), n, ch, rng.next(), 0, pats, it, "api"))
                            if ot == "i16":
                                cases.append(G.Case("api-%s-%s-%s-%s-dith" % (e, it, ot, lay), n, ch, rng.next(), 0, pats, it, "api-dith"))
                # the pull API: soxr_output requests that each need several rounds of an input function that supplies short pieces
                for lay in ("ii", "is", "si", "ss"):
                    for ch in (1, 2):
                        for n in ((37, 150) if quick else (1, 16, 37, 150, 400)):
                            pats = [rng.choice(pool) for _ in range(n * ch)]
                            cases.append(G.Case("api-%s-%s-%s-%s-pull" % (e, it, ot, lay), n, ch, rng.next(), 0, pats, it, "api"))
                # object histories: after soxr_clear (re-initialisation), and deferred initialisation through soxr_set_io_ratio
                for hist in ("clr", "lazy"):
                    for ch in (1, 2):
                        for n in ((3, 37) if quick else (1, 4, 16, 37, 150)):
                            pats = [rng.choice(pool) for _ in range(n * ch)]
                            cases.append(G.Case("api-%s-%s-%s-ii-%s" % (e, it, ot, hist), n, ch, rng.next(), 0, pats, it, "api"))
                # every other way of asking for this engine class ("-qRRFF": recipe, quality flags): the 32-bit engines through
                # SOXR_QQ / SOXR_LQ / 20-bit recipe, the 64-bit ones through the 32-bit recipe or SOXR_DOUBLE_PRECISION on any recipe
                for qsel in (("q0000", "q0100", "q0300") if e == "f" else ("q0010", "q0410", "q0700", "q0110")):
                    for ch in (1, 2):
                        n = 37 if ch == 1 else 16
                        pats = [rng.choice(pool) for _ in range(n * ch)]
                        cases.append(G.Case("api-%s-%s-%s-ii-%s" % (e, it, ot, qsel), n, ch, rng.next(), 0, pats, it, "api"))
                # the whole pool once per pair and engine (interleaved, mono)
                step = 1 if not quick else max(1, len(pool) // 6000)
                sub = pool[::step]
                for i in range(0, len(sub), 3000):
                    cases.append(G.Case("api-%s-%s-%s-ii" % (e, it, ot), len(sub[i:i + 3000]), 1, 0, 0, sub[i:i + 3000], it, "api-pool"))
    return cases


# ------------------------------------------------------------------ running, comparing

def oracle_for(case):
    k = case.kern
    return G.oracle_interleave if k.startswith("il-") else G.oracle_deinterleave if k.startswith("de-") else G.oracle_api


def first_diff(a, b):
    pa, pb = G.parse_out(a), G.parse_out(b)
    if not pa or not pb:
        return None
    for i, (x, y) in enumerate(zip(pa[0], pb[0])):
        if x != y:
            return i
    return None


def pat_index(case, out_idx):
    """index into case.pats of the operand that produced output element out_idx."""
    if out_idx is None:
        return None
    k = case.kern
    if k.startswith("il-"):
        i, c = out_idx // case.ch, out_idx % case.ch
        return c * case.n + i
    if k.startswith("de-"):
        c, j = out_idx // max(case.n, 1), out_idx % max(case.n, 1)
        return j * case.ch + c
    return out_idx


_SHARED = {}


def _oracle_chunk(rng_):
    cases, impl = _SHARED["cases"], _SHARED["impl"]
    out = []
    for i in range(*rng_):
        c = cases[i]
        p = G.parse_out(impl[i])
        out.append([] if (p is None or c.tag == "stale-flag") else oracle_for(c)(c, p[0], p[1])[:4])
    return out


def oracle_all(cases, impl):
    """property oracles over all cases, in forked worker processes (exact rational arithmetic is slow in one)."""
    import multiprocessing as mp
    _SHARED["cases"], _SHARED["impl"] = cases, impl
    n = len(cases)
    step = max(1, n // (common.NCPU * 8))
    ranges = [(i, min(n, i + step)) for i in range(0, n, step)]
    try:
        with mp.get_context("fork").Pool(common.NCPU) as pool:
            res = pool.map(_oracle_chunk, ranges)
    except (OSError, ValueError):
        res = [_oracle_chunk(r) for r in ranges]
    return [v for r in res for v in r]


class Runner:
    def __init__(self, ctx, exe):
        self.ctx, self.exe = ctx, exe
        self.have_model = G.model_available()

    def impl(self, lines):
        return G.run_lines(self.exe, lines)

    def model(self, lines):
        return G.run_lines(G.MODEL, lines)

    def disagree(self, case):
        a = self.impl([case.line()])[0]
        b = self.model([case.line()])[0]
        return a != b

    def oracle_fails(self, case):
        a = self.impl([case.line()])[0]
        p = G.parse_out(a)
        return p is None or bool(oracle_for(case)(case, p[0], p[1]))


def report(ctx, runner, case, kind, detail, impl_line, model_line, idx):
    """shrinks and records one violation."""
    fails = runner.disagree if kind == "correspondence" else runner.oracle_fails
    small = G.shrink(case, fails, idx)
    a = runner.impl([small.line()])[0]
    b = runner.model([small.line()])[0] if runner.have_model else ""
    rep = small.replay()
    rep.update({"mechanism": kind, "implementation_says": a[:2000], "model_says": b[:2000], "detail": detail[:1500],
                "how_to_replay": "echo '<line>' | %s   (and | %s for the model)" % (runner.exe, G.MODEL),
                "original_case": {"kernel": case.kern, "n": case.n, "channels": case.ch, "tag": case.tag}})
    p = G.parse_out(a)
    orc = oracle_for(small)(small, p[0], p[1]) if p else ["implementation crashed or printed no result: " + a[:200]]
    rep["property_oracle_on_shrunk_case"] = orc[:5]
    return rep, bool(orc)


def run(ctx):
    broken = common.proof_stage(ctx, ["SoxrModel.Properties.C11"], "C11", exes=("soxr_conv",), gens=("Conv",))
    exe = common.build_harness("conv", ["conv/conv.c"], variant="rel")
    runner = Runner(ctx, exe)
    ctx.assume(
        "x87 status word: invalid-operation flag clear on entry to every conversion (a stale flag saturates the first tail sample; "
        "modelled and exercised by the correspondence, outside the property's quantifier)",
        "x86-64 SysV build: unsigned long = 64 bits, double arithmetic in SSE2 (one rounding per operation), default x87 control word; "
        "fistp of NaN/Inf/out-of-range stores the integer indefinite and sets IE (observed on every run)",
        "sample counts below 2^31 per call (the harness passes at most a few thousand)",
        "pass-through at equal rates: the engine (FIFO copy, or the cubic stage at fraction 0 when a full-scale factor applies) is "
        "exercised on the real code only; the model covers the conversion / scaling arithmetic",
    )
    if getattr(ctx, "replay", None):
        return replay(ctx, runner)

    t0 = time.time()
    cases, pools = gen_cases(ctx)
    cases += gen_api_cases(ctx, pools)
    for f in sorted(glob.glob(os.path.join(common.VERIF, "corpus", "C11", "*.line"))):
        for l in open(f):
            c = parse_case(l)
            if c:
                cases.insert(0, c)
    lines = [c.line() for c in cases]
    ctx.cov["gen_s"] = round(time.time() - t0, 1)

    t0 = time.time()
    impl = runner.impl(lines)
    ctx.cov["impl_s"] = round(time.time() - t0, 1)
    t0 = time.time()
    with_model = [i for i, c in enumerate(cases) if "api" not in c.tag or "dith" not in c.tag]
    model = {}
    if runner.have_model:
        outs = runner.model([lines[i] for i in with_model])
        model = dict(zip(with_model, outs))
    else:
        broken.append("model executable soxr_conv is not available (lake build failed)")
    ctx.cov["model_s"] = round(time.time() - t0, 1)

    # ---------- correspondence
    viol = []          # (case, kind, detail, impl_line, model_line, idx)
    nsamples = 0
    kinds = {}
    for i, c in enumerate(cases):
        nsamples += len(c.pats)
        key = c.kern + ("/multi" if c.ch > 1 else "/mono")
        kinds[key] = kinds.get(key, 0) + len(c.pats)
        if i in model and impl[i] != model[i]:
            od = first_diff(impl[i], model[i])
            viol.append((c, "correspondence", "implementation and model print different lines", impl[i], model[i], pat_index(c, od)))
    ctx.count("correspondence_lines", len(model))
    ctx.count("correspondence_samples", sum(len(cases[i].pats) for i in model))
    ctx.cov["samples_per_kernel_variant"] = kinds
    ctx.cov["kernel_variants"] = len(kinds)
    ctx.cov["rint_kernel_variants"] = len([k for k in kinds if k.startswith("il-") and k.split("-")[2][0] == "i"])
    ctx.cov["lengths_covered"] = sorted(set(c.n for c in cases if c.kern.startswith("il-")))[:60]

    # ---------- falsifier: property oracles on the implementation's answers
    t0 = time.time()
    distinct = set()
    clipped = dith_changed = dith_total = nonfinite = ties = 0
    verdicts = oracle_all(cases, impl)
    for i, c in enumerate(cases):
        p = G.parse_out(impl[i])
        if p is None:
            viol.append((c, "oracle", "implementation crashed or printed no result: " + impl[i][:300], impl[i], model.get(i, ""), None))
            continue
        if c.tag == "stale-flag":
            continue
        fails = verdicts[i]
        if fails:
            idx = None
            for tok in fails[0].replace(":", " ").split():
                if tok.isdigit():
                    idx = int(tok); break
            viol.append((c, "oracle", "; ".join(fails[:3]), impl[i], model.get(i, ""), idx))
        clipped += p[1]["c"]
        ctx.hist("clips_per_call", min(p[1]["c"], 8))
        for b in c.pats[:64]:
            distinct.add((c.itype, b))
    ctx.cov["oracle_s"] = round(time.time() - t0, 1)

    # ---------- SOXR_NO_DITHER determinism / dither activity through the public API
    det_cases = [c for c in cases if c.tag == "api" and c.kern.split("-")[3] == "i16"][: (60 if ctx.quick else 400)]
    a1 = runner.impl([c.line() for c in det_cases])
    alt = []
    for c in det_cases:
        d = G.Case(c.kern, c.n, c.ch, c.seed ^ 0x5DEECE66D1234567, 0, c.pats, c.itype, c.tag)
        alt.append(d)
    a2 = runner.impl([c.line() for c in alt])
    for c, x, y in zip(det_cases, a1, a2):
        px, py = G.parse_out(x), G.parse_out(y)
        if px is None or py is None or px[0] != py[0] or px[1]["c"] != py[1]["c"]:
            viol.append((c, "oracle", "SOXR_NO_DITHER output depends on the seed state", x, y, None))
    ctx.count("no_dither_determinism_pairs", len(det_cases))
    # ---------- the environment overrides (INSTALL: SOXR_* variables tune the engines) do not touch the format conversion: the same
    #            undithered API cases under each of them give the same samples and the same clip count
    env_cases = [c for c in cases if c.tag == "api" and "dith" not in c.kern][:: max(1, len([c for c in cases if c.tag == "api"]) // (250 if ctx.quick else 2500))]
    base = runner.impl([c.line() for c in env_cases])
    for env in ({"SOXR_NOSMALLINTOPT": "0"}, {"SOXR_NOSMALLINTOPT": "1"}, {"SOXR_COEF_INTERP": "2"}, {"SOXR_STRICT_BUF": "1"}, {"SOXR_NUM_THREADS": "2"},
                {"SOXR_USE_SIMD": "0"}, {"SOXR_USE_SIMD32": "0", "SOXR_USE_SIMD64": "1"}, {"SOXR_MIN_DFT_SIZE": "9", "SOXR_LARGE_DFT_SIZE": "11", "SOXR_COEFS_SIZE": "150"}):
        got = G.run_lines(exe, [c.line() for c in env_cases], env=env)
        ctx.count("env_override_comparisons", len(env_cases))
        for c, x, y in zip(env_cases, base, got):
            px, py = G.parse_out(x), G.parse_out(y)
            if px is None or py is None or px[0] != py[0] or px[1]["c"] != py[1]["c"]:
                viol.append((c, "oracle", "the conversion changes under the environment %s" % env, y, x, None))
                break
    dcases = [c for c in cases if c.tag == "api-dith"][: (60 if ctx.quick else 400)]
    d1 = runner.impl([c.line() for c in dcases])
    d2 = runner.impl([G.Case(c.kern, c.n, c.ch, c.seed ^ 0x9E3779B97F4A7C15, 0, c.pats, c.itype).line() for c in dcases])
    differ = sum(1 for x, y in zip(d1, d2) if (G.parse_out(x) or [0])[0] != (G.parse_out(y) or [1])[0])
    ctx.cov["dithered_api_cases_that_change_with_the_seed"] = "%d of %d" % (differ, len(dcases))
    if dcases and differ == 0:
        viol.append((dcases[0], "oracle", "int16 output with dither enabled never depends on the seed (no dither applied)", d1[0], d2[0], None))

    # ---------- thorough tier: large stratified ranges through the model, exhaustive float32 sweep on the C side
    if not ctx.quick:
        thorough(ctx, runner, viol)

    # ---------- verdicts
    ctx.count("evaluations", nsamples)
    ctx.count("distinct_nontrivial", len(distinct))
    ctx.cov["rule"] = ("cases = (kernel variant, n, channels, seed, bit patterns); patterns come from boundary pools (every exponent x "
                       "boundary mantissas x sign, +-0.25/0.5/0.75/1 around every rounding tie and saturation boundary +-2 ulp, NaN payloads, "
                       "infinities, every int16, int32 boundaries) mixed with random bits; lengths 0..49 so that unrolled body and tail run; "
                       "distinct_nontrivial = distinct (type, bit pattern) operands among the first 64 of each case")
    ctx.cov["saturated_samples_seen"] = clipped
    for c in cases[:3] + [c for c in cases if c.tag == "api"][:2]:
        ctx.sample({"line": c.line()[:300], "tag": c.tag})

    seen = set()
    nrep = 0
    viol.sort(key=lambda v: (v[1] != "oracle", len(v[0].pats)))      # true property failures first, small cases first
    with_oracle_hit = set(v[0].kern for v in viol if v[1] == "oracle")
    for c, kind, detail, il, ml, idx in viol:
        if kind == "correspondence" and c.kern in with_oracle_hit:
            continue
        key = (c.kern.split("-")[0:4].__str__(), kind)
        if key in seen or nrep >= 6:
            continue
        seen.add(key); nrep += 1
        rep, prop_fails = report(ctx, runner, c, kind, detail, il, ml, idx)
        what = "%s %s: %s | impl: %s | model: %s" % (kind, rep["kernel"], detail, rep["implementation_says"][:200], rep["model_says"][:200])
        ctx.violation(what, rep, no_input=(kind == "correspondence" and not prop_fails))
    ctx.cov["violating_cases"] = len(viol)
    if broken and not viol:
        ctx.violation("proof stage broken and no failing input found: " + "; ".join(broken)[:1500], {"broken": broken}, no_input=True)
    elif broken:
        ctx.notes.append("proof stage broken: " + "; ".join(broken)[:1500])


def parse_case(line):
    t = line.split()
    if len(t) < 6 or t[0] != "conv":
        return None
    kern = t[1]
    try:
        it = G.in_type(kern)
        return G.Case(kern, int(t[2]), int(t[3]), int(t[4], 16), int(t[5]), [int(x, 16) for x in t[6:]], it, "corpus")
    except (ValueError, KeyError, IndexError):
        return None


def replay(ctx, runner):
    d = json.load(open(ctx.replay))
    line = (d.get("replay") or {}).get("line")
    c = parse_case(line or "")
    if not c:
        ctx.notes.append("replay file has no conv line")
        return
    a = runner.impl([line])[0]
    b = runner.model([line])[0] if runner.have_model else ""
    p = G.parse_out(a)
    fails = oracle_for(c)(c, p[0], p[1]) if p else ["no result: " + a[:200]]
    print("replay line : " + line[:400])
    print("implementation: " + a[:400])
    print("model         : " + b[:400])
    print("oracle        : " + ("; ".join(fails[:3]) if fails else "ok"))
    ctx.count("evaluations", len(c.pats)); ctx.count("distinct_nontrivial", len(set(c.pats))); ctx.cov["rule"] = "replay of one stored case"
    ctx.sample({"line": line[:300]})
    if fails or (b and a != b and c.tag != "api-dith" and "dith" not in c.kern.split("-")[5:]):
        ctx.violation("replayed case still fails: " + ("; ".join(fails[:3]) or "implementation and model differ"), c.replay())


def thorough(ctx, runner, viol):
    """(a) 2^24 float32 patterns per float-input rint kernel and 2^22 float64 patterns per double-input kernel, stratified over the
    whole pattern space (odd strides), through model and implementation, compared by hash per 8192-sample call;
    (b) every float32 pattern through the real float kernels on the C side: SSE oracle, monotonicity, clip count."""
    rng = ctx.rng
    lines, meta = [], []
    per = 8192
    for kern, total, width in (("il-f-i16", 1 << 24, 32), ("il-f-i32", 1 << 24, 32), ("il-f-i16-dith", 1 << 24, 32),
                               ("il-d-i16", 1 << 22, 64), ("il-d-i32", 1 << 22, 64), ("il-d-i16-dith", 1 << 22, 64),
                               ("il-d-f32", 1 << 22, 64), ("de-f-f64", 1 << 22, 64), ("de-f-i32", 1 << 22, 32), ("de-d-f32", 1 << 22, 32)):
        calls = total // per
        stride = ((1 << width) // total) | 1
        off = rng.next() & ((1 << width) - 1)
        for k in range(calls):
            ch = 1 if k % 4 else 2
            n = per // ch
            first = (off + k * per * stride) & ((1 << width) - 1)
            lines.append("convr %s %d %d %x 0 %x %x" % (kern, n, ch, rng.next() & ((1 << 64) - 1), first, stride))
            meta.append((kern, n, ch, first, stride))
    t0 = time.time()
    a = G.run_lines(runner.exe, lines, jobs=common.NCPU)
    b = G.run_lines(G.MODEL, lines, jobs=common.NCPU) if runner.have_model else a
    ctx.cov["thorough_ranges_s"] = round(time.time() - t0, 1)
    ctx.count("thorough_range_samples", sum(m[1] * m[2] for m in meta))
    ctx.count("evaluations", sum(m[1] * m[2] for m in meta))
    bad = [i for i in range(len(lines)) if a[i] != b[i]]
    for i in bad[:3]:
        kern, n, ch, first, stride = meta[i]
        it = G.in_type(kern)
        m = (1 << G.WIDTH[it]) - 1
        seed = int(lines[i].split()[4], 16)
        c = G.Case(kern, n, ch, seed, 0, [(first + k * stride) & m for k in range(n * ch)], it, "range")
        x, y = runner.impl([c.line()])[0], runner.model([c.line()])[0]
        viol.append((c, "correspondence", "stratified range: implementation and model differ", x, y, pat_index(c, first_diff(x, y))))
    # (b) exhaustive C-side sweep, 2^32 patterns per kernel, split over the cores
    t0 = time.time()
    parts = 64
    sw = []
    for kern in ("il-f-i16", "il-f-i32", "il-f-i16-dith"):
        for k in range(parts):
            sw.append("sweep %s %x %d %x" % (kern, k * ((1 << 32) // parts), (1 << 32) // parts, rng.next() & ((1 << 64) - 1)))
    res = G.run_lines(runner.exe, sw, jobs=min(len(sw), common.NCPU * 2))
    # each process prints diagnostics (BAD/NONMONO/CLIPS lines) before its SWEEP line: rerun failing ones alone for the detail
    tot = {"bad": 0, "nonmono": 0, "clipbad": 0, "count": 0}
    for l, r in zip(sw, res):
        if not r.startswith("SWEEP"):
            rc, out, err = G._run([runner.exe], l + "\n")
            detail = [o for o in out if not o.startswith("SWEEP")][:3]
            kern = l.split()[1]
            pat = None
            for o in detail:
                for tok in o.split():
                    if tok.startswith("pattern=") or tok.startswith("first="):
                        pat = int(tok.split("=")[1], 16)
            c = G.Case(kern, 1, 1, int(l.split()[4], 16), 0, [pat or 0], "f32", "sweep")
            viol.append((c, "oracle", "exhaustive float32 sweep: " + " | ".join(detail)[:600], " | ".join(out)[:600], "", 0))
            r = out[-1] if out else ""
        kv = dict(x.split("=") for x in r.split()[2:] if "=" in x)
        for k in tot:
            tot[k] += int(kv.get(k, 0))
    ctx.cov["exhaustive_float32_sweep"] = dict(tot, kernels=3, seconds=round(time.time() - t0, 1))
    ctx.count("evaluations", tot["count"])
    ok, out = common.leanchecker("SoxrModel.Properties.C11")
    ctx.cov["leanchecker"] = "ok" if ok else out[-500:]
