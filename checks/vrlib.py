"""Shared machinery of the variable-rate checks (C16, and the VR half of C05).

Two executables see the same operation sequences:
  * harness/vr/trace.c, linked against /repo/src built from the working tree: runs the real engine and prints, after
    every call, every control field of `rate_t` (hook `_soxr_verif_vr_state`) as integers;
  * lean/.lake/build/bin/soxr_vr: the Lean model `SoxrModel/Vr/Model.lean` (the definitions the C16 theorems are about).
"""
import math, os, re, struct, subprocess
from vlib import common

# VERIF_VR_MODEL: another build of the driver (scratch experiments with a changed model; never set by a registered command)
MODEL = os.environ.get("VERIF_VR_MODEL") or os.path.join(common.LEAN, ".lake", "build", "bin", "soxr_vr")


def gen_const(name, default):
    """a constant of lean/SoxrModel/Vr/Generated.lean (printed from vr32.c by harness/vr/gen.c on every run)"""
    try:
        txt = open(os.path.join(common.LEAN, "SoxrModel", "Vr", "Generated.lean")).read()
        m = re.search(r"def\s+%s\s*:\s*Nat\s*:=\s*(\d+)" % name, txt)
        return int(m.group(1)) if m else default
    except OSError:
        return default


def stage_preload(i):
    """preload of stage i (vr_init): 0 for the up-sampling stage -1, 2*HALF_FIR_LEN_2 for stage 0, 3*HALF_FIR_LEN_2/2 above"""
    h2 = gen_const("halfFirLen2", 120)
    return 0 if i < 0 else 2 * h2 if i == 0 else 3 * h2 // 2


def fade_len():
    """AL(fade_coefs) - 1: fade_len right after a stage switch; it falls by 2 per output frame"""
    return gen_const("fadeLen", 1024)
LO_RATIO = 2.0 ** -6           # "strong up-sampling": the trajectories stay in [2^-6, max]


def bits(x):
    return struct.unpack("<Q", struct.pack("<d", x))[0]


def from_bits(b):
    return struct.unpack("<d", struct.pack("<Q", b))[0]


def step_of(r, mult):
    """(int64_t)(io_ratio * step_mult + .5) — same IEEE operations as the C expression (mult is a power of two)."""
    return int(r * mult + .5)


def stream_mult(sn, isd):
    """step_mult of a stream reading stage sn (vr_init / enter_new_stage)."""
    return 2 ** (31 - sn) if isd else 2 ** 33


def rate_of(step, sn, isd):
    """instantaneous ratio (input frames per output frame) of a stream: step in input time."""
    return step * 2.0 ** (sn + 1) * (2 if isd else 1) / 2.0 ** 33


# ------------------------------------------------------------------ lines

def kv(line):
    d = {}
    for t in line.split():
        if "=" in t:
            k, v = t.split("=", 1)
            d.setdefault(k, v)
    return d


class State:
    """One canonical state line (real or model)."""
    __slots__ = ("ns0", "ns", "fl", "fade", "slew", "xfade", "inc", "sw", "newr", "defr", "oocc", "occ", "cur", "fo",
                 "od", "mis", "neg", "gshl", "gsw")

    def __init__(self, line):
        d = kv(line)
        for k in ("ns0", "ns", "fl", "fade", "slew", "xfade", "inc", "sw", "newr", "defr", "oocc"):
            setattr(self, k, int(d[k]))
        self.occ = [tuple(int(x) for x in t.split("/")) for t in d["occ"].split(",") if t]
        self.cur = tuple(int(x) for x in d["cur"].split("/"))     # at, step, ss, len, sn, isd
        self.fo = tuple(int(x) for x in d["fo"].split("/"))
        for k in ("od", "mis", "neg", "gshl", "gsw"):
            setattr(self, k, int(d[k]) if k in d else 0)

    @property
    def step(self): return self.cur[1]
    @property
    def ss(self): return self.cur[2]
    @property
    def sn(self): return self.cur[4]
    @property
    def isd(self): return self.cur[5]
    @property
    def mult(self): return stream_mult(self.cur[4], self.cur[5])
    @property
    def rate(self): return rate_of(self.cur[1], self.cur[4], self.cur[5])

    def backwards(self):
        return self.neg != 0 or self.cur[0] < 0 or self.cur[1] < 0 or (self.fade != 0 and (self.fo[0] < 0 or self.fo[1] < 0))


def has_state(line):
    return " cur=" in line and " fo=" in line


def strip_ghost(line):
    """the model's ghost outputs are not observables of the C code: gshl (stage switches that shift a negative value
    left), gsw (stage switches taken), mis (chunks in which the two cross-faded streams delivered different amounts:
    where `assert(odone == odone2)` fails), neg (chunks that ended with a negative step or clock).  The harness prints
    mis=0 neg=0 as place-holders; both sides are stripped before the diff."""
    return " ".join(t for t in line.split() if not (t.startswith("gshl=") or t.startswith("gsw=") or t.startswith("mis=") or
                                                    t.startswith("neg=")))


# ------------------------------------------------------------------ op sequences

def model_ops(mx, ops):
    """The driver-protocol lines the harness will print for these ops on a healthy VR resampler created with ratio mx
    (one group per op).  `proc` takes min(ceil(olen * max_ratio), ilen) frames (soxr_i_for_o); `procn` takes all."""
    out = []
    for o in ops:
        t = o.split()
        if t[0] == "create":
            mx = float(t[1]); out.append(["vr.create %d" % bits(mx)])
        elif t[0] == "ratio":
            r = float(t[1])
            out.append(["api.set valid=1 sticky=0 nch=1 inited=1 vr=1 cur=%d r=%d slew=%s" % (bits(mx), bits(r), t[2]),
                        "vr.ratio %d %s" % (bits(r), t[2])])
        elif t[0] == "proc":
            il, ol = int(t[1]), int(t[2])
            out.append(["vr.proc %d %d" % (min(int(math.ceil(ol * mx)), il), ol)])
        elif t[0] == "procn":
            out.append(["vr.proc %s %s" % (t[1], t[2])])
        elif t[0] == "flush":
            out.append(["vr.flush %s" % t[1]])
        else:
            out.append([])
    return out


def run_model(lines, timeout=600):
    p = subprocess.run([MODEL], input="\n".join(lines) + "\n", stdout=subprocess.PIPE, stderr=subprocess.PIPE,
                       universal_newlines=True, timeout=timeout)
    if p.returncode:
        raise RuntimeError("soxr_vr failed: " + p.stderr[-500:])
    return p.stdout.splitlines()


def model_groups(mx, ops):
    """Run the model on the predicted protocol lines; returns (groups of op lines, groups of answers)."""
    mo = model_ops(mx, ops)
    flat = [l for g in mo for l in g]
    res = run_model(flat) if flat else []
    out, i = [], 0
    for g in mo:
        out.append(res[i:i + len(g)]); i += len(g)
    return mo, out


def run_harness(exe, ops, timeout=600, env=None):
    p = subprocess.run([exe], input="\n".join(ops) + "\n", stdout=subprocess.PIPE, stderr=subprocess.PIPE,
                       universal_newlines=True, timeout=timeout, env=env, errors="replace")
    return p.returncode, p.stdout.splitlines(), p.stderr


def split_real(lines):
    """harness output -> (protocol op lines, answers, info lines)"""
    return ([l[2:] for l in lines if l.startswith("> ")], [l[2:] for l in lines if l.startswith("< ")],
            [l[2:] for l in lines if l.startswith("I ")])


def scan_model(ops, mres):
    """What the model says about a trajectory: index of the first op that is an immediate request made while a slew is
    unfinished or its snap pending (the F13 situation: since the repair an ordinary request that cancels the slew), of
    the first op during which the two cross-faded streams get out of step (ghost nmis: where `assert(odone == odone2)`
    fails, F35), of the first op during which a stream runs backwards, of the first op whose stage switch left-shifts a
    negative value (the F14 situation), of a first request with slew_len > 0 made before any ratio was set (dropped:
    the engine starts at the declared maximum), and the number of stage switches."""
    info = dict(f13=None, wild=None, shl=None, mis=None, first_dropped=None, nsw=0, sw_in_slew=False, n_f13=0, under=None, max_sw=0)
    prev = None
    for n, (o, res) in enumerate(zip(ops, mres)):
        t = o.split()
        for l in res:
            if not has_state(l):
                continue
            s = State(l)
            if t[0] == "ratio" and prev is not None:
                if int(t[2]) == 0 and (prev.slew != 0 or prev.newr != 0):
                    info["n_f13"] += 1
                    if info["f13"] is None:
                        info["f13"] = n
                if int(t[2]) != 0 and prev.defr != 0 and info["first_dropped"] is None:
                    info["first_dropped"] = n
            if s.backwards() and info["wild"] is None:
                info["wild"] = n
            if s.mis and info["mis"] is None:
                info["mis"] = n
            info["max_sw"] = max(info["max_sw"], s.gsw)
            # F36: a half-band stage (index j >= 1: entry j + 1 of occ=) left with fewer samples than its preload
            if info["under"] is None and any(o[0] < stage_preload(j - 1) for j, o in enumerate(s.occ) if j >= 2):
                info["under"] = n
            if s.gshl and info["shl"] is None:
                info["shl"] = n
            if s.gsw:
                info["nsw"] += s.gsw
                if prev is not None and (prev.slew != 0 or s.slew != 0):
                    info["sw_in_slew"] = True
            prev = s
    return info


def gen_ratio(rng, mx):
    u = rng.below(10)
    if u == 0:                                  # exact octave boundaries: FRAC(step) == 0
        r = 2.0 ** (rng.below(13) - 6)
    elif u == 1:                                # … and their neighbours, down to one ulp
        r = 2.0 ** (rng.below(13) - 6) * (1 + (rng.below(3) - 1) * 2.0 ** -(1 + rng.below(52)))
    else:
        r = mx * 2.0 ** -rng.uniform(0, 6 + max(0.0, math.log2(mx)))
    return min(max(r, LO_RATIO), mx)


def gen_traj(rng, nops=300, small=False):
    """Random trajectory as in the design probe p4.c: max ratio 0.5…64, ratios over [2^-6, max] (octave boundaries and
    their neighbours included), slews 0…4000, changes in mid-slew, random block sizes, then flush."""
    mx = [0.5, 1.0, 2.0, 8.0, 64.0][rng.below(5)] if rng.chance(.3) else 2.0 ** rng.uniform(-1, 6)
    ops = ["create %.17g" % mx]
    maxc = 2 + rng.below(100 if (small or rng.chance(.5)) else 3000)
    if rng.chance(.85):
        ops.append("ratio %.17g 0" % gen_ratio(rng, mx))
    for _ in range(nops):
        if rng.below(8) == 0:
            slew = rng.below(4000) if rng.below(3) else 0
            if rng.chance(.15):
                slew = 1 + rng.below(130)
            ops.append("ratio %.17g %d" % (gen_ratio(rng, mx), slew))
        ops.append("proc %d %d" % (rng.below(maxc), rng.below(maxc)))
    for _ in range(4 + rng.below(20)):
        ops.append("flush %d" % rng.below(maxc if rng.chance(.7) else 20000))
    return mx, ops


def compare(ops, mo, mres, real_ops, real_res):
    """First disagreement between the real code and the model, or None.  Returns (op index, text)."""
    flat_o = [l for g in mo for l in g]
    flat_r = [strip_ghost(l) for g in mres for l in g]
    real_res = [strip_ghost(l) for l in real_res]
    owner = [n for n, g in enumerate(mo) for _ in g]
    for i in range(max(len(flat_o), len(real_ops))):
        a = real_ops[i] if i < len(real_ops) else "<missing>"
        b = flat_o[i] if i < len(flat_o) else "<missing>"
        if a != b:
            return (owner[i] if i < len(owner) else len(ops) - 1,
                    "protocol op differs: real code did `%s`, predicted `%s`" % (a, b))
        ra = real_res[i] if i < len(real_res) else "<missing>"
        if ra != flat_r[i]:
            return (owner[i], "after `%s` (op %d: %s)\n real  %s\n model %s\n fields: %s" % (
                a, owner[i], ops[owner[i]], ra, flat_r[i], field_diff(ra, flat_r[i])))
    return None


def field_diff(a, b):
    da, db = kv(a), kv(b)
    return ", ".join("%s: real %s model %s" % (k, da.get(k), db.get(k)) for k in list(da) + [k for k in db if k not in da]
                     if da.get(k) != db.get(k))[:600]


def shrink_ops(ops, fails, budget=120):
    """Greedy reduction of an op list that keeps `fails(ops)` true: truncate, then drop chunks of ops (never the
    `create`), then halve block sizes."""
    n = budget
    cur = list(ops)
    chunk = max(1, len(cur) // 4)
    while chunk >= 1 and n > 0:
        i = 1
        changed = False
        while i < len(cur) and n > 0:
            cand = cur[:i] + cur[i + chunk:]
            n -= 1
            if len(cand) > 1 and fails(cand):
                cur = cand; changed = True
            else:
                i += chunk
        if not changed:
            chunk //= 2
    return cur
