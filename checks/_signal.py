"""Measurement machinery shared by the numeric checks C01 / C02 / C12 (area `Signal`).

Everything here is MEASUREMENT on the real code (float64 arithmetic in numpy, the library built from /repo's working
tree): it evaluates, on sampled configurations and on a finite frequency grid, the hypotheses that the Lean theorems of
SoxrModel/Properties/C01|C02|C12.lean take as premises.  It is never counted as proof.

  rows        impulses at all M_P input phases placed mid-stream (double I/O) -> the L_P rows of one period of the real
              resampler, (L_P, M_P) = the plan's implementation period read from the exported plan
  c_r(w)      modulation coefficients of the tone e^{iwn} on a grid of >= 16 points per side-lobe period (zero-padded FFT
              of each row) plus the exact band edges
  fits        sampled sine-fit exploration for what the row method cannot reach (irrational ratios, engines' rounding
              noise under a full-scale tone, integer formats, channels): 4-parameter least squares with a first-order
              frequency term, window after the start-up horizon
  cover       WHICH configurations are measured: a seeded pool (ratio x recipe x engine x knob of the quality spec) is
              planned by the real library, each candidate is labelled with its plan class (stage_tag / plan_class on the
              exported plan) and one member of every (plan class, knob) pair is drawn; REQUIRED_CLASSES / _ORDERS /
              _ENGINES name the planner paths every run has to hit
  findings    known findings of the pinned tree (known_findings.d/signal.json): configuration / plan signature
              (finding_flags, f1_exact) AND symptom bound (FINDING_SYMPTOM); only entries listed
              as `known` for the running property (set_active) can explain an excess
"""
import math, os, subprocess, sys
from fractions import Fraction
import numpy as np
from vlib import common

DTYPES = {0: np.float32, 1: np.float64, 2: np.int32, 3: np.int16}
ROLL_DB = {0: 0.01, 1: 0.35, 3: 0.35}      # soxr.h: SOXR_ROLLOFF_SMALL <= 0.01 dB, MEDIUM <= 0.35 dB; 3 = internal LSR2Q (-0.103 dB design) read as medium
ROLL_NAME = {0: "small", 1: "medium", 2: "none", 3: "lsr2q"}

_exe = None


def harness():
    global _exe
    if _exe is None:
        _exe = common.build_harness("signal_run", ["signal/run.c"], variant="rel")
    return _exe


# ------------------------------------------------------------------ configurations

def mkcfg(ir, orr, recipe=4, qflags=0, simd=1, **kw):
    c = dict(ir=ir, orr=orr, recipe=recipe, qflags=qflags, simd=simd)
    c.update(kw)
    return c


def cfg_label(c):
    s = "%s->%s recipe=%s qflags=%s simd=%s" % (c["ir"], c["orr"], hex(c["recipe"]), c["qflags"], c["simd"])
    for k in ("prec", "phase", "pb", "sb", "rtflags", "scale", "itype", "otype", "ch"):
        if k in c:
            s += " %s=%s" % (k, c[k])
    return s


def cfg_args(c, **extra):
    d = dict(c)
    d.update(extra)
    a = ["ir=%r" % float(d["ir"]), "or=%r" % float(d["orr"])]
    for k in ("recipe", "qflags", "prec", "phase", "pb", "sb", "rtflags", "scale", "itype", "otype", "ch", "ioflags", "plan", "block", "kb", "min", "large", "split"):
        if k in d and d[k] is not None:
            a.append("%s=%s" % (k, d[k] if not isinstance(d[k], float) else repr(d[k])))
    return a


def parse_header(lines):
    info = {"stages": []}
    for l in lines:
        t = l.split()
        if not t:
            continue
        if t[0] == "ENGINE":
            info["engine"] = t[1]
        elif t[0] == "ERROR":
            info["error"] = " ".join(t[1:])
        elif t[0] in ("Q", "P", "R", "PLAN"):
            d = {}
            for kv in t[1:]:
                k, v = kv.split("=", 1)
                try:
                    d[k] = int(v)
                except ValueError:
                    try:
                        d[k] = float(v)
                    except ValueError:
                        d[k] = v
            if t[0] == "Q":
                info["q"] = d
            elif t[0] == "P":
                info["stages"].append(d)
            elif t[0] == "R":
                info["r"] = d
            else:
                info["plan"] = d
    return info


def lib_failed(err):
    """does this traceback say that the LIBRARY died or hung on the job's input (the harness process ended abnormally), rather than
    that the measurement code did?  Then configuration + signal are a failing input."""
    return "signal harness failed" in err or "signal harness HUNG" in err


RUN_TIMEOUT = None          # seconds; set by callers that probe configurations which may not terminate (C09)


def run(c, x=None, **extra):
    """One job through the real library.  x: numpy array already in the input datatype (interleaved); None = plan only."""
    env = dict(os.environ)
    for k in ("SOXR_USE_SIMD", "SOXR_USE_SIMD32", "SOXR_USE_SIMD64", "SOXR_TRACE", "SOXR_COEF_INTERP", "SOXR_NOSMALLINTOPT",
              "SOXR_MIN_DFT_SIZE", "SOXR_LARGE_DFT_SIZE", "SOXR_COEFS_SIZE", "SOXR_NUM_THREADS", "SOXR_STRICT_BUF"):
        env.pop(k, None)
    if c.get("simd") is not None:
        env["SOXR_USE_SIMD"] = str(c["simd"])
    env["OMP_NUM_THREADS"] = "1"
    if x is None:
        extra = dict(extra, plan=1)
        data = b""
    else:
        it = extra.get("itype", c.get("itype", 1))
        data = np.ascontiguousarray(x, dtype=DTYPES[it & 3]).tobytes()
    try:
        p = subprocess.run([harness()] + cfg_args(c, **extra), input=data, stdout=subprocess.PIPE, stderr=subprocess.PIPE, env=env, timeout=RUN_TIMEOUT)
    except subprocess.TimeoutExpired:
        raise RuntimeError("signal harness HUNG: no answer within %s s on %s" % (RUN_TIMEOUT, cfg_label(c)))
    if p.returncode:
        raise RuntimeError("signal harness failed (%d) on %s: %s" % (p.returncode, cfg_label(c), p.stderr.decode()[-400:]))
    i = p.stdout.index(b"END\n")
    info = parse_header(p.stdout[:i].decode().splitlines())
    ot = extra.get("otype", c.get("otype", 1))
    y = np.frombuffer(p.stdout[i + 4:], dtype=DTYPES[ot & 3])
    if c.get("scale") not in (None, 1, 1.0) and (ot & 3) in (0, 1):
        # a configuration that carries a gain (knob `gain`) is measured as the unit-gain system it must be a multiple of: whatever
        # the gain does to the coefficients beyond multiplying the output shows as an error of every measurement
        y = y.astype(np.float64) / float(c["scale"])
    return info, y


def bits_of(info):
    return float(info["q"]["prec"])


def rolloff_of(info):
    return int(info["q"]["flags"]) & 3


def gain_class_db(info):
    """Roll-off class as a bound on |gain error| in dB over the pass-band (soxr.h: small <= 0.01 dB, medium <= 0.35 dB).
    `none` carries no figure in soxr.h or in the property; the classes are ordered, so it is bounded by the next one
    (0.01 dB).  The stricter reading "flat to within 2^(1-bits)" is measured and recorded (evidence: none_flatness) but
    is not a verdict: the property text does not promise it and the phase transform of non-linear phase settings
    preserves the magnitude only to about 1e-4 (DESIGN, C14)."""
    r = rolloff_of(info)
    return 0.01 if r == 2 else ROLL_DB[r]


def none_flat_db(bits):
    return 20 * math.log10(1 + 2.0 ** (1 - bits))


# ------------------------------------------------------------------ the plan and its implementation period

def impl_period(stage_rates):
    """Mirror of `Soxr.Signal.implPeriod` (lean/SoxrModel/Signal/Plan.lean): stage rate changes (L_i, M_i) in pipeline order
    -> least (L_P, M_P) that every stage maps to a whole shift."""
    LP, MP = 1, 1
    for (L, M) in reversed(stage_rates):
        c = L * MP // math.gcd(L, MP)
        LP, MP = LP * (c // MP), M * (c // L)
    return LP, MP


def plan_period(info):
    """(L_P, M_P) of the exported plan, or None when a stage runs on an irrational clock."""
    rates = []
    for s in info["stages"]:
        if not s["rational"] or s["M"] <= 0 or s["L"] <= 0:
            return None
        g = math.gcd(s["L"], s["M"])
        rates.append((s["L"] // g, s["M"] // g))
    return impl_period(rates)


def plan_signature(info):
    return "+".join("%s%d/%d" % (s["kind"], s["L"], s["M"]) for s in info["stages"]) or "none"


def designed_ok(info):
    """The hypothesis of `gain_always_carried`: no plan consists of half-band stages alone."""
    kinds = [s["kind"] for s in info["stages"]]
    return (not kinds) or any(k != "half" for k in kinds)


# ------------------------------------------------------------------ extent of the impulse response (start-up horizon)

def extents(c, L, M, info=None):
    """Non-zero extent of the response to a mid-stream impulse, in output frames before / after the impulse's own
    instant, maximised over a few impulse positions (DFT blocks make it position dependent).  The kernels are FIR and
    zero blocks transform to exact zeros, so the support is exact, not a threshold."""
    ratio = M / L                               # input frames per output frame
    N = int(max(1 << 15, (1 << 14) * ratio))
    lo = hi = None
    for attempt in range(12):
        xs = np.zeros(N)
        pos = [N // 2, N // 2 + N // 7 + 1, N // 2 - N // 5 - 3]
        ok = True
        lo = hi = 0
        for n in pos:
            xs[:] = 0
            xs[n] = 1
            inf, y = run(c, xs)
            nz = np.nonzero(y)[0]
            if len(nz) == 0:
                raise RuntimeError("no response to an impulse: " + cfg_label(c))
            kc = n / ratio
            if nz[0] < 0.05 * len(y) or nz[-1] > 0.95 * len(y):
                ok = False
                break
            lo = max(lo, int(math.ceil(kc - nz[0])))
            hi = max(hi, int(math.ceil(nz[-1] - kc)))
        if ok:
            return lo + 2, hi + 2
        N *= 2
    raise RuntimeError("impulse response does not fit: " + cfg_label(c))


# ------------------------------------------------------------------ rows of the real resampler

class Rows:
    pass


def measure_rows(c, max_phases=2000, max_cost=8e6):
    """Rows of one implementation period of the real resampler for a rational configuration.
    Returns a Rows object, or a dict {"skipped": reason}."""
    info, _ = run(c)
    if "error" in info:
        return {"skipped": "create failed: " + info["error"]}
    if not info.get("engine", "").startswith("cr"):
        return {"skipped": "not a constant-rate engine"}
    if bits_of(info) < 15:
        return {"skipped": "precision < 15 bits (property does not speak)"}
    fr = Fraction(c["orr"]) / Fraction(c["ir"])
    L, M = fr.numerator, fr.denominator           # output frames per input frames = L / M
    per = plan_period(info)
    if per is None:
        return {"skipped": "irrational clock in the plan", "info": info}
    LP, MP = per
    if LP * M != MP * L:
        return {"skipped": "plan rate %d/%d differs from the requested %d/%d (ratio approximated)" % (LP, MP, L, M), "info": info}
    if MP > max_phases:
        return {"skipped": "M_P=%d above the phase cap %d" % (MP, max_phases), "info": info}
    wlo, whi = extents(c, L, M)
    cost = LP * ((wlo + whi) * 2 + 40) * M / L        # size of the row table L_P x taps (memory and FFT work scale with it)
    if cost > max_cost:
        return {"skipped": "row table L_P x taps = %.3g above the cost cap %.3g" % (cost, max_cost), "info": info}
    guard = 1.0
    for attempt in range(3):
        Wlo, Whi = int(wlo * (1 + guard)) + 8, int(whi * (1 + guard)) + 8
        span_in = int(math.ceil((Wlo + Whi + 2) * M / L)) + 2
        D = ((span_in + MP - 1) // MP) * MP            # spacing: a multiple of M_P
        n0 = D                                         # first impulse after one full span (beyond the start-up horizon)
        npos = n0 + np.arange(MP) * (D + 1)            # n_p = n0 + p (mod M_P): every input phase once
        N = int(npos[-1] + D + 1)
        x = np.zeros(N)
        x[npos] = 1.0
        inf, y = run(c, x)
        # gather: sample (p, k) is the coefficient of row r = k mod L_P at input offset m = n_p - u*M_P, k = r + u*L_P
        Tlo = int(math.ceil((Whi + 1) * M / L)) + 2    # taps before the row's own instant come from LATER outputs
        Thi = int(math.ceil((Wlo + 1) * M / L)) + 2    # (+1: the window centre kc is floor(n_p*L/M))
        W = Tlo + Thi + 1
        A = np.zeros((LP, W))
        used = np.zeros(len(y), dtype=bool)
        for p in range(MP):
            n_p = int(npos[p])
            kc = n_p * L // M
            k = np.arange(max(0, kc - Wlo), min(len(y), kc + Whi + 1))
            used[k] = True
            r = k % LP
            u = (k - r) // LP
            m = n_p - u * MP                           # input index of the tap in the row of output r
            mp = m - (r * M) // L                      # recentred: the row's own instant is r*M/L
            j = mp + Tlo
            good = (j >= 0) & (j < W)
            if not good.all():
                bad = np.abs(y[k][~good]).sum()
                if bad > 0:
                    raise RuntimeError("row window too small: " + cfg_label(c))
            A[r[good], j[good]] = y[k[good]]
        tail = np.abs(y[~used])
        # response found outside the windows = support estimate too small: retry with a larger guard
        tailmass = np.zeros(LP)
        if tail.size and tail.max() > 0:
            kk = np.nonzero(~used)[0]
            np.add.at(tailmass, kk % LP, np.abs(y[kk]))
        if tailmass.max() <= 2.0 ** (-bits_of(info) - 12):
            break
        guard *= 2
    R = Rows()
    R.cfg, R.info, R.L, R.M, R.LP, R.MP = c, info, L, M, LP, MP
    R.A, R.Tlo, R.W = A, Tlo, W
    R.tailmass = float(tailmass.max())
    R.extent = (wlo, whi)
    R.stream = (N, len(y))
    R.frac = ((np.arange(LP) * M) % L) / L            # r*M/L - floor(r*M/L)
    return R


def coef_at(R, w):
    """c_r(w) for all r at the exact frequencies w (array, rad / input frame): direct Fourier sums of the rows."""
    w = np.atleast_1d(np.asarray(w, dtype=float))
    j = np.arange(R.W) - R.Tlo
    E = np.exp(1j * np.outer(j, w))                   # W x nw
    S = R.A @ E                                        # LP x nw
    return S * np.exp(-1j * np.outer(R.frac, w))


def coef_grid(R, wlo, whi, oversample=16, extra=()):
    """c_r on the FFT grid restricted to [wlo, whi] (rad / input frame), followed by the exact frequencies `extra`.
    Grid: N_fft >= oversample * row length, i.e. >= `oversample` points per side-lobe period of every row's transform.
    Returns (w, C[LP, nbins], nfft)."""
    nfft = 1 << int(math.ceil(math.log2(oversample * R.W)))
    q0 = int(math.ceil(wlo / (2 * math.pi) * nfft - 1e-9))
    q1 = int(math.floor(whi / (2 * math.pi) * nfft + 1e-9))
    q1 = min(q1, nfft // 2)
    ng = max(0, q1 - q0 + 1)
    extra = np.asarray(extra, dtype=float)
    w = np.concatenate([2 * math.pi * np.arange(q0, q0 + ng) / nfft, extra])
    C = np.empty((R.LP, len(w)), dtype=complex)
    if len(extra):
        C[:, ng:] = coef_at(R, extra)
    if ng:
        # e^{-i frac_r w_q} with q = q0 + a*B + b factorised into two small tables (one complex product per element)
        B = 256
        na = (ng + B - 1) // B
        w_hi = 2 * math.pi * (q0 + B * np.arange(na)) / nfft
        w_lo = 2 * math.pi * np.arange(B) / nfft
        base = np.exp(-1j * w[:ng] * R.Tlo)
        step = max(1, (1 << 22) // nfft)
        for a in range(0, R.LP, step):
            F = np.fft.rfft(R.A[a:a + step], nfft, axis=1)[:, q0:q0 + ng]     # sum_j A[j] e^{-i w j}
            fr = R.frac[a:a + step]
            E1 = np.exp(-1j * np.outer(fr, w_hi))
            E2 = np.exp(-1j * np.outer(fr, w_lo))
            ph = (E1[:, :, None] * E2[:, None, :]).reshape(len(fr), na * B)[:, :ng]
            C[a:a + step, :ng] = np.conj(F) * base[None, :] * ph               # sum_j A[j] e^{+i w (j - Tlo)} e^{-i w frac_r}
    return w, C, nfft


def bands(R):
    """Pass-band and stop-band of the configuration in rad / input frame."""
    q = R.info["q"]
    nyq_low = min(1.0, R.L / R.M)                     # the lower of the two Nyquist limits, in units of the input one
    wp = math.pi * q["pb"] * nyq_low
    ws = math.pi * q["sb"] * nyq_low
    return wp, ws


def passband_metrics(R):
    """The C01 / C12 / C02(up) quantities of one configuration over its pass-band."""
    bits = bits_of(R.info)
    linear = abs(R.info["q"]["phase"] - 50) < 1e-9
    wp, ws = bands(R)
    w, C, nfft = coef_grid(R, 0.0, wp, extra=[wp])
    nb = len(w)
    res = np.empty(nb)
    resr = np.empty(nb, dtype=int)
    G = np.empty(nb, dtype=complex)
    img = np.zeros(nb)
    blk = max(1, (1 << 22) // R.LP)
    for a in range(0, nb, blk):                        # column blocks: bounded temporaries
        Cb = C[:, a:a + blk]
        Gb = Cb.mean(axis=0)
        ref = np.abs(Gb) if linear else Gb
        dev = np.abs(Cb - ref[None, :])
        res[a:a + blk] = dev.max(axis=0)               # peak of everything but the wanted tone, per frequency
        resr[a:a + blk] = dev.argmax(axis=0)
        G[a:a + blk] = Gb
        if R.LP > 1:                                   # image / alias lines of the period: DFT over r
            img[a:a + blk] = np.abs(np.fft.fft(Cb, axis=0)[1:]).max(axis=0) / R.LP
    iw = int(res.argmax())
    gdb = 20 * np.log10(np.abs(G))
    ig = int(np.abs(gdb).argmax())
    ii = int(img.argmax())
    rows_dc = np.abs(C[:, 0] - 1).max() if w[0] == 0 else float("nan")
    return dict(bits=bits, linear=linear, nfft=nfft, nbins=nb, wp=wp,
                res=float(res[iw]) + R.tailmass, res_w=float(w[iw]), res_r=int(resr[iw]),
                gain_db=float(gdb[ig]), gain_w=float(w[ig]), phase_dev=float(np.abs(G - np.abs(G)).max()),
                img=float(img[ii]) + R.tailmass, img_w=float(w[ii]), row_sum_dev=float(rows_dc), G0=complex(G[0]))


def stopband_metrics(R):
    """The C02 quantity when down-sampling: peak output level of a tone from the stop-band start to input Nyquist."""
    wp, ws = bands(R)
    if ws >= math.pi * (1 - 1e-12):
        return None
    w, C, nfft = coef_grid(R, ws, math.pi, extra=[ws])
    lvl = np.abs(C).max(axis=0)
    i = int(lvl.argmax())
    wn = math.pi * min(1.0, R.L / R.M)                 # the lower Nyquist limit: below it (stopband_begin < 1) nothing aliases, it still is stop band
    low = lvl[w <= wn]
    return dict(nfft=nfft, nbins=len(w), ws=ws, lvl=float(lvl[i]) + R.tailmass, lvl_w=float(w[i]), lvl_r=int(np.abs(C[:, i]).argmax()),
                lvl_low=(float(low.max()) + R.tailmass) if (R.info["q"]["sb"] < 1 and len(low)) else None, bins_low=int(len(low)))


# ------------------------------------------------------------------ sine fits on the real resampler, end to end

def fit4(y, theta, a, b):
    """Least-squares fit of (A + A'k) sin(theta k) + (B + B'k) cos(theta k) on y[a:b]; k centred and normalised.
    The first-order terms absorb the clock allowance of C04 (standard clock: ratio implemented to 2^-33 relative)."""
    k = np.arange(a, b, dtype=float)
    kk = (k - (a + b) / 2) / (b - a)
    t = theta * k
    s, co = np.sin(t), np.cos(t)
    X = np.stack([s, co, kk * s, kk * co], 1)
    coef, _, _, _ = np.linalg.lstsq(X, y[a:b], rcond=None)
    r = y[a:b] - X @ coef
    amp = math.hypot(coef[0], coef[1])
    ph = math.atan2(coef[1], coef[0])                  # y ~ amp * sin(theta k + ph) at the window centre
    return amp, ph, r, coef


def out_resolution(otype, dither=True):
    """Peak error the output format itself adds, relative to full scale."""
    t = otype & 3
    if t == 1:
        return 0.0
    if t == 0:
        return 2.0 ** -24
    if t == 2:
        return 0.5 * 2.0 ** -31
    return (1.5 if dither else 0.5) * 2.0 ** -15


def tone_job(c, f_in, amp=0.95, phase0=0.3, nfit=12000, kind="pass", ch=1, chan=0, f_other=None):
    """Run one tone (frequency f_in in units of the INPUT Nyquist limit) through the real resampler and fit it.
    kind "pass": in-band tone -> residual peak, gain, time alignment.  kind "stop": stop-band tone -> output peak level.
    Returns a dict of measured numbers (no verdict)."""
    info, _ = run(c)
    if "error" in info:
        return {"skipped": "create failed: " + info["error"]}
    ratio = float(c["ir"]) / float(c["orr"])
    fr = Fraction(c["orr"]).limit_denominator(1 << 20) / Fraction(c["ir"]).limit_denominator(1 << 20)
    wlo, whi = extents(c, 1.0 / ratio, 1.0)
    H = wlo + whi + 16                                 # start-up / run-out horizon in output frames
    n_out = nfit + 2 * H
    N = int(math.ceil(n_out * ratio)) + 8
    n = np.arange(N, dtype=float)
    x = amp * np.sin(math.pi * f_in * n + phase0)
    if ch > 1:
        X = np.zeros((N, ch))
        for cc in range(ch):
            X[:, cc] = x if cc == chan else 0.5 * amp * np.sin(math.pi * (f_other or 0.37 * f_in) * n + 1.0 + cc)
        info, y = run(c, X.reshape(-1), ch=ch)
        y = y.reshape(-1, ch)[:, chan]
    else:
        info, y = run(c, x)
    a, b = H, len(y) - H
    if b - a < 200:
        return {"skipped": "stream too short"}
    out = dict(engine=info["engine"], bits=bits_of(info), plan=plan_signature(info), f_in=f_in, n_in=N, n_fit=b - a, horizon=H,
               rolloff=rolloff_of(info), phase=info["q"]["phase"], kinds="+".join(s["kind"] for s in info["stages"]) or "none")
    if kind == "stop":
        out["level"] = float(np.abs(y[a:b]).max() / amp)
        return out
    theta = math.pi * f_in * ratio                     # rad / output frame
    g, ph, r, coef = fit4(y, theta, a, b)
    out["resid"] = float(np.abs(r).max())              # relative to full scale 1.0 (tone amplitude `amp`)
    out["gain_db"] = 20 * math.log10(g / amp)
    # time alignment (linear phase only): fitted phase at the window centre vs the same continuous-time tone
    dphi = (ph - phase0 + math.pi) % (2 * math.pi) - math.pi
    out["dt_in"] = dphi / (math.pi * f_in) if f_in > 0 else 0.0     # input frames
    out["k_mid"] = (a + b) / 2
    # first image / alias lines left in the residual
    lines = []
    k = np.arange(a, b, dtype=float)
    for mline in (1, 2, 3):
        for sgn in (1, -1):
            th = (2 * math.pi * mline * ratio + sgn * theta)        # image of the tone around m * input rate
            z = np.exp(-1j * th * k)
            lines.append(2 * abs((r * z).sum()) / len(k) / amp)
    out["image"] = float(max(lines))
    return out


def stop_band_tones(info, ratio, rg, K=8):
    """K stop-band frequencies (units of the input Nyquist limit), stratified over the WHOLE band from the configured stop-band
    start to the input Nyquist limit: the first percent above the start, the stretch between the start and the lower Nyquist
    limit when stopband_begin < 1, the first alias zone, and equal strata of the rest."""
    nyq_low = min(1.0, 1.0 / ratio)
    f0, f1 = info["q"]["sb"] * nyq_low, 0.9999
    if f0 >= f1:
        return []
    fs = [f0 + (f1 - f0) * 0.01 * rg.random(), f0 + (f1 - f0) * 0.05 * rg.random()]
    if info["q"]["sb"] < 1 and nyq_low < f1:
        fs += [f0 + (nyq_low - f0) * rg.random(), f0 + (nyq_low - f0) * rg.random()]
    fs.append(min(f1, nyq_low * (1 + 0.2 * rg.random())))                   # just above the lower Nyquist limit: aliases land next to the band edge
    n = max(1, K - len(fs))
    for i in range(n):
        fs.append(f0 + (f1 - f0) * (i + rg.random()) / n)
    return sorted(f for f in fs if f0 <= f <= f1)[:max(K, len(fs))]


def stop_multitone_job(c, seed, nfit=8000, K=8, total_amp=0.9):
    """Sum of K stratified stop-band tones (amplitudes total_amp / K, random phases) through the real resampler; the output
    peak beyond the horizon is bounded by 2^-bits x the sum of the amplitudes (superposition: Soxr.C02.stopband_rejection).
    When the bound fails every tone is re-run alone and the worst one is the failing tone."""
    info, _ = run(c)
    ratio = float(c["ir"]) / float(c["orr"])
    rg = np.random.default_rng(seed)
    fs = stop_band_tones(info, ratio, rg, K)
    if not fs:
        return {"skipped": "no stop band below the input Nyquist limit"}
    wlo, whi = extents(c, 1.0 / ratio, 1.0)
    H = wlo + whi + 16
    N = int(math.ceil((nfit + 2 * H) * ratio)) + 8
    n = np.arange(N, dtype=float)
    amp = total_amp / len(fs)
    ph = rg.uniform(0, 2 * math.pi, len(fs))
    x = np.zeros(N)
    for f, p0 in zip(fs, ph):
        x += amp * np.sin(math.pi * f * n + p0)
    info, y = run(c, x)
    a, b = H, len(y) - H
    if b - a < 200:
        return {"skipped": "stream too short"}
    out = dict(engine=info["engine"], bits=bits_of(info), phase=info["q"]["phase"], plan=plan_signature(info), pclass=plan_class(info), flags=finding_flags(info),
               freqs=[float(f) for f in fs], amp_each=amp, sum_amp=amp * len(fs), n_in=N, n_fit=b - a, horizon=H,
               level=float(np.abs(y[a:b]).max()), sb=info["q"]["sb"], pb=info["q"]["pb"],
               kinds="+".join(s["kind"] for s in info["stages"]) or "none")
    if out["level"] > 2.0 ** -out["bits"] * out["sum_amp"]:
        worst = (0.0, None)
        for f, p0 in zip(fs, ph):
            _, y1 = run(c, total_amp * np.sin(math.pi * f * n + p0))
            lv = float(np.abs(y1[a:b]).max()) / total_amp
            if lv > worst[0]:
                worst = (lv, float(f))
        out["single_level"], out["single_f"] = worst
    return out


def dB(x):
    return 20 * math.log10(max(x, 1e-300))


# ------------------------------------------------------------------ configuration pools (one ratio class per planner path)

# rational ratios (input rate, output rate) by the planner path they exercise
RATIOS_SMALL_INT = [(2, 1), (1, 2), (3, 1), (1, 3), (4, 1), (1, 4), (3, 2), (2, 3), (4, 3), (3, 4), (5, 1), (1, 5)]   # DFT-only, incl. F-domain powers of two
RATIOS_HALF = [(8, 1), (16, 1), (32, 1), (64, 1), (6, 1), (9, 1), (10, 1), (12, 1), (24, 1), (5, 2), (48000, 8000)]   # half-band chains (+ final stage)
RATIOS_POST = [(1, 6), (1, 8), (1, 10), (1, 12), (1, 16), (1, 32), (8000, 48000), (11025, 96000), (44100, 192000), (8000, 44100)]  # large up-sampling: post stages
RATIOS_ARB = [(44100, 48000), (48000, 44100), (96000, 44100), (44100, 96000), (32000, 44100), (48000, 32000), (22050, 48000),
              (88200, 48000), (16000, 44100), (7, 3), (3, 7), (2, 5), (192000, 44100), (44100, 8000)]                  # rational poly-phase stage
RATIOS_RATIONAL = RATIOS_SMALL_INT + RATIOS_HALF + RATIOS_POST + RATIOS_ARB
# irrational / near-rational ratios: interpolated coefficients (orders 1-3), rounded clock
RATIOS_IRRATIONAL = [(3.14159, 1), (1, 3.14159), (2.71828, 1), (1, 2.71828), (1.41421356, 1), (1, 1.41421356), (1.0001, 1), (1, 1.0001),
                     (65537, 44100), (44100, 65537), (48000, 44101), (10.3, 1), (1, 20.7), (37.1, 1),
                     # a fraction of one unit of the 32.32 clock away from the ratios at which the planner rounds / snaps
                     (3.0 * (1 - 3.1e-11), 1), (1.5 * (1 - 1.0e-11), 1), (1, 3.0 * (1 - 3.1e-11)), (6.0 * (1 - 2e-11), 1), (2.0 * (1 + 3.1e-11), 1)]
# (recipe, quality flags): LQ MQ 16 20(HQ) 24 28(VHQ) 32, LSR presets, steep filter, roll-off classes
RECIPES = [(1, 0), (2, 0), (3, 0), (4, 0), (5, 0), (6, 0), (7, 0), (8, 0), (9, 0), (10, 0), (4 | 0x40, 0), (6 | 0x40, 0), (3 | 0x40, 0),
           (4, 1), (4, 2), (6, 1), (6, 2), (3, 2), (7, 2), (5, 1)]
PHASES_NONLINEAR = [0x10, 0x30]        # intermediate, minimum phase (recipe bits)

# the fixed core of the quick tier: the tightest margins of the pinned tree and one configuration per planner path
QUICK_CORE = [
    mkcfg(48000, 44100, 4 | 0x40, 0, simd=0),     # cr32   dft2/1 + poly0 147/320        (steep; tightest stop band)
    mkcfg(44100, 192000, 4, 0, simd=0),           # cr32   dft2/1 + poly0 80/147 + dft4/1 (pre + arb + post stage)
    mkcfg(8, 1, 6, 0, simd=1),                    # cr64s  half + half + F-domain dft 1/2
    mkcfg(1, 2, 2, 0, simd=1),                    # cr32s  F-domain dft 2/1, MQ: medium roll-off
    mkcfg(5, 1, 5, 0, simd=0),                    # cr64   half + dft + poly0 2/5: implementation period (2,10)
    mkcfg(3, 2, 4 | 0x40, 0, simd=1),             # cr32s  time-domain dft 2/3 (small integers)
]


def f1_signature(info):
    """Known finding F1 (DESIGN section 6): non-linear phase + power-of-two-L DFT up-sampling stage with L >= 8."""
    if abs(info["q"]["phase"] - 50) < 1e-9:
        return False
    return any(s["kind"] == "dft" and s["L"] >= 8 and (s["L"] & (s["L"] - 1)) == 0 for s in info["stages"])


def pick_rational(rng, n, exclude=()):
    """n random rational configurations (ratio class x recipe x flags x engine x occasionally a non-linear phase or an
    explicit quality spec), all choices from the check's seeded generator."""
    out = []
    seen = set(cfg_label(c) for c in exclude)
    guard = 0
    while len(out) < n and guard < 50 * n + 100:
        guard += 1
        pool = rng.choice([RATIOS_SMALL_INT, RATIOS_HALF, RATIOS_POST, RATIOS_ARB])
        ir, orr = rng.choice(pool)
        rec, qf = rng.choice(RECIPES)
        c = mkcfg(ir, orr, rec, qf, simd=rng.below(2))
        u = rng.below(10)
        if u == 0:
            c["recipe"] = rec | rng.choice(PHASES_NONLINEAR)
        elif u == 1 and (rec & 0xf) in (3, 4, 5, 6, 7):
            # explicit quality spec: fractional precision, moved band edges (kept inside _soxr_init's accepted ranges)
            c["prec"] = round(rng.uniform(15.0, 32.0), 2)
            c["pb"] = round(rng.uniform(0.80, 0.95), 4)
            if ir > orr and rng.below(2):
                c["sb"] = round(rng.uniform(1.0, 1.08), 4)
                c["pb"] = min(c["pb"], round(2 - c["sb"] - 0.003, 4))     # pass-band below the admitted aliasing (see apply_knob)
        elif u == 2:
            c["qflags"] = qf | 16                  # SOXR_DOUBLE_PRECISION: cr64 engines at low precision
        lab = cfg_label(c)
        if lab in seen:
            continue
        seen.add(lab)
        out.append(c)
    return out


def all_rational(engines=(0, 1)):
    return [mkcfg(ir, orr, rec, qf, simd=s) for (ir, orr) in RATIOS_RATIONAL for (rec, qf) in RECIPES for s in engines]


def pick_any(rng, n):
    """n random configurations for the sine-fit exploration: any ratio (irrational ones weighted up), any recipe, flags
    (hi-prec clock, coefficient interpolation orders forced), engine."""
    out = []
    for _ in range(n):
        if rng.below(5) < 3:
            ir, orr = rng.choice(RATIOS_IRRATIONAL)
        else:
            ir, orr = rng.choice(RATIOS_RATIONAL)
        rec, qf = rng.choice(RECIPES)
        c = mkcfg(ir, orr, rec, qf, simd=rng.below(2))
        u = rng.below(8)
        if u == 0:
            c["qflags"] = qf | 8                    # SOXR_HI_PREC_CLOCK
        elif u == 1:
            c["rtflags"] = rng.choice([2, 3])       # SOXR_COEF_INTERP_LOW / HIGH: interpolated coefficients forced
        elif u == 2:
            c["qflags"] = qf | 16
        elif u == 3:
            c["recipe"] = rec | rng.choice(PHASES_NONLINEAR)
        out.append(c)
    return out


# ------------------------------------------------------------------ systematic covering generator
#
# The quantifier of C01 / C02 / C12 runs over configurations; the planner of _soxr_init takes a different path for nearly
# every ratio class and several knobs of the quality spec are consumed by one stage only.  The covering generator therefore
# works on what the REAL planner answers (the exported plan), not on a hand-written ratio list: a seeded candidate pool
# (ratio x recipe x knob variant x engine) is planned by the library, every candidate is labelled with its plan class and
# its knob, and one member per (plan class, knob) pair is drawn - cheap members preferred, rotating with the seed.

def _p2(x):
    return x > 0 and (x & (x - 1)) == 0


def stage_tag(s):
    """Planner path of one stage: half-band / dft stage with F-domain (power-of-two) or time-domain (zero stuffing,
    decimation loop) rate change, the decimation grid aligned to the block length or not / poly-phase order / cubic."""
    k = s["kind"]
    if k != "dft":
        return k
    L, M, st = s["L"], s["M"], s.get("dftStep", s["M"])
    t = []
    if L > 1:
        t.append(("Fup" if _p2(L) else "Tup") + ("8+" if L >= 8 else str(L)))
    if st < 0:
        t.append("Fdn%d" % M)
    elif st > 1:
        t.append("Tdn%d%s" % (M, "" if s["blockLen"] % M == 0 else "u"))      # u: block_len % M != 0
    return "dft[" + ",".join(t) + "]"


def plan_class(info):
    tags = [stage_tag(s) for s in info["stages"]]
    nh = tags.count("half")
    rest = [t for t in tags if t != "half"]
    return (("half%s+" % ("" if nh == 1 else "*n")) if nh else "") + ("+".join(rest) if rest else ("" if nh else "none"))


def f1_exact(info):
    """The signature of known finding F1 as known_findings.json states it: a dft stage with power-of-two L whose block
    length is not a multiple of L (only produced for phase_response != 50, L >= 8)."""
    return any(s["kind"] == "dft" and s["L"] > 1 and _p2(s["L"]) and s["blockLen"] % s["L"] != 0 for s in info["stages"])


def f1_known(info):
    """F1 is only produced for phase_response != 50; the same plan signature with LINEAR phase is not the known finding and is
    measured like any other plan (a crash of the child process is then reported as such)."""
    return f1_exact(info) and info["q"]["phase"] != 50 and _f1_listed_known()


_F1_KNOWN = None


def _f1_listed_known():
    """F1 was repaired in /repo (279ce1a) and is listed as `fixed`: nothing is set aside any more, such configurations are ordinary
    ones and must pass.  The set-aside path only comes back if an F1 entry for C01 / C02 / C12 is listed as `known` again."""
    global _F1_KNOWN
    if _F1_KNOWN is None:
        _F1_KNOWN = any(f["id"] == "F1" for pid in ("C01", "C02", "C12") for f in common.known_active(pid))
    return _F1_KNOWN


def fph1_signature(info):
    """Known finding F-PH1 (known_findings.d/phase.json; signal.json for C01 / C02 / C12): precision >= 28, 0 < min(phase, 100-phase)
    < 30 (the defect's tail beyond 25 is <= 1.3 dB), a dft stage with fewer than 64 taps per output phase (num_taps < 64 x max(4, L): the 256
    of phase.json for L <= 4; the L = 8 .. 256 post stages - 241 taps at L = 8, 481 at 16, 961 at 32 - became measurable when F1 was
    repaired).  Configuration and plan parts shared with checks/c14.py (checks/phaselib.py)."""
    from checks import phaselib
    ph = info["q"]["phase"]
    return phaselib.fph1_config(bits_of(info), ph) and phaselib.fph1_plan(info["stages"])


def _coprime_pairs(n):
    return [(a, b) for a in range(1, n + 1) for b in range(1, n + 1) if math.gcd(a, b) == 1 and (a, b) != (1, 1)]


# ratios of the covering pool, cheap (small implementation period) ones first
COVER_RATIOS = (_coprime_pairs(12) +
                [(16, 1), (32, 1), (64, 1), (24, 1), (48, 1), (20, 1), (40, 3), (16, 3), (32, 3), (16, 9), (17, 10), (16, 5), (20, 3), (13, 3), (27, 2),
                 (1, 16), (1, 32), (1, 64), (1, 128), (1, 24), (1, 20), (1, 40), (3, 16), (3, 32), (3, 64), (1, 48), (5, 64), (3, 40), (1, 256)] +
                [(44100, 48000), (48000, 44100), (88200, 48000), (80000, 44100), (96000, 44100), (44100, 96000), (8000, 44100), (44100, 8000),
                 (44100, 192000), (192000, 44100), (11025, 96000), (48000, 8000), (8000, 48000)])
COVER_IRRATIONAL = [(3.14159, 1), (1, 3.14159), (2.71828, 1), (1, 2.71828), (1.41421356, 1), (1, 1.41421356), (1.0001, 1), (1, 1.0001),
                    (65537, 44100), (44100, 65537), (48000, 44101), (10.3, 1), (1, 20.7), (37.1, 1), (1.7320508, 1), (1.9099, 1), (1.5557, 1),
                    (1.8375001, 1), (1, 5.0001), (1, 9.87), (1, 41.3), (6.99, 1), (3.3333, 1), (1, 1.2599), (5.00001, 2),
                    (3.0 * (1 - 3.1e-11), 1), (1.5 * (1 - 1.0e-11), 1), (1, 3.0 * (1 - 3.1e-11)), (6.0 * (1 - 2e-11), 1), (2.0 * (1 + 3.1e-11), 1)]
COVER_RECIPES = [(1, 0), (2, 0), (3, 0), (4, 0), (5, 0), (6, 0), (7, 0), (8, 0), (9, 0), (10, 0), (4 | 0x40, 0), (6 | 0x40, 0), (3 | 0x40, 0), (5 | 0x40, 0)]
ANCHOR_RATIOS = [(1, 2), (2, 1), (1, 4), (4, 1), (3, 1), (1, 3), (3, 2), (2, 3), (4, 3), (3, 4), (1, 5), (6, 1), (12, 1), (8, 1), (16, 1), (1, 8), (1, 16),
                 (5, 3), (7, 4), (5, 2), (2, 5), (5, 1), (2, 9), (1, 12), (3, 16), (10, 1)]
ANCHOR_RECIPES = [1, 2, 4, 4 | 0x40, 6]
ANCHOR_SB_GT1 = [(2, 1), (4, 1), (4, 3), (5, 3), (8, 1)]
ANCHOR_IRRATIONAL = [(3.14159, 1), (1, 3.14159), (1.7320508, 1), (1, 9.87), (6.99, 1), (3.0 * (1 - 3.1e-11), 1), (1.5 * (1 - 1.0e-11), 1)]
KNOBS_SPECTRAL = ["base", "ph0", "ph25", "ph75", "ph100", "sb<1", "sb>1", "sb>1.1", "pb", "roll", "prec", "gain"]
_PHASE_BITS = {0: 0x30, 25: 0x10, 100: 0x20}


def apply_knob(rng, c, knob):
    """One knob of the quality spec moved inside its documented range (soxr.h / _soxr_init's validation)."""
    c = dict(c)
    if knob == "ph*":
        knob = rng.choice(["ph0", "ph25", "ph75", "ph100"])
    elif knob == "band*":
        knob = rng.choice(["sb<1", "sb>1", "sb>1.1", "pb"])
    if knob.startswith("ph"):
        v = int(knob[2:])
        if v in _PHASE_BITS and rng.below(2):
            c["recipe"] = (c["recipe"] & ~0x30) | _PHASE_BITS[v]          # the recipe's phase flags
        else:
            c["phase"] = float(v)                                          # the public field
    elif knob == "sb<1":
        c["pb"] = round(rng.uniform(0.62, 0.86), 4)
        c["sb"] = round(min(0.985, c["pb"] + rng.uniform(0.05, 0.22)), 4)
    elif knob in ("sb>1", "sb>1.1"):
        # two strata: a stop band that starts just above the lower Nyquist limit, and one well above it (what a misplaced band edge of a later
        # stage lets through grows with stopband_begin - 1)
        c["sb"] = round(rng.uniform(1.01, 1.09), 4) if knob == "sb>1" else round(rng.uniform(1.09, 1.14), 4)
        # aliasing / imaging is admitted above 2 - stopband_begin: the pass-band has to end below it (up-sampling: enforced by
        # _soxr_init, "imaging greater than rolloff"; down-sampling: the same reading of the configuration, see assumptions)
        hi = 2 - c["sb"] - 0.003
        # the far stratum keeps the pass-band end in the top of what the configuration admits (in-band tones next to the admitted aliasing:
        # the demanding case for every stage's band edges); the near stratum spreads it
        c["pb"] = round(rng.uniform(hi - 0.06, hi) if knob == "sb>1.1" else rng.uniform(max(0.62, c["sb"] - 0.45), hi), 4)
    elif knob == "pb":
        c["pb"] = round(rng.uniform(0.60, 0.975), 4)
    elif knob == "roll":
        cur = soxr_rolloff(c)
        c["qflags"] = (c.get("qflags", 0) & ~3) | rng.choice([r for r in (0, 1, 2) if r != cur])
    elif knob == "prec":
        c["prec"] = round(rng.uniform(15.0, 33.0), 2)
    elif knob == "gain":
        c["scale"] = rng.choice([0.5, 2.0, 0.37, 1.7, -1.0, 0.125])       # io_spec.scale: the stage that carries it folds it into its coefficients
    return c


def soxr_rolloff(c):
    q = c["recipe"] & 0xf
    if q <= 2:
        return 1
    if q == 10:
        return 3
    return c.get("qflags", 0) & 3


# planner paths that every run has to hit (regular expressions on plan_class); the covering pool is built so that each has
# cheap members, a run that misses one reports it
import re
REQUIRED_CLASSES = [
    ("dft-only, F-domain up-sampling (power-of-two L)", r"^dft\[Fup\d\+?\]$"),
    ("dft-only, F-domain down-sampling (M = 2, 4)", r"^dft\[Fdn\d\]$"),
    ("time-domain decimation M = 3 with block_len % M != 0", r"Tdn3u"),
    ("time-domain decimation with block_len % M == 0", r"Tdn\d\]"),
    ("time-domain decimation M = 2 / 4 (stopband_begin > 1)", r"Tdn[24]u?\]"),
    ("zero-stuffing up-sampling in a dft stage (L = 3, 5)", r"Tup\d"),
    ("dft stage changing the rate both ways (L > 1 and M > 1)", r"dft\[[FT]up\d\+?,[FT]dn"),
    ("pre and post dft stages without a poly-phase stage", r"^dft\[[^\]]*\]\+dft\["),
    ("half-band chain (two or more halvings)", r"^half\*n\+"),
    ("one half-band stage", r"^half\+"),
    ("(1.5,2) down-sampling: poly-phase stage + post stage /2", r"^poly\d\+dft\[[FT]dn2u?\]$"),
    ("up-sampling: pre stage + poly-phase stage + post stage", r"^dft\[Fup2\]\+poly\d\+dft\[Fup"),
    ("down-sampling: pre stage + poly-phase stage", r"dft\[\]\+poly\d$"),
    ("up-sampling: pre stage + poly-phase stage", r"^dft\[Fup2\]\+poly\d$"),
    ("poly-phase stage alone (LQ up-sampling)", r"^poly\d$"),
]
REQUIRED_ORDERS = [("coefficient interpolation order 0 (rational poly-phase)", r"poly0"), ("interpolation order 1", r"poly1"),
                   ("interpolation order 2", r"poly2"), ("interpolation order 3", r"poly3")]
REQUIRED_ENGINES = ["cr32", "cr32s", "cr64", "cr64s"]


def missing_classes(hit, required):
    return [name for name, rx in required if not any(re.search(rx, h) for h in hit)]


def job_planinfo(c):
    try:
        info, _ = run(c)
        return info
    except Exception as e:
        return {"error": "harness: " + str(e)[:200]}


def cover(rng, knobs, ratios, per_ratio=2, members=3, max_period=64, engines=(0, 1), extra_filter=None, rtflags=(None,)):
    """Seeded covering set.  Returns (selection, stats): selection = list of dicts {"class", "knob", "members": [cfg, ...]}
    with up to `members` alternative configurations per (plan class, knob) pair (cheapest implementation periods first, the
    order among comparably cheap ones drawn from rng); stats = what the pool contained."""
    cands = []
    for (ir, orr) in ratios:
        for knob in knobs:
            for _ in range(per_ratio):
                rec, qf = rng.choice(COVER_RECIPES)
                c = mkcfg(ir, orr, rec, qf, simd=rng.choice(list(engines)))
                if rng.below(8) == 0:
                    c["qflags"] = qf | 16                                  # SOXR_DOUBLE_PRECISION
                rt = rng.choice(list(rtflags))
                if rt is not None:
                    c["rtflags"] = rt                                      # SOXR_COEF_INTERP_LOW / HIGH: interpolation order forced
                c = apply_knob(rng, c, knob)
                cands.append((knob, c, rng.next()))
    # anchors: a fixed list of (ratio, recipe) whose plans reach every required planner path, always in the pool (the random draws above
    # reach the rarer paths - LQ up-sampling with the poly-phase stage alone, order 3, time-domain M = 2 - only with some probability)
    irr = [r for r in ratios if not (float(r[0]).is_integer() and float(r[1]).is_integer())]
    for (ir, orr) in ANCHOR_RATIOS:
        for rec in ANCHOR_RECIPES:
            cands.append(("base", mkcfg(ir, orr, rec, 0, simd=rng.choice(list(engines))), rng.next()))
    for (ir, orr) in ANCHOR_SB_GT1:
        for rec in (3, 4, 6):
            for kn in ("sb>1", "sb>1.1"):
                cands.append((kn, apply_knob(rng, mkcfg(ir, orr, rec, 0, simd=rng.choice(list(engines))), kn), rng.next()))
    if irr:
        for (ir, orr) in ANCHOR_IRRATIONAL:
            for rec in (4, 7):
                for rt in (None, 2, 3):
                    c = mkcfg(ir, orr, rec, 0, simd=rng.choice(list(engines)))
                    if rt is not None:
                        c["rtflags"] = rt
                    cands.append(("base", c, rng.next()))
    infos = pool_map(job_planinfo, [c for _, c, _ in cands], chunksize=32)
    groups = {}
    n_err = 0
    for (knob, c, tie), info in zip(cands, infos):
        if "error" in info or not info.get("engine", "").startswith("cr") or not info["stages"]:
            n_err += "error" in info
            continue
        if extra_filter and not extra_filter(c, info):
            continue
        per = plan_period(info)
        fr = Fraction(c["orr"]).limit_denominator(1 << 20) / Fraction(c["ir"]).limit_denominator(1 << 20)
        if per is not None and per[0] * fr.denominator == per[1] * fr.numerator:
            cost = max(per)
            if cost > max_period:
                continue
        else:
            cost = 1
        groups.setdefault((plan_class(info), knob), []).append((cost, tie, c))
    sel = []
    for key in sorted(groups):
        g = sorted(groups[key], key=lambda t: (t[0], t[1]))
        lo = g[0][0]
        cheap = [t for t in g if t[0] <= 2 * lo + 2]
        cheap.sort(key=lambda t: t[1])                                     # rotate among comparably cheap members
        rest = [t for t in g if t[0] > 2 * lo + 2]
        sel.append({"class": key[0], "knob": key[1], "members": [t[2] for t in (cheap + rest)[:members]], "pool": len(g)})
    return sel, {"candidates": len(cands), "create_errors": n_err, "pairs": len(sel), "classes": len(set(k[0] for k in groups))}


# ------------------------------------------------------------------ pool jobs (top level: picklable)

# ------------------------------------------------------------------ known findings of the pinned tree (known_findings.d/signal.json)



def finding_flags(info):
    """Which signatures of known_findings.d/signal.json the configuration matches (configuration / plan part only)."""
    q = info["q"]
    kinds = [s["kind"] for s in info["stages"]]
    up = info.get("plan", {}).get("io_ratio", 1.0) < 1
    return {
        "F-PH1": fph1_signature(info),
        "F-SG1": rolloff_of(info) == 0 and any(k.startswith("poly") for k in kinds),
        "F-SG3": info.get("engine", "") in ("cr32", "cr32s") and bits_of(info) > 19 and up and q["sb"] < 1,
        "F-SG5": bits_of(info) == 16 and rolloff_of(info) == 1 and "poly1" in kinds,
        "F-SG6": q["sb"] > 1.1 and bits_of(info) >= 26 and "half" in kinds,
        "F-SG7": rolloff_of(info) == 3 and any(k.startswith("poly") for k in kinds) and (q["sb"] != 1 or q["pb"] > 0.6631),
    }


# symptom part of the signatures: metric -> largest measured/bound ratio that still is the known finding (anything above is reported)
FINDING_SYMPTOM = {
    "F-PH1": {"stop": 8.0, "img": 8.0, "res": 4.0, "rowsum": 4.0},      # stop / img: replaced per precision and phase by fph1_limit() below
    "F-SG1": {"gain": 2.0},                                              # |gain error| in (0.01, 0.02] dB
    "F-SG3": {"stop": 1.13},                                             # at most 1 dB above 2^-bits
    "F-SG5": {"res": 1.5},                                               # fit residual <= 1.5 x 2^(1-bits)
    "F-SG7": {"rowsum": 2.0},                                            # DC / row sums <= 2 x 2^(1-bits) (mapped: 1.27; plain recipe 0.80)
    "F-SG6": {"stop": 8.0},                                              # at most 18 dB above 2^-bits (mapped: 3.63 at 33 bits, stopband_begin 1.14)
}
ACTIVE = set()           # ids of the findings listed as `known` for the running property (set_active)


def set_active(pid):
    global ACTIVE
    ACTIVE = {f["id"] for f in common.known_active(pid)}
    return ACTIVE


def fph1_limit(r, metric):
    """F-PH1's symptom for the stop-band / image metrics: the worst shortfall measured for the precision (calibration sweep of
    design-probes/fph1/fph1_sweep*.py, table FPH1_WORST_DB of checks/phaselib.py: 6.6 dB at 28 bits ... 23.6 dB at 33 bits) plus 1.5 dB, as a
    ratio to 2^-bits; 2.0 dB in the tail 25 < min(phase, 100-phase) < 30.  The other metrics keep their fixed factors."""
    if metric in ("stop", "img") and r.get("bits") is not None and r.get("phase") is not None:
        from checks import phaselib
        a = phaselib.fph1_allowance_db(float(r["bits"]), float(r["phase"]))
        if a is not None:
            return 10.0 ** (a / 20.0)
    return FINDING_SYMPTOM["F-PH1"][metric]


def known_excess(r, metric, m, level=None):
    """r: a job_rows / tone result carrying "flags"; metric in stop/img/res/rowsum/gain; m = measured/bound (> 1 fails).
    Returns the id of the known finding that explains the excess, or None (then it is a violation)."""
    if m <= 1:
        return None
    for fid, on in sorted(r.get("flags", {}).items()):
        if not on or fid not in ACTIVE or metric not in FINDING_SYMPTOM[fid]:
            continue
        if m <= (fph1_limit(r, metric) if fid == "F-PH1" else FINDING_SYMPTOM[fid][metric]):
            return fid
    return None


def known_text(fid, r, what):
    return "%s: %s [plan %s, engine %s]" % (r["label"], what, r.get("plan"), r.get("engine"))


def probe_f1(c, clause="tone"):
    """One configuration with the F1 signature sent through the real code (in a child process: F1 can crash at flush).
    Returns a text when the known misbehaviour shows, None when this member behaves."""
    try:
        info, _ = run(c)
        if "error" in info or not f1_exact(info):
            return None
        bits = bits_of(info)
        ratio = float(c["ir"]) / float(c["orr"])
        if clause == "dc":
            N = int(60000 * max(1.0, ratio))
            _, y = run(c, np.ones(N))
            q = len(y) // 4
            dev = float(np.abs(y[q:3 * q] - 1.0).max()) if q else 0.0
            if dev > 2.0 ** (1 - bits):
                return "%s [plan %s]: a constant 1.0 comes out off by up to %.3g (bound 2^(1-bits) = %.3g)" % (cfg_label(c), plan_signature(info), dev, 2.0 ** (1 - bits))
            # the constant survives: fall through to the in-band tone (x -> y is not the linear, shift-covariant map of the model)
        t = tone_job(c, 0.43 * info["q"]["pb"] * min(1.0, 1.0 / ratio), amp=0.9, nfit=6000, kind="pass")
        if "resid" in t and (t["resid"] > 2.0 ** (1 - bits) or (clause == "image" and t["image"] > 2.0 ** -bits)):
            return ("%s [plan %s]: in-band tone at %.4f x input Nyquist: gain %.2f dB, fit residual %.3g, strongest image line %.3g (bounds 2^(1-bits) = %.3g, "
                    "2^-bits)" % (cfg_label(c), plan_signature(info), t["f_in"], t["gain_db"], t["resid"], t["image"], 2.0 ** (1 - bits)))
        return None
    except RuntimeError as e:
        return "%s: the harness process died while streaming (%s)" % (cfg_label(c), str(e)[:120])
    except Exception:
        return None


def report_f1(ctx, f1_seen, probe, pid):
    """Plans with the F1 signature were set aside.  F1 is only produced for phase_response != 50: a LINEAR-phase plan with a
    misaligned power-of-two-L dft stage is not the known finding - every such member is probed and a misbehaviour is a violation with
    the probe as the failing input.  Non-linear members: up to 4 are probed, KNOWN-FINDING when the misbehaviour shows."""
    lin = [r for r in f1_seen if r.get("f1_linear")]
    non = [r for r in f1_seen if not r.get("f1_linear")][:4]
    if _f1_listed_known():
        non.append({"cfg": mkcfg(1, 32, 4 | 0x10, 0, simd=1)})   # a fixed member with the F1 signature (HQ, intermediate phase, post stage L = 8)
    ctx.count("f1_signature_configurations_set_aside", len(f1_seen))
    ctx.count("f1_signature_with_linear_phase", len(lin))
    res = pool_map(probe, [r["cfg"] for r in lin[:12] + non])
    for r, txt in zip(lin[:12] + non, res):
        if not txt:
            continue
        if r.get("f1_linear") or "F1" not in ACTIVE:
            ctx.violation("%s: a dft stage with power-of-two L whose block length is not a multiple of L, with LINEAR phase (not the signature of known finding F1) "
                          "or F1 no longer listed as known: %s" % (pid, txt), {"config": r["cfg"], "probe": txt,
                          "replay": "harness/signal/run.c " + " ".join(cfg_args(r["cfg"])) + "  < in-band sine / constant 1.0 (float64)"})
        else:
            ctx.known("F1", txt)


def job_rows_first(args):
    """args = (members, max_phases, max_cost): the first member whose rows fit the phase / cost caps."""
    r = None
    for c in args[0]:
        r = job_rows((c,) + tuple(args[1:]))
        if "skipped" in r and ("cost cap" in r["skipped"] or "phase cap" in r["skipped"]):
            continue
        break
    return r


def job_rows(args):
    c, max_phases = args[0], args[1]
    max_cost = args[2] if len(args) > 2 else 8e6
    try:
        info0, _ = run(c)
        if "error" not in info0 and info0.get("engine", "").startswith("cr") and f1_known(info0):
            # F1 also over-delivers and can crash at flush (DESIGN section 6): no signal is sent through such a plan here
            return {"cfg": c, "label": cfg_label(c), "skipped": "known finding F1 signature (dft stage with power-of-two L not dividing block_len)",
                    "plan": plan_signature(info0), "f1": True, "f1_linear": info0["q"]["phase"] == 50}
        R = measure_rows(c, max_phases, max_cost)
        if isinstance(R, dict):
            d = {"cfg": c, "label": cfg_label(c), "skipped": R["skipped"]}
            if "info" in R:
                d["plan"] = plan_signature(R["info"])
                d["designed_ok"] = designed_ok(R["info"])
            return d
        pm = passband_metrics(R)
        sm = stopband_metrics(R)
        return {"cfg": c, "label": cfg_label(c), "engine": R.info["engine"], "plan": plan_signature(R.info), "LP": R.LP, "MP": R.MP,
                "L": R.L, "M": R.M, "bits": pm["bits"], "rolloff": rolloff_of(R.info), "class_db": gain_class_db(R.info),
                "linear": pm["linear"], "pass": pm, "stop": sm, "W": R.W, "tail": R.tailmass, "extent": R.extent,
                "stream": R.stream, "designed_ok": designed_ok(R.info), "phase": R.info["q"]["phase"],
                "pb": R.info["q"]["pb"], "sb": R.info["q"]["sb"], "pclass": plan_class(R.info), "flags": finding_flags(R.info)}
    except Exception as e:            # a crash of the measurement is reported by the caller, never swallowed
        import traceback
        return {"cfg": c, "label": cfg_label(c), "error": traceback.format_exc()[-1500:]}


def job_tone(args):
    c, kw = args
    try:
        info, _ = run(c)
        if "error" in info:
            return {"cfg": c, "label": cfg_label(c), "skipped": "create failed: " + info["error"]}
        if not info.get("engine", "").startswith("cr") or bits_of(info) < 15:
            return {"cfg": c, "label": cfg_label(c), "skipped": "property does not speak (precision < 15 bits)"}
        if f1_known(info):
            return {"cfg": c, "label": cfg_label(c), "skipped": "known finding F1 signature", "f1": True, "f1_linear": info["q"]["phase"] == 50}
        d = tone_job(c, **kw)
        d.update(cfg=c, label=cfg_label(c), kw=kw, class_db=gain_class_db(info), pb=info["q"]["pb"], sb=info["q"]["sb"],
                 pclass=plan_class(info), flags=finding_flags(info), phase=info["q"]["phase"])
        return d
    except Exception as e:
        import traceback
        return {"cfg": c, "label": cfg_label(c), "kw": kw, "error": traceback.format_exc()[-1500:]}


def pool_map(fn, jobs, workers=None, chunksize=1):
    from concurrent.futures import ProcessPoolExecutor
    if not jobs:
        return []
    workers = workers or min(common.NCPU, 16)
    harness()            # build once, in the parent
    with ProcessPoolExecutor(workers) as ex:
        return list(ex.map(fn, jobs, chunksize=chunksize))


def ratio_margin(x, lim):
    return None if x is None else round(x / lim, 4)
