"""Helpers of the `chan` area (C06 channel isolation, C10 history independence): harness builds, the toy-engine
correspondence (real soxr.c + data-io.c over a toy engine  vs  the Lean model `soxr_chan`), job generators for the
real-engine falsifiers harness/chan/iso.c and harness/chan/history.c."""
import os, subprocess
from vlib import common

CHAN_EXE = os.path.join(common.LEAN, ".lake", "build", "bin", "soxr_chan")
PAIRS = [(1, 1), (2, 1), (3, 1), (5, 1), (1, 2), (3, 2), (7, 2), (1, 4), (3, 4), (5, 4), (1, 8)]   # reduced m/l, l a power of two


def exe_api():
    return common.build_harness("chan_api", ["chan/api.c"], variant="dbg")


def exe_iso():
    return common.build_harness("chan_iso", ["chan/iso.c"], variant="rel")


def exe_history():
    return common.build_harness("chan_history", ["chan/history.c"], variant="rel")


def run_text(exe, lines, timeout=300, env=None):
    try:
        p = subprocess.run([exe], input="\n".join(lines) + "\n", stdout=subprocess.PIPE, stderr=subprocess.PIPE,
                           universal_newlines=True, timeout=timeout, env=env, errors="replace")
    except subprocess.TimeoutExpired as e:
        out = e.stdout.decode(errors="replace") if isinstance(e.stdout, bytes) else (e.stdout or "")
        return "timeout", out.splitlines(), "timeout after %ds" % timeout
    return p.returncode, p.stdout.splitlines(), p.stderr[-2000:]


# ---------------------------------------------------------------------------------------------- toy-engine jobs (C06 tie)

def lean_line(l):
    """the Lean driver takes the same lines minus the fields only the C side needs (itype, eng64 / datatype of imap)"""
    t = l.split()
    if t[0] == "cfg":
        return " ".join(t[:11])
    if t[0] == "imap":
        return " ".join(t[:4])
    return l


def gen_replies(rng):
    toks = []
    for _ in range(rng.below(5)):
        k = rng.below(30)
        if k == 0:
            toks.append("f")
        elif k <= 2:
            toks.append("e")
        else:
            toks.append("d%d:%d" % (rng.choice([0, 1, 2, 3, 5, 8, 16, 17, 30, 64]), rng.below(1 << 20)))
    return toks


def gen_toy_job(rng, ctx=None):
    ch = rng.choice([1, 1, 2, 2, 3, 3, 4, 5, 8])
    isplit, osplit = rng.below(2), rng.below(2)
    itype, otype = rng.below(4), rng.below(4)
    dither = rng.below(2) if otype == 3 else rng.below(2) * rng.below(2)
    m, l = rng.choice(PAIRS)
    scale = rng.choice([1, 1, 2, 4])
    vr = 1 if rng.chance(.25) else 0
    eng64 = rng.below(2)
    cfg = "cfg %d %d %d %d %d %d %d %d %d %d %d %d" % (ch, isplit, osplit, otype, dither, m, l, scale, 1 + rng.below(1 << 32), vr, itype, eng64)
    ops = [cfg]
    both = isplit and osplit

    def sz(big=False):
        k = rng.below(12)
        if k == 0: return 0
        if k == 1: return 1
        if k == 2: return 15 + rng.below(4)          # around the 16-sample blocks of rint-clip.h
        if k == 3: return 31 + rng.below(3)
        if k == 4 and big: return 100 + rng.below(200)
        return rng.below(40)
    for _ in range(4 + rng.below(22)):
        k = rng.below(100)
        if k < 62:
            has_in = 0 if rng.chance(.12) else 1
            ilen0, olen = sz(True), sz(True)
            fr = 1 if rng.chance(.15) else 0
            wi = rng.below(2)
            op = 1
            if rng.chance(.03) and (not has_in or (not both and olen > 0)):
                op = 0
            ops.append(" ".join(["proc %d %d %d %d %d %d %d" % (has_in, ilen0, fr, wi, op, olen, rng.below(1 << 20))] + gen_replies(rng)))
        elif k < 72:
            ops.append("setfn %d" % rng.choice([0, 0, 1, 3, 16, 100]))
        elif k < 88:
            olen = sz(True)
            op = 0 if (rng.chance(.02) and olen > 0) else 1
            ops.append(" ".join(["pull %d %d" % (op, olen)] + gen_replies(rng)))
        elif k < 94:
            mm, ll = rng.choice(PAIRS)
            ops.append("ratio %d %d %d" % (mm, ll, rng.below(50)))
        else:
            ops.append("clear")
    if ctx is not None:
        ctx.hist("toy_ch", ch)
        ctx.hist("toy_layout", "%s/%s" % ("split" if isplit else "inter", "split" if osplit else "inter"))
        ctx.hist("toy_types", "%d->%d" % (itype, otype))
        ctx.hist("toy_dither", dither if otype == 3 else "n/a")
        ctx.hist("toy_engine", "vr" if vr else ("f64" if eng64 else "f32"))
    return ops


def gen_imap(rng):
    ch = rng.choice([1, 1, 2, 3, 4, 5, 7, 8, 9])
    n = rng.choice([0, 1, 2, 15, 16, 17, 33]) if rng.chance(.6) else rng.below(40)
    return "imap %s %d %d %d %d" % (rng.choice(["de", "in"]), ch, n, rng.below(4), rng.below(2))


def toy_correspondence(ctx, njobs, nimap, chunk=40):
    """Runs generated toy jobs through harness/chan/api.c and soxr_chan; returns the first mismatch (dict) or None."""
    exe = exe_api()
    jobs = [gen_toy_job(ctx.rng, ctx) for _ in range(njobs)]
    jobs.append([gen_imap(ctx.rng) for _ in range(nimap)])
    stats = {"lines": 0, "errors_seen": 0, "clipping_calls": 0, "nonempty_outputs": 0, "flushing_seen": 0, "pull_calls": 0}
    distinct = set()
    for i in range(0, len(jobs), chunk):
        part = jobs[i:i + chunk]
        lines = [l for j in part for l in j]
        rc, a, ea = run_text(exe, lines)
        rl, b, eb = run_text(CHAN_EXE, [lean_line(l) for l in lines])
        a = [x.rstrip() for x in a]; b = [x.rstrip() for x in b]
        if rc != 0 or rl != 0 or len(a) != len(lines) or len(b) != len(lines) or a != b:
            # locate the job
            for j in part:
                rc1, a1, e1 = run_text(exe, j)
                rl1, b1, e2 = run_text(CHAN_EXE, [lean_line(l) for l in j])
                a1 = [x.rstrip() for x in a1]; b1 = [x.rstrip() for x in b1]
                if rc1 != 0 or rl1 != 0 or a1 != b1 or len(a1) != len(j):
                    k = next((x for x in range(min(len(a1), len(b1))) if a1[x] != b1[x]), min(len(a1), len(b1)))
                    return {"job": j, "op_index": k, "op": j[k] if k < len(j) else None,
                            "real": a1[k] if k < len(a1) else "(no answer; rc=%s %s)" % (rc1, e1[-300:]),
                            "model": b1[k] if k < len(b1) else "(no answer; rc=%s %s)" % (rl1, e2[-300:])}
            return {"job": lines[:50], "op_index": -1, "real": "chunk differs but no single job does (state leak between jobs?)", "model": ""}
        prev_clips = 0
        for l, x in zip(lines, a):
            stats["lines"] += 1
            if x.startswith("o "):
                kv = dict(t.split("=", 1) for t in x.split()[1:] if "=" in t)
                if kv["err"] != "0": stats["errors_seen"] += 1
                if int(kv["clips"]) > prev_clips: stats["clipping_calls"] += 1
                prev_clips = int(kv["clips"])
                if kv["n"] != "0": stats["nonempty_outputs"] += 1
                if kv["fl"] == "1": stats["flushing_seen"] += 1
                if l.startswith("pull"): stats["pull_calls"] += 1
                distinct.add((l.split()[0], kv["err"], kv["fl"], kv["n"] != "0", kv["odone"] == "0"))
            elif l.startswith("cfg"):
                prev_clips = 0
                t = l.split()
                distinct.add(("cfg", t[1], t[2], t[3], t[4], t[5], t[11], t[12], t[10]))
    ctx.cov["toy_correspondence"] = stats
    ctx.count("evaluations", stats["lines"])
    ctx.count("distinct_nontrivial", len(distinct))
    return None


# ---------------------------------------------------------------------------------------------- real-engine jobs

RATES = [(1, 1), (1, 2), (2, 1), (44100, 48000), (48000, 44100), (3, 2), (2, 3), (1, 3), (4, 1), (96000, 44100), (8000, 44100), (5, 7)]


def gen_real_cfg(rng, allow_vr=True):
    """k=v configuration words for harness/chan/common.h:inst_create (safe region: linear phase, default runtime spec)"""
    ir, orr = rng.choice(RATES)
    vr = allow_vr and rng.chance(.15)
    recipe = 4 if vr else rng.choice([0, 1, 2, 4, 4, 6])
    kv = {"ir": ir, "or": orr, "recipe": recipe, "qflags": 32 if vr else 0}
    if not vr and rng.chance(.2):
        kv["qflags"] = rng.choice([0, 16])          # SOXR_DOUBLE_PRECISION
    return kv, vr


def kvline(kv):
    return " ".join("%s=%s" % (k, v) for k, v in kv.items())


def gen_schedule(rng, N, vr=False, ratio=1.0):
    """push / pull / oneshot schedule over N input frames; returns list of op lines (harness/chan/common.h:inst_op)"""
    est = int(N / ratio) + 64
    style = rng.below(4)
    ops = []
    if style == 3:            # low latency: every request is a handful of frames (shorter than any block-wise fast path)
        N = min(N, int(700 * max(ratio, .05)) + 1)
        est = int(N / ratio) + 64
        ops.append("limit %d" % N)
        for _ in range(20 + rng.below(60)):
            ops.append("feed %d %d %d" % (rng.choice([1, 3, 7, 12, 15, 40]), rng.choice([1, 2, 5, 10, 15]), rng.below(2)))
            if vr and rng.chance(.1):
                ops.append("ratio %.6f %d" % (ratio * rng.choice([.45, .5, .7, .9, 1.0]), rng.choice([0, 100, 1000])))
        ops.append("feed %d %d 0" % (N, rng.choice([1, 7, 15])))
        ops.append("drain %d" % rng.choice([5, 15, max(15, est // 40)]))
    elif style == 0:          # push
        ops.append("limit %d" % N)
        for _ in range(2 + rng.below(12)):
            ops.append("feed %d %d %d" % (rng.choice([1, 7, 64, 100, 333, 1000, 4096]), rng.choice([1, 10, 64, 257, 1000, 5000]), rng.below(2)))
            if vr and rng.chance(.35):      # moves across octave boundaries (stage switches, cross-fades) while streaming; never above the maximum
                ops.append("ratio %.6f %d" % (ratio * rng.choice([.5, .9, .45, .7, 1.0, .26]), rng.choice([0, 100, 1000])))
        ops.append("feed %d %d 0" % (N, rng.choice([100, 1000, 4096])))
        ops.append("drain %d" % max(64, est // 20))
    elif style == 1:          # pull
        ops.append("limit %d" % N)
        ops.append("setfn %d" % rng.choice([0, 0, 64, 1000]))
        ops.append("script " + " ".join("d%d" % rng.choice([1, 16, 100, 333, 1024, 5000]) for _ in range(3 + rng.below(12))) + " d100000000")
        for _ in range(rng.below(5)):
            ops.append("pull %d" % rng.choice([1, 10, 100, 1000]))
            if vr and rng.chance(.4):
                ops.append("ratio %.6f %d" % (ratio * rng.choice([.5, .45, .7, 1.0]), rng.choice([0, 100, 1000])))
        ops.append("pulldrain %d" % max(64, est // 20))
    else:                     # one-shot
        ops.append("limit %d" % N)
        ops.append("oneshot %d %d" % (N, est + rng.below(100)))
        ops.append("drain %d" % max(64, est // 20))
    return ops
