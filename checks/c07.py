"""C07 — memory safety and the buffer contract hold for every call sequence.

  proof      lean/SoxrModel/Properties/C07.lean: byte-level FIFO refines the abstract queue for every op sequence, every
             pointer handed out lies in the current block, reserve/trim pattern, kernel index sets inside the FIFO on the
             count model (for every reachable state), idone <= ilen, odone <= olen and the caller-buffer footprints of
             soxr_process / soxr_input / soxr_output for both layouts, both paths, any number of pull-loop iterations.
  tie        (1) Generated.lean (FIFO_MIN, pointer and datatype sizes) from /repo's headers;
             (2) fifo micro-correspondence: thousands of random op sequences through the REAL fifo.h (ASan/UBSan build,
                 the header's own FIFO_MIN and three small ones) and through the Lean model `soxr_fifo`, every line
                 (begin, end, allocation, returned offset / NULL, occupancy, hash of the bytes read) diffed; an
                 independent queue oracle in this file decides whether a disagreement is a defect of the code;
             (3) the witness calls of the footprint theorems replayed on the real code with exactly-sized buffers.
  falsifier  generated API call sequences on the real library built with ASan + UBSan (C99 semantics, so that shifts
             of negative values are reported), asserts live, abort on the first report, every caller buffer ending exactly
             at its allocation boundary; idone <= ilen and odone <= olen checked on every call.  A report is classified
             against the ACTIVE known findings by specific signatures (plan clause / call site / configuration); anything
             else is a VIOLATION with the minimised op sequence as replay.
"""
import json, os, re, subprocess, time, glob
from concurrent.futures import ThreadPoolExecutor
from vlib import common

LEVEL = "proof"
PID = "C07"
common.VARIANTS.setdefault("san99", common.VARIANTS["san"] + " -std=gnu99")   # additive: UBSan with C99 shift rules
SAN = "san99"
FIFO_EXE = os.path.join(common.LEAN, ".lake", "build", "bin", "soxr_fifo")
SMALL_MINS = (64, 100, 1024)


# ====================================================================== fifo micro-correspondence

def gen_fifo_seq(rng, fmin, nops):
    """One op sequence for a FIFO created with the given FIFO_MIN.  The generator tracks the occupancy (in items) so
    that the trims stay inside the contract; reads ask for anything, also more than is there."""
    sz = rng.choice([4, 8, 4, 8, 1, 2, 3, 12])
    per = max(1, fmin // sz)                      # items that fill FIFO_MIN
    ops = ["create %d %d" % (sz, fmin)]
    occ = 0

    def size():
        k = rng.below(10)
        if k == 0: return 0
        if k == 1: return 1
        if k == 2: return per + rng.below(3) - 1          # FIFO_MIN/item_size - 1, +0, +1
        if k == 3: return max(0, per // 2 + rng.below(5) - 2)
        if k == 4: return 2 * per + rng.below(3) - 1
        if k == 5: return rng.below(4 * per + 2)           # large
        if k == 6: return rng.below(8) + 1
        return rng.below(per + 2)
    for _ in range(nops):
        k = rng.below(100)
        if k < 30:
            n = size(); ops.append("write %d" % n); occ += n
        elif k < 45:
            n = size(); ops.append("reserve %d" % n); occ += n
        elif k < 72:
            j = rng.below(8)
            n = occ if j == 0 else occ + 1 + rng.below(3) if j == 1 else rng.below(occ + 1) if j < 6 else size()
            ops.append("read %d" % n)
            if n <= occ: occ -= n
        elif k < 82:
            n = rng.below(occ + 1) if rng.below(4) else occ
            ops.append("trim_by %d" % n); occ -= n
        elif k < 88:
            n = rng.below(occ + 1)
            ops.append("trim_to %d" % n); occ = n
        elif k < 91:
            ops.append("clear"); occ = 0
        elif k < 96:
            # the kernels' pattern: reserve max, keep i, trim the rest
            n = size(); i = rng.below(n + 1)
            ops.append("reserve %d" % n); ops.append("trim_by %d" % (n - i)); occ += i
        else:
            ops.append("dump")
    ops.append("dump")
    ops.append("read %d" % occ)
    return ops


def fnv(bs):
    h = 0xCBF29CE484222325
    for b in bs:
        h = ((h ^ b) * 0x100000001B3) & 0xFFFFFFFFFFFFFFFF
    return h


def queue_oracle(ops, lines):
    """Independent oracle for the real fifo.h: an abstract byte queue run over the ops, compared with what the C side
    printed.  Returns None or a description of the first departure from queue semantics / bounds."""
    q = bytearray(); w = 0; sz = 1
    for i, (op, ln) in enumerate(zip(ops, lines)):
        m = re.match(r"b=(\d+) e=(\d+) a=(\d+) r=(\S+) occ=(-?\d+) h=(\S+)$", ln)
        if not m:
            return "op %d (%s): unexpected answer %r" % (i, op, ln)
        b, e, a, r, occ, h = int(m.group(1)), int(m.group(2)), int(m.group(3)), m.group(4), int(m.group(5)), m.group(6)
        t = op.split(); n = int(t[1]) if len(t) > 1 else 0
        if t[0] == "create":
            sz = n; q = bytearray(); w = 0
        elif t[0] in ("write", "reserve"):
            ln_b = n * sz
            q += bytes(((w + k) * 167 + 13) % 251 for k in range(ln_b)); w += ln_b
            if r in ("null", "-") or int(r) + ln_b > a or int(r) + ln_b != e:
                return "op %d (%s): returned region [%s,+%d) not the tail of [begin,end) inside the block of %d bytes" % (i, op, r, ln_b, a)
        elif t[0] == "read":
            ln_b = n * sz
            if ln_b <= len(q):
                if r == "null":
                    return "op %d (%s): NULL although %d bytes are queued" % (i, op, len(q))
                if int(r) + ln_b > a:
                    return "op %d (%s): returned region [%s,+%d) outside the block of %d bytes" % (i, op, r, ln_b, a)
                if h != str(fnv(q[:ln_b])):
                    return "op %d (%s): bytes read are not the front of the queue (FIFO order / content broken)" % (i, op)
                del q[:ln_b]
            elif r != "null":
                return "op %d (%s): read of %d bytes succeeded with only %d queued" % (i, op, ln_b, len(q))
        elif t[0] == "trim_to":
            del q[n * sz:]
        elif t[0] == "trim_by":
            del q[len(q) - n * sz:]
        elif t[0] == "clear":
            q = bytearray()
        elif t[0] == "dump":
            if h != str(fnv(q)):
                return "op %d (dump): queue content differs from what was written" % i
        if not (b <= e <= a):
            return "op %d (%s): invariant begin <= end <= allocation broken: b=%d e=%d a=%d" % (i, op, b, e, a)
        if occ != len(q) // sz or e - b != len(q):
            return "op %d (%s): occupancy %d (end-begin=%d) but %d bytes are queued" % (i, op, occ, e - b, len(q))
    return None


def run_exe(exe, ops, timeout=120):
    try:
        p = subprocess.run([exe], input="\n".join(ops) + "\n", stdout=subprocess.PIPE, stderr=subprocess.PIPE,
                           universal_newlines=True, timeout=timeout, env=san_env({}), errors="replace")
    except subprocess.TimeoutExpired as e:
        out = e.stdout.decode(errors="replace") if isinstance(e.stdout, bytes) else (e.stdout or "")
        return "timeout", out.splitlines(), "timeout after %ds (the reserve loop of fifo.h does not return?)" % timeout
    return p.returncode, p.stdout.splitlines(), p.stderr


def san_env(extra):
    env = dict(os.environ)
    env.update({"ASAN_OPTIONS": "detect_leaks=0:abort_on_error=0:allocator_may_return_null=1:malloc_context_size=6",
                "UBSAN_OPTIONS": "print_stacktrace=1", "OMP_NUM_THREADS": "2", "OMP_WAIT_POLICY": "passive", "GOMP_SPINCOUNT": "0"})
    for k in ("SOXR_USE_SIMD", "SOXR_USE_SIMD32", "SOXR_USE_SIMD64", "SOXR_TRACE", "SOXR_MIN_DFT_SIZE", "SOXR_LARGE_DFT_SIZE",
              "SOXR_COEFS_SIZE", "SOXR_NUM_THREADS", "SOXR_COEF_INTERP", "SOXR_STRICT_BUF", "SOXR_NOSMALLINTOPT"):
        env.pop(k, None)
    env.update(extra)
    return env


def fifo_one(exe_c, seq, timeout=120):
    """-> (c_lines, model_lines, stderr_of_c, rc)"""
    rc, cl, err = run_exe(exe_c, seq, timeout)
    _, ml, _ = run_exe(FIFO_EXE, seq)
    return cl, ml, err, rc


def fifo_valid(seq):
    """the caller's obligations (ValidOps of the Lean development): trims never remove more than is queued."""
    occ = 0
    for op in seq:
        t = op.split(); n = int(t[1]) if len(t) > 1 else 0
        if t[0] == "create": occ = 0
        elif t[0] in ("write", "reserve"): occ += n
        elif t[0] == "read": occ -= n if n <= occ else 0
        elif t[0] == "trim_to":
            if n > occ: return False
            occ = n
        elif t[0] == "trim_by":
            if n > occ: return False
            occ -= n
        elif t[0] == "clear": occ = 0
    return True


def fifo_minimise(exe_c, seq, still_bad):
    """greedy: drop ops (never the create) while the sequence stays valid and the failure persists."""
    cur = list(seq); budget = 200
    i = len(cur) - 1
    while i >= 1 and budget > 0:
        cand = cur[:i] + cur[i + 1:]
        if fifo_valid(cand):
            budget -= 1
            if still_bad(cand):
                cur = cand
        i -= 1
    return cur


def fifo_correspondence(ctx, fmin_real):
    t0 = time.time()
    variants = [(m, micro_exe(m, fmin_real)) for m in (fmin_real,) + tuple(x for x in SMALL_MINS if x != fmin_real)]
    n_real = 400 if ctx.quick else 4000
    n_small = 4000 if ctx.quick else 40000
    jobs = []
    for fmin, exe in variants:
        nseq = n_real if fmin == fmin_real else n_small
        # sequences are grouped into batches (one process each); every sequence starts with its own `create`
        per_batch = 30 if fmin == fmin_real else 300
        seqs = [gen_fifo_seq(ctx.rng, fmin, 12 + ctx.rng.below(40)) for _ in range(nseq)]
        for i in range(0, len(seqs), per_batch):
            jobs.append((fmin, exe, seqs[i:i + per_batch]))

    def work(job):
        fmin, exe, seqs = job
        flat = [op for s in seqs for op in s]
        cl, ml, err, rc = fifo_one(exe, flat, 60)
        return job, flat, cl, ml, err, rc
    nops = nseq_total = compactions = growths = nulls = 0
    problems = []
    with ThreadPoolExecutor(common.NCPU) as ex:
        for job, flat, cl, ml, err, rc in ex.map(work, jobs):
            fmin, exe, seqs = job
            nseq_total += len(seqs); nops += len(flat)
            pa = None
            for ln in cl:
                m = re.match(r"b=(\d+) e=(\d+) a=(\d+) r=(\S+)", ln)
                if not m: continue
                if m.group(4) == "null": nulls += 1
                a = int(m.group(3))
                if pa is not None and a > pa: growths += 1
                pa = a
            if cl == ml and rc == 0 and len(cl) == len(flat):
                continue
            # locate the sequence that goes wrong
            k = 0
            for s in seqs:
                c1, m1, e1, r1 = fifo_one(exe, s, 10)
                if c1 != m1 or r1 != 0 or len(c1) != len(s):
                    problems.append((fmin, exe, s, c1, m1, e1, r1)); break
            else:
                problems.append((fmin, exe, flat, cl, ml, err, rc))
            if len(problems) >= 3: break
    ctx.count("fifo_sequences", nseq_total); ctx.count("fifo_ops", nops)
    ctx.cov["fifo_growths_seen"] = growths; ctx.cov["fifo_null_reads_seen"] = nulls
    ctx.cov["fifo_min_values"] = [v[0] for v in variants]
    ctx.cov["fifo_corr_s"] = round(time.time() - t0, 1)
    ctx.count("traces_validated_against_impl", nseq_total - len(problems))
    if jobs:
        ctx.sample({"fifo_ops": jobs[0][2][0][:12], "fifo_min": jobs[0][0]})
    found_input = False
    for fmin, exe, s, c1, m1, e1, r1 in problems[:2]:
        found_input = fifo_verdict(ctx, fmin, fmin_real, exe, s, minimise=True) or found_input
    return len(problems) == 0, found_input


def micro_exe(fmin, fmin_real):
    if fmin == fmin_real:
        return common.build_harness("fifo_micro", ["fifo/micro.c"], variant=SAN, link_lib=False)
    return common.build_harness("fifo_micro_min%d" % fmin, ["fifo/micro.c"], variant=SAN, extra="-DFIFO_MIN=%d" % fmin, link_lib=False)


def fifo_verdict(ctx, fmin, fmin_real, exe, seq, minimise):
    """Decides one failing (or replayed) fifo op sequence.  Returns True when a violation with a failing input was recorded."""
    def bad(cand):
        c, m, e, r = fifo_one(exe, cand, 10)
        return c != m or r != 0 or len(c) != len(cand)
    smin = fifo_minimise(exe, seq, bad) if minimise else list(seq)
    c, m, e, r = fifo_one(exe, smin, 10)
    if c == m and r == 0 and len(c) == len(smin):
        return False
    san = sanitizer_summary(e)
    why = queue_oracle(smin, c) if not san and r == 0 and len(c) == len(smin) else None
    first = next((i for i, (x, y) in enumerate(zip(c, m)) if x != y), min(len(c), len(m)))
    replay = {"kind": "fifo", "fifo_min": fmin, "ops": smin, "real": c[max(0, first - 1):first + 2], "model": m[max(0, first - 1):first + 2],
              "how": "build harness/fifo/micro.c (ASan+UBSan%s) and feed ops; compare with lean/.lake/build/bin/soxr_fifo" % ("" if fmin == fmin_real else ", -DFIFO_MIN=%d" % fmin)}
    if san or r != 0 or len(c) != len(smin):
        ctx.violation("fifo.h: sanitizer report / abnormal end on a valid op sequence: %s" % (san or e[-200:] or "exit %s" % r), dict(replay, stderr=e[-1500:]))
        return True
    if why:
        ctx.violation("fifo.h departs from queue semantics on a valid op sequence: " + why, replay)
        return True
    # the code still is a correct queue on this sequence, but it is no longer the code the theorems are about
    ctx.violation("fifo micro-correspondence broke (fifo.h behaves differently from the Lean model Fifo/Model.lean that fifo_refines_queue / "
                  "fifo_ptr_in_bounds are proved about) at op %d of the replay; the queue oracle found no semantic defect on it" % first,
                  replay, no_input=True)
    return False


# ====================================================================== sanitizer streams

SIZES = [0, 0, 1, 1, 2, 3, 7, 8, 9, 15, 16, 17, 63, 64, 65, 127, 128, 255, 256, 257, 1023, 1024, 1025, 2047, 2048, 2049,
         4095, 4096, 4097, 8191, 8192, 8193, 16383, 16384, 16385]

RATIOS = {
    "small": [(1, 2), (2, 1), (3, 2), (2, 3), (4, 1), (1, 4), (3, 1), (1, 3), (5, 4), (4, 5), (7, 5), (5, 7), (8, 1), (1, 8), (5, 1), (1, 5), (9, 7), (1, 1)],
    "audio": [(44100, 48000), (48000, 44100), (96000, 44100), (22050, 48000), (8000, 44100), (44100, 8000), (48000, 96000), (192000, 48000), (32000, 44100), (11025, 8000)],
    "up": [(1, 16), (1, 64), (1, 128), (3, 1024), (1, 1000), (1, 300)],
    # flushing costs input_size/ratio output frames (16M frames, 128 MB for 1->8192): thorough tier only
    "up_huge": [(7, 48000), (1, 4096), (1, 8192), (8, 65537)],
    "down": [(16, 1), (100, 1), (1024, 3), (64, 1), (1000, 1), (500, 3)],
    # 13 halving stages; a flush pushes one zero-padded input block through each of them: thorough tier only
    "down_huge": [(48000, 7), (8192, 1), (10000, 1), (65537, 8)],
    "irrational": [(1, 3.14159265358979), (2.718281828, 1), (44100, 48000.0001), (1.0001, 1), (1, 1.41421356237), (0.999, 1), (48000.3, 44100)],
    "threshold": [(1.5, 1), (1.499, 1), (1.501, 1), (2.001, 1), (3.0001, 1), (3.9999, 1), (1, 4.0001), (1, 5.001), (1, 15.99), (1, 16.01)],
}


def pick_size(rng, big=40000):
    k = rng.below(10)
    if k < 6: return rng.choice(SIZES)
    if k < 8: return rng.below(600)
    return rng.below(big)


def gen_create(rng, avoid=1, vr=False, huge=False):
    """-> (create line, meta)"""
    cls = rng.choice(["small", "small", "audio", "audio", "up", "down", "irrational", "threshold"])
    if cls in ("up", "down") and huge and rng.below(4) == 0:
        cls += "_huge"
    ir, orr = rng.choice(RATIOS[cls])
    simd = rng.below(2)
    itype, otype = rng.below(8), rng.below(8)
    ch = rng.choice([1, 1, 2, 2, 3, 4])
    m = {"cls": cls, "simd": simd, "itype": itype, "otype": otype, "ch": ch, "vr": vr}
    kv = []
    if vr:
        mx = rng.choice([1, 2, 4, 8, 16, 5.5, 0.9, 32])
        ir, orr = mx, 1
        recipe = rng.choice([1, 4, 4, 6])      # precision is ignored by the VR engine; recipes only set flags
        kv += ["recipe=%d" % recipe, "qflags=%d" % (32 | rng.below(3))]
        m.update(cls="vr", recipe=recipe, maxr=mx)
    else:
        recipe = rng.choice([0, 1, 2, 3, 4, 4, 5, 6, 6, 7])
        phase_bits = rng.choice([0, 0, 0, 0x10, 0x30])
        steep = 0x40 if rng.below(6) == 0 else 0
        qflags = rng.choice([0, 0, 0, 1, 2]) | (8 if rng.below(4) == 0 else 0) | (16 if rng.below(5) == 0 else 0)
        kv += ["recipe=%d" % (recipe | phase_bits | steep), "qflags=%d" % qflags]
        m.update(recipe=recipe, qflags=qflags)
        if rng.below(4) == 0:
            ph = rng.choice([0, 25, 50, 75, 100]); kv.append("phase=%d" % ph); m["phase"] = ph
        else:
            m["phase"] = {0: 50, 0x10: 25, 0x30: 0}[phase_bits]
        if recipe and rng.below(5) == 0:
            pr = rng.choice([15, 16, 17, 20, 20.5, 21, 24, 28, 32, 33]); kv.append("prec=%s" % pr); m["prec"] = pr
    large = 8 + rng.below(13) if rng.below(2) else 17
    if simd and orr / float(ir) > 4 and large < 13 and avoid:
        large = 8 + rng.below(13)               # the whole documented range 8..20 (F5, which made <= 12 unusable, is repaired)
    mn = 8 + rng.below(8) if rng.below(2) else 10
    kv += ["min=%d" % mn, "large=%d" % large]
    if rng.below(3) == 0: kv.append("kb=%d" % (100 + rng.below(701)))
    kv.append("rtflags=%d" % (rng.below(4) | (rng.below(4) << 2 if rng.below(4) == 0 else 0)))
    kv.append("ioflags=%d" % rng.choice([0, 0, 8]))
    kv.append("scale=%s" % rng.choice(["1", "1", "0.5", "2.5"]))
    if ch > 1 and rng.below(4) == 0:
        kv.append("threads=0")
    kv.append("mis=%d" % rng.choice([0, 0, 1, 2, 3]))
    m.update(ir=ir, orr=orr, large=large, min=mn)
    line = "create ir=%r or=%r ch=%d itype=%d otype=%d %s avoid=%d" % (ir, orr, ch, itype, otype, " ".join(kv), avoid)
    return line, m


def gen_stream(rng, quick, avoid=1):
    vr = rng.below(6) == 0
    line, m = gen_create(rng, avoid, vr, huge=not quick)
    ops = []
    ratio = float(m["ir"]) / float(m["orr"])          # io ratio
    deferred = rng.below(12) == 0
    if deferred:
        # soxr_create with rates and/or channels left open, completed by set_num_channels / set_io_ratio
        how = rng.below(3)
        l2 = line
        if how in (0, 2): l2 = re.sub(r"ch=\d+", "ch=0", l2)
        if how in (1, 2): l2 = re.sub(r"ir=\S+ or=\S+", "ir=0 or=0", l2)
        ops.append(l2)
        seq = []
        if how in (0, 2): seq.append("setch %d" % m["ch"])
        if how in (1, 2): seq.append("setratio %r 0" % ratio)
        if rng.below(2): seq.reverse()
        ops += seq
        if how in (0, 2) and rng.below(2): ops.append("setch %d" % (m["ch"] + 1))     # refused once initialised
    else:
        ops.append(line)
    # cost model (frames through the slowest point): input frames, output frames, and for a flush the zero padding of
    # one input block pushed through the whole chain (input_size / ratio output frames)
    budget = 200000 if quick else 1200000
    per_op = 90000 if quick else 400000
    flush_cost = 8192.0 / min(ratio, 1.0)
    if m["cls"] in ("up_huge", "down_huge"): budget, per_op = 4 * budget, 4 * per_op
    pull = rng.below(4) == 0
    work = 0.0
    nops = 4 + rng.below(22)
    max_ilen = 0
    if pull:
        max_ilen = rng.choice([0, 1, 7, 64, 100, 1000, 8192, 100000])
        ops.append("setfn %d" % max_ilen)
    cur = ratio
    flushed = False

    def fit(olen, extra=0.0):
        """largest request <= olen whose cost fits the per-op allowance"""
        per_out = max(1.0, cur)
        return int(max(0, min(olen, (per_op - extra) / per_out)))
    for _ in range(nops):
        if work > budget: break
        k = rng.below(100)
        if k < 4:
            ops.append("delay"); continue
        if k < 7:
            ops.append("clear"); flushed = False; cur = ratio; continue
        if k < 9 and not vr:
            ops.append("setratio %r 0" % (ratio if rng.below(2) else ratio * 1.5)); continue     # same ratio accepted, another refused
        if vr and k < 22:
            r = m["maxr"] * 2.0 ** (-rng.below(5000) / 1000.0)
            ops.append("setratio %r %d" % (r, rng.choice([0, 0, 1, 100, 1000, 4000]))); cur = r; continue
        if k < 11:
            ops.append("engine"); continue
        ilen = pick_size(rng)
        if ratio < 0.01: ilen = min(ilen, 64)
        j = rng.below(5)
        olen = pick_size(rng) if j < 2 else int(ilen / cur) + rng.below(3) - 1 if j < 4 else int(4 * ilen / cur) + rng.below(100)
        olen = max(0, min(olen, 300000))
        if pull and rng.below(3):
            n = 1 + rng.below(5)
            toks = ["d%d" % pick_size(rng, 20000) if rng.below(8) else "e" for _ in range(n)]
            if flushed: toks = ["e"]
            last = toks[-1]
            small = min(max_ilen or 10 ** 9, int(last[1:]) if last[0] == "d" else 10 ** 9)
            will_flush = "e" in toks or "d0" in toks
            olen = fit(olen, flush_cost if will_flush else 0.0)
            if small < 64: olen = min(olen, int(3000 / max(cur, 0.01)))      # bounds the number of callbacks
            if will_flush: flushed = True
            ops.append("pull %d %s" % (olen, " ".join(toks))); work += olen * max(1.0, cur) + (flush_cost if will_flush else 0) + 1000
            continue
        if flushed or rng.below(9) == 0:
            olen = fit(olen, flush_cost)
            ops.append("proc 0 0 0 0 %d" % olen); flushed = True; work += olen * max(1.0, cur) + flush_cost + 1000
        else:
            fr = 1 if rng.below(12) == 0 else 0
            olen = fit(olen, flush_cost if fr else 0.0)
            ops.append("proc 1 %d %d %d %d%s" % (fr, rng.below(2), ilen, olen, " d100 e" if pull and rng.below(2) else ""))
            if fr: flushed = True       # (the harness never feeds once the library has latched flushing)
            work += max(ilen, olen * max(1.0, cur)) + (flush_cost if fr else 0) + 1000
    # drain
    for _ in range(rng.below(4)):
        if work > 2 * budget: break
        olen = fit(pick_size(rng, 100000), flush_cost)
        ops.append("proc 0 0 0 0 %d" % olen); work += olen * max(1.0, cur) + flush_cost
    if rng.below(5) == 0:
        ops.append("delete")
        if rng.below(2):
            l3, m3 = gen_create(rng, avoid, False)
            if m3["cls"] in ("up", "down", "up_huge", "down_huge"): l3 = re.sub(r"ir=\S+ or=\S+", "ir=3 or=2", l3)
            ops += [l3, "proc 1 0 1 %d %d" % (pick_size(rng, 3000), pick_size(rng, 3000)), "proc 0 0 0 0 %d" % pick_size(rng, 3000)]
    m["pull"] = pull; m["deferred"] = deferred
    return {"env": {"SOXR_USE_SIMD": str(m["simd"])}, "ops": ops, "meta": m}


BIG_RATIOS = [(1537, 1024), (2047, 1024), (88200, 48000), (147, 80), (1999, 2000), (1024, 2047), (1000, 1999), (44100, 48000), (3, 2), (2, 3),
              (1, 2), (7, 5), (1.7320508, 1), (48000, 44100)]


def gen_bigblock(rng, k=99):
    """a whole file handed over in one block (what soxr_oneshot users do): 2^20 .. 2^21+ frames in a single soxr_process call, so that
    every product the stage functions form from the FIFO occupancy (num_in * L, occupancy * sizeof, reservations) is exercised with
    seven-digit operands; one channel of float32 keeps the exactly-sized buffers small"""
    ir, orr = rng.choice(BIG_RATIOS)
    recipe = rng.choice([1, 1, 4, 4, 6, 3])
    simd = rng.below(2)
    n = rng.choice([1 << 20, (1 << 20) + 1, 1100000, (1 << 21) + 5, 1500000])
    if k < 2:            # the two plans with the most phases (L = 2048, 1024) are in every run, whole block accepted
        (ir, orr), n, recipe = BIG_RATIOS[k], [1100000, (1 << 21) + 5][k], 4
    ratio = float(ir) / float(orr)
    olen = int(n / ratio) + 100
    line = "create ir=%r or=%r ch=1 itype=0 otype=0 recipe=%d qflags=0 min=10 large=17 rtflags=0 ioflags=0 scale=1 mis=0 avoid=1" % (ir, orr, recipe)
    idone = rng.below(2) if k >= 2 else 0
    ops = [line, "proc 1 %d %d %d %d" % (rng.below(2), idone, n, olen if not idone else rng.choice([olen, olen // 3])), "proc 0 0 0 0 %d" % olen, "proc 0 0 0 0 1000"]
    m = {"cls": "whole-file-block", "simd": simd, "itype": 0, "otype": 0, "ch": 1, "vr": False, "recipe": recipe, "qflags": 0, "phase": 50,
         "ir": ir, "orr": orr, "large": 17, "min": 10, "pull": False, "deferred": False}
    return {"env": {"SOXR_USE_SIMD": str(simd)}, "ops": ops, "meta": m}


def sanitizer_summary(err):
    """one line describing the first sanitizer report / assertion in stderr ('' if none)."""
    m = re.search(r"ERROR: AddressSanitizer: (\S+)", err)
    if m:
        acc = re.search(r"\n((?:READ|WRITE) of size \d+)", err)
        fr = re.findall(r"#\d+ 0x[0-9a-f]+ in (\S+) (%s/[^\s:]+:\d+)" % re.escape(common.SRC), err) or \
            re.findall(r"#\d+ 0x[0-9a-f]+ in (\S+) (%s/[^\s:]+:\d+)" % re.escape(common.HARNESS), err)
        where = (" in %s %s" % fr[0]) if fr else ""
        loc = re.search(r"is located (\d+ bytes (?:to the right of|to the left of|inside of|after|before) \d+-byte region)", err)
        return "ASan %s%s%s%s" % (m.group(1), " " + acc.group(1) if acc else "", where, " (" + loc.group(1) + ")" if loc else "")
    m = re.search(r"(\S+?/src/[^\s:]+:\d+):\d+: runtime error: ([^\n]+)", err) or re.search(r"(\S+:\d+):\d+: runtime error: ([^\n]+)", err)
    if m:
        return "UBSan %s: %s" % (m.group(1), m.group(2)[:160])
    m = re.search(r"(\S+:\d+): (\S+): Assertion `([^']+)' failed", err)
    if m:
        return "assert %s %s: %s" % (m.group(1), m.group(2), m.group(3)[:120])
    if "AddressSanitizer" in err or "runtime error" in err:
        return "sanitizer: " + err.strip().splitlines()[0][:200]
    return ""


def run_stream(exe, st, timeout):
    t = time.time()
    try:
        p = subprocess.run([exe], input="\n".join(st["ops"]) + "\n", stdout=subprocess.PIPE, stderr=subprocess.PIPE,
                           universal_newlines=True, timeout=timeout, env=san_env(st["env"]), errors="replace")
        rc, out, err = p.returncode, p.stdout, p.stderr
    except subprocess.TimeoutExpired as e:
        rc, out, err = "timeout", (e.stdout or b"").decode(errors="replace") if isinstance(e.stdout, bytes) else (e.stdout or ""), ""
    res = {"rc": rc, "out": out, "err": err, "t": time.time() - t}
    lines = out.splitlines()
    res["breach"] = [l for l in lines if l.startswith("C breach")]
    res["extent"] = [l for l in lines if l.startswith("C extent")]
    res["ended"] = bool(lines) and lines[-1] == "# end"
    res["nops_done"] = sum(1 for l in lines if l.startswith("# ")) - (1 if res["ended"] else 0)
    res["san"] = sanitizer_summary(err)
    res["bad"] = bool(res["breach"]) or (rc != "timeout" and (rc != 0 or not res["ended"] or bool(res["san"])))
    return res


def f1_plan(out):
    """the plan clause of F1: a dft stage with power-of-two L whose block length is not a multiple of L."""
    for l in out.splitlines():
        if l.startswith("P stage="):
            kv = dict(x.split("=", 1) for x in l.split()[1:] if "=" in x)
            if kv.get("kind", "").startswith("dft"):
                L, bl = int(kv.get("L", 1)), int(kv.get("blockLen", 0))
                if L >= 2 and L & (L - 1) == 0 and bl % L:
                    return "stage %s: L=%d blockLen=%d" % (kv.get("stage"), L, bl)
    return None


def classify(st, res, active):
    """-> (finding id or None, text).  Signatures are specific: plan clause (F1), configuration + call site (F5),
    engine + report kind + file (F14)."""
    ops = " ".join(st["ops"])
    san, err = res["san"], res["err"]
    if "F1" in active:
        sig = f1_plan(res["out"])
        if sig:
            return "F1", "non-linear phase, power-of-two-L dft stage with L not dividing block_len (%s): %s" % (sig, san or "; ".join(res["breach"]) or "abnormal end")
    if "F5" in active and "pffft_new_setup" in err and "Assertion" in err:
        # the assertion fires inside soxr_create / the initialising set_io_ratio: the last create line is the culprit
        creates = [o for o in st["ops"][:max(1, res["nops_done"])] if o.startswith("create")]
        if creates:
            kv = dict(x.split("=", 1) for x in creates[-1].split()[1:] if "=" in x)
            large = int(kv.get("large", 17))
            try:
                up = float(kv.get("or", 1)) / float(kv.get("ir", 1))
            except ZeroDivisionError:
                up = 0
            sr = [o for o in st["ops"][:max(1, res["nops_done"])] if o.startswith("setratio")]
            if not up and sr:
                up = 1 / float(sr[-1].split()[1])
            if large <= 12 and up > 4 and st["env"].get("SOXR_USE_SIMD") == "1":
                return "F5", "log2_large_dft_size=%d (documented range 8..20), SIMD engine, up-sampling %.0f: %s" % (large, up, san)
    if "F14" in active and "left shift of negative value" in err and re.search(r"vr32\.c:\d+:\d+: runtime error: left shift of negative", err) \
            and "engine=vr32" in res["out"]:
        return "F14", "variable-rate engine, slew to a smaller ratio across an octave: %s" % san
    if "F36" in active and "left shift of negative value" in err and re.search(r"#0 \S+ in do_input_stage \S*vr32\.c", err) and "engine=vr32" in res["out"]:
        return "F36", "variable-rate engine, more than one up-switch inside one vr_process call (stage left below its preload): %s" % san
    return None, san or "; ".join(res["breach"]) or ("exit status %s without a report (stdout ends: %r)" % (res["rc"], res["out"][-120:]))


def minimise_stream(exe, st, res, timeout, same):
    """truncate after the op that failed, then drop earlier ops greedily while the same failure persists."""
    ops = list(st["ops"])
    n = max(1, res["nops_done"])
    ops = ops[:n]
    cur = dict(st, ops=ops)
    r = run_stream(exe, cur, timeout)
    if not (r["bad"] and same(r)):
        return st, res
    best, bres = cur, r
    budget = 40
    i = len(ops) - 2
    while i >= 1 and budget > 0:
        if best["ops"][i].startswith("create"):
            i -= 1; continue
        cand = dict(best, ops=best["ops"][:i] + best["ops"][i + 1:])
        budget -= 1
        r = run_stream(exe, cand, timeout)
        if r["bad"] and same(r):
            best, bres = cand, r
        i -= 1
    return best, bres


def pinned_corpus(fmin):
    """Cases that run first on every run.  `expect`: None = must be clean; "Fx" = hits that known finding on purpose
    (reported as KNOWN-FINDING while it is active; if it no longer reproduces that is noted, not alarmed)."""
    per4 = fmin // 4
    C = []

    def add(name, ops, expect=None, simd="1"):
        C.append({"name": name, "env": {"SOXR_USE_SIMD": simd}, "ops": ops, "meta": {"cls": "pinned", "name": name}, "expect": expect})
    # the witnesses of the (historical) footprint negations, now ordinary cases: exactly-sized tiny interleaved output
    add("F2-witness int16 mono olen=1", ["create ir=2 or=1 ch=1 itype=3 otype=3", "proc 1 0 1 100 1", "proc 1 0 1 100 0", "proc 1 0 0 100 1", "proc 0 0 0 0 1", "proc 0 0 0 0 0"])
    add("interleaved output of 6 and of 8 bytes", ["create ir=1 or=2 ch=1 itype=3 otype=3", "proc 1 0 1 500 3", "proc 1 0 1 500 4", "proc 1 0 1 500 1",
                                                    "create ir=1 or=2 ch=3 itype=0 otype=3", "proc 1 0 1 500 1", "proc 1 0 1 500 0"])
    add("F15-witness pull, split output, several iterations", ["create ir=2 or=1 ch=1 itype=0 otype=4", "setfn 3000", "pull 5000 d3000", "pull 1 d3000", "pull 0 d1",
                                                             "create ir=2 or=1 ch=4 itype=7 otype=7", "setfn 100", "pull 3000 d100", "pull 3000 d100 d7 e", "pull 100 e"])
    add("both-split path, OpenMP over channels", ["create ir=3 or=2 ch=4 itype=5 otype=6 threads=0", "proc 1 0 1 4097 4097", "proc 1 0 0 1 0", "proc 0 0 0 0 10000"])
    add("sizes around FIFO_MIN/item", ["create ir=1 or=1 ch=1 itype=0 otype=0 recipe=4 scale=0.5", "proc 1 0 0 %d 0" % (per4 - 1), "proc 1 0 0 1 0", "proc 1 0 0 1 %d" % (per4 + 1),
                                        "proc 1 0 0 %d %d" % (2 * per4 + 1, per4), "proc 0 0 0 0 100000"])
    add("clear / delay / deferred configuration", ["create ir=0 or=0 ch=0 itype=1 otype=2", "setch 2", "setratio 0.5 0", "proc 1 0 1 1000 3000", "delay", "clear", "delay",
                                                    "proc 1 1 0 10 3000", "proc 0 0 0 0 3000", "setch 3", "setratio 0.25 0", "delete"])
    add("variable rate, upward slew across octaves", ["create ir=8 or=1 ch=2 itype=0 otype=3 recipe=4 qflags=32", "setratio 1.1 0", "proc 1 0 1 3000 3000",
                                                       "setratio 7.9 3000", "proc 1 0 1 20000 2000", "proc 1 0 1 20000 2000", "proc 0 0 0 0 5000"])
    # known findings, hit on purpose (avoid=0)
    add("F1-witness (fixed): HQ phase 25, 1->128", ["create ir=1 or=128 ch=1 recipe=4 phase=25 itype=0 otype=0 avoid=0"] + ["proc 1 0 0 5000 700000"] * 8 + ["proc 0 0 0 0 700000"])
    add("F5-witness (fixed): LQ 1->8192 large=8", ["create ir=1 or=8192 ch=1 recipe=1 large=8 itype=0 otype=0 avoid=0", "proc 1 1 0 10 90000"])
    add("F36-witness (fixed): VR 0.67 -> 8.77 at once, long call", ["create ir=16 or=1 ch=2 itype=0 otype=4 recipe=4 qflags=34 scale=2.5 avoid=0", "setratio 0.6712862513901316 0",
                                                        "setratio 8.772572708703153 1", "proc 1 0 0 1023 117", "proc 1 0 0 31850 10259", "proc 1 0 0 2048 481"])
    add("F14-witness (fixed): VR slew 4 -> 1.5", ["create ir=4 or=1 ch=1 recipe=4 qflags=32 itype=0 otype=0 avoid=0", "proc 1 0 1 1000 1000", "setratio 1.5 2000",
                                        "proc 1 0 1 4000 4000", "proc 1 0 1 4000 4000"])
    return C


def sanitizer_sweep(ctx, fmin):
    t0 = time.time()
    exe = common.build_harness("fifo_santrace", ["fifo/santrace.c"], variant=SAN)
    ctx.cov["san_build_s"] = round(time.time() - t0, 1)
    active = {f["id"] for f in common.known_active(PID)}
    timeout = 40 if ctx.quick else 300
    streams = []
    for p in sorted(glob.glob(os.path.join(common.VERIF, "corpus", PID, "*.json"))):
        try:
            d = json.load(open(p))
            streams.append({"env": d.get("env", {}), "ops": d["ops"], "meta": {"cls": "corpus", "name": os.path.basename(p)}, "expect": d.get("expect")})
        except Exception as e:
            ctx.notes.append("corpus file %s unreadable: %s" % (p, e))
    streams += pinned_corpus(fmin)
    npinned = len(streams)
    nbig = 6 if ctx.quick else 120
    for k in range(nbig):                 # first, so that the deadline below never drops them
        streams.append(gen_bigblock(ctx.rng, k))
    n = 4000 if ctx.quick else 150000
    for _ in range(n):
        streams.append(gen_stream(ctx.rng, ctx.quick))
    t1 = time.time()
    deadline = t1 + (55 if ctx.quick else 1250)

    def work(i):
        if time.time() > deadline and i >= npinned + nbig:
            return i, None
        return i, run_stream(exe, streams[i], timeout)
    calls = skipped_f1 = timeouts = nrun = 0
    seen = set()
    keep = []          # (stream, result) that need a verdict: failures, and every pinned / corpus case
    extent_breaks = []
    with ThreadPoolExecutor(common.NCPU) as ex:
        for i, r in ex.map(work, range(len(streams))):
            if r is None:
                continue
            st = streams[i]; m = st["meta"]; nrun += 1
            ncalls = r["out"].count("\n< R ")
            calls += ncalls
            if "< SKIP f1-plan" in r["out"]: skipped_f1 += 1
            if r["rc"] == "timeout": timeouts += 1
            eng = re.findall(r"READY engine=(\S+)", r["out"])
            for e in eng: ctx.hist("engine", e)
            if i >= npinned:
                ctx.hist("ratio_class", m["cls"]); ctx.hist("datatypes(i,o)", "%d,%d" % (m["itype"], m["otype"]))
                ctx.hist("channels", m["ch"]); ctx.hist("mode", "pull" if m.get("pull") else "push")
                if m.get("deferred"): ctx.hist("mode", "deferred-config")
                if not m.get("vr"): ctx.hist("recipe", m["recipe"]); ctx.hist("phase", m.get("phase"))
                if i < npinned + 3:
                    ctx.sample({"env": st["env"], "ops": st["ops"][:8], "result_tail": r["out"].splitlines()[-3:]})
            if ncalls >= 2 and eng:
                seen.add((tuple(eng), m.get("itype"), m.get("otype"), m.get("ch"), m.get("cls"), m.get("recipe"), m.get("pull"), len(st["ops"])))
            if r["extent"] and not r["bad"] and len(extent_breaks) < 3:
                extent_breaks.append((st, r))
            if r["bad"] or i < npinned:
                keep.append((st, r))
            streams[i] = None
    ctx.cov["san_sweep_s"] = round(time.time() - t1, 1)
    ctx.count("evaluations", nrun); ctx.count("api_calls", calls)
    ctx.count("distinct_nontrivial", len(seen))
    ctx.cov["streams_generated"] = len(streams); ctx.cov["streams_run"] = nrun
    ctx.cov["f1_plans_skipped"] = skipped_f1; ctx.cov["timeouts"] = timeouts
    # verdicts
    hits = 0
    for st, r in keep:
        exp = st.get("expect")
        if not r["bad"]:
            if exp and exp in active:
                ctx.notes.append("pinned case %r did not reproduce %s on this tree (if it was repaired, mark it fixed in known_findings)" % (st["meta"].get("name"), exp))
            continue
        fid, text = classify(st, r, active)
        if fid:
            ctx.known(fid, text)
            if exp is None:
                ctx.hist("known_hits_outside_pinned_cases", fid)
            continue
        hits += 1
        if hits > 3:
            continue
        key = (r["san"] or "")[:60]
        best, bres = minimise_stream(exe, st, r, timeout, lambda x, key=key: (x["san"] or "")[:60] == key)
        fid2, text2 = classify(best, bres, active)
        if fid2:       # minimisation walked into a known finding: keep the original
            best, bres, text2 = st, r, text
        ctx.violation("memory-safety / buffer-contract falsifier: " + text2,
                      {"kind": "api", "env": best["env"], "ops": best["ops"], "report": bres["err"][-2500:], "stdout_tail": bres["out"].splitlines()[-6:],
                       "how": "build harness/fifo/santrace.c with variant san99 (ASan+UBSan, -std=gnu99) against /repo/src and feed ops on stdin with env"})
    ctx.cov["unknown_failures"] = hits
    ctx.cov["api_calls_write_extent_checked"] = calls
    for st, r in extent_breaks[:1]:
        ctx.violation("footprint correspondence broke: the library wrote beyond `odone` frames of the output buffer (still inside olen, so the buffer contract holds on this "
                      "input), but the footprint model of Properties/C07 (process_footprint: write set = out[0, odone*ch)) no longer describes soxr.c: " + "; ".join(r["extent"][:3]),
                      {"kind": "api", "env": st["env"], "ops": st["ops"][:max(1, r["nops_done"])], "stdout_tail": r["out"].splitlines()[-6:]}, no_input=True)
    return hits


def footprint_tie(ctx):
    """what the footprint model (Variant.current) predicts for the two witness calls, next to what the real code does
    (the corresponding pinned cases of the sweep must be clean iff the model says `bad=none`)."""
    ops = ["variant", "fp 1 2 2 0 0 1 0 1 100 1 2 0:0", "fp 1 4 4 0 1 0 0 0 0 2 0 1:8 1:0", "fp 3 4 2 0 0 1 0 1 500 1 250 1:0"]
    rc, out, err = run_exe(FIFO_EXE, ops)
    ctx.cov["footprint_model"] = out
    return out


def replay_only(ctx, fmin, broken):
    """bin/check C07 --replay <file>: re-runs exactly the stored failing input on the current tree."""
    d = json.load(open(ctx.replay)); d = d.get("replay", d)
    ctx.count("evaluations", 1); ctx.count("distinct_nontrivial", 1); ctx.sample(d)
    if d.get("kind") == "fifo":
        fm = int(d["fifo_min"])
        fifo_verdict(ctx, fm, fmin, micro_exe(fm, fmin), d["ops"], minimise=False)
    elif d.get("kind") == "api":
        exe = common.build_harness("fifo_santrace", ["fifo/santrace.c"], variant=SAN)
        st = {"env": d.get("env", {}), "ops": d["ops"], "meta": {"cls": "replay"}}
        r = run_stream(exe, st, 300)
        if r["bad"]:
            fid, text = classify(st, r, {f["id"] for f in common.known_active(PID)})
            if fid: ctx.known(fid, text)
            else: ctx.violation("memory-safety / buffer-contract falsifier (replay): " + text, dict(d, report=r["err"][-2500:]))
    else:
        ctx.notes.append("replay file names no failing input (kind=%r): %s" % (d.get("kind"), json.dumps(d)[:300]))
        if broken:
            ctx.violation("proof obligations of Properties/C07.lean do not check: " + "; ".join(broken)[:1500], {"broken": broken}, no_input=True)


def run(ctx):
    broken = common.proof_stage(ctx, ["SoxrModel.Properties." + PID], PID, exes=("soxr_fifo",), gens=("Fifo",))
    ctx.cov["rule"] = ("fifo: random op sequences (reserve/write/read/trim_to/trim_by/clear, sizes 0, 1, FIFO_MIN/item_size +-1, multiples, reads beyond the occupancy) "
                       "through the real fifo.h and the Lean model, all lines diffed; api: generated call sequences (create / deferred set_num_channels + set_io_ratio / "
                       "set_input_fn / process push+flush / output pull / clear / delay / delete+recreate) over 5 engines x 8x8 datatypes x 1-4 channels x ratio classes x "
                       "recipes x phases x runtime specs under ASan+UBSan with exactly-sized buffers; a stream is counted as distinct non-trivial when it completed at "
                       "least two process/output calls on an initialised resampler, keyed by (engines, datatypes, channels, ratio class, recipe, mode, length)")
    ctx.assume("malloc/realloc succeed (allocation failure is property C20)",
               "sizes below 2^31 (the code casts to int) and no size_t wrap-around in fifo offsets",
               "no input is supplied after end-of-input has been signalled (in == NULL, ~ilen taken fully, or the input function returned 0) until soxr_clear: "
               "the pinned soxr_input then writes through the NULL that _soxr_input returns; read as outside 'valid arguments'",
               "out != NULL (soxr_process(.., NULL, 0, ..) dereferences / memcpy's a null destination for some layouts); VR ratios <= the maximum given at creation",
               "sanitizer-class undefined behaviour (alignment, shifts, conversions, signed overflow, lifetime errors in the FFT back-ends, the VR kernels) is outside the Lean model: "
               "it is exhibited only by running the real code under ASan/UBSan on the generated streams, which is a search, not a proof",
               "the planner is not modelled: the kernel theorems hold for every stage configuration meeting the stated clauses (pre_post = 4n, step <= (pre_post+1)*den, capacity); "
               "that real plans meet them is checked by PlanWF sweeps (C03 area) and by the library's own asserts, live in the sanitizer build",
               "the API footprint model abstracts the engine by law E2 (delivered <= requested), proved for the constant-rate count model only")
    if not os.path.exists(FIFO_EXE):
        ctx.violation("the model driver soxr_fifo could not be built", {"broken": broken}, no_input=True)
        return
    rc, g, _ = run_exe(FIFO_EXE, ["gen"])
    fmin = int(re.search(r"fifoMin=(\d+)", g[0]).group(1))
    ctx.cov["fifo_min"] = fmin
    if getattr(ctx, "replay", None):
        return replay_only(ctx, fmin, broken)
    corr_ok, fifo_input = fifo_correspondence(ctx, fmin)
    fp = footprint_tie(ctx)
    hits = sanitizer_sweep(ctx, fmin)
    # the footprint model must describe the code in /repo: model says in-bounds <=> the witness cases ran clean (checked by the sweep's pinned cases)
    model_clean = all("bad=none" in l for l in fp if l.startswith("fp "))
    if not model_clean:
        ctx.notes.append("Footprint.Variant.current predicts an out-of-bounds access for a witness call: " + "; ".join(fp))
        if not hits:
            ctx.violation("footprint model (Variant.current) predicts an out-of-bounds access that the real code does not make: switch Variant.current in "
                          "lean/SoxrModel/Fifo/Footprint.lean to the variant /repo implements", {"model": fp}, no_input=True)
    if broken and not ctx.violations:
        ctx.violation("proof obligations of Properties/C07.lean no longer check: " + "; ".join(broken)[:1500] + " -- the falsifier found no failing input",
                      {"broken": broken}, no_input=True)
    elif broken:
        ctx.notes.append("proof stage broken: " + "; ".join(broken)[:1500])
    if not ctx.quick and not broken:
        ok, out = common.leanchecker("SoxrModel.Properties." + PID)
        ctx.cov["leanchecker"] = "ok" if ok else out[-500:]
        if not ok:
            ctx.violation("leanchecker rejects SoxrModel.Properties.C07", {"output": out[-1500:]}, no_input=True)
