"""C12, engine half: shift covariance of the engine model, tied to the real code bit for bit.

  theorem   Soxr.Properties.C12Engine.shift_covariance_runs (Cr/Shift.lean: G_shift, chain_sound, planShift_sound): for every
            kernel whatever (no linearity needed) and ANY call schedules, prefixing the input of a plan with d_in arbitrary frames
            delays the output by exactly d_out frames beyond the horizon `hor`, whenever `planShift` reports (d_in, d_out, hor)
  tie       every plan the real planner exports in a sweep goes to the compiled driver (`cr.period` = planShift, the definition
            the theorem quantifies over); the reported shift must reproduce orate/irate; the REAL engine is then run twice - on a
            stream x and on (d_in arbitrary frames ++ x), differently chunked - and the output frames [hor, end) of the first run
            must equal the frames [hor + d_out, ...) of the second BIT FOR BIT (the same kernel sees the same phase tags and the
            same window, so floating point does not enter)
"""
from fractions import Fraction
from vlib import common
from checks import crcommon as cr

FIXED = [({"ir": "44100", "or": "48000", "recipe": 4}, {}), ({"ir": "48000", "or": "44100", "recipe": 6}, {}),
         ({"ir": "2", "or": "1", "recipe": 4}, {}), ({"ir": "3", "or": "2", "recipe": 4}, {"SOXR_USE_SIMD": "0"}),
         ({"ir": "5", "or": "7", "recipe": 1}, {}), ({"ir": "1", "or": "4", "recipe": 6}, {}),
         ({"ir": "7", "or": "3", "recipe": 3, "phase": 25}, {}), ({"ir": "147", "or": "160", "recipe": 5, "qflags": 16}, {}),
         ({"ir": "8", "or": "1", "recipe": 4}, {}), ({"ir": "9", "or": "4", "recipe": 2}, {})]


def gen(rng):
    """mostly small rational ratios (short implementation periods), every recipe / phase / runtime knob of crcommon.gen_config"""
    cfg, env = cr.gen_config(rng, allow_nonlinear=True)
    if rng.chance(.85):
        a = rng.choice(cr.SMALL[:17]); b = rng.choice(cr.SMALL[:17])
        if rng.chance(.3):
            a, b = rng.choice([(147, 160), (160, 147), (147, 80), (80, 147), (147, 320), (441, 80), (2, 1), (1, 2), (4, 1), (3, 1), (1, 3)])
        cfg["ir"], cfg["or"] = str(a), str(b)
    return cfg, env


def period_of(tr):
    lines = [l for l in tr.model_in if l.startswith("cr.plan") or l.startswith("cr.stage")] + ["cr.period"]
    out = cr.run_model(lines)
    if not out or not out[-1].startswith("PERIOD"):
        return "error", out[-3:]
    if out[-1].strip() == "PERIOD none":
        return None, None
    kv = cr.parse_kv(out[-1])
    return (int(kv["in"]), int(kv["out"]), int(kv["hor"])), None


def xhash(tr):
    l = [x for x in tr.lines if x.startswith("X ")]
    return l[-1].split("h=")[1].strip().strip(",").split(",") if l else None


def feed_ops(rng, N, ratio, plan):
    ops = []
    sizes = cr.gen_sizes(rng, plan)
    fed = 0
    big = rng.chance(.5)
    while fed < N:
        il = rng.choice(sizes) if not big else rng.choice([4096, 7001, 16384, 30011])
        il = max(1, min(il, N - fed))
        # output room: generous, or - without idone, so the library has to take and queue the whole block - short / none at all
        ol = int(il / ratio) + 64 if rng.chance(.6) else rng.choice([0, 1, 64, int(il / ratio / 3)])
        ops.append("feed %d %d 0" % (il, ol))
        fed += il
        if len(ops) > 3000:
            big = True
    ops.append("drain %d" % rng.choice([1000, 4096, 5003]))
    ops.append("hash")
    return ops


def section(ctx, exe):
    rng = ctx.rng
    quick = ctx.quick
    n = 90 if quick else 1500
    maxd = 300000 if quick else 3000000
    cfgs = [FIXED[i] if i < len(FIXED) else gen(rng) for i in range(n)]
    seeds = [rng.below(1 << 30) for _ in cfgs]

    def work(a):
        (cfg, env), seed = a
        r = common.Rng(seed)
        tr0 = cr.run_trace(exe, [cr.create_line(cfg)], env, timeout=120)
        if not tr0.created or not tr0.plan or not tr0.engine.startswith("cr"):
            return cfg, env, "noplan", None
        per, err = period_of(tr0)
        if per == "error":
            return cfg, env, "driver", err
        if per is None:
            return cfg, env, "none", cr.plan_sig(tr0)
        din, dout, hor = per
        res = {"per": per, "sig": cr.plan_sig(tr0), "engine": tr0.engine}
        # the shift is the ratio the caller asked for (up to what the planner rounds a ratio to)
        # (a rounded clock step differs from the requested one by at most 2^-33 input periods per output period: Properties/C04 drift_bound)
        want = Fraction(float(cfg["ir"])) / Fraction(float(cfg["or"]))
        res["ratio_err"] = float(abs(Fraction(din, dout) - want) / max(Fraction(1), want))
        if din > maxd or hor > 2000000:
            return cfg, env, "long", res
        ratio = cr.io_ratio(cfg)
        N = int(max(12000, (hor + 3000) * ratio * 1.5 + 2000))
        nA = int(N / ratio + .5)
        nwin = nA - hor
        if nwin < 200:
            return cfg, env, "short", res
        seg = max(1, nwin // 256)
        a_ops = [cr.create_line(cfg), "limit %d" % N, "window %d %d %d" % (hor, nwin, seg)] + feed_ops(r, N, ratio, tr0.plan)
        b_ops = [cr.create_line(cfg), "shift %d" % din, "limit %d" % (N + din), "window %d %d %d" % (hor + dout, nwin, seg)] + \
            feed_ops(r, N + din, ratio, tr0.plan)
        ta = cr.run_trace(exe, a_ops, env, timeout=300)
        tb = cr.run_trace(exe, b_ops, env, timeout=300)
        res.update(N=N, nwin=nwin, seg=seg, a_ops=a_ops, b_ops=b_ops)
        if ta.rc != 0 or tb.rc != 0:
            return cfg, env, "crash", dict(res, rc=(ta.rc, tb.rc), err=(ta.err[-400:], tb.err[-400:]))
        xa, xb = xhash(ta), xhash(tb)
        oa = sum(int(x["od"]) for x in ta.results); ob = sum(int(x["od"]) for x in tb.results)
        res.update(outA=oa, outB=ob)
        if xa is None or xb is None or len(xa) != len(xb):
            return cfg, env, "crash", dict(res, err="no window line")
        diff = [i for i in range(len(xa)) if xa[i] != xb[i]]
        # frames of the window that the shorter of the two runs never delivered cannot be compared
        have = min(oa - hor, ob - hor - dout)
        diff = [i for i in diff if (i + 1) * seg <= have]
        res["diff"] = diff
        res["compared"] = max(0, min(nwin, have))
        return cfg, env, ("differ" if diff else "ok"), res

    worst_ratio = 0.0
    distinct = set()
    ncmp = 0
    for cfg, env, st, res in cr.pmap(work, list(zip(cfgs, seeds))):
        ctx.count("evaluations")
        ctx.hist("engine_shift_case", st)
        if st == "noplan":
            continue
        if st == "driver":
            ctx.violation("C12 engine shift: the model driver did not answer cr.period for %s: %s" % (cr.create_line(cfg), res),
                          {"cfg": cfg, "env": env}, no_input=True)
            continue
        if st == "none":
            ctx.hist("engine_shift_no_period_plan", res.split("|")[0][:40])
            continue
        worst_ratio = max(worst_ratio, res["ratio_err"])
        if res["ratio_err"] > 2.0 ** -32:
            ctx.violation("C12 engine shift: planShift of the exported plan of %s is %d in -> %d out, which is not the requested ratio (error %.3g of the longer period, bound 2^-32)"
                          % (cr.create_line(cfg), res["per"][0], res["per"][1], res["ratio_err"]),
                          {"cfg": cfg, "env": env, "period": res["per"], "plan": res["sig"]})
            continue
        if st in ("long", "short"):
            continue
        if st == "crash":
            ctx.violation("C12 engine shift: paired run did not finish for %s %s: %s" % (cr.create_line(cfg), env, str(res.get("err"))[:600]),
                          {"cfg": cfg, "env": env, "detail": {k: v for k, v in res.items() if k not in ("a_ops", "b_ops")},
                           "ops_unshifted": res.get("a_ops"), "ops_shifted": res.get("b_ops")})
            continue
        distinct.add(res["sig"])
        ncmp += res["compared"]
        ctx.hist("engine_shift_engine", res["engine"])
        if st == "differ":
            din, dout, hor = res["per"]
            first = res["diff"][0]
            ctx.violation("C12 shift covariance fails on the real code: %s %s: prefixing the input with %d frames must delay the output by exactly %d frames "
                          "beyond output frame %d (Soxr.Properties.C12Engine.shift_covariance_runs; same kernels, same phase tags, same windows), but "
                          "output frames [%d, %d) of the unshifted run differ from frames [%d, %d) of the shifted run (%d of %d segments differ)"
                          % (cr.create_line(cfg), env, din, dout, hor, hor + first * res["seg"], hor + (first + 1) * res["seg"],
                             hor + dout + first * res["seg"], hor + dout + (first + 1) * res["seg"], len(res["diff"]), (res["nwin"] + res["seg"] - 1) // res["seg"]),
                          {"cfg": cfg, "env": env, "period_in_out_horizon": res["per"], "plan": res["sig"], "input_frames": res["N"],
                           "signal": "harness/cr/trace.c sig(); op `shift d` puts d frames of another signal in front",
                           "ops_unshifted": res["a_ops"], "ops_shifted": res["b_ops"], "differing_segments": res["diff"][:20], "segment_frames": res["seg"]})
        else:
            ctx.sample({"create": cr.create_line(cfg), "env": env, "plan": res["sig"], "shift_in_out_horizon": res["per"],
                        "frames_compared_bit_exact": res["compared"]})
    ctx.count("engine_shift_frames_compared_bit_exact", ncmp)
    ctx.cov["engine_shift_distinct_plans_compared"] = len(distinct)
    ctx.cov["engine_shift_worst_ratio_error"] = worst_ratio
    ctx.cov["engine_shift_rule"] = ("%d configurations (10 fixed, the rest seeded: 85%% small rational ratios, every recipe / phase / runtime knob of "
                                    "crcommon.gen_config, both engine families by SOXR_USE_SIMD); every exported plan goes through `cr.period`; plans whose "
                                    "input shift is <= %d frames are run twice on the real engine (x and d_in other frames ++ x, independent random chunkings, "
                                    "drained) and compared bit for bit over [hor, end)" % (n, maxd))
    return len(distinct)
