"""Measurement machinery of area `Phase`: shared by checks/c14.py (phase setting) and checks/c04_numeric.py (numeric
falsifier half of C04 time alignment).

Everything here is MEASUREMENT on the real code (the library built from /repo's working tree, double I/O, numpy
float64): impulse responses, prototype filters reconstructed from all input phases of the implementation period,
sine fits, ramp read-back.  It is never counted as proof.
"""
import math, os, subprocess
from fractions import Fraction
import numpy as np
from vlib import common

_exe = {}


def harness(name="phase_run", src="phase/run.c"):
    if name not in _exe:
        _exe[name] = common.build_harness(name, [src], variant="rel")
    return _exe[name]


def clean_env(simd=None):
    env = dict(os.environ)
    for k in ("SOXR_USE_SIMD", "SOXR_USE_SIMD32", "SOXR_USE_SIMD64", "SOXR_TRACE", "SOXR_COEF_INTERP", "SOXR_NOSMALLINTOPT",
              "SOXR_MIN_DFT_SIZE", "SOXR_LARGE_DFT_SIZE", "SOXR_COEFS_SIZE", "SOXR_NUM_THREADS", "SOXR_STRICT_BUF"):
        env.pop(k, None)
    if simd is not None:
        env["SOXR_USE_SIMD"] = str(simd)
    env["OMP_NUM_THREADS"] = "1"
    return env


KEYS = ("recipe", "qflags", "prec", "phase", "pb", "sb", "rtflags", "min", "large", "kb", "block")


def mkcfg(ir, orr, recipe=4, qflags=0, simd=1, **kw):
    c = dict(ir=ir, orr=orr, recipe=recipe, qflags=qflags, simd=simd)
    c.update(kw)
    return c


def label(c):
    s = "%s->%s recipe=%s qflags=%s simd=%s" % (c["ir"], c["orr"], hex(c["recipe"]), c["qflags"], c["simd"])
    for k in KEYS[2:]:
        if k in c:
            s += " %s=%s" % (k, c[k])
    return s


def args_of(c, **extra):
    d = dict(c)
    d.update(extra)
    a = ["ir=%r" % float(d["ir"]), "or=%r" % float(d["orr"])]
    for k in KEYS + ("n", "f", "amp", "ph0", "win"):
        if k in d and d[k] is not None:
            a.append("%s=%s" % (k, repr(d[k]) if isinstance(d[k], float) else d[k]))
    return a


def parse_header(text):
    info = {"stages": [], "wins": []}
    for l in text.splitlines():
        t = l.split()
        if not t:
            continue
        if t[0] == "ENGINE":
            info["engine"] = t[1]
        elif t[0] == "ERROR":
            info["error"] = " ".join(t[1:])
        elif t[0] in ("Q", "P", "R", "PLAN", "W"):
            d = {}
            for x in t[1:]:
                k, v = x.split("=", 1)
                try:
                    d[k] = int(v)
                except ValueError:
                    try:
                        d[k] = float(v)
                    except ValueError:
                        d[k] = v
            if t[0] == "Q":
                info["q"] = d
            elif t[0] == "P":
                info["stages"].append(d)
            elif t[0] == "R":
                info["r"] = d
            elif t[0] == "W":
                info["wins"].append(d)
            else:
                info["plan"] = d
    return info


def run(c, x=None, mode=None, timeout=3600, **extra):
    """One job through the real library.  x: float64 input (mode io); None: plan only."""
    mode = mode or ("plan" if x is None else "io")
    data = b"" if x is None else np.ascontiguousarray(x, dtype=np.float64).tobytes()
    p = subprocess.run([harness(), mode] + args_of(c, **extra), input=data, stdout=subprocess.PIPE, stderr=subprocess.PIPE,
                       env=clean_env(c.get("simd")), timeout=timeout)
    if p.returncode:
        raise RuntimeError("phase harness failed (%s) on %s: %s" % (p.returncode, label(c), p.stderr.decode(errors="replace")[-600:]))
    i = p.stdout.index(b"END\n")
    info = parse_header(p.stdout[:i].decode())
    y = np.frombuffer(p.stdout[i + 4:], dtype=np.float64)
    return info, y


def bits_of(info):
    return float(info["q"]["prec"])


def plan_sig(info):
    return "+".join("%s%s/%s" % (s["kind"], s["L"], s["M"]) for s in info["stages"]) + "|" + info.get("engine", "")


def plan_strs(info):
    """The exported plan with string values, as crcommon.classify_known expects it."""
    return [{k: str(v) for k, v in s.items()} for s in info["stages"]]


def is_pow2(x):
    return x >= 1 and (x & (x - 1)) == 0


# ------------------------------------------------------------------ rate change per stage, implementation period

def stage_rate(s):
    """(L, M) of one exported stage, or None when it runs on an irrational clock."""
    k = s["kind"]
    if k == "half":
        return (1, 2)
    if k == "dft":
        M = s["M"]
        return (s["L"], M if M > 0 else 1 << -M)
    den, step = int(s["den"]), int(s["step"])
    if k == "poly0":
        return (den, step)
    g = math.gcd(den, step)
    if den // g > (1 << 20):
        return None
    return (den // g, step // g)


def impl_period(info):
    """(L_P, M_P): least input shift M_P that every stage maps to a whole shift, and the output shift L_P it becomes
    (DESIGN C12).  None for irrational clocks."""
    rates = []
    for s in info["stages"]:
        r = stage_rate(s)
        if r is None:
            return None
        g = math.gcd(r[0], r[1])
        rates.append((r[0] // g, r[1] // g))
    LP, MP = 1, 1
    for (L, M) in reversed(rates):
        c = L * MP // math.gcd(L, MP)
        LP, MP = LP * (c // MP), M * (c // L)
    return LP, MP


# ------------------------------------------------------------------ prototype filter of the real resampler

def support(c, ratio_out_in, info=None, tries=10):
    """Exact non-zero extent of the response to a mid-stream impulse, in output frames before / after the impulse's own
    instant (kernels are FIR and zero blocks transform to exact zeros, so this is a support, not a threshold)."""
    N = int(max(1 << 14, (1 << 13) / ratio_out_in))
    for _ in range(tries):
        lo = hi = 0
        ok = True
        for n in (N // 2, N // 2 + N // 7 + 1, N // 2 - N // 5 - 3):
            x = np.zeros(N)
            x[n] = 1
            inf, y = run(c, x)
            nz = np.nonzero(y)[0]
            if len(nz) == 0:
                raise RuntimeError("no response to an impulse: " + label(c))
            kc = n * ratio_out_in
            if nz[0] < 0.04 * len(y) or nz[-1] > 0.96 * len(y):
                ok = False
                break
            lo = max(lo, int(math.ceil(kc - nz[0])))
            hi = max(hi, int(math.ceil(nz[-1] - kc)))
        if ok:
            return lo + 2, hi + 2
        N *= 2
    raise RuntimeError("impulse response does not fit: " + label(c))


class Proto:
    """h[j], j on the grid of 1/L input periods (L/M = orate/irate reduced): the response of the real resampler at time
    j/L after an impulse, gathered from impulses at all M_P input phases of the implementation period placed mid-stream.
    Each grid point is hit L_P/L times per period (by different (output phase, input phase) pairs); `h` is their mean and
    `spread` the largest deviation from it (alias / image products of a multi-stage plan, C02's subject)."""
    pass


def prototype(c, L, M, info, W, max_phases=4096):
    """W: window in output frames either side of the impulse instant (>= support; the same for every phase setting that
    is going to be compared, so that all prototypes live on one grid j = -J..J, J = (W+1)*M, index i = j + J).
    Returns Proto or {"skipped": reason}."""
    per = impl_period(info)
    if per is None:
        return {"skipped": "irrational clock in the plan"}
    LP, MP = per
    if LP * M != MP * L:
        return {"skipped": "plan rate %d/%d differs from the requested %d/%d" % (LP, MP, L, M)}
    if MP > max_phases:
        return {"skipped": "M_P=%d above the phase cap %d" % (MP, max_phases)}
    span_in = int(math.ceil((2 * W + 2) * M / L)) + 2
    D = ((span_in + MP - 1) // MP) * MP
    n0 = 2 * D                                       # first impulse well beyond the start-up horizon
    npos = n0 + np.arange(MP) * (D + 1)              # n_p = n0 + p (mod M_P): every input phase once
    N = int(npos[-1] + 2 * D + 1)
    x = np.zeros(N)
    x[npos] = 1.0
    inf, y = run(c, x)
    J = (W + 1) * M
    acc = np.zeros(2 * J + 1)
    acc2 = np.zeros(2 * J + 1)
    cnt = np.zeros(2 * J + 1, dtype=np.int64)
    used = np.zeros(len(y), dtype=bool)
    for n_p in npos:
        n_p = int(n_p)
        kc = n_p * L // M
        k = np.arange(max(0, kc - W - 1), min(len(y), kc + W + 2))
        used[k] = True
        j = k * M - n_p * L + J
        good = (j >= 0) & (j <= 2 * J)
        np.add.at(acc, j[good], y[k[good]])
        np.add.at(acc2, j[good], y[k[good]] ** 2)
        np.add.at(cnt, j[good], 1)
    P = Proto()
    P.L, P.M, P.LP, P.MP, P.J = L, M, LP, MP, J
    c1 = np.maximum(cnt, 1)
    P.h = acc / c1
    var = np.maximum(acc2 / c1 - P.h ** 2, 0)
    P.spread = float(np.sqrt(var.max()))
    P.outside = float(np.abs(y[~used]).max()) if (~used).any() else 0.0     # response found outside every window
    P.cnt_min, P.cnt_max = int(cnt[cnt > 0].min()), int(cnt.max())
    P.n_in, P.n_out = N, len(y)
    P.info = inf
    return P


def spectrum(h, J, nfft):
    """H(nu) = sum_j h[j] e^{-i nu j} on the rfft grid nu = 2 pi q / nfft (phase referred to j = 0; h[i] is j = i - J)."""
    H = np.fft.rfft(h, nfft)
    q = np.arange(len(H))
    return H * np.exp(2j * np.pi * q * J / nfft)


def best_mirror(a, b, smax):
    """Two responses on the same symmetric grid (index i <-> j = i - J).  Returns (max_j |a[j] - b[s - j]|, s) for the
    integer s, |s| <= smax, that minimises it: a is the mirror image of b about the axis j = s/2."""
    n = len(a)
    br = b[::-1]                                    # br at j is b[-j];  a[j] = b[s - j] = br[j - s]
    nf = 1 << int(math.ceil(math.log2(2 * n)))
    cc = np.fft.irfft(np.fft.rfft(a, nf) * np.conj(np.fft.rfft(br, nf)), nf)
    cand = sorted(range(-smax, smax + 1), key=lambda d: -cc[d % nf])[:3]
    best = None
    for d in cand:
        if d >= 0:
            m = max(np.abs(a[d:] - br[:n - d]).max(), np.abs(a[:d]).max() if d else 0.0, np.abs(br[n - d:]).max() if d else 0.0)
        else:
            m = max(np.abs(a[:n + d] - br[-d:]).max(), np.abs(a[n + d:]).max(), np.abs(br[:-d]).max())
        if best is None or m < best[0]:
            best = (float(m), d)
    return best


def fit_tone(y, theta, a, b):
    """least squares of y[a:b] ~ A sin(theta k) + B cos(theta k) + first-order terms; returns (amp, phase, resid_peak)."""
    k = np.arange(a, b, dtype=float)
    kk = (k - (a + b) / 2) / (b - a)
    s, co = np.sin(theta * k), np.cos(theta * k)
    X = np.stack([s, co, kk * s, kk * co], 1)
    coef, _, _, _ = np.linalg.lstsq(X, y[a:b], rcond=None)
    r = y[a:b] - X @ coef
    return math.hypot(coef[0], coef[1]), math.atan2(coef[1], coef[0]), float(np.abs(r).max())


def pool_map(fn, jobs, workers=None):
    from concurrent.futures import ProcessPoolExecutor
    if not jobs:
        return []
    workers = workers or min(common.NCPU, 16)
    harness()
    with ProcessPoolExecutor(workers) as ex:
        return list(ex.map(fn, jobs, chunksize=1))


ROLL_DB = {0: 0.01, 1: 0.35, 2: 0.01, 3: 0.35}   # soxr.h: small <= 0.01 dB, medium <= 0.35 dB; none bounded by the next class; 3 = LSR2Q, medium


def exact_fraction(c):
    """orate/irate as L/M (reduced) when both rates are (close to) small integers; else None."""
    fi, fo = Fraction(c["ir"]).limit_denominator(1 << 20), Fraction(c["orr"]).limit_denominator(1 << 20)
    if float(fi) != float(c["ir"]) or float(fo) != float(c["orr"]):
        return None
    fr = fo / fi
    return fr.numerator, fr.denominator


# ------------------------------------------------------------------ known finding F-PH1: calibrated symptom (design-probes/fph1/fph1_sweep*.py)
# Worst measured stop-band shortfall (dB above 2^-bits) of the end-to-end response, phase_response swept over (0, 25] in steps of 0.5 and
# the mirrored settings, 14 ratios whose plan has a dft stage with < 256 taps (1->6 ... 1->48, 3->32, 5->48) and 1->64 ... 1->256 (L = 16 .. 64
# post stages), engines cr64 and cr64s (identical to 0.01 dB).  The worst case per precision is always one of 1->16 / 1->20 / 1->24.
FPH1_WORST_DB = [(28.0, 6.60), (28.5, 9.06), (29.0, 11.47), (30.0, 14.00), (31.0, 17.76), (32.0, 21.66), (32.5, 23.56), (33.0, 23.56)]
FPH1_MARGIN_DB = 1.5            # for phases between the half-percent steps and ratios outside the swept set
FPH1_BAND2_WORST_DB = 1.30      # 25 < min(phase, 100 - phase) < 30: the tail of the same defect (precision >= 30; 32 bits, 1->20, phase 25.5)
FPH1_BAND2_MARGIN_DB = 0.70


def fph1_config(bits, phase):
    f = min(phase, 100 - phase)
    return bits >= 28 and 0 < f < 30


def fph1_plan(stages):
    """a dft stage with fewer than 64 taps per output phase (num_taps < 64 x max(4, L): 256 taps for L <= 4)"""
    return any(s["kind"] == "dft" and int(s["numTaps"]) < 64 * max(4, int(s["L"])) for s in stages)


def fph1_allowance_db(bits, phase):
    """largest stop-band shortfall (dB above 2^-bits) that still is known finding F-PH1 for this precision and phase setting:
    the worst measured value (piecewise linear between the swept precisions) plus the margin; None outside the signature"""
    if not fph1_config(bits, phase):
        return None
    if min(phase, 100 - phase) > 25:
        return FPH1_BAND2_WORST_DB + FPH1_BAND2_MARGIN_DB
    t = FPH1_WORST_DB
    b = min(max(bits, t[0][0]), t[-1][0])
    for (b0, w0), (b1, w1) in zip(t, t[1:]):
        if b0 <= b <= b1:
            return w0 + (w1 - w0) * (b - b0) / (b1 - b0) + FPH1_MARGIN_DB
    return t[-1][1] + FPH1_MARGIN_DB
