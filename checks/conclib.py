"""Helpers of area `conc`: the deterministic-scheduler runs of C17 and the threads half of C06.

C17  Spec lines for harness/conc/sched.c (the REAL library under a scheduler that owns every lock operation, yield point and
     table use - the hook soxr_verif_table_use at the first dereference of the shared tables inside rdft/cdft),
     the pipeline  sched | soxr_conc  (the compiled Lean model replays every event on the `fire` the theorems quantify over),
     and the classification of what the real-code monitors saw.
C06  clips_threads(ctx, broken): the threads clause of C06 (clip counter = sum of the per-channel counts under OpenMP) — Lean
     theorems of Properties/C06Threads.lean audited, the atomic model run against the real sequential counter, and the
     real-code falsifier under real OpenMP teams (finding F8).  Called from checks/c06.py.
"""
import os, re, shutil, subprocess, tempfile
from concurrent.futures import ThreadPoolExecutor
from vlib import common

CONC_EXE = os.path.join(common.LEAN, ".lake", "build", "bin", "soxr_conc")
WORKERS = max(2, min(12, common.NCPU - 2))


def sched_exe():
    return common.build_harness("sched", ["conc/sched.c"], variant="rel")


def clips_exe():
    return common.build_harness("clips", ["conc/clips.c"], variant="rel")


# ====================================================================== jobs
# Q:<recipe>:<phase>:<irate>:<orate>:<n>  one-shot constant rate, mono float32;  V:<ratio*1000>:<n>  variable-rate engine.
# cache 1 = float tables (cr32: recipes 1..4), cache 0 = double tables (cr64: recipes 5, 6; lsx_fir_to_phase of EVERY engine
# when the phase response is not linear, also of the SIMD engines, which otherwise use pffft and no shared table).
# Ratios keep clear of finding F1 (non-linear phase with a power-of-two up-sampling factor >= 8).
JOBSETS = {
    # name: (jobs, simd32, simd64, what it covers)
    "cr32-pair":     ("Q:4:50:2:1:600/Q:4:50:1:2:500", 0, 0, "cr32, first use + growth raced by two threads (float cache)"),
    "cr32-steady":   ("Q:4:50:2:1:600+Q:4:50:2:1:600/Q:4:50:1:2:500+Q:4:50:1:2:500", 0, 0, "cr32, growth then steady-state reads"),
    "cr32-grow":     ("Q:1:50:2:1:400+Q:4:50:1:4:900/Q:2:50:3:2:500+Q:4:50:1:4:900", 0, 0, "cr32, small tables first, later growth by reader->writer upgrade"),
    "cr32-irr":      ("Q:4:50:44100:48000:500/Q:3:50:48000:44100:500", 0, 0, "cr32, irrational-ratio plans (many transforms)"),
    "cr64-pair":     ("Q:6:50:2:1:600/Q:5:50:1:2:500", 0, 0, "cr64 (double cache)"),
    "cr64-grow":     ("Q:5:50:3:2:400+Q:6:50:1:3:400/Q:6:50:2:1:600", 0, 0, "cr64, growth + steady state"),
    "mixed":         ("Q:4:50:2:1:600+Q:6:50:1:3:400/Q:6:50:1:2:500+Q:4:50:1:2:500", 0, 0, "cr32 and cr64 jobs interleaved: both caches in one run"),
    "phase-cr32":    ("Q:4:0:2:1:600/Q:4:25:1:2:500", 0, 0, "minimum / intermediate phase on cr32: filter design through the double cache, streaming through the float cache"),
    "phase-vs-grow": ("Q:4:25:2:1:600/Q:6:0:1:3:500", 0, 0, "one thread designs an intermediate-phase filter (four transforms of one length through the double cache) while the other grows the same cache beyond it (minimum-phase VHQ design)"),
    "late-float":    ("Q:6:50:2:1:600+Q:6:50:1:3:400/Q:4:50:1:2:500/Q:6:50:1:3:600", 0, 0, "the process's FIRST float-cache use (a cr32 job) happens while another thread is inside double-cache transforms and a third grows the double cache: also started with the double cache initialised and the float cache cold (warm=2)"),
    "phase-cr64":    ("Q:6:0:3:2:500/Q:6:75:1:2:500", 0, 0, "non-linear phase on cr64"),
    "phase-simd32":  ("Q:4:0:2:1:600/Q:4:25:1:2:500", 1, 0, "non-linear phase on the SIMD float engine (pffft streaming, shared double cache for the design)"),
    "phase-simd64":  ("Q:6:0:3:2:500/Q:6:100:1:2:500", 0, 1, "non-linear phase on the SIMD double engine"),
    "vr":            ("V:1500:800/V:700:600", 0, 0, "variable-rate engine: vr_init's process-wide tables"),
    "three-cr32":    ("Q:4:50:2:1:600/Q:4:50:1:2:500/Q:2:50:1:3:500", 0, 0, "three threads, float cache"),
    "three-mixed":   ("Q:4:50:2:1:600+Q:6:50:1:3:400/Q:6:0:1:2:500/V:1500:800", 0, 0, "three threads: cr32, cr64, non-linear phase, VR"),
    "three-vr":      ("V:1500:800/V:700:600/V:2500:700+Q:4:25:3:2:400", 0, 0, "three threads through vr_init, then a phase design"),
}
QUICK_SETS = ["cr32-pair", "cr32-steady", "cr32-grow", "cr64-pair", "mixed", "phase-cr32", "phase-vs-grow", "late-float", "phase-simd32", "vr", "three-cr32",
              "three-mixed"]


# starts explored per job set: 0 = process start, 1 = both caches initialised, 2 = only the double cache initialised (3 = only float)
EXTRA_STARTS = {"late-float": (2,), "mixed": (2,)}


def starts(setname):
    return (0, 1) + EXTRA_STARTS.get(setname, ())


def warm_cache(warm, c):
    """is cache c initialised at the start of a run with this `warm` mode"""
    return warm == 1 or (warm == 2 and c == 0) or (warm == 3 and c == 1)


def nthreads(jobs):
    return jobs.count("/") + 1


def spec_line(sp):
    """one batch line of harness/conc/sched.c"""
    s = "%s jobs=%s sched=%s tail=%s seed=%d p=%d warm=%d relswitch=%d simd32=%d simd64=%d" % (
        sp["id"], sp["jobs"], sp.get("sched") or "-", sp.get("tail", "c"), sp.get("seed", 1), sp.get("p", 64), sp.get("warm", 0),
        sp.get("relswitch", 0), sp.get("simd32", 0), sp.get("simd64", 0))
    return s


def mk(setname, family, **kw):
    jobs, s32, s64, _ = JOBSETS[setname]
    d = dict(set=setname, family=family, jobs=jobs, simd32=s32, simd64=s64)
    d.update(kw)
    return d


# ====================================================================== running

KV = re.compile(r"(\w+)=([^ ,]+)")


def parse_model_line(line):
    """`ok <id> events=.. c0:k=v,... c1:... vr:...`  or  `REJECT <id> <the same summary, up to the rejected event> :: <why>`"""
    toks = line.split(" ", 2)
    body, why = toks[2] if len(toks) > 2 else "", ""
    if toks[0] == "REJECT":
        body, _, why = body.partition(" :: ")
        if not _:
            body, why = "", toks[2] if len(toks) > 2 else ""
    out = {"ok": toks[0] == "ok", "raw": line, "why": why}
    for part in body.split(" "):
        if ":" in part and part.split(":", 1)[0] in ("c0", "c1", "vr"):
            k, rest = part.split(":", 1)
            out[k] = {a: int(b) for a, b in (x.split("=") for x in rest.split(","))}
        elif "=" in part:
            a, b = part.split("=")
            out[a] = int(b)
    if "c0" not in out:      # REJECT of a malformed trace: nothing was replayed
        z = dict(fired=0, nInit=0, nReset=0, nStore=0, flen=-1, overlap=0, twoWriters=0, shrunk=0, maxReaders=0, upgrades=0, downgrades=0,
                 spurious=0, raced=0, racedAt=0, cov=0, idle=0)
        out.update(c0=dict(z), c1=dict(z), vr=dict(fired=0, fills=0, earlyUse=0, raced=0, racedAt=0), events=0)
    return toks[1], out


def run_chunk(exe, specs, tmpdir, keep_trace=False):
    """Runs the specs (all of one job set: the harness caches <= 64 serial references per process) on the real code and the
    event traces on the model.  Returns {id: run}: run = {spec, status, events, ndec, decisions, wrong, viol:[(ev, kind, text)],
    model: {...}} (+ trace lines when keep_trace)."""
    fd, path = tempfile.mkstemp(dir=tmpdir, suffix=".batch")
    with os.fdopen(fd, "w") as f:
        for sp in specs:
            f.write(spec_line(sp) + "\n")
    tr = path + ".trace"
    with open(tr, "w") as out:
        p = subprocess.run([exe, "batch", path], stdout=out, stderr=subprocess.PIPE, universal_newlines=True, timeout=3600)
    with open(tr) as inp:
        m = subprocess.run([CONC_EXE], stdin=inp, stdout=subprocess.PIPE, stderr=subprocess.PIPE, universal_newlines=True, timeout=3600)
    runs = {sp["id"]: {"spec": sp, "viol": [], "status": "missing", "model": None, "wrong": "?", "decisions": "", "ndec": 0, "events": 0,
                        "init_entries": [], "vr_entries": []}
            for sp in specs}
    cur, evno = None, 0
    with open(tr) as inp:
        for line in inp:
            c = line[0]
            if (c == "E" or c == "V") and line[1] == " ":
                evno += 1
                if cur is not None:
                    # harness-side (model-independent) trace of the initialiser entries, used only for what follows a REJECT
                    if c == "E" and "check-passed" in line:
                        t = line.split()
                        cur["init_entries"].append((evno, int(t[2]), int(t[6])))
                    elif c == "V" and line.endswith(" passed\n"):
                        cur["vr_entries"].append(evno)
                    if keep_trace:
                        cur.setdefault("trace", []).append(line.rstrip("\n"))
                continue
            if line.startswith("RUN "):
                cur = runs.get(line.split(" ", 2)[1])
                evno = 0
            elif line.startswith("VIOL "):
                t = line.rstrip("\n").split(" ", 4)
                if t[1] in runs:
                    runs[t[1]]["viol"].append((int(t[2]), t[3], t[4] if len(t) > 4 else ""))
            elif line.startswith("RESULT "):
                t = line.split()
                r = runs.get(t[1])
                if r is not None:
                    kv = dict(x.split("=", 1) for x in t[2:])
                    r["status"] = kv.get("status", "?")
                    r["events"] = int(kv.get("events", 0))
                    r["ndec"] = int(kv.get("ndec", 0))
                    r["decisions"] = kv.get("decisions", "")
                    r["wrong"] = kv.get("wrong", "?")
    for line in m.stdout.splitlines():
        if line.startswith("ok ") or line.startswith("REJECT "):
            rid, mo = parse_model_line(line)
            if rid in runs:
                runs[rid]["model"] = mo
    for f in (path, tr):
        try:
            os.remove(f)
        except OSError:
            pass
    if p.returncode or m.returncode:
        for r in runs.values():
            r.setdefault("pipeline_error", "sched exit %s: %s / soxr_conc exit %s: %s" % (p.returncode, p.stderr[-300:], m.returncode, m.stderr[-300:]))
    return runs


def run_all(exe, specs, chunk=150, keep_trace=False):
    """Specs -> runs; chunks never mix job sets; chunks run in parallel (each is two subprocesses)."""
    tmpdir = tempfile.mkdtemp(prefix="conc-", dir=common.BUILD)
    try:
        by = {}
        for sp in specs:
            by.setdefault((sp["jobs"], sp.get("simd32", 0), sp.get("simd64", 0)), []).append(sp)
        chunks = []
        for lst in by.values():
            for i in range(0, len(lst), chunk):
                chunks.append(lst[i:i + chunk])
        out = {}
        with ThreadPoolExecutor(WORKERS) as ex:
            for res in ex.map(lambda c: run_chunk(exe, c, tmpdir, keep_trace), chunks):
                out.update(res)
        return out
    finally:
        shutil.rmtree(tmpdir, ignore_errors=True)


# ====================================================================== verdict of one run

# what a late second initialisation (locks re-created, FFT_LEN reset under running threads) can lead to on the same cache
F9_CONSEQUENCES = {"SECOND-INIT-ENTRY", "REINIT", "REINIT-HELD", "RESET", "RELEASE-NOT-HELD", "READ-DURING-REBUILD", "TWO-REBUILDERS",
                   "REBUILD-WITHOUT-GROWTH", "TABLE-WRITE-BY-NON-WRITER", "FFTLEN-WRITE-BY-NON-WRITER", "USE-UNINIT", "DEADLOCK",
                   "TABLE-USE-DURING-REBUILD"}
# never a consequence of F9 (the harness's own bracket bookkeeping is untouched by a re-initialisation): TABLE-USE-OUTSIDE-LOCK


def viol_cache(kind, text):
    m = re.search(r"cache (\d)", text)
    return int(m.group(1)) if m else None


def classify(run):
    """-> (violations, known): lists of (kind, text).

    The signature of F9 is decided by the MODEL while it replays the real trace: `raced` = a thread took the step `i0_cold`
    (the test `FFT_LEN >= 0` failed: the real FFT_LEN was -1, checked event by event) while another thread was inside the
    initialiser — exactly the step `ReachableS` excludes, i.e. first-use initialisation raced by two threads before either
    completed it.  What the monitors report on that cache from that event on is the known finding; everything else —
    any monitor hit, wrong output, deadlock or crash in a run whose initialisations were not raced (every warm run, every
    cold run that initialised serially), and every event the model cannot take — is a violation."""
    sp, mo = run["spec"], run["model"]
    vio, known = [], []
    if run.get("pipeline_error"):
        vio.append(("PIPELINE", run["pipeline_error"]))
        return vio, known
    if run["status"] in ("missing", "badspec"):
        vio.append(("HARNESS", "the harness produced no result for this schedule (status %s)" % run["status"]))
        return vio, known
    if mo is None:
        vio.append(("MODEL-SILENT", "soxr_conc printed no verdict for this run"))
        return vio, known
    reject = None
    if not mo["ok"]:
        reject = ("REJECT", "the model cannot take a step the real code took: " + mo["why"])
    # what the model saw (on a REJECT: up to the rejected event; later monitor hits are judged by the races seen until then)
    raced = {c: mo["c%d" % c]["racedAt"] for c in (0, 1) if mo["c%d" % c]["raced"] > 0}
    vr_raced_at = mo["vr"]["racedAt"] if mo["vr"]["raced"] > 0 else 0
    if not mo["ok"]:
        # after the rejected event the model says nothing: fall back on the trace itself (a second thread passed the test while the
        # real FFT_LEN was still -1 / a second thread passed vr_init's test) so that consequences of F9 are not blamed on the REJECT
        for c in (0, 1):
            ent = [(e, f) for e, cc, f in run["init_entries"] if cc == c]
            if c not in raced and len(ent) >= 2 and all(f == -1 for _, f in ent[:2]):
                raced[c] = ent[1][0]
        if not vr_raced_at and len(run["vr_entries"]) >= 2:
            vr_raced_at = run["vr_entries"][1]
    for c in list(raced):
        if warm_cache(sp.get("warm", 0), c):
            vio.append(("INIT-AFTER-INIT", "initialiser of cache %d entered in a run that started after its complete initialisation" % c))
            del raced[c]
    if reject:
        # One excuse, and only inside the known finding: after a raced initialisation has shrunk the tables under a reader, that reader's
        # transform rebuilds them in place (`makewt` beyond the re-allocated block: monitor TABLE-WRITE-BY-NON-WRITER) - a heap overflow,
        # undefined behaviour that no model follows.  A REJECT on that cache at or after that hit belongs to F9; every other REJECT stands.
        m = re.match(r"event=(\d+) \[E \d+ (\d) ", mo["why"])
        excused = False
        if m:
            rev, rc = int(m.group(1)), int(m.group(2))
            excused = rc in raced and raced[rc] <= rev and any(
                k == "TABLE-WRITE-BY-NON-WRITER" and viol_cache(k, t) == rc and e + 1 <= rev for e, k, t in run["viol"])
        (known if excused else vio).append(reject if not excused else ("REJECT-AFTER-HEAP-OVERFLOW", reject[1]))
    any_raced = bool(raced)
    for ev, kind, text in run["viol"]:
        if kind.startswith("VR-"):
            if vr_raced_at and ev + 1 >= vr_raced_at:
                known.append((kind, text))
            else:
                vio.append((kind, text))
            continue
        c = viol_cache(kind, text)
        if kind == "DEADLOCK":
            ok = any_raced
        else:
            ok = c in raced and ev + 1 >= raced[c]
        if ok and kind in F9_CONSEQUENCES:
            known.append((kind, text))
        else:
            vio.append((kind, text))
    if run["status"] != "ok":
        (known if any_raced else vio).append(("STATUS", "run ended with status " + run["status"]))
    if run["wrong"] not in ("-",):
        (known if any_raced else vio).append(("WRONG-OUTPUT", "job(s) %s produced output different from the serial run" % run["wrong"]))
    if mo["ok"]:
        kinds = set(k for _, k, _ in run["viol"])
        for c in (0, 1):
            m = mo["c%d" % c]
            if c not in raced and (m["overlap"] or m["twoWriters"] or m["shrunk"]):
                vio.append(("MODEL-THEOREM-MISMATCH", "cache %d: the model replay reached overlap=%d twoWriters=%d shrunk=%d without a raced "
                            "initialisation, which the theorems exclude" % (c, m["overlap"], m["twoWriters"], m["shrunk"])))
            if m["spurious"]:
                vio.append(("SPURIOUS-UPGRADE", "cache %d: a thread took the reader->writer upgrade and downgraded although FFT_LEN had not "
                            "grown in between (%d times)" % (c, m["spurious"])))
        mon = any(k == "READ-DURING-REBUILD" for k in kinds)
        mod = bool(mo["c0"]["overlap"] or mo["c1"]["overlap"])
        if mon != mod and run["status"] == "ok":
            vio.append(("MONITOR-MODEL-DISAGREE", "reader inside a transform during a rebuild: real-code monitor %s, model replay %s" % (mon, mod)))
    return vio, known


# ====================================================================== free-running threads (no scheduler)

STRESS_JOBS = [
    "Q:1:50:2:1:400+Q:4:50:1:4:900+Q:6:50:1:3:400/Q:2:50:3:2:500+Q:4:50:1:4:900+Q:4:0:2:1:600/Q:6:50:2:1:600+V:1500:800+Q:4:25:1:2:500",
    "Q:4:50:2:1:600+Q:4:50:1:4:2000/Q:4:50:1:2:500+Q:3:50:48000:44100:500/Q:2:50:1:3:500+Q:4:50:1:4:2000",
    "Q:6:50:2:1:600+Q:6:0:3:2:500/Q:5:50:1:2:500+Q:6:75:1:2:500/V:700:600+Q:5:50:3:2:400",
]
TSAN_SUPP = "race_top:_soxr_init_fft_cache\nrace_top:^soxr_create$\n"    # top frame only: nothing below soxr_create is hidden


def parse_tsan(err):
    """ThreadSanitizer stderr -> list of reports {summary, location, tops: [(function, file:line)] of the two accesses, text}"""
    out = []
    for blk in err.split("=================="):
        if "WARNING: ThreadSanitizer" not in blk:
            continue
        tops = re.findall(r"#0 (\S+) (\S+?:\d+)", blk)
        loc = re.search(r"Location is (global '[^']+'|heap block of size \d+)", blk)
        summ = re.search(r"SUMMARY: ThreadSanitizer: (.*)", blk)
        out.append({"summary": summ.group(1) if summ else "?", "location": loc.group(1) if loc else "?",
                    "tops": [t for t in tops if "pthread_create" not in t[0]][:2], "text": blk.strip()[:2500]})
    return out


def src_line(fileline):
    try:
        f, n = fileline.rsplit(":", 1)
        return open(f).read().splitlines()[int(n) - 1]
    except Exception:
        return ""


def tsan_known(rep):
    """-> "benign" | "F9" | None.  F9 (c): the lazy initialiser's unguarded test / the assert in front of the lock read FFT_LEN
    while a writer that holds the lock stores it - a C data race also after initialisation, value-benign (both values >= 0)."""
    if rep["location"] == "global '_soxr_trace_level'":
        return "benign"
    if rep["location"] in ("global 'fft_len'", "global 'fft_len_f'"):
        for fn, fl in rep["tops"]:
            line = src_line(fl)
            if "FFT_LEN >= 0" in line or "assert(FFT_LEN == -1)" in line:      # `if (FFT_LEN >= 0) return;` / the asserts before the lock
                return "F9"
    return None


def free_running(ctx, f9_active):
    """Real threads, initialisation completed first.  (1) release build: outputs of every job of every thread and round equal the
    serial runs; (2) ThreadSanitizer build, twice: as is (the known races are reported and classified) and with the two known
    report classes suppressed (so that they cannot hide another race at the same address).  Anything else is a violation."""
    res = {"rel_jobs": 0, "tsan_jobs": 0, "tsan_reports": 0, "tsan_known": {}}
    rel = common.build_harness("stress", ["conc/stress.c"], variant="rel")
    ts = common.build_harness("stress", ["conc/stress.c"], variant="tsan")
    rng = ctx.rng
    for i, jobs in enumerate(STRESS_JOBS if not ctx.quick else STRESS_JOBS[:2]):
        for rep_i in range(3 if ctx.quick else 12):
            nthr = rng.choice([3, 4, 6, 8])
            rounds = rng.choice([5, 10, 20])
            cmd = [rel, str(rounds), str(nthr), jobs, str(rep_i % 2)]
            p = subprocess.run(cmd, stdout=subprocess.PIPE, stderr=subprocess.PIPE, universal_newlines=True, timeout=900)
            m = re.search(r"STRESS rounds=\d+ threads=\d+ jobs=(\d+) wrong=(\d+) errors=(\d+)", p.stdout)
            if not m:
                ctx.violation("free-running threads (initialisation completed first): run failed (exit %s): %s" % (p.returncode, p.stderr[-400:]),
                              {"cmd": " ".join(cmd)})
                continue
            res["rel_jobs"] += int(m.group(1))
            if int(m.group(2)) or int(m.group(3)):
                ctx.violation("free-running threads after a completed initialisation: %s job(s) produced output different from the serial run, "
                              "%s reported an error" % (m.group(2), m.group(3)), {"cmd": " ".join(cmd)})
    tmp = tempfile.mkdtemp(prefix="conc-tsan-", dir=common.BUILD)
    try:
        supp = os.path.join(tmp, "supp")
        open(supp, "w").write(TSAN_SUPP)
        for jobs in (STRESS_JOBS if not ctx.quick else STRESS_JOBS[:2]):
            for mode in ("plain", "suppressed"):
                opts = "halt_on_error=0 exitcode=0 history_size=4" + (" suppressions=" + supp if mode == "suppressed" else "")
                cmd = [ts, "12" if ctx.quick else "40", "5", jobs, "1"]
                p = subprocess.run(cmd, stdout=subprocess.PIPE, stderr=subprocess.PIPE, universal_newlines=True, timeout=1800,
                                   env=dict(os.environ, TSAN_OPTIONS=opts))
                m = re.search(r"STRESS rounds=\d+ threads=\d+ jobs=(\d+) wrong=(\d+) errors=(\d+)", p.stdout)
                replay = {"cmd": "TSAN_OPTIONS='%s' %s" % (opts, " ".join(cmd)), "suppressions": TSAN_SUPP if mode == "suppressed" else ""}
                if not m:
                    if "FATAL: ThreadSanitizer" in p.stderr or "unexpected memory mapping" in p.stderr:
                        ctx.notes.append("ThreadSanitizer could not run here: " + p.stderr[-200:])
                        res["tsan_unavailable"] = True
                        break
                    ctx.violation("ThreadSanitizer run failed (exit %s): %s" % (p.returncode, p.stderr[-400:]), replay)
                    continue
                res["tsan_jobs"] += int(m.group(1))
                if int(m.group(2)) or int(m.group(3)):
                    ctx.violation("ThreadSanitizer build: %s job(s) differ from the serial run, %s errors" % (m.group(2), m.group(3)), replay)
                for r in parse_tsan(p.stderr):
                    res["tsan_reports"] += 1
                    k = tsan_known(r)
                    if k == "benign":
                        res["tsan_known"]["_soxr_trace_level (benign)"] = res["tsan_known"].get("_soxr_trace_level (benign)", 0) + 1
                    elif k == "F9" and f9_active:
                        res["tsan_known"]["F9 unguarded read of FFT_LEN"] = res["tsan_known"].get("F9 unguarded read of FFT_LEN", 0) + 1
                        res["f9_tsan"] = ("ThreadSanitizer (real threads, after a completed initialisation): the unguarded test of LSX_INIT_FFT_CACHE reads "
                                          "FFT_LEN while a writer holding the lock stores it (%s)" % r["summary"])
                    else:
                        replay2 = dict(replay, report=r["text"])
                        ctx.violation("data race after a completed initialisation (ThreadSanitizer, real threads): %s; location %s; accesses in %s"
                                      % (r["summary"], r["location"], ", ".join("%s (%s)" % t for t in r["tops"])), replay2)
    finally:
        shutil.rmtree(tmp, ignore_errors=True)
    ctx.cov["free_running"] = res
    return res


# ====================================================================== ThreadSanitizer under the deterministic scheduler

def tsan_scheduled(ctx, f9_active, sets, base):
    """The scheduler harness built with ThreadSanitizer.  The scheduler's own hand-over and the monitors are hidden from
    ThreadSanitizer and the lock shim reports acquire / release of exactly the library's lock operations, so its happens-before
    relation is the one the readers/writer lock induces: every pair of conflicting accesses to FFT_LEN, the table pointers or the
    tables that the lock discipline does not order is reported, deterministically per schedule (no timing involved) - this sees
    inside the transforms, which the event traces do not.  Runs start after a completed initialisation (warm); job sets without
    variable-rate jobs.  Known: `_soxr_trace_level` (benign) and the unguarded test of LSX_INIT_FFT_CACHE reading FFT_LEN against a
    writer's store (F9); anything else is a violation."""
    res = {"schedules": 0, "reports": 0, "known": {}, "violations": 0}
    exe = common.build_harness("sched", ["conc/sched.c"], variant="tsan")
    rng = ctx.rng
    specs, n = [], 0
    for sname in sets:
        jobs = JOBSETS[sname][0]
        if "V:" in jobs:
            continue
        nt = nthreads(jobs)
        sw = ["n"] if nt == 2 else ["n", "m"]
        nd = base.get((sname, 1), 30)
        cand = [dict(tail="c"), dict(tail="r"), dict(tail="r", relswitch=1)]
        step = 1 if not ctx.quick else (2 if nt == 2 else 3)
        for i in range(0, nd + 2, step):
            for ch in sw:
                cand.append(dict(sched="c" * i + ch, tail="c"))
        for _ in range(6 if ctx.quick else 60):
            cand.append(dict(tail="x", seed=1 + rng.below(1 << 30), p=rng.choice([16, 64, 128, 255]), relswitch=rng.below(2)))
        if not ctx.quick:
            for _ in range(150):
                i, j = rng.below(nd + 1), rng.below(nd + 1)
                cand.append(dict(sched="c" * i + rng.choice(sw) + "c" * j + rng.choice(sw), tail="c"))
        for kw in cand:
            n += 1
            specs.append(mk(sname, "tsan", id="t%05d" % n, warm=1, **kw))
    by = {}
    for sp in specs:
        by.setdefault(sp["set"], []).append(sp)
    chunks = []
    for lst in by.values():
        for i in range(0, len(lst), 25):
            chunks.append(lst[i:i + 25])
    opts = "halt_on_error=0 exitcode=0"

    def run(chunk):
        inp = "".join(spec_line(sp) + "\n" for sp in chunk)
        p = subprocess.run([exe, "batch", "-"], input=inp, stdout=subprocess.PIPE, stderr=subprocess.PIPE, universal_newlines=True, timeout=3600,
                           env=dict(os.environ, TSAN_OPTIONS=opts))
        results = {}
        for line in p.stdout.splitlines():
            if line.startswith("RESULT "):
                t = line.split()
                results[t[1]] = dict(x.split("=", 1) for x in t[2:])
        segs, cur = {}, None
        for line in p.stderr.splitlines():
            if line.startswith("TSANRUN "):
                cur = line.split()[1]
                segs[cur] = []
            elif cur is not None:
                segs[cur].append(line)
        return chunk, results, {k: "\n".join(v) for k, v in segs.items()}, p.returncode, p.stderr[-300:]

    groups = {}
    with ThreadPoolExecutor(WORKERS) as ex:
        for chunk, results, segs, rc, tail in ex.map(run, chunks):
            for sp in chunk:
                r = results.get(sp["id"])
                line = spec_line(sp)
                how = "TSAN_OPTIONS='%s' build/harness/sched-tsan-* line '%s'" % (opts, line)
                if r is None:
                    ctx.violation("ThreadSanitizer build of the scheduler harness produced no result for a schedule (exit %s): %s" % (rc, tail),
                                  {"line": line, "how": how})
                    continue
                res["schedules"] += 1
                if r.get("status") != "ok" or r.get("wrong") != "-":
                    ctx.violation("ThreadSanitizer build, run after a completed initialisation: status %s, jobs differing from the serial run %s"
                                  % (r.get("status"), r.get("wrong")), {"line": line, "how": how})
                for rep in parse_tsan(segs.get(sp["id"], "")):
                    res["reports"] += 1
                    k = tsan_known(rep)
                    if k == "benign":
                        res["known"]["_soxr_trace_level (benign)"] = res["known"].get("_soxr_trace_level (benign)", 0) + 1
                    elif k == "F9" and f9_active:
                        res["known"]["F9 unguarded read of FFT_LEN"] = res["known"].get("F9 unguarded read of FFT_LEN", 0) + 1
                        res["f9_tsan"] = ("ThreadSanitizer under the scheduler (runs after a completed initialisation): the unguarded test of "
                                          "LSX_INIT_FFT_CACHE reads FFT_LEN while a writer holding the lock stores it")
                    else:
                        key = (rep["summary"], rep["location"].split(" of size")[0])
                        groups.setdefault(key, []).append((line, how, rep))
    for key in sorted(groups)[:6]:
        line, how, rep = groups[key][0]
        res["violations"] += len(groups[key])
        ctx.violation("accesses not ordered by the cache lock, in %d schedule(s) run after a completed initialisation (ThreadSanitizer, "
                      "happens-before = the library's own lock operations): %s; location %s; accesses in %s"
                      % (len(groups[key]), rep["summary"], rep["location"], ", ".join("%s (%s)" % t for t in rep["tops"])),
                      {"line": line, "how": how, "report": rep["text"]})
    ctx.cov["tsan_under_scheduler"] = res
    return res


# ====================================================================== C06, threads clause

def clips_threads(ctx, broken=None, audit=True):
    """Threads half of C06 ("... or by OpenMP threads; the clip counter equals the sum of the per-channel clip counts").

    proof      Properties/C06Threads.lean (the code as it is since the fix of F8, /repo a185517: atomic RMW, exact total under
               every interleaving, any number of threads / regions; historical: the former non-atomic `p->clips +=` with its
               lost-update witness + "never over-counts"); when `audit` the module is built
               and its axioms audited here and failures are appended to `broken` (a list, as returned by common.proof_stage).
    tie        the atomic model (`CLIPS` line of soxr_conc) is run on the per-channel counts measured on the real code (mono
               runs) and must equal the real sequential counter (integers).
    falsifier  real OpenMP teams (2..8 threads), every channel saturating, tiny blocks so that the channels reach
               `p->clips +=` together: counter != sum (lost or extra counts), or any output sample differing from the
               sequential run, is a violation (F8 is fixed; only while an entry F8 with status "known" is listed for C06
               would a lost count print as KNOWN-FINDING).
    Returns a dict of what was measured (also merged into ctx.cov["clips_threads"])."""
    res = {"runs": 0, "lost_runs": 0, "max_loss_pct": 0.0, "exact_single_thread": 0, "model_vs_seq": 0}
    if broken is None:
        broken = []
    if audit:
        ok, out = common.lake_build(["SoxrModel.Properties.C06Threads", "soxr_conc"])
        if not ok:
            broken.append("C06Threads: lake build failed: " + " | ".join(l for l in out.splitlines() if "error" in l.lower())[:800])
        else:
            thms, raw = common.print_axioms("C06Threads")
            if thms is None:
                broken.append("C06Threads: axiom audit failed to run: " + raw[-600:])
            else:
                stated = common.theorems_in(os.path.join(common.LEAN, "SoxrModel", "Properties", "C06Threads.lean"))
                miss = [n for n in stated if n not in set(t.split(".")[-1] for t in thms)]
                if miss:
                    broken.append("C06Threads: theorems not covered by the axiom audit: " + ", ".join(miss))
                for n, ax in thms.items():
                    bad = [a for a in ax if a not in common.OK_AXIOMS]
                    if bad:
                        broken.append("theorem %s depends on non-standard axioms %s" % (n, bad))
                res["theorems"] = sorted(thms)
                ctx.cov["obligations"] = ctx.cov.get("obligations", 0) + len(stated)
                if not broken:
                    ctx.cov["discharged"] = ctx.cov.get("discharged", 0) + len(thms)
        hits = common.grep_forbidden(common.import_closure(["SoxrModel.Properties.C06Threads", "SoxrModel.Conc.Main"]))
        if hits:
            broken.append("forbidden constructs in Lean sources: " + "; ".join(hits[:5]))
    exe = clips_exe()
    f8 = [f for f in common.known_active(ctx.pid) if f.get("id") == "F8"]
    configs = []
    rng = ctx.rng
    n = 6 if ctx.quick else 24
    for i in range(n):
        nch = rng.choice([2, 3, 4, 8, 8, 5])
        team = rng.choice([2, 4, min(8, nch), 8])
        blocks = rng.choice([1500, 2500, 4000])
        blen = rng.choice([4, 8, 16])
        ratio = rng.choice([("1", "1"), ("2", "1"), ("1", "2"), ("3", "2")])
        recipe = rng.choice([0, 0, 1, 4])
        same = 1 if i % 4 != 3 else 0
        configs.append((nch, team, blocks, blen, 3, ratio, recipe, same))
    configs.append((4, 1, 800, 8, 2, ("1", "1"), 0, 1))      # one OpenMP thread: must be exact
    configs.append((8, 1, 500, 16, 2, ("2", "1"), 1, 0))
    lines = []
    for nch, team, blocks, blen, reps, ratio, recipe, same in configs:
        cmd = [exe, str(nch), str(team), str(blocks), str(blen), str(reps), "0", ratio[0], ratio[1], str(recipe), str(same)]
        p = subprocess.run(cmd, stdout=subprocess.PIPE, stderr=subprocess.PIPE, universal_newlines=True, timeout=900)
        if p.returncode:
            ctx.violation("clips harness failed: " + p.stderr[-500:], {"cmd": " ".join(cmd)}, no_input=True)
            continue
        for line in p.stdout.splitlines():
            if not line.startswith("CLIPS "):
                continue
            kv = dict(KV.findall(line))
            mono = [int(x) for x in re.search(r"mono=([\d ]+) sum=", line).group(1).split()]
            par, seq, tot, diff = int(kv["par"]), int(kv["seq"]), int(kv["sum"]), int(kv["outdiff"])
            res["runs"] += 1
            ctx.hist("clips_team", team)
            ctx.hist("clips_channels", nch)
            replay = {"cmd": " ".join(cmd), "line": line}
            lines.append((mono, seq, replay))
            if seq != tot:
                ctx.violation("sequential clip counter %d != sum of the mono runs' counters %d" % (seq, tot), replay)
            if diff or kv["odone_par"] != kv["odone_seq"]:
                ctx.violation("channels processed by OpenMP threads produced %d output samples different from the sequential run" % diff, replay)
            if par > seq:
                ctx.violation("clip counter under OpenMP %d EXCEEDS the sum of the per-channel counts %d (theorem nonatomic_never_overcounts "
                              "says the pinned code cannot: model and code have parted)" % (par, seq), replay)
            elif par < seq:
                if team == 1:
                    ctx.violation("clip counter lost %d counts with a team of ONE thread" % (seq - par), replay)
                elif f8:
                    res["lost_runs"] += 1
                    res["max_loss_pct"] = max(res["max_loss_pct"], round(100.0 * (seq - par) / seq, 2))
                    ctx.known("F8", "clip counter under OpenMP lost updates: %d channels, team of %d: %d instead of %d (`p->clips +=` is a "
                              "non-atomic read-modify-write in the omp parallel regions of soxr.c; lost-update witness proved in "
                              "Properties/C06Threads.lean)" % (nch, team, par, seq))
                else:
                    ctx.violation("clip counter under OpenMP lost updates: %d instead of %d (%d channels, team of %d)" % (par, seq, nch, team), replay)
            elif team == 1:
                res["exact_single_thread"] += 1
    # the atomic model on the measured per-channel counts = the real sequential counter
    seen = set()
    q = []
    for mono, seq, replay in lines:
        key = (tuple(mono), seq)
        if key not in seen:
            seen.add(key)
            q.append((mono, seq, replay))
    if q and os.path.exists(CONC_EXE):
        rc, outl, err = common.run_lines([CONC_EXE], ["CLIPS 0 " + " ".join(map(str, mono)) for mono, _, _ in q])
        got = [l for l in outl if l.startswith("clips ")]
        if len(got) != len(q):
            ctx.violation("soxr_conc did not answer the CLIPS lines: " + err[-300:], {"lines": len(q)}, no_input=True)
        for (mono, seq, replay), l in zip(q, got):
            res["model_vs_seq"] += 1
            if int(l.split()[1]) != seq or not l.endswith("todo=0"):
                ctx.violation("atomic clip-counter model gives %s, the real sequential run %d" % (l, seq), replay)
    ctx.cov["clips_threads"] = res
    ctx.assume("C06 threads: the OpenMP runtime runs the iterations of `omp parallel for` on concurrently executing threads; each "
               "`p->clips += clips` under `#pragma omp atomic` is one indivisible read-modify-write (atomic model of Conc/Clips.lean = the "
               "code as it is since /repo a185517); the non-atomic model and its lost-update witness describe the code before that fix; "
               "the dither seed p->seed of the same regions (F34) is outside this clause: runs use SOXR_NO_DITHER")
    return res
