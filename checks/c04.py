"""C04 Time alignment: zero net delay and no rate drift over streams of any length.

  proof stage     Lean: SoxrModel/Properties/C04.lean (time map of a plan in exact rationals: aligned_forever, drift_bound,
                  absolute_clock for every run, hi-prec carry = 128-bit addition, clock loop closed form) + axiom audit
  tie (plans)     every plan the real planner exports for a sweep of linear-phase configurations: the compiled driver evaluates
                  PlanLatOK / offsetOf / rateOf — the very definitions of the theorems — on it (`cr.time`); the rate product is
                  compared with the exact irate/orate of the two doubles handed to soxr_create
  tie (clocks)    long streams (1e6..1e7 frames quick, up to 1e8 thorough) through the real engine and through the Lean count
                  model in few large calls: clock words, remM, occupancies must agree exactly after every call
  falsifier       numeric, on the real code (checks/c04_numeric.py when present): ramp read-back, impulse centroid, sine phase
"""
import math
from fractions import Fraction
from vlib import common
from checks import crcommon as cr
from checks import coeftab
from checks import polyread

LEVEL = "proof"
PID = "C04"
TWO32 = Fraction(1, 2 ** 32)


def plan_time(tr):
    lines = [l for l in tr.model_in if l.startswith("cr.plan") or l.startswith("cr.stage")] + ["cr.time"]
    out = cr.run_model(lines)
    t = cr.parse_kv(out[-1]) if out and out[-1].startswith("TIME") else None
    return t, out


def classify(tr):
    """(has interpolated clocked stage, hi-prec clock, cubic)"""
    interp = any(s["kind"] not in ("half", "dft", "poly0") for s in tr.plan)
    hip = any(s.get("hiprec") == "1" for s in tr.plan)
    cubic = any(s["kind"] == "cubic" for s in tr.plan)
    return interp, hip, cubic


def check_plan(ctx, cfg, env, tr, worst):
    """Evaluate the theorems' hypotheses on one exported plan. Returns a problem string or None."""
    t, out = plan_time(tr)
    if t is None:
        return "the model driver did not answer cr.time: %s" % out[-3:]
    off, rate = Fraction(t["off"]), Fraction(t["rate"])
    r = Fraction(float(cfg["ir"])) / Fraction(float(cfg["or"]))
    interp, hip, cubic = classify(tr)
    lat = int(t["lat"])
    scale = max(Fraction(1), r)
    err = abs(rate - r) / scale
    ctx.hist("dist_clock", "hi-prec" if hip else "cubic" if cubic else "interpolated" if interp else "exact(poly0/dft/half)")
    if lat == 0:
        return "latency compensation clause fails (PlanLatOK false): offset %s input periods, %s" % (off, t)
    if interp and not cubic and not hip and (int(cfg.get("qflags", 0)) & 8):
        # the caller asked for the hi-prec clock and the plan has a stage whose rate is a rounded clock step: it must be the 96-bit one
        # (F37, repaired in /repo by 3274029: the 16-bit recipes ignored the flag and drifted about 1e-10 input periods per output frame)
        return ("SOXR_HI_PREC_CLOCK was requested but the interpolated stage of the plan runs on the standard clock (rate error %.3g x 2^-32 of the "
                "longer period per output frame: %.3g periods after 1e8 frames)" % (float(err * 2 ** 32), float(err * 10 ** 8)))
    if not interp:
        # every stage has an exact rational rate: the plan must be exact for the whole stream
        ctx.count("plans_exact")
        if lat != 2 or off != 0:
            return "plan without an interpolated stage is not exactly compensated: lat=%d offset=%s" % (lat, off)
        # the planner snaps a ratio to a rational within the resolution of the standard clock (its `epsilon`): exact when the
        # requested ratio is that rational, else within the rounded-clock allowance
        if rate == r:
            ctx.count("plans_rate_exact")
        worst["snapped_rate_err*2^32"] = max(worst.get("snapped_rate_err*2^32", 0), float(err * 2 ** 32))
        if err > TWO32:
            return "plan with rational stage rates only has rate product %s; the requested ratio %s differs by %.3g x 2^-32 of the longer period" % (rate, r, float(err * 2 ** 32))
        return None
    if hip:
        ctx.count("plans_hiprec")
        lim = Fraction(1, 2 ** 50)          # far below any precision for any practical stream length (1e8 frames * 2^-50 < 1e-7)
        worst["hiprec_rate_err*2^52"] = max(worst.get("hiprec_rate_err*2^52", 0), float(err * 2 ** 52))
        if err > lim:
            return "hi-prec clock: rate product off by %.3g (relative to the longer period), bound 2^-50" % float(err)
        if abs(off) / scale > TWO32:
            return "hi-prec clock: initial offset %s exceeds 2^-32 of the longer period" % off
        return None
    ctx.count("plans_stdclock")
    if not cubic:
        # "for rational ratios this alignment is exact for the whole stream": with the other stages of THIS plan as they are, the clocked
        # stage is asked for q input periods per output frame.  If q = M/D with a small D (the planner's search goes up to 2048 phases;
        # 512 leaves room for the way it may split the ratio differently on the rational path) and the exact D-phase table fits
        # coef_size_kbytes, running that stage on a rounded 32.32 clock is a drift the ratio does not require.
        arb = [s for s in tr.plan if s["kind"] not in ("half", "dft", "poly0")]
        rtf = int(cfg.get("rtflags", 0)) & 3
        if len(arb) == 1 and rtf in (0, 1) and int(arb[0].get("step", 0)) > 0:
            q = r * Fraction(int(arb[0]["step"]), int(arb[0]["den"])) / rate
            D = (q - (q.numerator // q.denominator)).denominator
            size = 8 if tr.engine in ("cr64", "cr64s") else 4
            need = D * 2 * (1.5 * int(arb[0].get("n", 0)) + 8) * size / 1000.0       # generous upper bound of the exact table's size in kbytes
            ctx.hist("dist_arb_denominator", "1" if D == 1 else "<=512" if D <= 512 else "<=2048" if D <= 2048 else ">2048")
            if D <= 512 and err != 0 and (rtf == 1 or need <= int(cfg.get("kb", 400))):
                K = int(Fraction(1, 10 ** 6) / (err * scale)) + 1
                return ("rational ratio not realised exactly: the clocked stage of this plan is asked for %s input periods per output frame "
                        "(%d phases, an exact table of at most %.0f kbytes) but runs on the rounded 32.32 clock: the stream drifts by %.3g of the "
                        "longer period per output frame (1e-6 input periods after %d frames, growing without bound)" % (q, D, need, float(err), K))
    worst["std_rate_err*2^32"] = max(worst.get("std_rate_err*2^32", 0), float(err * 2 ** 32))
    if err > TWO32:
        return "standard clock: rate product %s differs from %s by %.3g x 2^-32 of the longer period (bound 1)" % (rate, r, float(err * 2 ** 32))
    if off != 0:
        return "standard clock: offset %s, expected exact zero" % off
    return None


def long_ops(job, plan):
    """few large calls over a long stream of zeros; state after every call is compared with the count model"""
    rng = common.Rng(job["seed"])
    N = job["N"]
    ratio = cr.io_ratio(job["cfg"])
    blk = rng.choice([65536, 200000, 1000003])
    ops = [cr.create_line(job["cfg"]), "limit %d" % N]
    fed = 0
    while fed < N:
        il = min(blk, N - fed)
        ops.append("feed %d %d 0" % (il, int(il / ratio) + 100))
        fed += il
    ops.append("drain %d" % (int(blk / ratio) + 100))
    ops.append("hash")
    return ops


def oracle_total(job, tr):
    got = sum(int(r["od"]) for r in tr.results)
    exp, near = cr.owed_exact(job["N"], job["cfg"])
    expc = int(job["N"] / cr.io_ratio(job["cfg"]) + .5)
    bad = []
    if got != exp and not (near and got == expc):
        bad.append(("total", "%d frames in gave %d out, round(N*orate/irate) = %d" % (job["N"], got, exp)))
    return bad, {"N": job["N"], "out": got}


def run(ctx):
    broken = common.proof_stage(ctx, ["SoxrModel.Properties.C04", "SoxrModel.Properties.C04Coef"], ["C04", "C04Coef"])
    coeftab.run(ctx, broken, PID)
    exe = common.build_harness("crtrace", ["cr/trace.c"], "rel")
    polyread.run(ctx, exe)
    rng = ctx.rng
    # ---- plans
    nplans = 1200 if ctx.quick else 40000
    cfgs = []
    fixed = [({"ir": "44100", "or": "48000", "recipe": 4}, {}), ({"ir": "48000", "or": "44100", "recipe": 6}, {}),
             ({"ir": "1", "or": "128", "recipe": 4}, {}), ({"ir": "3", "or": "1.0001", "recipe": 6, "qflags": 8}, {}),
             ({"ir": "10000", "or": "1", "recipe": 0}, {}), ({"ir": "96000", "or": "44101", "recipe": 5}, {"SOXR_USE_SIMD": "0"})]
    for i in range(nplans):
        cfgs.append(fixed[i] if i < len(fixed) else cr.gen_config(rng, allow_nonlinear=False))
    # very large up-sampling factors (the post stage's factor is capped at 256 and the rest goes to the stages in front of it), below the
    # region of known finding F23
    for f in (2048, 4096, 5000, 3000.5, 20000, 100000):
        for recipe in (4, 1):
            cfgs.append(({"ir": "1", "or": repr(float(f)), "recipe": recipe}, {}))
    # ratios a fraction of one clock unit (2^-32) away from the values at which the planner rounds, snaps or switches path, with the
    # cubic stage (no planner in front of it) and with a full plan, in both directions
    for t in (1.5, 2.0, 3.0, 4.0, 5.0, 6.0, 8.0, 12.0):
        for eps in (-3.1e-11, 3.1e-11, -1.2e-10):
            for recipe in (0, 4):
                cfgs.append(({"ir": repr(t * (1 + eps)), "or": "1", "recipe": recipe}, {}))
                if recipe == 4 and eps < 0:
                    cfgs.append(({"ir": "1", "or": repr(t * (1 + eps)), "recipe": recipe}, {}))
    # the planner's fallback from an exact poly-phase table to an interpolated one (rational ratio with L <= 2048 whose table exceeds
    # coef_size_kbytes), with and without the hi-prec clock: the clock clauses must hold on whichever path the planner takes
    for i in range(nplans // 8):
        a, b = 1 + rng.below(2300), 1 + rng.below(2300)
        cfg = {"ir": str(a), "or": str(b), "recipe": rng.choice([1, 2, 3, 4, 5, 6, 7, 0x44, 0x46]), "qflags": rng.choice([8, 8, 0, 16 | 8])}
        if rng.chance(.6):
            cfg["kb"] = 50 + rng.below(400)
        cfgs.append((cfg, {"SOXR_USE_SIMD": "0"} if rng.chance(.4) else {}))

    def work(ce):
        cfg, env = ce
        tr = cr.run_trace(exe, [cr.create_line(cfg)], env, timeout=120)
        return cfg, env, tr

    worst = {}
    distinct = set()
    problems = []
    for cfg, env, tr in cr.pmap(work, cfgs):
        ctx.count("evaluations")
        if not tr.created:
            ctx.count("rejected_configs"); continue
        if not tr.plan:
            ctx.count("plans_without_stage"); continue
        ctx.count("plans_checked")
        distinct.add(cr.plan_sig(tr))
        p = check_plan(ctx, cfg, env, tr, worst)
        if p:
            problems.append((cfg, env, tr, p))
        else:
            ctx.sample({"create": cr.create_line(cfg), "env": env, "time": plan_time(tr)[0], "stages": [s["kind"] for s in tr.plan]})
    ctx.cov["worst_margins"] = worst
    # ---- long streams: clock words against the big-integer model
    njobs = 34 if ctx.quick else 200
    jobs = []
    # the carried words by structure, on both engine precisions, in every run: a time-domain decimating dft stage (remM), a poly-phase
    # stage behind / ahead of a dft stage (at modulo L), the F-domain stages, a half-band chain, both clocks on an irrational ratio
    # (remM moves only when the block length is not a multiple of M: 6:1 at VHQ, 3:2 with SOXR_DOUBLE_PRECISION or with small dft sizes)
    fixed_long = [({"ir": "6", "or": "1", "recipe": 6}, {}), ({"ir": "3", "or": "2", "recipe": 4, "qflags": 16}, {"SOXR_USE_SIMD": "0"}),
                  ({"ir": "3", "or": "2", "recipe": 6, "min": 9, "large": 11}, {}), ({"ir": "6", "or": "1", "recipe": 4}, {}),
                  ({"ir": "3", "or": "2", "recipe": 6}, {}), ({"ir": "3", "or": "2", "recipe": 4}, {"SOXR_USE_SIMD": "0"}),
                  ({"ir": "5", "or": "4", "recipe": 6}, {"SOXR_USE_SIMD": "0"}), ({"ir": "5", "or": "3", "recipe": 3}, {}),
                  ({"ir": "48000", "or": "44100", "recipe": 6}, {}), ({"ir": "44100", "or": "48000", "recipe": 4}, {}),
                  ({"ir": "7", "or": "1", "recipe": 4}, {}), ({"ir": "1", "or": "3", "recipe": 6}, {}),
                  ({"ir": "1.41421356", "or": "1", "recipe": 6, "qflags": 8}, {}), ({"ir": "1", "or": "1.0001", "recipe": 4}, {})]
    for i in range(njobs):
        cfg, env = cr.gen_config(rng, allow_nonlinear=False, max_up=8, max_down=64)
        cfg.pop("min", None); cfg.pop("large", None); cfg.pop("kb", None)
        if i < len(fixed_long):
            cfg, env = dict(fixed_long[i][0]), dict(fixed_long[i][1])
        base = rng.choice([10 ** 6, 3 * 10 ** 6]) if ctx.quick else rng.choice([10 ** 6, 10 ** 7, 3 * 10 ** 7, 10 ** 8])
        N = min(base, int(base * min(1.0, 4 / max(cr.io_ratio(cfg), 1e-9) if cr.io_ratio(cfg) < 1 else 1.0)))
        jobs.append({"cfg": cfg, "env": env, "N": max(N, 1000), "seed": rng.next() & 0xffffffff, "idx": i, "style": "long"})
    res = cr.sweep(ctx, PID, exe, jobs, long_ops, oracle_total, timeout=600 if ctx.quick else 3000)
    ctx.count("long_stream_frames", sum(j["N"] for j, *_ in res))
    broken_corr = [(job, tr) for job, ops, tr, bad, info in res if getattr(tr, "diff", None) and not bad]
    ctx.cov["distinct_nontrivial"] = ctx.cov.get("distinct_nontrivial", 0) + len(distinct)
    # ---- numeric falsifier (real code)
    numeric = None
    try:
        from checks import c04_numeric as numeric
    except ImportError:
        ctx.notes.append("checks/c04_numeric.py not present: ramp / impulse / sine-phase measurements not run")
    if numeric is not None:
        numeric.run_numeric(ctx, ctx.quick)
    # ---- a long stream on which model and code disagree (clock words, remM, counts): search that configuration for a misalignment
    for job, tr in broken_corr:
        found = None
        if numeric is not None and hasattr(numeric, "confirm"):
            try:
                found = numeric.confirm(job["cfg"], job["env"])
            except Exception as ex:
                found = None
        if found:
            ctx.violation("C04 fails on the real code: %s (%s %s); the engine's clock/phase bookkeeping also left the Lean count model at %s" % (
                found, cr.create_line(job["cfg"]), job["env"], tr.diff[1]), {"cfg": job["cfg"], "env": job["env"], "measured": found, "plan": tr.plan})
    # ---- verdicts
    nlong = 0
    for cfg, env, tr, p in problems:
        rep = {"cfg": cfg, "env": env, "plan": tr.plan, "problem": p, "replay": "harness/cr/trace.c: " + cr.create_line(cfg)}
        found = None
        io = cr.io_ratio(cfg)
        if numeric is not None and hasattr(numeric, "confirm") and 1 / 300.0 <= io <= 400:      # (the measurements synthesise whole streams in memory)
            try:
                found = numeric.confirm(cfg, env)
                if not found and ("SOXR_HI_PREC_CLOCK" in p or "rational ratio not realised" in p) and nlong < 3:      # a drift shows on a long stream, not on the ramp
                    nlong += 1
                    found = numeric.confirm_long(cfg, env, as_rational="rational ratio not realised" in p)
            except Exception as ex:          # the measurement itself failing is not evidence either way
                rep["confirm_error"] = repr(ex)
        if not found and "rate product" in p:
            # a plan that runs at another rate hands out frames before their time: search stream lengths for one
            try:
                ov = cr.find_eoi_overrun(exe, cfg, env, span=400)
                if ov:
                    found = ov["what"] + " - output frame k no longer represents input time k*irate/orate"
                    rep["ops"] = ov["ops"]
            except Exception as ex:
                rep["confirm_error2"] = repr(ex)
        if found:
            rep["measured"] = found
            ctx.violation("C04 fails on the real code: %s; the planner's plan for (%s %s): %s" % (found, cr.create_line(cfg), env, p), rep)
        else:
            ctx.violation("hypothesis of C04 theorems (aligned_forever / drift_bound) fails on a plan of the real planner: %s (%s %s)" % (
                p, cr.create_line(cfg), env), rep, no_input=True)
    ctx.cov["rule"] = ("plans: linear-phase configurations over ratio classes x recipes x flags x engines x runtime specs; each exported plan's "
                       "latency clauses, exact offset and exact rate product evaluated by the Lean driver (definitions of the theorems) and "
                       "compared with irate/orate in exact rationals: exact for plans whose stages all have rational rates, within 2^-32 of "
                       "the longer period per output frame for the standard clock, 2^-50 for the hi-prec clock; long streams: zeros through "
                       "the real engine in large calls, every clock word / remM / occupancy equal to the Lean count model's after each call; "
                       "distinct = plan shapes")
    ctx.assume(*cr.CR_ASSUME)
    ctx.assume("where the centre of each kernel's response lies inside its window (Cr/Time.lean: tstage) is derived by hand from the kernel "
               "sources and validated only by measurement (ramp read-back / impulse centroid on the real code), not proved",
               "num_coefs of a poly-phase stage is not stored by the library: the harness reconstructs it from n, preload and phase0",
               "'rational ratio' is read as: a ratio the planner realises with rational stage rates only (no interpolated clocked stage), "
               "or one that leaves the clocked stage of the plan a ratio with at most 512 phases whose exact table fits coef_size_kbytes; "
               "other rationals (e.g. 44100:44101) get the rounded-clock bound")
    cr.report_broken(ctx, broken, "C04: %d plans and %d long streams showed no misalignment" % (nplans, njobs))
