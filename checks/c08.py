"""C08 Progress: every call returns, draining terminates, latency stays bounded."""
import math
from vlib import common
from checks import crcommon as cr

LEVEL = "proof"
PID = "C08"


def make_job(rng, idx, quick):
    style = rng.choice(["axis", "axis", "random", "pull"])
    if idx < (6 if quick else 60):
        # many tiny pulls: in pull mode the library asks for what a request needs, so what it holds must stay bounded by the plan however many
        # calls are made (soxr_output, one to three frames per call, thousands of calls, an endless supply)
        a, b = rng.choice([(1, 4), (1, 3), (2, 5), (3, 4), (147, 160), (1, 1.7), (3, 2), (5, 7), (1, 7.3)])
        cfg = {"ir": repr(float(a)), "or": repr(float(b)), "recipe": rng.choice([1, 3, 4, 6]), "qflags": 0}
        return {"cfg": cfg, "env": {"SOXR_USE_SIMD": "0"} if rng.chance(.4) else {}, "N": 10 ** 9, "seed": rng.next() & 0xffffffff, "idx": idx,
                "style": "tinypull", "ratio": a / b, "nodrain": True}
    if style == "axis":
        e = rng.below(50) - 16                  # io_ratio 2^-16 … 2^33
        r = 2.0 ** e * rng.choice([1, 1, 1 + 2.0 ** -20, 1 - 2.0 ** -20, 1.1, 0.93, 1.5, 3])
        cfg = {"ir": repr(r), "or": "1", "recipe": rng.choice([0, 0, 1, 3, 4, 6]), "qflags": rng.choice([0, 0, 8, 16])}
        env = {"SOXR_USE_SIMD": "0"} if rng.chance(.4) else {}
    else:
        dt = rng.chance(.35)      # every datatype / layout / 1-4 channels, some with a gain that saturates integer output (clip repair loops)
        cfg, env = cr.gen_config(rng, max_up=2000, max_down=20000, datatypes=dt, channels=dt)
        if rng.chance(.2):
            # loud streams into integer output: the saturation repair of rint-clip.h (a loop that re-scans a block of 16 frames) runs on
            # every block, several channels, either layout; moderate ratios so that whole blocks are delivered
            cfg, env = cr.gen_config(rng, max_up=8, max_down=8, datatypes=True, channels=True)
            cfg.update({"otype": rng.choice([2, 3, 2, 3, 6, 7]), "scale": rng.choice([2.0, 3.0, 1.3]), "ch": rng.choice([1, 2, 2, 3, 4])})
        r = cr.io_ratio(cfg)
    # enough input for a few outputs, bounded work
    N = int(min(max(3 * r, 5000 if r >= 1 else 8), 3e5 if quick else 3e6))
    N = min(N, int((2e5 if quick else 2e6) * r) + 3)
    # draining a chain of k half-band stages costs about input_size * io_ratio zero frames at stage 0: bounded by the
    # configuration, but far beyond a quick run for large ratios - those jobs stream only (the drain is left out)
    nodrain = r * 8192 > (3e8 if quick else 6e9)
    return {"cfg": cfg, "env": env, "N": N, "seed": rng.next() & 0xffffffff, "idx": idx, "style": style, "ratio": r, "nodrain": nodrain}


def job_ops(job, plan):
    rng = common.Rng(job["seed"])
    N = job["N"]
    r = job["ratio"]
    est = int(N / r) + 10
    ops = [cr.create_line(job["cfg"]), "limit %d" % N]
    if job["style"] == "tinypull":
        ncalls = 6000 if r >= 1 else 20000
        ops += ["setfn %d" % rng.choice([0, 64, 1000])] + ["pull %d d1000000" % rng.choice([1, 1, 2, 3]) for _ in range(ncalls)] + ["hash"]
        return ops
    if job["style"] == "pull" and not job["nodrain"]:
        maxilen = rng.choice([0, 1, 3, 64, 100000])
        pat = rng.choice([["d1"], ["d1000000"], ["d3", "d1", "d1000"], ["d%d" % (1 + rng.below(500)) for _ in range(9)]])
        ol = max(rng.choice([1, 17, 1000, est]), est // 300 + 1)
        if maxilen and maxilen < 8 or pat == ["d1"]:
            ol = max(ol, est // 30 + 1)
        ops += ["setfn %d" % maxilen, "pulldrain %d %s" % (ol, " ".join(pat)), "pull %d" % ol, "hash"]
        return ops
    ops.append("eoistyle %d" % rng.below(6))   # how end-of-input is said and how the drain calls look (harness/cr/trace.c after_end)
    ops.append("nullout %d" % rng.below(2))    # a call that asks for 0 frames passes out == NULL (soxr.h allows it)
    blk = rng.choice([1, 100, 1000, 1000, 8192, 50000])
    blk = max(blk, N // 400 + 1)
    big = est + 100
    for i in range(N // blk + 2 if not job["nodrain"] else max(0, N // blk - 1)):
        ol = rng.choice([big, big, max(1, est // 7), 0])
        ops.append("feed %d %d %d" % (blk, ol, rng.below(2) if ol else 0))
    if not job["nodrain"]:
        ops += ["feed %d %d 0" % (N, big), "drain %d" % max(rng.choice([1, 100, est]), est // 1000 + 1), "feed 5 100 0"]
    ops.append("hash")
    return ops


def oracle(job, tr):
    """On the real code: (b) the drain completes with the owed total and then nothing; (c) whenever a call was
    output-starved (od < olen) while streaming, every stage FIFO is below its input_size — the buffered amount is
    bounded by the plan, not by the stream length.  (a) is the watchdog (timeout → 'hang')."""
    bad = []
    out = fed = 0
    flushed = False
    olen = 0
    maxbuf = 0
    starved = 0
    tiny = []
    cur = None
    for l in tr.lines:
        if l.startswith("> cr.proc") or l.startswith("> cr.pull"):
            t = l.split()
            if t[1] == "cr.proc":
                olen = int(t[6]); flushed = flushed or cr.signals_end(t); cur = t
            else:
                olen = int(t[2]); cur = None
        elif l.startswith("> cr.eoi"):
            olen = 0                      # the end-of-input call without buffers asks for nothing
        elif l.startswith("< R "):
            r = cr.parse_kv(l)
            od = int(r["od"]); out += od; fed += int(r["id"])
            flushed = flushed or cr.marked_whole(cur, r)
            fl = r.get("fl") == "1"
            if "occ" in r and not fl and job.get("style") == "tinypull" and r.get("err") == "0":
                # pull mode: the library asked for what it needed; nothing it holds may grow with the number of calls
                occ = [int(x) for x in r["occ"].split(",") if x][:-1]
                tiny.append(occ)
                starved += 1
                maxbuf = max(maxbuf, sum(occ))
            elif "occ" in r and not fl and od < olen and r.get("err") == "0":
                occ = [int(x) for x in r["occ"].split(",") if x][:-1]
                isz = [int(x) for x in r["isz"].split(",") if x]
                starved += 1
                for i, (o, z) in enumerate(zip(occ, isz)):
                    if o >= z:
                        bad.append(("latency", "output-starved call left stage %d holding %d frames, input_size %d" % (i, o, z)))
                maxbuf = max(maxbuf, sum(occ))
            if bad:
                break
    if len(tiny) >= 2000 and not bad:
        # a stage's occupancy goes through a bounded pattern (blocks fill and empty); compared over two late stretches of the run it must not
        # have grown (a surplus kept per call adds up linearly)
        n = len(tiny)
        for i in range(len(tiny[0])):
            m1 = max(o[i] for o in tiny[n // 4: n // 2] if i < len(o))
            m2 = max(o[i] for o in tiny[3 * n // 4:] if i < len(o))
            if m2 > 1.3 * m1 + 64:
                bad.append(("latency", "pull mode, %d calls of 1-3 frames: stage %d holds up to %d frames in the last quarter of the run, %d in the second: "
                            "the amount buffered grows with the number of calls" % (n, i, m2, m1)))
                break
    N = job["N"]
    if not bad and tr.rc == 0 and not job["nodrain"]:
        exp, near = cr.owed_exact(N, job["cfg"])
        exp_c = int(N / cr.io_ratio(job["cfg"]) + .5)
        if out != exp and not (near and out == exp_c):
            bad.append(("drain", "stream of %d frames drained to %d frames, owed %d" % (N, out, exp)))
    return bad, {"max_buffered": maxbuf, "starved_calls": starved, "out": out}


def extra_known(job, tr):
    r = job.get("ratio", 1)
    k = []
    if not (r < 2.0 ** 31):
        k.append("F4")
    return k


def run(ctx):
    broken = common.proof_stage(ctx, ["SoxrModel.Properties.C08"], "C08")
    exe = common.build_harness("crtrace", ["cr/trace.c"], "rel")
    njobs = 500 if ctx.quick else 12000
    jobs = [make_job(ctx.rng, i, ctx.quick) for i in range(njobs)]
    res = cr.sweep(ctx, PID, exe, jobs, job_ops, oracle, timeout=25 if ctx.quick else 120, extra_known=extra_known)
    # ---- a plan of the real planner that fails the progress clause (PipeWF) is a broken hypothesis of the termination theorems:
    #      search that very configuration for a call that does not return (one frame per call; end-of-input with a frame owed)
    def targeted(x):
        job, ops, tr, bad, info = x
        if not tr.plan:
            return None
        out = cr.run_model([l for l in tr.model_in if l.startswith("cr.plan") or l.startswith("cr.stage")] + ["cr.wf"])
        if not any(l.startswith("WF 0") for l in out):
            return None
        r = job["ratio"]; N = int(min(max(3 * r, 3000), 200000))
        scheds = [[cr.create_line(job["cfg"]), "limit %d" % N] + ["feed 1 16 0"] * min(N, 40000) + ["drain 16", "hash"],
                  [cr.create_line(job["cfg"]), "limit %d" % N, "feed %d 16 0" % N, "drain 16", "hash"],
                  [cr.create_line(job["cfg"]), "limit %d" % N] + ["feed 1000 16 0"] * (N // 1000 + 1) + ["drain 1", "hash"]]
        for sc in scheds:
            t2 = cr.run_trace(exe, sc, job["env"], timeout=20)
            if t2.rc == "timeout":
                return job, sc, t2, out
        return job, None, None, out
    for hit in cr.pmap(targeted, res):
        if hit is None:
            continue
        job, sc, t2, wfout = hit
        ctx.count("plans_failing_PipeWF")
        kn = [k for k in cr.classify_known(t2.plan if t2 else [], job["cfg"]) + extra_known(job, t2) if k in {f["id"] for f in common.known_active(PID)}] if t2 else []
        if sc and not kn:
            last = (t2.model_in or ["?"])[-1][:160]
            ctx.violation("C08 fails on the real code: a call does not return within 20 s (%d calls had returned; last completed: %s) (%s %s); "
                          "the plan fails the progress clause: %s" % (len(t2.results), last, cr.create_line(job["cfg"]), job["env"], [l for l in wfout if l.startswith("WF")]),
                          {"cfg": job["cfg"], "env": job["env"], "ops": sc[:3] + ["... %d ops ..." % len(sc)] + sc[-3:], "n_ops": len(sc), "first_op": sc[2], "plan": t2.plan})
    # ---- the variable-rate engine: the drain must end and then deliver nothing (watchdog; the VR control skeleton is modelled in C16)
    vrjobs = []
    for i in range(60 if ctx.quick else 600):
        ir, orr = ctx.rng.choice([(44100, 48000), (48000, 44100), (1, 1), (3, 1), (1.37, 1), (1, 2.5), (16, 1), (5, 1), (100, 3)])
        vrjobs.append({"cfg": {"ir": repr(float(ir)), "or": repr(float(orr)), "recipe": 4, "qflags": 32}, "env": {},
                       "N": ctx.rng.choice([0, 1, 100, 5000, 20000]), "blk": ctx.rng.choice([1, 100, 1000, 100000]), "ol": ctx.rng.choice([1, 64, 256, 5000]),
                       "moves": ctx.rng.next() if i % 3 else 0})

    # a slew that ends exactly on a call boundary, then an immediate move before any further output (round 7 of the seeded changes,
    # `C08-vr-stale-step-step-after-slew-end`: the engine finishes a slew lazily, at the top of the next processing loop, so between the
    # two calls it holds a finished count-down next to a live increment)
    for i in range(10 if ctx.quick else 120):
        ir = ctx.rng.choice([2.0, 3.0, 1.5, 4.0, 8.0]); n = ctx.rng.choice([64, 100, 300, 1000, 37])
        vrjobs.append({"cfg": {"ir": repr(ir), "or": "1.0", "recipe": 4, "qflags": 32}, "env": {}, "N": 60000, "blk": 20000, "ol": 2000,
                       "boundary": (n, ir * ctx.rng.choice([.3, .45, .6, .8]), ir * ctx.rng.choice([.5, .7, .9, .35]), ctx.rng.below(3))})

    def vrwork(j):
        N = j["N"]; blk = max(j["blk"], N // 300 + 1); r = cr.io_ratio(j["cfg"])
        if j.get("boundary"):
            n, r1, r2, pre = j["boundary"]
            ops = [cr.create_line(j["cfg"]), "limit %d" % N] + ["feed 3000 500 0"] * pre
            ops += ["ratio %r %d" % (r1, n), "feed 30000 %d 0" % n, "ratio %r 0" % r2]
            ops += ["feed %d %d 0" % (blk, j["ol"])] * (N // blk + 1) + ["drain %d" % j["ol"], "feed 0 100 0", "feed 0 1 0", "hash"]
            return j, ops, cr.run_trace(exe, ops, j["env"], timeout=30)
        ol = max(j["ol"], int(N / r) // 2000 + 1)
        feeds = ["feed %d %d 0" % (blk, ol)] * (N // blk + 1)
        if j.get("moves"):
            # the ratio is moved while streaming (soxr_set_io_ratio through the idiom of soxr.h), also beyond the maximum declared at creation
            # (the engine then stays on its coarsest stage) and far below it; every call must still return
            rr = common.Rng(j["moves"])
            for _ in range(1 + rr.below(4)):
                at = rr.below(len(feeds) // 2 + 1)         # in the first half: streaming calls follow the move
                f = 2.0 ** (rr.uniform(0.3, 2.5) if rr.chance(.5) else rr.uniform(-4.0, 0.0))
                feeds.insert(at, "ratio %r %d" % (r * f, rr.choice([0, 0, 100, 3000])))
        ops = [cr.create_line(j["cfg"]), "limit %d" % N] + feeds + ["drain %d" % ol, "feed 0 100 0", "feed 0 1 0", "hash"]
        return j, ops, cr.run_trace(exe, ops, j["env"], timeout=30)
    for j, ops, t2 in cr.pmap(vrwork, vrjobs):
        ctx.count("vr_drains_watched")
        tot = sum(int(r["od"]) for r in t2.results)
        if t2.rc == "timeout":
            ctx.violation("C08 fails on the real code (variable-rate engine): the drain does not end: %d calls after `%s`, %d frames delivered for %d supplied (%s)" % (
                len(t2.results), "drain", tot, j["N"], cr.create_line(j["cfg"])), {"cfg": j["cfg"], "ops": ops[:4] + ["..."] + ops[-4:], "n_ops": len(ops)})
        elif t2.rc != 0:
            ctx.violation("C08 (variable-rate engine): harness exit %s: %s (%s)" % (t2.rc, t2.err[-300:], cr.create_line(j["cfg"])), {"cfg": j["cfg"], "ops": ops[:4]})
        elif t2.results and any(int(r["od"]) for r in t2.results[-2:]):
            ctx.violation("C08 fails on the real code (variable-rate engine): frames delivered after the drain had returned nothing twice (%s)" % cr.create_line(j["cfg"]),
                          {"cfg": j["cfg"], "ops": ops[:4] + ["..."] + ops[-4:]})
    # ---- soxr_create itself returns, whatever the two rates are: the whole double axis incl. 0, denormals, a quotient that overflows or
    #      underflows, infinities and NaN, for the constant-rate recipes and for the variable-rate engine (any verdict is fine here: C09
    #      decides which ones must be refused; this is the watchdog)
    cjobs = []
    special = [("inf", "1"), ("1", "inf"), ("nan", "1"), ("1", "nan"), ("1e300", "1e-300"), ("1e-300", "1e300"), ("0", "1"), ("1", "0"),
               ("-1", "1"), ("4.9e-324", "1"), ("1", "4.9e-324"), ("1.7976931348623157e308", "1"), ("1", "1.7976931348623157e308"),
               ("2147483648", "1"), ("1073741824", "1"), ("1073741823.9", "1"), ("4294967296", "1"), ("1e19", "1"), ("inf", "inf")]
    for i in range(60 if ctx.quick else 1500):
        if i < 2 * len(special):
            ir, orr = special[i % len(special)]
        else:
            ir, orr = repr(2.0 ** ctx.rng.uniform(-1074, 1023)), repr(2.0 ** ctx.rng.uniform(-1074, 1023))
        vr = (i // len(special)) % 2 == 1 if i < 2 * len(special) else ctx.rng.chance(.5)
        cjobs.append({"ir": ir, "or": orr, "recipe": 4 if vr else ctx.rng.choice([0, 1, 4, 6]), "qflags": 32 if vr else ctx.rng.choice([0, 8])})

    def cwork(cfg):
        return cfg, cr.run_trace(exe, [cr.create_line(cfg)], {}, timeout=20)
    for cfg, t2 in cr.pmap(cwork, cjobs):
        ctx.count("creates_watched")
        ctx.hist("create_outcome", "hang" if t2.rc == "timeout" else "created" if t2.created else "refused" if t2.rc == 0 else "crash")
        if t2.rc == "timeout":
            ctx.violation("C08 fails on the real code: soxr_create does not return within 20 s (%s)" % cr.create_line(cfg), {"cfg": cfg, "ops": [cr.create_line(cfg)]})
        elif t2.rc != 0:
            ctx.violation("C08: soxr_create does not return normally: harness exit %s: %s (%s)" % (t2.rc, t2.err[-300:], cr.create_line(cfg)), {"cfg": cfg, "ops": [cr.create_line(cfg)]})
    worst = 0
    for job, ops, tr, bad, info in res:
        ctx.hist("dist_style", job["style"])
        ctx.hist("dist_log2_ratio", int(math.floor(math.log2(job["ratio"]))) if job["ratio"] > 0 else "neg")
        ctx.count("starved_calls_checked", info.get("starved_calls", 0))
        worst = max(worst, info.get("max_buffered", 0))
    ctx.cov["max_frames_buffered_seen"] = worst
    ctx.cov["rule"] = ("watchdog (forked harness, wall-clock limit) around streams over the ratio axis 2^-16 … 2^33 and random configurations, blocked "
                       "push input and pull loops with adversarial supplies (1-frame answers, max_ilen 1); after end-of-input the drain must reach "
                       "round(N*orate/irate) and then deliver nothing; after every output-starved call every stage FIFO must be below its input_size "
                       "(latency bounded by the plan); each run replayed through the Lean count model (whose fuelled recursions must not run out)")
    ctx.assume(*cr.CR_ASSUME)
    ctx.assume("work proportional to the data is observed through a wall-clock limit per job, not measured per call")
    cr.report_broken(ctx, broken, "C08 watchdog/oracle on %d jobs found no failing input" % njobs)
