"""C03 Output length: N frames in give exactly round(N*orate/irate) out, then none; never early."""
import math
from fractions import Fraction
from vlib import common
from checks import crcommon as cr

LEVEL = "proof"
PID = "C03"


GRID = cr.small_ratio_grid()


def make_job(rng, idx, quick):
    # the first jobs of every run walk through ALL small-integer ratios (each is planned in its own way); the rest are drawn at random
    # a third of the jobs with every datatype / layout on either side (the both-split path of soxr_process drives the engines by its own
    # per-channel calls) and 1-4 channels: counts, totals and delay do not depend on them
    dt = rng.chance(.35)
    cfg, env = cr.gen_config(rng, rates=GRID[idx] if idx < len(GRID) else None, datatypes=dt, channels=dt)
    if idx >= len(GRID) and rng.chance(.04):
        # decimation beyond the 8192-frame input block of a stage (the cubic stage's hold-back and read advance are then larger than
        # what one invocation may take): SOXR_QQ has no planner in front of it, so any factor reaches the stage
        f = rng.choice([8192, 8193, 10000, 10000.7, 16385, 50000.5, 100007 / 10.0])
        cfg = {"ir": repr(float(f)), "or": "1", "recipe": 0, "qflags": rng.choice([0, 8])}
        env = {}
        N = int(f * rng.choice([2.7, 5.4, 27, 54.3])) + rng.below(3)
        return {"cfg": cfg, "env": env, "N": N, "seed": rng.next() & 0xffffffff, "idx": idx, "blocks": int(f * rng.choice([.09, .9, 1.0, 3]))}
    N = rng.choice([0, 1, 2, 3, 17, 100, 1000, 4096, 30000]) if rng.chance(.5) else rng.below(60000 if quick else 400000)
    cap = 250000 if quick else 3000000          # keep the output stream of one job bounded
    N = min(N, int(cap * max(1.0, cr.io_ratio(cfg))), int(cap * cr.io_ratio(cfg)) + 3)
    return {"cfg": cfg, "env": env, "N": N, "seed": rng.next() & 0xffffffff, "idx": idx}


def c18lib_expand(tokens):
    out = []
    for t in tokens:
        if "*" in t:
            a, n = t.split("*"); out += [a] * int(n)
        else:
            out.append(t)
    return out


def job_ops(job, plan):
    rng = common.Rng(job["seed"])
    sizes = cr.gen_sizes(rng, plan)
    ops = [cr.create_line(job["cfg"]), "limit %d" % job["N"]]
    if not job.get("blocks") and rng.chance(.22):
        # the pull API (soxr_set_input_fn + soxr_output): the same totals, "then none", and a return of 0 only once everything owed is out.
        # Requests down to a single frame (the library then asks its input function for ceil(olen*io_ratio) frames - one frame, not
        # none, when up-sampling), supplies down to a single frame, streams shorter than the filters' latency (end-of-input then arrives in
        # a pass that has produced nothing).  Round 7 of the seeded changes: `C03-pull-request-rounded-to-nearest`,
        # `C03-was-flushing-sampled-after-input`.
        ops.append("setfn %d" % rng.choice([0, 0, 64, 1000, 7, 1]))
        pat = rng.choice([["d1000000"], ["d%d" % (1 + rng.below(3000)) for _ in range(8)], ["d7", "d1", "d4096"], ["d1"], ["d3", "d1"]])
        est = int(job["N"] / cr.io_ratio(job["cfg"])) + 10
        ol = max(rng.choice([1, 1, 2, 5, 64, 1000, 4096, est]), est // 400 + 1)
        for i in range(est // ol + 6):
            ops.append("pull %d %s" % (ol, " ".join(pat)))
        ops += ["pull 100 %s" % " ".join(pat), "pull 1 %s" % " ".join(pat), "delay", "hash"]
        return ops
    if rng.chance(.35):     # end-of-input signalled by in == NULL together with a non-zero (stale) ilen
        ops.append("stale %d" % rng.choice([1, 37, 300, 100000]))
    ops.append("eoistyle %d" % rng.below(6))   # how end-of-input is said and how the drain calls look (harness/cr/trace.c after_end)
    ops.append("nullout %d" % rng.below(2))    # a call that asks for 0 frames passes out == NULL (soxr.h allows it)
    style = rng.below(4)
    cap = [10 ** 9, 60, 3000, 10 ** 9][style]
    ncalls = rng.choice([3, 10, 40, 150])
    if job.get("blocks"):        # huge decimation: blocks of about one output period, little output room
        for i in range(min(80, job["N"] // max(1, job["blocks"]) + 2)):
            ops.append("feed %d %d %d" % (job["blocks"], rng.choice([8, 1, 100]), 0))
        ncalls = 0
    for i in range(ncalls):
        il = min(rng.choice(sizes) if rng.chance(.6) else rng.below(3000), cap)
        ol = min(rng.choice(sizes) if rng.chance(.6) else rng.below(3000), cap)
        ops.append("feed %d %d %d" % (il, ol, rng.below(2)))
        if rng.chance(.25):
            ops.append("delay")
    # whatever is left of the stream in one block (with `eoistyle 5` it carries the end-of-input mark: first offered a few times with
    # an idone pointer and too little room, so that only part of the marked block is accepted), then drain
    for i in range(rng.below(4)):
        ops.append("feed %d %d 1" % (job["N"], rng.choice([1, 10, 100, 700])))
    ops.append("feed %d %d 0" % (job["N"], rng.choice(sizes)))
    est = int(job["N"] / cr.io_ratio(job["cfg"])) + 10
    ops.append("drain %d" % max(rng.choice([1, 7, 100, 1000, 5000, est]), est // 2000 + 1))
    ops += ["feed 10 10 0", "feed 0 1000 1", "delay", "hash"]
    return ops


def oracle(job, tr):
    """C03 on the real code's answers.  Returns list of (what, detail)."""
    cfg, N = job["cfg"], job["N"]
    bad = []
    io = cr.io_ratio(cfg)
    expect_c = int(N / io + .5)                    # the C expression, same IEEE operations
    expect, near_tie = cr.owed_exact(N, cfg)       # the property's round(N*orate/irate), exact
    fed = out = 0
    flushed = False
    drained_at = None
    olen = 0
    cur = None
    pull_ans = None
    for l in tr.lines:
        if l.startswith("> cr.proc"):
            t = l.split()
            has_in = t[2] == "1"
            olen = int(t[6])
            cur = t
            if cr.signals_end(t):      # in == NULL, or the ~ilen mark on a block taken whole
                flushed = True
        elif l.startswith("> cr.eoi"):                           # end-of-input by a call without buffers
            flushed = True; olen = 0; cur = None
        elif l.startswith("> cr.pull"):                          # answers of the input function in this call: all but the two look-ahead tokens
            t = l.split(); olen = int(t[2]); cur = None
            pull_ans = c18lib_expand(t[3:])[:-2] if len(t) > 3 else []
        elif l.startswith("< R "):
            r = cr.parse_kv(l)
            if "id" not in r:
                continue
            if pull_ans is not None:
                for a in pull_ans[:int(r.get("used", 0))]:
                    if a in ("e", "f"):
                        flushed = True
                    else:
                        fed += int(a[1:])
                if int(r["od"]) < olen and not flushed and " err=0" in l:
                    # soxr.h: soxr_output returns fewer frames than asked for only at the end of the stream
                    bad.append(("pull-short", "soxr_output returned %s of %d frames although the input function had not yet reported end-of-input" % (r["od"], olen)))
                    break
                pull_ans = None
            if cr.marked_whole(cur, r):
                flushed = True
            fed += int(r["id"]); od = int(r["od"]); out += od
            if not flushed:
                lim, _ = cr.ceil_exact(fed, cfg)
                if out > lim:
                    bad.append(("early", "after %d frames in, %d frames out > ceil(%d*orate/irate) = %d" % (fed, out, fed, lim)))
                    break
            if drained_at is not None and od:
                bad.append(("after-drain", "%d frames delivered after the stream had drained" % od))
                break
            if flushed and od == 0 and olen > 0 and drained_at is None:
                drained_at = out
    if fed != N:
        bad.append(("harness", "fed %d of %d frames" % (fed, N)))
    ok_total = out == expect or (near_tie and out == expect_c)
    if not ok_total and not bad:
        bad.append(("total", "N=%d delivered %d, round(N*orate/irate) = %d (C expression gives %d)" % (N, out, expect, expect_c)))
    return bad, {"N": N, "out": out, "expect": expect, "near_tie": near_tie}


def run(ctx):
    broken = common.proof_stage(ctx, ["SoxrModel.Properties.C03"], "C03")
    exe = common.build_harness("crtrace", ["cr/trace.c"], "rel")
    njobs = 1200 if ctx.quick else 30000
    jobs = [make_job(ctx.rng, i, ctx.quick) for i in range(njobs)]
    res = cr.sweep(ctx, PID, exe, jobs, job_ops, oracle)
    for job, ops, tr, bad, info in res:
        ctx.hist("dist_N_digits", len(str(job["N"])))
        if info.get("near_tie"):
            ctx.count("near_ties")
    # ---- soxr_oneshot as soxr.h allows it: no idone pointer, the output buffer exactly round(N*orate/irate) frames long (what
    #      examples/1-single-block.c sizes it to): all N frames are the input, the whole total must come out of the one call
    def one_job(i):
        r = common.Rng(ctx.rng.next())
        cfg, env = cr.gen_config(r, rates=GRID[r.below(len(GRID))] if r.chance(.6) else None, allow_nonlinear=False, max_up=40, max_down=400)
        N = r.choice([1, 2, 9, 10, 11, 100, 4412, 44101, 48007]) if r.chance(.5) else 1 + r.below(60000)
        N = min(N, int(200000 * max(1.0, cr.io_ratio(cfg))), int(200000 * cr.io_ratio(cfg)) + 3)
        return {"cfg": cfg, "env": env, "N": max(1, N)}

    def one_work(job):
        exp, near = cr.owed_exact(job["N"], job["cfg"])
        ops = [cr.create_line(job["cfg"]), "limit %d" % job["N"], "oneshot %d %d 0" % (job["N"], exp)]
        return job, ops, exp, near, cr.run_trace(exe, ops, job["env"], timeout=120)
    none = 0
    for job, ops, exp, near, tr in cr.pmap(one_work, [one_job(i) for i in range(150 if ctx.quick else 4000)]):
        if not tr.created:
            continue
        ctx.count("oneshot_exact_buffer_runs")
        h1 = [l for l in tr.lines if l.startswith("H1 ")]
        if tr.rc != 0 or not h1:
            ctx.violation("C03 fails on the real code: soxr_oneshot without idone, exact output buffer: harness exit %s %s (%s %s)" % (tr.rc, tr.err[-300:], cr.create_line(job["cfg"]), job["env"]),
                          {"cfg": job["cfg"], "env": job["env"], "ops": ops}); continue
        kv = cr.parse_kv(h1[-1])
        got = int(kv["out"])
        exp_c = int(job["N"] / cr.io_ratio(job["cfg"]) + .5)
        if kv.get("err", "-") != "-" or (got != exp and not (near and got == exp_c)):
            if [k for k in cr.classify_known(tr.plan, job["cfg"]) if k in {f["id"] for f in common.known_active(PID)}]:
                continue
            ctx.violation("C03 fails on the real code: soxr_oneshot(N = %d frames, idone = NULL, output buffer of exactly round(N*orate/irate) = %d frames) delivered %d "
                          "frames (error %s) (%s %s)" % (job["N"], exp, got, kv.get("err"), cr.create_line(job["cfg"]), job["env"]),
                          {"cfg": job["cfg"], "env": job["env"], "ops": ops, "delivered": got, "expected": exp})
    # ---- the decidable hypotheses of never_early / never_early_round (PlanLatOK false, PlanEarlyOK, StageWF, post-context >= half an
    #      output period), evaluated by the Lean driver on every exported plan.  Linear-phase plans must satisfy them; for a
    #      non-linear phase setting the theorem does not apply (the filter is not centred) and the oracle above alone speaks.
    from checks import c04

    def hyp(x):
        job, ops, tr, bad, info = x
        if not tr.plan:
            return None
        t, out = c04.plan_time(tr)
        return job, tr, t
    known = {f["id"] for f in common.known_active(PID)}
    rate_searched = [0]
    for h in cr.pmap(hyp, res):
        if h is None:
            continue
        job, tr, t = h
        linear = float(job["cfg"].get("phase", 50)) == 50 and not (int(job["cfg"].get("recipe", 4)) & 0x30)
        f1 = [k for k in cr.classify_known(tr.plan, job["cfg"]) if k in known]
        # the rate product of the plan is the requested ratio (exactly, or within 2^-32 of the longer period per frame: C04 drift_bound) - what
        # `total_exact` and the ceil bound take for granted.  A plan that runs at another rate is searched for a call that delivers early.
        if t is not None and "rate" in t:
            want = Fraction(float(job["cfg"]["ir"])) / Fraction(float(job["cfg"]["or"]))
            err = abs(Fraction(t["rate"]) - want) / max(Fraction(1), want)
            if err > Fraction(1, 2 ** 32) and rate_searched[0] < 6:
                rate_searched[0] += 1
                N = int(min(40000, max(4000, 4000 * float(want))))
                est = int(N / float(want)) * 3 + 1000
                ops = [cr.create_line(job["cfg"]), "limit %d" % N] + ["feed %d %d 0" % (N // 8 + 1, est)] * 9 + ["drain %d" % est, "hash"]
                t2 = cr.run_trace(exe, ops, job["env"], timeout=120)
                bad2, _ = oracle(dict(job, N=N), t2) if t2.rc == 0 else ([("crash", "harness exit %s: %s" % (t2.rc, t2.err[-300:]))], {})
                if bad2:
                    ctx.violation("C03 fails on the real code: %s (%s %s) - found by searching a configuration whose plan runs at rate %s instead of %s"
                                  % (bad2[0][1], cr.create_line(job["cfg"]), job["env"], t["rate"], want),
                                  {"cfg": job["cfg"], "env": job["env"], "N": N, "ops": ops, "oracle": bad2, "plan": tr.plan})
                else:
                    ctx.violation("the rate product %s of the exported plan is not the requested ratio %s (%s %s); generous output requests found no early delivery"
                                  % (t["rate"], want, cr.create_line(job["cfg"]), job["env"]), {"cfg": job["cfg"], "env": job["env"], "plan": tr.plan, "time": t}, no_input=True)
                continue
        if linear:
            # centred filters: the theorem's hypotheses in their strong form (never_early, never_early_round)
            ctx.count("plans_never_early_hypotheses_checked")
            if t is None or int(t["lat"]) < 1 or t.get("early") != "1":
                if f1:
                    continue
                ctx.violation("hypothesis of never_early fails on a plan of the real planner (PlanLatOK / PlanEarlyOK / StageWF): %s (%s %s); "
                              "the early-bound oracle found no violating call in this job" % (t, cr.create_line(job["cfg"]), job["env"]),
                              {"cfg": job["cfg"], "env": job["env"], "plan": tr.plan, "time": t}, no_input=True)
            elif t.get("post") == "1":
                ctx.count("plans_with_post_context>=half_output_period(never_early_round applies)")
            elif not f1:
                # every linear-phase plan of the real planner meets it (the cubic stage through its hold-back pre_post): without it a frame
                # the final total does not contain can be handed out before end-of-input is said
                found = cr.find_eoi_overrun(exe, job["cfg"], job["env"]) if hasattr(cr, "find_eoi_overrun") else None
                if found:
                    ctx.violation("C03 fails on the real code: %s (%s %s); the plan's post-context is below half an output period (hypothesis of "
                                  "never_early_round: %s)" % (found["what"], cr.create_line(job["cfg"]), job["env"], t),
                                  {"cfg": job["cfg"], "env": job["env"], "plan": tr.plan, "time": t, "ops": found["ops"]})
                else:
                    ctx.violation("hypothesis of never_early_round fails on a plan of the real planner (post-context below half an output period): %s (%s %s); "
                                  "no stream length up to 200 frames delivered more than round(N*orate/irate)" % (t, cr.create_line(job["cfg"]), job["env"]),
                                  {"cfg": job["cfg"], "env": job["env"], "plan": tr.plan, "time": t}, no_input=True)
        else:
            # any phase response: never_early_any_phase needs StageWF, the dft shape clauses and 0 <= b + margin per stage
            ctx.count("plans_nonlinear_phase_checked(never_early_any_phase)")
            if t is not None and t.get("earlyg") == "1" and t.get("post") != "1" and not f1:
                # total_exact_any_phase needs the post-context clause for these plans too; every plan of the real planner meets it
                found = cr.find_eoi_overrun(exe, job["cfg"], job["env"])
                ctx.violation(("C03 fails on the real code: %s" % found["what"] if found else "hypothesis of never_early_round_any_phase fails on a plan of the real planner")
                              + " (post-context below half an output period: %s) (%s %s)" % (t, cr.create_line(job["cfg"]), job["env"]),
                              {"cfg": job["cfg"], "env": job["env"], "plan": tr.plan, "time": t, "ops": found["ops"] if found else None}, no_input=not found)
            elif t is not None and t.get("earlyg") == "1":
                ctx.count("plans_nonlinear_phase_with_post_context(total_exact_any_phase applies)")
            if t is None or t.get("earlyg") != "1":
                if f1:
                    ctx.count("plans_nonlinear_phase_with_F1_signature"); continue
                ctx.violation("hypothesis of never_early_any_phase fails on a plan of the real planner (PlanEarlyGen / StageWF): %s (%s %s); "
                              "the early-bound oracle found no violating call in this job" % (t, cr.create_line(job["cfg"]), job["env"]),
                              {"cfg": job["cfg"], "env": job["env"], "plan": tr.plan, "time": t}, no_input=True)
    ctx.cov["rule"] = ("random (configuration, N, call schedule) jobs: rates/recipes/flags/phases/runtime specs/engines from crcommon.gen_config, "
                       "call sizes around every internal block length of the exported plan; each job runs on the real library and its "
                       "operations are replayed through the Lean count model (every idone/odone, occupancy, clock word, remM, input_size "
                       "compared); oracle on the real answers: total = round(N*orate/irate) in exact rationals, nothing after the drain, "
                       "never more than ceil(fed*orate/irate) before end-of-input; distinct = distinct (stage plan shape, engine, N>0) classes")
    ctx.assume(*cr.CR_ASSUME)
    ctx.assume("the property's round() is evaluated in exact rationals; ties within 2^-30 are compared against the C expression instead")
    cr.report_broken(ctx, broken, "C03 oracle on %d jobs found no failing input" % njobs)
