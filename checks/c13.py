"""C13 Engine equivalence: which engine soxr_create selects (and soxr_engine() reports); length, delay and clip behaviour
do not depend on the SIMD/portable choice; sample values agree within the configured precision."""
import math, os, subprocess
from vlib import common
from checks import crcommon as cr
from checks import configlib as cl
from checks.c09 import violation

LEVEL = "proof"
PID = "C13"

ROLLOFF_DB = {0: .01, 1: .35, 2: .01, 3: .103}


# ---------------------------------------------------------------- selection: real soxr_create vs model vs the property's table

def py_atoi(s):
    """atoi for the plain strings the oracle uses"""
    try:
        v = int(s.strip() or "0")
    except ValueError:
        return None
    v = max(-2 ** 63, min(2 ** 63 - 1, v)) & 0xffffffff       # strtol clamps to long, atoi truncates to int
    return v - 2 ** 32 if v >= 2 ** 31 else v


def expected_engine(u, real_create_line):
    """The engine the PROPERTY's wording demands, computed here from the request (independent of the Lean model); None when
    the request uses something the wording does not decide (garbage environment strings)."""
    cfg = u.meta["cfg"]
    q = u.meta.get("qfields")
    if q is None:            # NULL quality spec: HQ
        q = {"prec": 20.0, "flags": 0}
    cpu = cl.kv(real_create_line)
    if q["flags"] & cl.VR:
        return "vr32"
    p = q["prec"]
    dbl = (not (p <= 20)) or bool(q["flags"] & cl.DOUBLE)      # NaN precision: `precision <= 20` is false in C as well
    env = {k[2:]: cl.unhexs(v) for k, v in cfg.items() if k.startswith("E.")}
    spec = "SOXR_USE_SIMD64" if dbl else "SOXR_USE_SIMD32"
    if "SOXR_USE_SIMD" in env:
        v = py_atoi(env["SOXR_USE_SIMD"])
        if v is None:
            return None
        simd = v != 0
    elif spec in env:
        v = py_atoi(env[spec])
        if v is None:
            return None
        simd = v != 0
    else:
        simd = cpu.get("cpu64" if dbl else "cpu32") == "1"
    return ("cr64" if dbl else "cr32") + ("s" if simd else "")


def gen_select_unit(rng):
    cfg = {"ir": cl.d2b(rng.choice([44100.0, 48000.0, 1.0, 3.0])), "or": cl.d2b(rng.choice([48000.0, 44100.0, 2.0, 1.0])),
           "ch": rng.choice([1, 1, 2, 0])}
    c = rng.below(12)
    if c == 0:
        cfg["q"] = 0
    else:
        cfg["recipe"] = rng.choice([0, 1, 2, 3, 4, 4, 5, 6, 7, 8, 9, 10]) | (rng.choice([0, 0x10, 0x30, 0x40]) if rng.chance(.3) else 0)
        cfg["rflags"] = rng.choice([0, 0, 1, 2, 8, 16, 16, 32, 32 | 16, 8 | 16, 64, 2 ** 32 + 16, 2 ** 32 + 32, 2 ** 40])
        if rng.chance(.45):
            cfg["prec"] = cl.d2b(rng.choice([0.0, 15.0, 16.0, 19.0, 20.0, cl.nextafter(20.0), cl.nextafter(20.0, False), 20.5, 21.0, 22.0, 23.9, 24.0,
                                             28.0, 32.0, 33.0, 17.5, cl.NAN, 20.000001, 19.999999]))
        if rng.chance(.1):
            cfg["qflags"] = rng.choice([0, 16, 32, 48, 8])
    for name, p in (("SOXR_USE_SIMD", .4), ("SOXR_USE_SIMD32", .35), ("SOXR_USE_SIMD64", .35)):
        if rng.chance(p):
            cfg["E." + name] = cl.hexs(rng.choice(["0", "1", "0", "1", "2", "-1", "00", " 1", "", "x", "1x", "+0", "256", "4294967296"]))
    ops = [cl.create_line(cfg)]
    for _ in range(rng.below(5)):
        ops.append(rng.choice(["engine", "engine", "clear", "process 0 0 64 64", "delay", "error", "setch 1"]))
    ops.append("engine")
    return cl.Unit(ops, {"cfg": cfg})


def stage_select(ctx, exe, n):
    from checks import c09
    units = [gen_select_unit(ctx.rng) for _ in range(n)]
    c09.fill_qfields(units, exe)
    cl.run_real(exe, units, batch=30)
    cl.run_model(units)
    seen = set()
    for u in units:
        ctx.count("evaluations")
        ctx.count("selections_compared")
        if u.rc != 0:
            violation(ctx, "select", "C13: soxr_create / soxr_engine did not return normally (exit %s): %s (%s)" % (u.rc, u.err[-400:], " | ".join(u.ops)[:500]),
                          {"stage": "select", "ops": u.ops, "rc": u.rc, "stderr": u.err[-1200:]})
            continue
        d = cl.diff_unit(u)
        r0 = u.real[0] if u.real else ""
        if r0.startswith("C ok"):
            a = cl.kv(r0)
            want = expected_engine(u, u.model_in[0])
            # soxr_engine() answers after creation; once a deferred initialisation has failed (fatal_error zeroes the control
            # block) the answer is the placeholder "none"
            names, wiped = [], False
            for op, l in zip(u.model_in, u.real):
                if op.split()[0] in ("setch", "setratio", "clear") and l.startswith("S ") and l[2:].startswith(c09.ENGINE_MSGS):
                    wiped = True
                if l.startswith("N "):
                    names.append(a["engine"] if (wiped and l[2:] == "none") else l[2:])
            seen.add((a["engine"], want is None))
            ctx.hist("dist_engine", a["engine"])
            ctx.hist("dist_env_vars", sum(1 for k in u.meta["cfg"] if k.startswith("E.")))
            if want is None:
                ctx.count("oracle_undecided_garbage_env")
            elif a["engine"] != want:
                violation(ctx, "select-oracle", "C13 fails on the real code: soxr_create selected %s, the property demands %s (%s)" % (a["engine"], want, u.model_in[0][:500]),
                              {"stage": "select", "ops": u.ops, "real": u.real, "expected": want})
                continue
            if any(nm != a["engine"] for nm in names):
                violation(ctx, "select", "C13 fails on the real code: soxr_engine() answered %s for a resampler created on %s (%s)" % (names, a["engine"], " | ".join(u.model_in)[:600]),
                              {"stage": "select", "ops": u.ops, "real": u.real})
                continue
            if a.get("conv") != ("d" if a["engine"] in ("cr64", "cr64s") else "f"):
                violation(ctx, "select", "C13 fails on the real code: conversion kernels %s installed for engine %s (%s)" % (a.get("conv"), a["engine"], u.model_in[0][:400]),
                              {"stage": "select", "ops": u.ops, "real": u.real})
                continue
        if d:
            violation(ctx, "select", "correspondence broken (engine selection, Config model vs real soxr_create):\n op   : %s\n real : %s\n model: %s" % (
                d[1][:500], d[2][:300], d[3][:300]), {"stage": "select", "ops": u.ops, "real": u.real, "model": u.model}, no_input=True)
        else:
            ctx.sample({"create": u.model_in[0][:260], "real": r0[:90]})
    ctx.cov["distinct_nontrivial"] = ctx.cov.get("distinct_nontrivial", 0) + len(seen)


# ---------------------------------------------------------------- falsifier: the same job on both engines of a class

RATES = [(44100, 48000), (48000, 44100), (1, 2), (2, 1), (1, 4), (4, 1), (1, 3), (3, 1), (3, 2), (2, 3), (8000, 44100), (96000, 44100),
         (1, 3.14159), (3.14159, 1), (1, 1.41421356), (2.71828, 1), (5, 1), (1, 5), (7, 4), (1, 8), (16, 1), (44100, 44101), (10, 7), (1, 1)]


def mk_job(rng, ir, orr, recipe, qflags=0, clip=False, cls="random", rtflags=0, nout=16000, prec=None):
    job = {"ir": ir, "or": orr, "recipe": recipe, "qflags": qflags, "seed": 1 + rng.below(1 << 30)}
    if prec is not None:
        job["prec"] = prec
    if rtflags:
        job["rtflags"] = rtflags
    up = orr / ir
    job["N"] = int(min(400000, max(6000, nout / up)))
    fmax = .5 * min(1.0, up) * .6
    for i in range(1 + rng.below(3)):
        job["f%d" % (i + 1)] = round(rng.uniform(.02, 1.0) * fmax, 6)
    job["otype"] = rng.choice([2, 3, 3]) if clip else rng.choice([0, 1, 1])
    job["amp"] = rng.choice([3.0, 4.0, 6.0]) if clip else rng.choice([.9, .5, .25])
    # the variable of the job's precision class (recipes 5..8 are above 20 bits), sometimes the other one (no effect expected)
    dbl = bool(qflags & 16) or (job.get("prec", 0) > 20) or ("prec" not in job and (recipe & 15) in (5, 6, 7, 8, 11, 12))
    job["var"] = rng.choice(["SOXR_USE_SIMD", "SOXR_USE_SIMD64" if dbl else "SOXR_USE_SIMD32"]) if (cls != "random" or rng.chance(.93)) else rng.choice(["SOXR_USE_SIMD32", "SOXR_USE_SIMD64"])
    job["clip"] = clip
    job["cls"] = cls
    return job


def gen_job(rng, idx):
    ir, orr = rng.choice(RATES)
    recipe = rng.choice([0, 1, 1, 2, 2, 3, 4, 4, 5, 6, 6, 7, 8, 9, 10])
    if rng.chance(.15):
        recipe |= 0x40
    qflags = rng.choice([0, 0, 0, 1, 2, 8, 16, 16 | 8])
    prec = rng.choice([15, 16, 18, 20, 21, 24, 28, 33]) if rng.chance(.15) else None
    return mk_job(rng, ir, orr, recipe, qflags, clip=rng.chance(.25), prec=prec, rtflags=rng.choice([0, 0, 0, 2, 3, 8]))


def gcd(a, b):
    while b:
        a, b = b, a % b
    return a


def class_jobs(rng):
    """One job (or more) for EVERY path of the stage planner, on every run; which recipe / precision class / flags a member gets
    rotates with the seed.  Each runs long enough for the compared window to span many dft blocks."""
    jobs = []
    n = 60000
    lo, hi = [1, 3, 4], [5, 6, 7]            # recipes of the single- and of the double-precision class

    def q(i):                                # alternate precision classes along the list, shifted by the seed
        return rng.choice(hi if (i + rot) & 1 else lo)
    rot = rng.below(2)
    i = 0
    # every small-integer dft-only plan: io_ratio = M / L
    for L in range(1, 6):
        for M in range(1, 6):
            if L != M and gcd(L, M) == 1:
                jobs.append(mk_job(rng, M, L, q(i), cls="int-L%d-M%d" % (L, M), nout=n)); i += 1
    # F-domain decimation by 2 and by 4 (with and without a factor-3 interpolation), each in three qualities
    for M, L in ((2, 1), (2, 3), (4, 1), (4, 3)):
        for r in (1, 4, 6):
            jobs.append(mk_job(rng, M, L, r, qflags=rng.choice([0, 0, 16]), cls="fdomain-down-M%d-L%d" % (M, L), nout=n))
    # power-of-two F-domain up-sampling
    for k in (2, 4, 8, 16, 32):
        jobs.append(mk_job(rng, 1, k, q(i), cls="fdomain-up-%d" % k, nout=n)); i += 1
    # half-band chains (with and without a final dft / poly stage)
    for k in (8, 16, 32, 64, 6, 12, 24, 10):
        jobs.append(mk_job(rng, k, 1, q(i), cls="halfband-%d" % k, nout=20000)); i += 1
    # 1.5 < io_ratio < 2: poly stage + post stage
    for r in (1.7, 1.9, 1.5000001, 1.8375, 1.999):
        jobs.append(mk_job(rng, r, 1, q(i), cls="pre-post-%g" % r, nout=n)); i += 1
    # irrational ratios, each coefficient-interpolation order, each quality class
    for ir, orr in ((1, 3.14159), (3.14159, 1), (1, 1.41421356), (2.71828, 1)):
        for rtf in (0, 2, 3):
            for r in (rng.choice([1, 2]), rng.choice([3, 4]), rng.choice(hi)):
                jobs.append(mk_job(rng, ir, orr, r, cls="irrational-interp%d" % rtf, rtflags=rtf, nout=n))
    # 'quick' cubic interpolation
    for ir, orr in ((1, 3.14159), (3.14159, 1), (2, 1), (1, 2), (44100, 48000)):
        jobs.append(mk_job(rng, ir, orr, 0, cls="cubic", nout=n))
    # audio rates, libsamplerate presets, steep filters, roll-offs, hi-prec clock
    for ir, orr in ((44100, 48000), (48000, 44100), (96000, 44100), (8000, 44100)):
        jobs.append(mk_job(rng, ir, orr, rng.choice([8, 9, 10, 0x44, 0x46]), qflags=rng.choice([0, 1, 2, 8]), cls="audio", nout=n))
    # clipping jobs on integer outputs, both precision classes
    for r in (rng.choice(lo), rng.choice(hi)):
        jobs.append(mk_job(rng, 44100, 48000, r, clip=True, cls="clip", nout=n))
        jobs.append(mk_job(rng, 3, 2, r, clip=True, cls="clip", nout=n))
    return jobs


def job_bits(job, qtable):
    """(bits, rolloff class in dB) of a job, from the real constructor's answer"""
    q = qtable["qspec %d %d" % (job["recipe"], job["qflags"])]
    p = float(job["prec"]) if "prec" in job else q["prec"]
    return (16.0 if p == 0 else p), ROLLOFF_DB[q["flags"] & 3], q


def judge(job, r, bits, rolloff):
    """list of (what, detail) the property rules out"""
    bad = []
    k = cl.kv(r)
    eA, eB = k["engA"], k["engB"]
    if eA == eB:
        return bad, "same-engine"          # the variable does not govern this precision class (or VR)
    if {eA, eB} not in ({"cr32", "cr32s"}, {"cr64", "cr64s"}):
        bad.append(("pair", "SOXR_USE_SIMD* = 0/1 gave engines %s / %s" % (eA, eB)))
        return bad, "pair"
    if k["errA"] != "-" or k["errB"] != "-":
        bad.append(("error", "an engine recorded an error"))
    if k["totalA"] != k["totalB"]:
        bad.append(("length", "output length differs: %s on %s, %s on %s" % (k["totalA"], eA, k["totalB"], eB)))
    if float(k["delaydev"]) > 1e-6:
        bad.append(("delay", "delay + frames delivered differs between the engines by %s frames at some call" % k["delaydev"]))
    if float(k["delayEndA"]) != float(k["delayEndB"]):
        bad.append(("delay-end", "final delay %s vs %s" % (k["delayEndA"], k["delayEndB"])))
    amp = max(1.0, float(job["amp"]))
    res = {0: 2.0 ** -23, 1: 0.0, 2: 2.0 ** -31, 3: 2.0 ** -15}[job["otype"]] * (2 if job["otype"] >= 2 else amp)
    tol = 2.0 ** (1 - bits) * amp + res
    if job["clip"]:
        if abs(int(k["clipsA"]) - int(k["clipsB"])) > int(k["ambiguous"]):
            bad.append(("clips", "clip counters %s vs %s differ by more than the %s samples whose unclipped values straddle full scale" % (k["clipsA"], k["clipsB"], k["ambiguous"])))
        if int(k["clipsA"]) == 0:
            bad.append(("harness", "clipping job did not clip"))
        gtol = amp * (10 ** (rolloff / 20.0) - 1) + tol + 2 * res
        if float(k["maxdiff"]) > gtol:
            bad.append(("samples-clipped", "clipped outputs differ by %s of full scale (tolerance %.3g: roll-off class + precision)" % (k["maxdiff"], gtol)))
    else:
        if float(k["resid"]) > tol:
            bad.append(("samples", "residual of the difference after per-tone gain %s > 2^(1-%g) (+ format resolution) = %.3g" % (k["resid"], bits, tol)))
        gtol = amp * (10 ** (rolloff / 20.0) - 1) + tol
        if float(k["gaindiff"]) > gtol:
            bad.append(("gain", "per-tone gain differs by %s, outside the roll-off class (%.3g)" % (k["gaindiff"], gtol)))
    return bad, "compared"


def stage_falsifier(ctx, n):
    exe = common.build_harness("config_engines", ["config/engines.c"], "rel")
    probe = common.build_harness("config_probe", ["config/probe.c"], "dbg")
    rng = ctx.rng
    jobs = class_jobs(rng) + [gen_job(rng, i) for i in range(n)]
    # pinned: the case DESIGN section 5 discusses (LQ 1 -> 3.14159: u100 vs designed 10-tap filter; inside the roll-off class)
    jobs.append({"ir": 1, "or": 3.14159, "recipe": 1, "qflags": 0, "seed": 3, "N": 8000, "f1": .01, "f2": .13, "f3": .3, "otype": 1, "amp": .9,
                 "var": "SOXR_USE_SIMD", "clip": False, "cls": "pinned-u100"})
    reqs = sorted(set("qspec %d %d" % (j["recipe"], j["qflags"]) for j in jobs))
    rc, out, err = cl._run_proc(probe, reqs, 60)
    qtable = {}
    for req, ans in zip(reqs, [l[2:] for l in out.splitlines() if l.startswith("< Q")]):
        k = cl.kv(ans)
        qtable[req] = {"prec": cl.b2d(k["prec"]), "flags": int(k["flags"])}

    def work(job):
        line = " ".join("%s=%s" % (k, v) for k, v in job.items() if k not in ("clip", "cls"))
        rc, out, err = cl._run_proc(exe, [line], 600)
        return job, rc, out.strip(), err

    shapes = set()
    for job, rc, out, err in cr.pmap(work, jobs):
        ctx.count("evaluations")
        bits, rolloff, q = job_bits(job, qtable)
        rep = {"stage": "falsifier", "job": job}
        if rc != 0 or not out.startswith("J ok"):
            if out.startswith("J err"):
                ctx.count("jobs_rejected")
                continue
            violation(ctx, "falsifier", "C13: the engine-pair job did not run (exit %s): %s %s" % (rc, out[-200:], err[-400:]), rep)
            continue
        bad, how = judge(job, out, bits, rolloff)
        ctx.hist("falsifier_jobs", how)
        k = cl.kv(out)
        ctx.hist("planner_path_classes", job.get("cls", "random").split("-")[0] + ":" + how)
        if how == "compared":
            shapes.add((k["engA"], job["recipe"] & 15, job["clip"], job["ir"] > job["or"], job.get("cls", "random")))
            ctx.count("engine_pairs_compared")
            ctx.hist("dist_pair", k["engA"] + "/" + k["engB"])
            ctx.hist("dist_recipe", job["recipe"] & 15)
            if int(k["odone_diff_calls"]):
                ctx.count("jobs_with_differing_odone_sequences")
            # how close to the tolerance the clean tree runs (evidence; worst case kept)
            if not job["clip"]:
                ratio = float(k["resid"]) / (2.0 ** (1 - bits) * max(1.0, float(job["amp"])))
                ctx.cov["worst_resid_over_tolerance"] = max(ctx.cov.get("worst_resid_over_tolerance", 0), round(ratio, 4))
        if bad:
            rep["result"] = out
            rep["oracle"] = bad
            violation(ctx, "falsifier", "C13 fails on the real code: %s (%s)" % (bad[0][1], " ".join("%s=%s" % kv for kv in job.items())), rep)
        else:
            ctx.sample({"job": {k2: v for k2, v in job.items() if k2 in ("ir", "or", "recipe", "qflags", "otype", "var")}, "result": out[:200]})
    ctx.cov["distinct_nontrivial"] = ctx.cov.get("distinct_nontrivial", 0) + len(shapes)


def replay_only(ctx, exe):
    """bin/check C13 --replay <file>: re-runs exactly the stored failing input on the current tree"""
    import json
    from checks import c09
    rep = json.load(open(ctx.replay)).get("replay", {})
    ctx.cov["rule"] = "replay of " + os.path.basename(ctx.replay)
    ctx.count("evaluations")
    if rep.get("job"):
        job = rep["job"]
        eng = common.build_harness("config_engines", ["config/engines.c"], "rel")
        rc, out, err = cl._run_proc(eng, [" ".join("%s=%s" % (k, v) for k, v in job.items() if k not in ("clip", "cls"))], 600)
        rc2, out2, _ = cl._run_proc(exe, ["qspec %d %d" % (job["recipe"], job["qflags"])], 60)
        k = cl.kv([l for l in out2.splitlines() if l.startswith("< Q")][0])
        p = float(job["prec"]) if "prec" in job else cl.b2d(k["prec"])
        bad, how = judge(job, out.strip(), 16.0 if p == 0 else p, ROLLOFF_DB[int(k["flags"]) & 3]) if out.startswith("J ok") else ([("run", out + err[-300:])], "failed")
        ctx.sample({"job": job, "result": out.strip()[:300]})
        if bad:
            ctx.violation("C13 replay still fails on the real code: %s" % bad[0][1], rep)
        return
    ops = rep.get("ops") or []
    cfg = {}
    for t in (ops[0].split()[1:] if ops else []):
        kk, _, v = t.partition("=")
        cfg[kk] = v if kk.startswith("E.") else int(v)
    u = cl.Unit(ops, {"cfg": cfg})
    c09.fill_qfields([u], exe)
    cl.run_real(exe, [u], batch=1, timeout=60)
    cl.run_model([u])
    ctx.sample({"ops": ops[:6], "real": u.real[:6], "model": u.model[:6], "rc": u.rc})
    d = cl.diff_unit(u)
    r0 = u.real[0] if u.real else ""
    want = expected_engine(u, u.model_in[0]) if r0.startswith("C ok") else None
    if want and cl.kv(r0)["engine"] != want:
        ctx.violation("C13 replay still fails on the real code: selected %s, the property demands %s" % (cl.kv(r0)["engine"], want), rep)
    elif u.rc != 0 or d:
        ctx.violation("C13 replay: correspondence still broken / abnormal end: rc=%s %s" % (u.rc, d), rep, no_input=True)


def run(ctx):
    broken = common.proof_stage(ctx, ["SoxrModel.Properties.C13"], "C13", exes=("soxr_config",), gens=("Config",))
    exe = common.build_harness("config_probe", ["config/probe.c"], "dbg")
    if getattr(ctx, "replay", None):
        replay_only(ctx, exe)
        cr.report_broken(ctx, broken, "replay only")
        return
    stage_select(ctx, exe, 5000 if ctx.quick else 200000)
    stage_falsifier(ctx, 600 if ctx.quick else 50000)
    ctx.cov["rule"] = ("selection: generated soxr_create calls over recipes x flag words (VR, DOUBLE_PRECISION, HI_PREC_CLOCK, roll-offs, high bits) x precision "
                       "overrides around 20 (incl. the neighbours of 20.0 and NaN) x NULL quality spec x SOXR_USE_SIMD / SIMD32 / SIMD64 unset, 0, 1 and garbage "
                       "strings, followed by soxr_engine() after clear / process / set_num_channels: real answers vs the Lean model `selectEngine` / `step` "
                       "(engine name, conversion kernels installed, CPU detection as observed) and vs the property's own decision table evaluated in the check; "
                       "falsifier: on every run one job or more for EVERY path of the stage planner (every small-integer dft plan L,M in 1..5; F-domain decimation by 2 and 4 "
                       "with L in {1,3} in three qualities; power-of-two F-domain up-sampling; half-band chains; 1.5 < ratio < 2 pre/post plans; irrational ratios x each "
                       "coefficient-interpolation order x quality class; cubic; audio rates with libsamplerate presets / steep filters; clipping integer outputs), "
                       "members rotated by the seed, each long enough for the compared window (all but the first and last eighth) to span many dft blocks, plus "
                       "random jobs (24 rate pairs, all recipes, flags, precisions 15..33, float and integer outputs, random call schedules), each run in "
                       "one process on the portable and the SIMD engine of its class: total length, delay + frames delivered at every call, final delay, clip "
                       "counters (integer outputs, signal 3-6 x full scale), sample difference over the steady-state half of the output: residual after a "
                       "least-squares per-tone gain <= 2^(1-bits) + format resolution, per-tone gain difference inside the roll-off class; "
                       "distinct = engines x oracle-decidable + (pair, recipe, clip, direction) classes")
    ctx.assume("sample agreement of the engines is a numeric fact about floating-point kernels and two FFT back-ends: searched by the falsifier, not proved "
               "(Goal_samples_agree); in-band multi-tone signals, linear phase, steady state (middle half of the output stream)",
               "`within the configured precision` is read as DESIGN section 5 C13 does: residual after per-tone gain <= 2^(1-bits), gain difference inside the roll-off "
               "class of the recipe (0.35 dB medium, 0.01 dB small/none, 0.103 dB LSR2Q); QQ (no precision) is judged at 16 bits",
               "equal length and delay are theorems about ANY two well-formed plans (C03 / C15 count model); that the real plans are well-formed is decided per plan by C09 / C03",
               "CPU detection (cpuid) is an input of the model, observed by the harness on this host",
               "clip counters may differ by at most the number of samples whose unclipped values (float64-output twins of the two engines) straddle full scale or lie within 2^-14 of it")
    cr.report_broken(ctx, broken, "C13 selection correspondence on %d creates and %d engine-pair jobs found no failing input" % (
        ctx.cov.get("selections_compared", 0), ctx.cov.get("engine_pairs_compared", 0)))
