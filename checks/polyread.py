"""Read side of the poly-phase coefficient table: which cell multiplies which input frame (impulse probing of the real kernels).

For plans that consist of ONE non-interpolated poly-phase stage (`poly-fir0.h`; portable and SIMD kernels, float and double engines) an
impulse at input frame p must come out, frame by frame, as exactly ONE cell of the stage's real coefficient table:

    output m  =  table[ n * phi + k ],   A = at0 + m * step,  phi = A mod L,  div = A div L,  k = p + preload - div   (0 if k outside [0, n))

i.e. row = clock phase, column = tap, tap k multiplies FIFO position div + k - what `Cr/Time.lean` (`tstage`), the dependence cones of C05 and
the table theorems of `Properties/C04Coef.lean` (`order0_entry`, `kernel_reads_in_bounds`: cell index `coefIdx 0 n phi 0 k = n * phi + k`)
assume about the kernels, with the clock of `Properties/C04.absolute_clock`.  Values are compared exactly (each output is one table cell times
1.0 plus zeros).  Called by C04; a mismatch is reported with the configuration and the impulse position as the failing input."""
import struct
from checks import crcommon as cr
from vlib import common

RATIOS = [(147, 160), (160, 147), (80, 81), (81, 80), (11, 12), (12, 11), (24, 25), (25, 24), (99, 100), (100, 99), (320, 441), (441, 320),
          (8, 9), (9, 8), (48, 49), (200, 201)]


def f64(h):
    return struct.unpack("<d", struct.pack("<Q", int(h, 16)))[0]


def run(ctx, exe):
    rng = ctx.rng
    jobs = []
    # single-stage non-interpolated poly-phase plans: low-quality up-sampling by a ratio close to one (the other recipes put a dft stage in
    # front); every engine: SOXR_DOUBLE_PRECISION (16) selects cr64 / cr64s, SOXR_USE_SIMD the SIMD kernels (rows padded to a multiple of 4)
    for (a, b) in RATIOS:
        for qf in (0, 16):
            for simd in ("0", "1"):
                jobs.append(({"ir": str(a), "or": str(b), "recipe": 1, "qflags": qf}, {"SOXR_USE_SIMD": simd}, 30 + rng.below(400)))
    def work(j):
        cfg, env, p = j
        return j, cr.run_trace(exe, [cr.create_line(cfg), "polyprobe %d %d" % (p, p + 600)], env, timeout=60)
    probed = 0
    for (cfg, env, p), tr in cr.pmap(work, jobs):
        q = {l.split()[1]: l.split()[2:] for l in tr.lines if l.startswith("Q ")}
        if "plan" not in q:
            ctx.hist("polyread", "not-a-single-poly0-plan")
            continue
        pl = {k: int(v) for k, v in (t.split("=") for t in q["plan"])}
        table = [f64(h) for h in q["table"]]
        out = [f64(h) for h in q["out"][2:]]
        L, step, at0, preload, n = pl["L"], pl["step"], pl["at0"], pl["preload"], pl["n"]
        probed += 1
        ctx.hist("polyread", "%s:%s" % (tr.engine, "double" if pl["dbl"] else "float"))
        ctx.count("polyread_output_frames", len(out))
        nonzero = 0
        for m, y in enumerate(out):
            A = at0 + m * step
            div, phi = divmod(A, L)
            k = pl["p"] + preload - div
            pred = table[n * phi + k] if 0 <= k < n else 0.0
            nonzero += 1 if pred != 0 else 0
            if y != pred:
                ctx.violation("C04 / C05: the poly-phase kernel does not use its coefficient table as the model says (row = clock phase, column = tap, tap k "
                              "on FIFO position div + k): %s %s, impulse at input frame %d: output frame %d is %r, the table cell (phase %d, tap %d) is %r" % (
                                  cr.create_line(cfg), env, pl["p"], m, y, phi, k, pred),
                              {"stage": "polyread", "create": cr.create_line(cfg), "env": env, "impulse_at": pl["p"], "frames": pl["N"], "output_frame": m,
                               "got": y, "expected_cell": [phi, k], "expected": pred, "plan": pl})
                break
        ctx.count("polyread_cells_hit", nonzero)
    ctx.count("polyread_plans_probed", probed)
    if probed < 3:
        ctx.notes.append("polyread: only %d single-stage poly0 plans among the candidates (the planner no longer plans them?)" % probed)
