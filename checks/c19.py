"""C19 libsamplerate-compatible wrapper keeps the SRC_DATA contract.

proof stage    lean/SoxrModel/Lsr (model of soxr-lsr.c + the API layer of soxr.c as a state machine over an abstract engine)
               + lean/SoxrModel/Conv (the array helpers) + Properties/C19.lean; constants regenerated from /repo
               (harness/lsr/gen.c, harness/conv/gen.c); axiom audit
correspondence (a) op sequences through the real entry points (harness/lsr/lsr.c: src_new / src_callback_new / src_process /
               src_callback_read / src_simple / src_set_ratio / src_reset / src_error / src_delete / src_strerror /
               src_get_name / src_is_valid_ratio) with the object's control block patched so that every call into the engine
               is logged; the compiled model `soxr_lsr` gets the same ops plus the engine's / callback's recorded answers and
               must print the same event sequence, SRC_DATA fields, return codes, private state, and the same crashes;
               (b) the four array helpers on bit patterns (harness/conv/conv.c `lsr-*` ops against `soxr_conv`)
falsifier      direct oracles on the real code: used <= input_frames, gen <= output_frames (ASan build, exact buffers),
               totals == round(input * ratio) at constant ratio, nothing after the end, reset == fresh, NULL => error code,
               helpers round to nearest / saturate / short round trip (exact rationals)
"""
import json, math, os, struct, subprocess, time
from fractions import Fraction
from vlib import common
from checks import conv_gen as G

LEVEL = "proof"
PID = "C19"
MODEL = os.path.join(common.LEAN, ".lake", "build", "bin", "soxr_lsr")


def dbits(x):
    return struct.unpack("<Q", struct.pack("<d", x))[0]


def bitsd(b):
    return struct.unpack("<d", struct.pack("<Q", b))[0]


def hx(x):
    return "%016x" % dbits(x)


# ------------------------------------------------------------------ sequence generation

RATIOS = [0.5, 2.0, 1.0, 1.5, 0.75, 44100 / 48000., 48000 / 44100., 3.0, 1 / 3., 0.1, 7.3, 1 / 7.3, 16.0, 1 / 16., 0.999, 1.001,
          math.pi / 3, 96000 / 44100.]
BAD_RATIOS = [0.0, -0.0, -1.0, float("nan"), float("inf"), -float("inf")]


def rnd_ratio(rng):
    r = rng.below(100)
    if r < 70:
        return rng.choice(RATIOS)
    if r < 85:
        return 2.0 ** rng.uniform(-4, 4)
    return rng.choice(RATIOS[:6]) * (1 + rng.choice((1e-16, -1e-16, 1e-15, 3e-15, -2e-15, 1e-12)))


def block(rng):
    return rng.choice((0, 0, 1, 2, 3, 7, 16, 17, 63, 64, 65, 100, 127, 128, 255, 256, 500, 1000, 1023, 1024, 2500, 4097))


class Seq:
    def __init__(self, label, kind):
        self.label, self.kind, self.ops = label, kind, []

    def add(self, *toks):
        self.ops.append(" ".join(str(t) for t in toks))

    def text(self):
        return "seq %s\n%s\nend\n" % (self.label, "\n".join(self.ops))


def reset_on_clear_ids():
    """converter ids whose objects carry RESET_ON_CLEAR, as harness/lsr/gen.c read them off the tree under test
    (none on the repaired tree; 3, 4, 5 before 88f0e06): the generator needs it to know which ratio a converter is at."""
    import re
    try:
        txt = open(os.path.join(common.LEAN, "SoxrModel", "Lsr", "Generated.lean")).read()
    except OSError:
        return set()
    return set(int(m.group(1)) for m in re.finditer(r"\((\d+), (true|false), (true|false)\)", txt) if m.group(2) == "true")


RESET_IDS = set()


class Track:
    """what the generator must know of the converter to stay inside the caller's contract of soxr.h: no input after the
    end of input has been taken (the engine stores through NULL then; documented as 'nor shall be available')."""

    def __init__(self, cid):
        self.cid, self.locked, self.flushed, self.dirty = cid, None, False, False

    def process(self, r, i, o, eoi, din):
        if not (r > 0) or math.isinf(r):
            self.dirty = True           # error paths: the model follows them; no further input is offered
            return
        if self.locked is None:
            self.locked = 1 / r
        if din:
            self.flushed = True
            return
        if i < 0:
            eff, flush = -i - 1, not eoi
        else:
            eff, flush = i, bool(eoi)
        used = min(math.ceil(o * self.locked), eff)
        if flush and used == eff:
            self.flushed = True

    def reset(self):
        self.flushed = False
        if self.cid not in RESET_IDS:
            self.locked = None

    def may_input(self):
        return not self.flushed and not self.dirty


def gen_push(rng, label, malformed=False):
    """src_new, a run of src_process calls with random blocks, end_of_input at a random point, drained, maybe reset/again."""
    s = Seq(label, "push-malformed" if malformed else "push")
    cid = rng.choice((0, 1, 2, 3, 4, 4, 3, 5)) if not malformed else rng.below(6)
    ch = rng.choice((1, 1, 2, 3, 4))
    s.add("new", cid, ch, 1 if rng.chance(.8) else 0)
    tr = Track(cid)
    rounds = 1 + rng.below(3)
    for rd in range(rounds):
        ratio = rnd_ratio(rng)
        vary = rng.chance(.25)
        ncalls = 1 + rng.below(7)
        eoi_at = rng.below(ncalls + 1)
        for k in range(ncalls):
            r = rnd_ratio(rng) if (vary and rng.chance(.5)) else ratio
            if malformed and rng.chance(.15):
                r = rng.choice(BAD_RATIOS)
            eoi = 1 if k >= eoi_at else 0
            i = block(rng) if tr.may_input() else 0
            o = block(rng)
            din = dout = ion = pn = 0
            if malformed:
                q = rng.below(40)
                din, dout, ion, pn = int(q == 0), int(q == 1), int(q == 2), int(q == 3)
                if q == 4 and tr.may_input():
                    i = -rng.choice((1, 5, 64))
                if q == 5:
                    din = dout = 1      # end of input signalled without buffers: flushes the engines at once
                # (a NULL data_out with output_frames == 0 is accepted by soxr.c - `!out && len0` is the refusal - and is part of the stream:
                #  it must leave the converter as it was; it ends in memcpy(NULL, ..., 0), which the report filter below sets aside)
            s.add("process", hx(r), i, o, eoi, din, dout, ion, pn)
            if not (ion or pn):
                tr.process(r, i, o, eoi, din)
        # drain
        for _ in range(rng.below(4)):
            s.add("process", hx(ratio), 0, block(rng), 1, 0, 0, 0, 0)
            tr.process(ratio, 0, 0, 1, 0)
        q = rng.below(10)
        if q < 5 or rd + 1 < rounds:
            if q < 8:
                s.add("reset", 0); tr.reset()
            else:
                cid = rng.below(5)
                s.add("delete", 0); s.add("new", cid, ch, 1); tr = Track(cid)
        elif q < 6:
            s.add("setratio", hx(rnd_ratio(rng)), 0)
        elif q < 7:
            s.add("error", 0)
        if malformed and rng.chance(.15):
            s.add(rng.choice(("reset 1", "setratio %s 1" % hx(1.0), "delete 1", "error 1")))
    s.add("error", 0)
    s.add("delete", 0)
    return s


def supply(rng, n):
    return ",".join(rng.choice(("0", "1", "17", "64", "64", "128", "500", "1000", "N" if rng.chance(.1) else "32")) for _ in range(n)) or "-"


def gen_pull(rng, label, malformed=False):
    s = Seq(label, "pull-malformed" if malformed else "pull")
    cid = rng.choice((0, 1, 2, 3, 4))
    ch = rng.choice((1, 1, 2, 3))
    s.add("cbnew", cid, ch, 1, 1 if rng.chance(.9) else 0)
    ratio = rnd_ratio(rng)
    for k in range(1 + rng.below(6)):
        r = rnd_ratio(rng) if rng.chance(.15) else ratio
        olen = block(rng)
        nsup = rng.below(8)
        sup = supply(rng, nsup)
        if not malformed:
            sup = sup.replace("N", "0")
        dout = pn = 0
        if malformed:
            q = rng.below(30)
            dout, pn = int(q == 0), int(q == 1)
            if q == 2:
                olen = -1 - rng.below(5)
            if q == 3:
                r = rng.choice(BAD_RATIOS)
        s.add("read", hx(r), olen, dout, pn, sup)
        if rng.chance(.15):
            s.add("reset", 0)
        if rng.chance(.1):
            s.add("error", 0)
    s.add("delete", 0)
    return s


def gen_misc(rng, label):
    s = Seq(label, "misc")
    for _ in range(6):
        q = rng.below(6)
        if q == 0:
            s.add("simple", rng.below(5), rng.choice((1, 2, 0, -1, 3)), hx(rnd_ratio(rng) if rng.chance(.8) else rng.choice(BAD_RATIOS[:4])),
                  rng.choice((0, 1, 100, 1000, -1)), rng.choice((0, 1, 100, 3000, -2)), 1 if rng.chance(.1) else 0)
        elif q == 1:
            s.add("strerror", rng.choice((0, 1, -1, 2, 23)))
        elif q == 2:
            s.add("name", rng.choice((-1, 0, 1, 2, 3, 4, 5, 6, 99)))
        elif q == 3:
            s.add("valid", hx(rng.choice(BAD_RATIOS + RATIOS[:4] + [1e-300, 1e300])))
        elif q == 4:
            s.add(rng.choice(("reset 1", "setratio %s 1" % hx(2.0), "delete 1", "process %s 1 1 0 0 0 0 1" % hx(1.0),
                              "process %s 1 1 0 0 0 1 1" % hx(1.0), "read %s 5 0 1 -" % hx(1.0))))
        else:
            s.add("simple", rng.below(5), 1, hx(rnd_ratio(rng)), block(rng), block(rng) * 4, 0)
    return s


def gen_fixed():
    """hand-written sequences: the witnesses of the theorems / findings, always run."""
    out = []
    for cid in range(5):
        s = Seq("fixed-reset-%d" % cid, "fixed")
        s.add("new", cid, 1, 1); s.add("reset", 0)
        s.add("process", hx(2.0), 100, 300, 1, 0, 0, 0, 0); s.add("process", hx(2.0), 0, 300, 1, 0, 0, 0, 0)
        s.add("reset", 0)
        s.add("process", hx(0.5), 100, 300, 1, 0, 0, 0, 0); s.add("process", hx(0.5), 0, 300, 1, 0, 0, 0, 0)
        s.add("error", 0); s.add("delete", 0)
        out.append(s)
    s = Seq("fixed-null-error", "fixed"); s.add("error", 1); out.append(s)
    s = Seq("fixed-neg-ratio", "fixed"); s.add("new", 0, 1, 1); s.add("process", hx(-1.0), 10, 10, 0, 0, 0, 0, 0); out.append(s)
    s = Seq("fixed-zero-ratio-reset", "fixed"); s.add("new", 0, 1, 1); s.add("process", hx(0.0), 10, 10, 0, 0, 0, 0, 0)
    s.add("error", 0); s.add("reset", 0); s.add("process", hx(1.0), 10, 10, 0, 0, 0, 0, 0); out.append(s)
    # regression for finding F40 (fixed by /repo b5a678f; theorem failed_create_then_reset_reports_error): a finite positive ratio
    # the engine refuses (2^-32) tears the object down; src_reset must refuse it (-1) and every later call must report the
    # error instead of crashing -- checked op by op against the model and by `failed_create_regression` below
    for cid, fn in ((0, 0), (4, 0), (1, 1)):
        s = Seq("fixed-failed-create-reset-%d" % cid, "fixed")
        s.add("cbnew" if fn else "new", cid, 1, 1, *([1] if fn else []))
        s.add("process", "3df0000000000000", 10, 10, 0, 0, 0, 0, 0) if not fn else s.add("read", "3df0000000000000", 10, 0, 0, "5,0")
        s.add("error", 0); s.add("reset", 0); s.add("error", 0); s.add("process", hx(1.0), 10, 10, 0, 0, 0, 0, 0)
        s.add("read", hx(1.0), 10, 0, 0, "-"); s.add("setratio", hx(1.0), 0); s.add("reset", 0); s.add("error", 0); s.add("delete", 0)
        out.append(s)
    # end of input signalled without buffers (both pointers NULL): the engines are flushed at once (/repo ab95331)
    s = Seq("fixed-no-buffers", "fixed"); s.add("new", 2, 2, 1); s.add("process", hx(2.0), 50, 200, 0, 0, 0, 0, 0)
    s.add("process", hx(2.0), 0, 0, 1, 1, 1, 0, 0); s.add("process", hx(2.0), 0, 300, 1, 0, 0, 0, 0); s.add("process", hx(2.0), 0, 300, 1, 0, 0, 0, 0)
    s.add("delete", 0); out.append(s)
    s = Seq("fixed-nulls", "fixed"); s.add("new", 1, 2, 1)
    for t in ("process %s 10 10 0 0 0 0 1", "process %s 10 10 0 0 0 1 0", "process %s 10 10 0 0 0 1 1", "setratio %s 1"):
        s.add(t % hx(1.0))
    s.add("reset 1"); s.add("delete 1"); s.add("read %s 10 0 1 -" % hx(1.0)); s.add("read %s -3 0 0 -" % hx(1.0))
    s.add("process %s 10 10 0 1 0 0 0" % hx(1.0)); s.add("error 0"); s.add("process %s 0 10 0 0 0 0 0" % hx(1.0)); s.add("delete 0")
    s.add("new", 1, 1, 1); s.add("process %s 10 10 0 0 1 0 0" % hx(1.0)); s.add("error 0"); s.add("reset 0"); s.add("error 0")
    s.add("process %s 10 10 0 0 0 0 0" % hx(1.0)); s.add("delete 0")
    out.append(s)
    s = Seq("fixed-simple", "fixed")
    for r in (1.0, 0.5, 2.0, 0.0, -1.0, float("nan")):
        s.add("simple", 2, 1, hx(r), 100, 400, 0)
    s.add("simple 2 0 %s 10 10 0" % hx(1.0)); s.add("simple 2 1 %s -1 10 0" % hx(1.0)); s.add("simple 2 1 %s 10 -1 0" % hx(1.0))
    s.add("simple 2 1 %s 10 10 1" % hx(1.0))
    out.append(s)
    s = Seq("fixed-simple-inf", "fixed"); s.add("simple", 2, 1, hx(float("inf")), 10, 10, 0); out.append(s)
    return out


def gen_sequences(ctx):
    rng = ctx.rng
    n = 200 if ctx.quick else 3000
    seqs = gen_fixed()
    for i in range(n):
        seqs.append(gen_push(rng, "push%d" % i))
    for i in range(n // 2):
        seqs.append(gen_pull(rng, "pull%d" % i))
    for i in range(n // 3):
        seqs.append(gen_push(rng, "mpush%d" % i, malformed=True))
    for i in range(n // 4):
        seqs.append(gen_pull(rng, "mpull%d" % i, malformed=True))
    for i in range(n // 6):
        seqs.append(gen_misc(rng, "misc%d" % i))
    return seqs


# ------------------------------------------------------------------ running

def run_harness(exe, seqs, jobs=None):
    """runs the sequences (split over processes); returns {label: (ops [(events, result, state)], exit status string)}"""
    from concurrent.futures import ThreadPoolExecutor
    jobs = jobs or common.NCPU
    chunks = [seqs[i::jobs] for i in range(jobs)]
    env = dict(os.environ, ASAN_OPTIONS="handle_segv=0:detect_leaks=0:abort_on_error=1:allocator_may_return_null=1", UBSAN_OPTIONS="print_stacktrace=1")
    for v in ("SOXR_LSR_NUM_THREADS", "SOXR_LSR_STRICT", "SOXR_NUM_THREADS"):
        env.pop(v, None)

    def one(chunk):
        if not chunk:
            return "", ""
        r = subprocess.run([exe], input="".join(s.text() for s in chunk), stdout=subprocess.PIPE, stderr=subprocess.PIPE,
                           universal_newlines=True, env=env, errors="replace")
        return r.stdout, r.stderr
    with ThreadPoolExecutor(jobs) as ex:
        outs = list(ex.map(one, chunks))
    res, stderr = {}, []
    for chunk, (o, e) in zip(chunks, outs):
        if e.strip():
            stderr.append(e[-3000:])
        cur, ops = None, []
        it = iter(chunk)
        for line in o.splitlines():
            t = line.split(" ", 1)
            if t[0] == "B":
                ops.append([[], None, None])
            elif t[0] == "E" and ops:
                ops[-1][0].append(t[1])
            elif t[0] == "R" and ops:
                ops[-1][1] = t[1]
            elif t[0] == "S" and ops:
                ops[-1][2] = t[1]
            elif t[0] == "X":
                lab, kind, code = t[1].split()
                res[lab] = (ops, "%s %s" % (kind, code))
                ops = []
    return res, stderr


def tokens_of(events):
    out = []
    for e in events:
        p = e.split(":")
        if p[0] == "cr":
            out.append("c" + p[2])
        elif p[0] == "out":
            out.append("g" + p[1])
        elif p[0] == "cb":
            out.append("k%s:%s" % (p[1], p[2]))
    return out


def canonical(op_line, rec, crashed):
    ev, r, s = rec
    visible = [] if op_line.startswith("simple") else ev
    if r is None:
        return "%s | CRASH" % " ".join(visible) if crashed else "%s | NO-RESULT" % " ".join(visible)
    return "%s | %s | %s" % (" ".join(visible), r, s or "-")


def simple_tokens(op_line, rec):
    """src_simple runs on an internal object: its engine answers are inferred from the result."""
    t = op_line.split()
    ch = max(int(t[2]), 0)
    r = rec[1] or ""
    if "used=" in r:
        g = r.split("gen=")[1].split()[0]
        return ["c1"] * ch + ["g" + g] * ch
    return ["c0"]


def model_lines(seqs, res):
    """model input text + the expected output lines, per sequence."""
    text, expect, index = [], [], []
    for s in seqs:
        ops, status = res.get(s.label, ([], "missing"))
        crashed = not status.startswith("exit 0")
        text.append("seq " + s.label)
        expect.append("seq " + s.label)
        index.append((s, -1))
        for k, op in enumerate(s.ops):
            if k >= len(ops):
                break
            rec = ops[k]
            toks = simple_tokens(op, rec) if op.startswith("simple") else tokens_of(rec[0])
            text.append(op + " | " + " ".join(toks))
            expect.append(canonical(op, rec, crashed))
            index.append((s, k))
            if rec[1] is None:
                break
    return "\n".join(text) + "\n", expect, index


def run_model(text):
    r = subprocess.run([MODEL], input=text, stdout=subprocess.PIPE, stderr=subprocess.PIPE, universal_newlines=True)
    return r.stdout.splitlines(), r.stderr


# ------------------------------------------------------------------ falsifier on the recorded runs

def expected_total(nin, ratio):
    """round(input * src_ratio), exact rational arithmetic on the double src_ratio.  The engine does not work with src_ratio
    itself but with io_ratio = RN(1 / src_ratio) held in a 32.32 fixed-point step (standard clock), so its count is
    round(x') for an x' within a relative 2^-30 of x: when x is that close to a tie k + 1/2 both neighbours are accepted
    (near-tie rule; everywhere else the total must be exactly round(x))."""
    x = Fraction(nin) * Fraction(ratio)
    tol = x / (1 << 30)
    lo = math.floor(x + Fraction(1, 2) - tol)
    hi = math.floor(x + Fraction(1, 2) + tol)
    return {lo, hi}


def bad_ratio(rb):
    """outside the contract of the no-crash / totals clauses: not a positive finite number, or beyond what the engines accept
    (resampling factors >= 2^31 are refused: resampler_create fails, modelled and compared, but no totals are owed)."""
    return not (rb > 0) or math.isinf(rb) or rb < 2.0 ** -30 or rb > 2.0 ** 30


def falsify(ctx, seqs, res, viol, known):
    """property oracles on the real code's answers, independent of the model."""
    stats = dict(calls=0, contract_checked=0, totals_checked=0, after_end_checked=0, reset_checked=0, null_checked=0, crashes=0)
    for s in seqs:
        ops, status = res.get(s.label, ([], "missing"))
        crashed = not status.startswith("exit 0")
        if crashed:
            stats["crashes"] += 1
        cid = None; ratio_hist = []; tin = tout = 0; ended = False; drained = False; valid_run = True; since_reset_ratio = None; was_reset = False
        fresh = True
        for k, op in enumerate(s.ops):
            if k >= len(ops):
                break
            ev, r, st = ops[k]
            t = op.split()
            stats["calls"] += 1
            if r is None:
                # crash inside op k: only allowed for the out-of-contract argument classes
                allowed = None
                if t[0] == "error" and t[1] == "1":
                    allowed = "F32"
                elif t[0] in ("process", "read") and cid is not None:
                    rb = bitsd(int(t[1], 16))
                    bad_now = bad_ratio(rb)
                    if bad_now:
                        allowed = "out-of-contract: invalid src_ratio in this call (see assumptions)"
                    elif not valid_run:
                        allowed = "F40"     # a call with a valid ratio crashes after an earlier error on this converter
                elif t[0] == "simple":
                    rb = bitsd(int(t[3], 16))
                    if math.isinf(rb):
                        allowed = "out-of-contract: src_ratio = inf"
                if allowed in ("F32", "F40"):
                    known.setdefault(allowed, (s, k))
                elif allowed is None:
                    viol.append((s, k, "crash (%s) inside `%s` with in-contract arguments" % (status, op)))
                break
            kv = dict(x.split("=") for x in r.split() if "=" in x)
            if t[0] in ("new", "cbnew"):
                cid = int(t[1]); tin = tout = 0; ended = drained = False; ratio_hist = []; valid_run = True; fresh = True; since_reset_ratio = None; was_reset = False
                if kv.get("h") != "1" or (t[3] == "1" and kv.get("e") != "0"):
                    viol.append((s, k, "src_new failed: " + r))
            elif t[0] == "process":
                rb = bitsd(int(t[1], 16)); i, o, eoi = int(t[2]), int(t[3]), int(t[4])
                din, dout, ion, pn = (int(x) for x in t[5:9])
                if pn or ion:
                    stats["null_checked"] += 1
                    if kv.get("rc") != "-1":
                        viol.append((s, k, "NULL converter / data block did not give an error code: " + r))
                    continue
                if bad_ratio(rb):
                    valid_run = False
                if i < 0 or din or dout or not valid_run:
                    valid_run = False
                    continue
                if kv["used"] == "-":
                    viol.append((s, k, "src_process did not report the counts: " + r)); continue
                used, gen, rc = int(kv["used"]), int(kv["gen"]), int(kv["rc"])
                stats["contract_checked"] += 1
                if not (0 <= used <= i) or not (0 <= gen <= o):
                    viol.append((s, k, "SRC_DATA contract broken: used=%d of %d, gen=%d of %d" % (used, i, gen, o)))
                if rc != 0:
                    viol.append((s, k, "src_process reported an error on valid arguments: " + r))
                if drained and gen:
                    viol.append((s, k, "output after the end: gen=%d after a call with end_of_input returned 0" % gen))
                if drained:
                    stats["after_end_checked"] += 1
                ratio_hist.append(rb); tin += used; tout += gen
                if since_reset_ratio is None:
                    since_reset_ratio = rb      # the ratio the engine was first created with
                fresh = False
                if eoi and used == i:
                    ended = True
                if ended and eoi and o > 0 and gen == 0 and i == used:
                    if not drained and len(set(ratio_hist)) == 1:
                        stats["totals_checked"] += 1
                        want = expected_total(tin, ratio_hist[0])
                        if tout not in want:
                            if was_reset and since_reset_ratio is not None and tout in expected_total(tin, since_reset_ratio):
                                known.setdefault("F31", (s, k))
                            else:
                                viol.append((s, k, "total output %d for %d input frames at ratio %r, expected %s" % (tout, tin, ratio_hist[0], sorted(want))))
                    drained = True
            elif t[0] == "reset":
                if t[1] == "1":
                    stats["null_checked"] += 1
                    if kv.get("rc") != "-1":
                        viol.append((s, k, "src_reset(NULL) did not give an error code"))
                    continue
                stats["reset_checked"] += 1
                if valid_run and kv.get("rc") != "0":
                    viol.append((s, k, "src_reset returned an error: " + r))
                was_reset = True
                if cid not in RESET_IDS:
                    since_reset_ratio = None
                tin = tout = 0; ended = drained = False; ratio_hist = []
            elif t[0] == "setratio" and t[2] == "1":
                stats["null_checked"] += 1
                if kv.get("rc") != "-1":
                    viol.append((s, k, "src_set_ratio(NULL) did not give an error code"))
            elif t[0] == "read":
                olen, dout, pn = int(t[2]), int(t[3]), int(t[4])
                ret = int(kv["ret"])
                rb = bitsd(int(t[1], 16))
                if not pn and olen >= 0 and (bad_ratio(rb)):
                    valid_run = False
                if pn or olen < 0:
                    stats["null_checked"] += 1
                    if ret != -1:
                        viol.append((s, k, "src_callback_read(NULL / negative length) did not give an error code"))
                elif not (0 <= ret <= olen):
                    viol.append((s, k, "src_callback_read returned %d for a request of %d" % (ret, olen)))
                else:
                    stats["contract_checked"] += 1
            elif t[0] == "simple":
                cch, rb, i, o, ion = int(t[2]), bitsd(int(t[3], 16)), int(t[4]), int(t[5]), int(t[6])
                if ion or cch <= 0 or i < 0 or o < 0:
                    stats["null_checked"] += 1
                    if kv.get("rc") != "-1":
                        viol.append((s, k, "src_simple with NULL / negative arguments did not give an error code"))
                elif rb > 0 and not math.isinf(rb):
                    if "used" not in kv:
                        viol.append((s, k, "src_simple failed on valid arguments: " + r)); continue
                    used, gen = int(kv["used"]), int(kv["gen"])
                    stats["contract_checked"] += 1
                    if not (0 <= used <= i) or not (0 <= gen <= o):
                        viol.append((s, k, "src_simple contract broken: used=%d of %d, gen=%d of %d" % (used, i, gen, o)))
                    want = expected_total(used, rb)
                    if used == i and max(want) <= o:
                        stats["totals_checked"] += 1
                        if gen not in want:
                            viol.append((s, k, "src_simple delivered %d frames for %d at ratio %r, expected %s" % (gen, used, rb, sorted(want))))
                elif kv.get("used", "0") != "0" or kv.get("gen", "0") != "0":
                    known.setdefault("F33", (s, k))
    return stats


def failed_create_regression(seqs, res, viol, known):
    """F40 regression: once a call has reported an error because the engine refused to be created, src_reset returns an error
    code, src_error keeps reporting, processing calls return error codes with zero counts, nothing crashes."""
    for s in seqs:
        if not s.label.startswith("fixed-failed-create-reset"):
            continue
        ops, status = res.get(s.label, ([], "missing"))
        if not status.startswith("exit 0") or len(ops) < len(s.ops):
            known.setdefault("F40", (s, max(len(ops) - 1, 0))); continue
        for k, (op, rec) in enumerate(zip(s.ops, ops)):
            if k == 0 or op.startswith("delete"):
                continue
            r = rec[1] or ""
            bad = ("rc=0" in r.split()) or (op.startswith("read") and "ret=0" not in r and "ret=-1" not in r) or \
                  (op.startswith("process") and ("used=0" not in r or "gen=0" not in r))
            if bad:
                viol.append((s, k, "after a failed engine creation `%s` answered `%s` (an error code and zero counts are due)" % (op, r)))
                break


def reset_equals_fresh(ctx, exe, viol, known):
    """differential: history + src_reset, then a run  ==  src_new, then the same run (counts per call), ids 0..4."""
    rng = ctx.rng
    seqs = []
    for i in range(10 if ctx.quick else 80):
        cid = i % 5
        r0, r1 = rnd_ratio(rng), rnd_ratio(rng)
        if rng.chance(.4):
            r1 = r0
        run = [(block(rng), block(rng)) for _ in range(1 + rng.below(5))]
        a = Seq("rfa%d" % i, "reset-diff"); b = Seq("rfb%d" % i, "reset-diff")
        a.add("new", cid, 1, 1)
        for _ in range(1 + rng.below(3)):
            a.add("process", hx(r0), block(rng), block(rng), 0, 0, 0, 0, 0)
        a.add("reset", 0)
        b.add("new", cid, 1, 1)
        for s in (a, b):
            for j, (i_, o_) in enumerate(run):
                s.add("process", hx(r1), i_, o_, 1 if j == len(run) - 1 else 0, 0, 0, 0, 0)
            for _ in range(3):
                s.add("process", hx(r1), 0, 4000, 1, 0, 0, 0, 0)
            s.add("delete", 0)
        a.meta = b.meta = (cid, r0, r1, len(run) + 3)
        seqs += [a, b]
    res, _ = run_harness(exe, seqs)
    n = 0
    for a, b in zip(seqs[0::2], seqs[1::2]):
        cid, r0, r1, tail = a.meta
        ra = [x[1] for x in res.get(a.label, ([], ""))[0]][-tail - 1:-1]
        rb_ = [x[1] for x in res.get(b.label, ([], ""))[0]][-tail - 1:-1]
        n += 1
        if ra != rb_:
            if cid in RESET_IDS and abs(1 / r0 - 1 / r1) >= 1e-15:
                known.setdefault("F31", (a, len(a.ops) - 1))
            else:
                viol.append((a, len(a.ops) - tail - 1, "after src_reset the converter does not behave like a new one: %s vs fresh %s (id %d, ratio %r then %r)" % (ra[:4], rb_[:4], cid, r0, r1)))
    ctx.count("reset_vs_fresh_pairs", n)


def idiom_streams(ctx, exe, viol):
    """Totals through the documented idioms, on the real code only: every stream-length class (0, 1, a few, shorter than the
    converter's latency, around one internal block, long) x every supply / block / read size class (1 ... huge), every
    converter id: pull (src_callback_read until it returns 0), push (src_process, end_of_input on the last block, until a
    call generates nothing), one-shot (src_simple).  The total must be round(input * src_ratio) (near-tie rule)."""
    rng = ctx.rng
    lengths = [0, 1, 2, 3, 5, 10, 33, 100, 257, 500, 999, 1000, 1024, 4095, 4096, 4097, 8200, 20000]
    sizes = [1, 2, 7, 64, 100, 1000, 4096, 20000, 60000]
    ratios = [0.5, 2.0, 1.0, 1.5, 44100 / 48000., 48000 / 44100., 3.0, 1 / 3., 0.1, 7.3, 0.999, math.pi / 3]
    seqs = []
    per = 8 if ctx.quick else 40

    def pick_len(cls):
        return {0: rng.choice(lengths[:5]), 1: rng.choice(lengths[5:12]), 2: 1 + rng.below(1000), 3: rng.choice(lengths[12:])}[cls]
    k = 0
    for cid in range(5):
        for cls in range(4):
            for _ in range(per):
                for mode in ("pull", "push", "simple"):
                    n = pick_len(cls)
                    r = rng.choice(ratios)
                    ch = rng.choice((1, 1, 2))
                    a, b = rng.choice(sizes), rng.choice(sizes)
                    if n * r > 3000:                # keep the number of calls per stream bounded
                        b = max(b, 64)
                    if mode == "pull" and ch > 1:
                        a = min(a, 20000)
                    s = Seq("idiom%d" % k, "idiom-" + mode); k += 1
                    if mode == "pull":
                        s.add("cbnew", cid, ch, 1, 1); s.add("readall", hx(r), b, n, a); s.add("delete", 0)
                    elif mode == "push":
                        s.add("new", cid, ch, 1); s.add("pushall", hx(r), n, a, b); s.add("delete", 0)
                    else:
                        room = int(n * r) + 10 if rng.chance(.7) else b
                        s.add("simple", cid, ch, hx(r), n, room, 0)
                    s.meta = (mode, cid, n, r, a, b)
                    seqs.append(s)
    res, _ = run_harness(exe, seqs)
    nchk = 0
    for s in seqs:
        mode, cid, n, r, a, b = s.meta
        ops, status = res.get(s.label, ([], "missing"))
        ctx.hist("idiom_mode", mode); ctx.hist("idiom_length_class", "0" if n == 0 else "1" if n == 1 else "<=10" if n <= 10 else "<=1000" if n <= 1000 else "<=4097" if n <= 4097 else "long")
        idx = 0 if mode == "simple" else 1
        if not status.startswith("exit 0") or len(ops) <= idx or ops[idx][1] is None:
            viol.append((s, idx, "%s idiom: the stream did not complete (%s)" % (mode, status))); continue
        kv = dict(x.split("=") for x in ops[idx][1].split() if "=" in x)
        want = expected_total(n, r)
        nchk += 1
        if mode == "simple":
            room = int(s.ops[0].split()[5])
            if kv.get("rc") != "0":
                viol.append((s, 0, "src_simple failed on valid arguments: " + ops[0][1])); continue
            used, gen = int(kv["used"]), int(kv["gen"])
            if used == n and max(want) <= room and gen not in want:
                viol.append((s, 0, "src_simple delivered %d frames for %d input frames at ratio %r (id %d), expected %s" % (gen, n, r, cid, sorted(want))))
            continue
        total = int(kv["total"])
        if mode == "push" and (kv.get("rc") != "0" or kv.get("bad") != "0" or int(kv["used"]) != n):
            viol.append((s, 1, "push idiom: src_process rc=%s contract-flag=%s used %s of %d" % (kv.get("rc"), kv.get("bad"), kv.get("used"), n))); continue
        if mode == "pull" and (int(kv["last"]) != 0 or total < 0):
            viol.append((s, 1, "pull idiom: src_callback_read returned %s (more than asked / negative)" % kv["last"])); continue
        if total not in want:
            what = ("src_callback_read returned 0 (finished) after %d frames" if mode == "pull" else "src_process stopped generating after %d frames") % total
            viol.append((s, 1, "%s idiom: %s for %d input frames at ratio %r, converter id %d, %s, expected %s" % (
                mode, what, n, r, cid, ("callback blocks of %d, reads of %d" % (a, b)) if mode == "pull" else ("input blocks of %d, room for %d" % (a, b)), sorted(want))))
    ctx.count("idiom_streams_checked", nchk)
    return len(seqs)


# ------------------------------------------------------------------ helpers (array conversion functions)

def helper_cases(ctx):
    rng = ctx.rng
    cases = []
    shorts = G.pool_i16()
    for i in range(0, len(shorts), 4096):
        cases.append(G.Case("lsr-s2f", len(shorts[i:i + 4096]), 1, 0, 0, shorts[i:i + 4096], "i16", "helper"))
    ints = G.pool_i32() + [rng.next() & 0xffffffff for _ in range(2000)] + [(1 << 24) + d & 0xffffffff for d in range(-4, 5)] + \
        [(-(1 << 24) + d) & 0xffffffff for d in range(-4, 5)]
    cases.append(G.Case("lsr-i2f", len(ints), 1, 0, 0, ints, "i32", "helper"))
    for kern, j in (("lsr-f2s", -15), ("lsr-f2i", -31)):
        pool = G.pool_f32(j) + G.pool_f32()
        # ties and saturation boundaries of the scaled value, as float32 patterns
        extra = []
        n = 1 << (-j)
        for v in list(range(-6, 7)) + [n - 3, n - 2, n - 1, n, -n, -n + 1, -n - 1, n // 2, 12345]:
            for fr in (0, .5, -.5, .25, -.25, .75):
                x = (v + fr) / n
                b = G.f32b(x)
                extra += [b, (b + 1) & 0xffffffff, (b - 1) & 0xffffffff]
        rnd = [rng.next() & 0xffffffff for _ in range(3000 if ctx.quick else 40000)]
        allp = pool + extra + rnd
        for i in range(0, len(allp), 4096):
            cases.append(G.Case(kern, len(allp[i:i + 4096]), 1, 0, 0, allp[i:i + 4096], "f32", "helper"))
    return cases


def helper_oracle(case, outs):
    """exact-rational oracle of the property: nearest (ties even) and saturating; short -> float exact."""
    fails = []
    k = case.kern
    for idx, (b, o) in enumerate(zip(case.pats, outs)):
        if k in ("lsr-s2f", "lsr-i2f"):
            v = G.signed("i16" if k == "lsr-s2f" else "i32", b)
            want = Fraction(v, 32768 if k == "lsr-s2f" else 1 << 31)
            got = G.decode("f32", o)
            if k == "lsr-s2f" or abs(v) < (1 << 24):
                if got[0] != "fin" or got[1] != want:
                    fails.append("%d: %s(%d) is not exact" % (idx, k, v))
            else:
                if got[0] != "fin" or abs(got[1] - want) > abs(want) * Fraction(1, 1 << 24):
                    fails.append("%d: %s(%d) is not within half an ulp" % (idx, k, v))
        else:
            n = 32768 if k == "lsr-f2s" else 1 << 31
            typ = "i16" if k == "lsr-f2s" else "i32"
            v = G.decode("f32", b)
            got = G.signed(typ, o)
            if v[0] == "nan":
                continue            # NaN: no number to be near to; the model pins what the code does
            if v[0] == "inf":
                want = -n if v[1] else n - 1
            else:
                x = v[1] * n
                want = max(-n, min(n - 1, G.rhe(x)))
            if got != want:
                fails.append("%d: %s(0x%08x) = %d, nearest/saturated is %d" % (idx, k, b, got, want))
        if len(fails) > 3:
            break
    return fails


def helpers(ctx, viol_h):
    exe = common.build_harness("conv", ["conv/conv.c"], variant="rel")
    cases = helper_cases(ctx)
    lines = [c.line() for c in cases]
    impl = G.run_lines(exe, lines)
    model = G.run_lines(G.MODEL, lines) if G.model_available() else None
    nsamp = 0
    for i, c in enumerate(cases):
        nsamp += len(c.pats)
        ctx.hist("helper_kernel", c.kern)
        p = G.parse_out(impl[i])
        if p is None:
            viol_h.append((c, "helper crashed / printed nothing: " + impl[i][:200], None)); continue
        f = helper_oracle(c, p[0])
        if f:
            viol_h.append((c, "; ".join(f[:3]), int(f[0].split(":")[0])))
        elif model is not None and model[i] != impl[i]:
            viol_h.append((c, "helper: implementation and model print different lines", None))
    # short -> float -> short round trip on the real code (two calls chained through the harness output)
    shorts = G.pool_i16()
    a = G.run_lines(exe, [G.Case("lsr-s2f", len(shorts), 1, 0, 0, shorts, "i16", "rt").line()])[0]
    pa = G.parse_out(a)
    if pa:
        b = G.run_lines(exe, [G.Case("lsr-f2s", len(shorts), 1, 0, 0, pa[0], "f32", "rt").line()])[0]
        pb = G.parse_out(b)
        if not pb or pb[0] != shorts:
            bad = next((i for i, (x, y) in enumerate(zip(pb[0] if pb else [], shorts)) if x != y), 0)
            viol_h.append((G.Case("lsr-s2f", 1, 1, 0, 0, [shorts[bad]], "i16", "rt"), "short -> float -> short is not the identity at %d" % G.signed("i16", shorts[bad]), 0))
        ctx.count("short_roundtrips", len(shorts))
    ctx.count("helper_samples", nsamp)
    ctx.cov["helper_model_compared"] = model is not None
    if not ctx.quick:
        nsamp += helpers_thorough(ctx, exe, viol_h)
    return nsamp


def helpers_thorough(ctx, exe, viol_h):
    """(a) 2^23 float32 patterns per float->integer helper, stratified over the whole pattern space, through model and
    implementation (hash per 8192-sample call); (b) all 2^32 patterns through the real helpers on the C side against an
    SSE-computed oracle (nearest even + clamp) with a monotonicity check."""
    rng = ctx.rng
    per, total = 8192, 1 << 23
    lines, meta = [], []
    for kern in ("lsr-f2s", "lsr-f2i"):
        stride = ((1 << 32) // total) | 1
        off = rng.next() & 0xffffffff
        for k in range(total // per):
            first = (off + k * per * stride) & 0xffffffff
            lines.append("convr %s %d 1 0 0 %x %x" % (kern, per, first, stride))
            meta.append((kern, first, stride))
    a = G.run_lines(exe, lines, jobs=common.NCPU)
    b = G.run_lines(G.MODEL, lines, jobs=common.NCPU) if G.model_available() else a
    for i in [i for i in range(len(lines)) if a[i] != b[i]][:2]:
        kern, first, stride = meta[i]
        c = G.Case(kern, per, 1, 0, 0, [(first + k * stride) & 0xffffffff for k in range(per)], "f32", "range")
        viol_h.append((c, "stratified range: implementation and model differ", None))
    parts = 64
    sw = ["sweep %s %x %d 0" % (kern, k * ((1 << 32) // parts), (1 << 32) // parts) for kern in ("lsr-f2s", "lsr-f2i") for k in range(parts)]
    res = G.run_lines(exe, sw, jobs=min(len(sw), common.NCPU * 2))
    tot = {"bad": 0, "nonmono": 0, "count": 0}
    for l, r in zip(sw, res):
        if not r.startswith("SWEEP"):
            rc, out, err = G._run([exe], l + "\n")
            detail = [o for o in out if not o.startswith("SWEEP")][:3]
            pat = 0
            for o in detail:
                for tok in o.split():
                    if tok.startswith(("pattern=", "first=")):
                        pat = int(tok.split("=")[1], 16)
            viol_h.append((G.Case(l.split()[1], 1, 1, 0, 0, [pat], "f32", "sweep"), "exhaustive float32 sweep: " + " | ".join(detail)[:500], 0))
            r = out[-1] if out else ""
        kv = dict(x.split("=") for x in r.split()[2:] if "=" in x)
        for k in tot:
            tot[k] += int(kv.get(k, 0))
    ctx.cov["helpers_exhaustive_float32_sweep"] = tot
    ctx.count("helper_range_samples", 2 * total)
    return 2 * total + tot["count"]


# ------------------------------------------------------------------ the check

def run(ctx):
    broken = common.proof_stage(ctx, ["SoxrModel.Properties.C19"], "C19", exes=("soxr_lsr", "soxr_conv"), gens=("Lsr", "Conv"))
    ctx.assume(
        "engine laws taken as hypotheses of the contract theorems: E2 `resampler_output` hands over at most what was asked "
        "(proved for the API/engine models in lean/SoxrModel/Fifo/FootprintLemmas.lean and lean/SoxrModel/Cr, checked here on "
        "every recorded engine answer), exact drain / progress after end of input (C03, C08) for the totals clause",
        "arguments in contract for the no-crash clause: src_ratio finite and > 0, input_frames >= 0, output_frames >= 0, channels > 0, "
        "buffers non-NULL unless the op is the NULL test itself; out-of-contract classes (src_ratio <= 0 / NaN / inf, negative "
        "input_frames) are modelled as written (some crash: the model predicts the crash) but are outside the property",
        "one thread (SOXR_LSR_NUM_THREADS unset), SOXR_LSR_STRICT unset; allocations succeed (C20)",
        "lrint / fistp round half to even in the default rounding mode; x87 invalid flag clear on entry of the float->integer helpers",
        "src_simple runs on an internal object whose engine boundary cannot be observed: its engine answers are inferred from its result",
    )
    exe = common.build_harness("lsr", ["lsr/lsr.c"], variant="san")
    if getattr(ctx, "replay", None):
        return replay(ctx, exe)

    global RESET_IDS
    RESET_IDS = reset_on_clear_ids()
    ctx.cov["reset_on_clear_converter_ids"] = sorted(RESET_IDS)
    t0 = time.time()
    seqs = gen_sequences(ctx)
    corpus = os.path.join(common.VERIF, "corpus", "C19")
    if os.path.isdir(corpus):
        for f in sorted(os.listdir(corpus)):
            if f.endswith(".seq"):
                s = Seq("corpus-" + f[:-4], "corpus")
                s.ops = [l.strip() for l in open(os.path.join(corpus, f)) if l.strip() and not l.startswith(("seq", "end", "#"))]
                seqs.insert(0, s)
    res, stderr = run_harness(exe, seqs)
    ctx.cov["impl_s"] = round(time.time() - t0, 1)
    missing = [s.label for s in seqs if s.label not in res]
    viol = []            # (seq, op index, what)
    known = {}
    if missing:
        viol.append((seqs[0], 0, "harness produced no result for sequences " + ", ".join(missing[:5])))

    # ---------- correspondence with the compiled model
    t0 = time.time()
    nlines = nmis = 0
    if os.path.exists(MODEL):
        text, expect, index = model_lines(seqs, res)
        got, err = run_model(text)
        if len(got) != len(expect):
            viol.append((seqs[0], 0, "model printed %d lines for %d ops: %s" % (len(got), len(expect), err[-300:])))
        seen = set()
        for (s, k), e, g in zip(index, expect, got):
            if k < 0:
                continue
            nlines += 1
            if e != g and s.label not in seen:
                seen.add(s.label); nmis += 1
                viol.append((s, k, "correspondence: real code `%s` vs model `%s` at op `%s`" % (e[:300], g[:300], s.ops[k])))
    else:
        broken.append("model executable soxr_lsr is not available (lake build failed)")
    ctx.cov["model_s"] = round(time.time() - t0, 1)
    ctx.count("correspondence_ops", nlines)
    ctx.count("correspondence_mismatching_sequences", nmis)

    # ---------- E2 on every recorded engine answer; event statistics
    nev = 0
    for s in seqs:
        for k, (ev, r, st) in enumerate(res.get(s.label, ([], ""))[0]):
            want = None
            for e in ev:
                nev += 1
                p = e.split(":")
                ctx.hist("event_kind", p[0])
                if p[0] == "pr":
                    want = int(p[1])
                elif p[0] == "out" and want is not None and int(p[1]) > want:
                    viol.append((s, k, "engine law E2 broken: resampler_output handed over %s frames for a request of %d" % (p[1], want)))
    ctx.count("engine_events", nev)

    # ---------- falsifier
    stats = falsify(ctx, seqs, res, viol, known)
    ctx.cov["falsifier"] = stats
    failed_create_regression(seqs, res, viol, known)
    reset_equals_fresh(ctx, exe, viol, known)
    nidiom = idiom_streams(ctx, exe, viol)
    # sanitizer reports: the NULL dereferences are the crashes the model predicts (compared op by op above); anything else
    # (heap overflow of a caller buffer = contract broken, other undefined behaviour) is a violation
    for e in stderr:
        lines = [l for l in e.splitlines() if ("runtime error" in l and "null pointer" not in l) or
                 ("ERROR: AddressSanitizer" in l and "SEGV" not in l)]
        if lines:
            viol.append((seqs[0], 0, "sanitizer report while running the sequences: " + " / ".join(lines[:3])[:600]))
            break
    viol_h = []
    nh = helpers(ctx, viol_h)

    # ---------- evidence
    kinds = {}
    nops = 0
    distinct = set()
    for s in seqs:
        kinds[s.kind] = kinds.get(s.kind, 0) + 1
        nops += len(s.ops)
        for op in s.ops:
            t = op.split()
            ctx.hist("op", t[0])
            distinct.add(op)
            if t[0] == "process":
                ctx.hist("converter_ratio_class", "invalid" if not bitsd(int(t[1], 16)) > 0 else "down" if bitsd(int(t[1], 16)) < 1 else "up")
                ctx.hist("block_in", min(int(t[2]), 5000) // 500 * 500 if int(t[2]) >= 0 else -1)
            if t[0] in ("new", "cbnew"):
                ctx.hist("converter_id", t[1]); ctx.hist("channels", t[2])
    ctx.cov["sequence_kinds"] = kinds
    ctx.count("evaluations", nops + nh + nidiom)
    ctx.count("distinct_nontrivial", len(distinct))
    ctx.cov["rule"] = ("op sequences: src_new/src_callback_new (ids 0..5, 1..4 channels), runs of src_process with block sizes from "
                       "{0,1,2,3,7,16,…,4097} in and out, end_of_input from a random call on, drains, per-call ratio changes in a "
                       "quarter of the runs, ratios near-equal within 1e-16…1e-12 (the 1e-15 acceptance test), src_reset / src_set_ratio / "
                       "src_error / delete+new in between; pull sequences with scripted callback supplies (0, short, large, NULL); a "
                       "malformed stream (NULL converter/data/buffers, negative lengths, ratios 0, -0, -1, NaN, +-inf); fixed witness "
                       "sequences; helpers: every short, int boundaries, stratified float32 patterns incl. ties/NaN/Inf; "
                       "distinct_nontrivial = distinct op lines")
    for s in seqs[:2] + [x for x in seqs if x.kind == "pull"][:1] + [x for x in seqs if x.kind == "push"][:2]:
        ctx.sample({"label": s.label, "ops": s.ops[:6]})

    # ---------- known findings / verdicts
    active = {f.get("id"): f for f in common.known_active(PID)} if hasattr(common, "known_active") else {}
    for fid in sorted(known):
        what = {"F31": "src_reset on converter ids 3/4 (RESET_ON_CLEAR) re-creates the engine at the OLD ratio; a different src_ratio afterwards is refused and the refusal is lost in soxr_set_error: totals follow the old ratio",
                "F32": "src_error(NULL) dereferences the NULL converter (crash instead of an error code)",
                "F40": "a call with valid arguments crashes after an earlier error on the converter (src_reset / soxr_clear revived an object torn down by a failed resampler_create / initialise)",
                "F33": "src_simple reports non-zero (uninitialised) counts when soxr_create fails (src_ratio <= 0 or NaN)"}[fid]
        if fid in active:
            ctx.known(fid, what)
        else:
            viol.insert(0, (known[fid][0], known[fid][1], "%s (finding %s, recorded as fixed in known_findings.d/conv.json, is back)" % (what, fid)))
    nrep = 0
    seen = set()
    for s, k, what in viol:
        key = (s.kind, what.split(":")[0][:40])
        if key in seen or nrep >= 6:
            continue
        seen.add(key); nrep += 1
        small = shrink(exe, s, k, what)
        ctx.violation("%s [sequence %s, op %d]" % (what[:600], s.label, k),
                      {"sequence": small.text(), "failing_op_index": k, "how_to_replay": "printf '<sequence>' | %s   (model: append ` | <tokens>` per op, pipe into %s)" % (exe, MODEL)},
                      no_input=what.startswith("correspondence") and not any(w for (s2, k2, w) in viol if s2 is s and not w.startswith("correspondence")))
    for c, what, idx in viol_h[:4]:
        ctx.violation("helper %s: %s" % (c.kern, what[:500]), dict(c.replay(), mechanism="helper"))
    ctx.cov["violating"] = len(viol) + len(viol_h)
    if broken and not (viol or viol_h):
        ctx.violation("proof stage broken and no failing input found: " + "; ".join(broken)[:1500], {"broken": broken}, no_input=True)
    elif broken:
        ctx.notes.append("proof stage broken: " + "; ".join(broken)[:1500])
    if not ctx.quick:
        ok, out = common.leanchecker("SoxrModel.Properties.C19")
        ctx.cov["leanchecker"] = "ok" if ok else out[-500:]


def shrink(exe, s, k, what):
    """keeps the ops up to the failing one (the state machine's history matters); drops trailing ops."""
    t = Seq(s.label, s.kind)
    t.ops = s.ops[:k + 1]
    return t


def replay(ctx, exe):
    d = json.load(open(ctx.replay))
    rep = d.get("replay") or {}
    text = rep.get("sequence")
    if not text:
        ctx.notes.append("replay file has no sequence"); return
    s = Seq("replay", "replay")
    s.ops = [l for l in text.splitlines() if l and not l.startswith(("seq", "end"))]
    res, stderr = run_harness(exe, [s], jobs=1)
    textm, expect, index = model_lines([s], res)
    got, _ = run_model(textm) if os.path.exists(MODEL) else ([], "")
    viol, known = [], {}
    falsify(ctx, [s], res, viol, known)
    viol += [(s, k, "finding %s" % f) for f, (_, k) in known.items()]
    for e, g in zip(expect, got):
        print("real : " + e[:300]); print("model: " + g[:300])
    ctx.count("evaluations", len(s.ops)); ctx.count("distinct_nontrivial", len(set(s.ops))); ctx.cov["rule"] = "replay of one stored sequence"
    ctx.sample({"ops": s.ops[:8]})
    mism = [i for i, (e, g) in enumerate(zip(expect, got)) if e != g]
    if viol or mism:
        ctx.violation("replayed sequence still fails: " + (viol[0][2] if viol else "model and real code differ at op %d" % (mism[0] - 1)), {"sequence": s.text()})
