"""Shared by the constant-rate checks (C03 C04 C05 C08 C15 C18 C10 …): configuration and schedule generators,
running the trace harness on the real code, feeding the same operations to the Lean driver, diffing."""
import math, os, subprocess, struct, time
from fractions import Fraction
from concurrent.futures import ThreadPoolExecutor
from vlib import common

AUDIO = [8000, 11025, 16000, 22050, 32000, 44100, 48000, 88200, 96000, 176400, 192000]
SMALL = [1, 2, 3, 4, 5, 6, 7, 8, 9, 10, 12, 15, 16, 20, 25, 32, 64, 100, 128, 147, 160, 256, 1000]
ODD = [65537, 44101, 47999, 12345, 3.14159, 2.71828, 1.41421356, 1.0001, 0.99999, 1.5000001, 7.999]

SOXR_VR = 32   # see soxr.h
Q_FLAGS = {"ROLLOFF_SMALL": 0, "ROLLOFF_MEDIUM": 1, "ROLLOFF_NONE": 2, "HI_PREC_CLOCK": 8, "DOUBLE_PRECISION": 16, "VR": 32}


def gen_rates(rng, max_up=300.0, max_down=3000.0):
    """(irate, orate) covering the planner's paths: small integers, audio pairs, coprime L/M, powers of two,
    near-rationals, irrationals, ratios straddling the planner thresholds."""
    for _ in range(100):
        c = rng.below(10)
        if c == 0:
            ir, orr = rng.choice(AUDIO), rng.choice(AUDIO)
        elif c == 1:
            ir, orr = rng.choice(SMALL), rng.choice(SMALL)
        elif c == 2:
            ir, orr = rng.choice(AUDIO + SMALL), rng.choice(ODD)
            if rng.chance(.5):
                ir, orr = orr, ir
        elif c == 3:
            k = 1 << rng.below(9)
            ir, orr = (1, k) if rng.chance(.5) else (k, 1)
        elif c == 4:   # straddle planner thresholds of io_ratio
            t = rng.choice([1.5, 2, 3, 4, 5, 6, 7, 8, 12, 16, 32, 64, 128, 256, 512, 1024, 2048])
            # ... down to fractions of one unit of the 32.32 clock (2^-32 = 2.3e-10): where the planner's rounding decides
            eps = rng.choice([0, 1e-9, -1e-9, 1e-5, -1e-5, 1e-3, -1e-3, 1e-10, -1e-10, 5e-11, -5e-11, 2e-11, -2e-11])
            ir, orr = (t * (1 + eps), 1) if rng.chance(.5) else (1, t * (1 + eps))
        elif c == 5:   # coprime L/M; a third of them around the planner's limit for an exact poly-phase table (L <= 2048, table size vs coef_size_kbytes)
            hi = 400 if rng.chance(.65) else 4500
            a, b = 1 + rng.below(hi), 1 + rng.below(hi)
            ir, orr = a, b
        elif c == 6:   # near-rational
            p, q = 1 + rng.below(20), 1 + rng.below(20)
            ir, orr = p * (1 + rng.choice([1, -1]) * 2.0 ** -rng.choice([10, 20, 30, 40])), q
        elif c == 7:
            ir, orr = rng.uniform(.2, 50), rng.uniform(.2, 50)
        elif c == 8:
            ir, orr = rng.choice(AUDIO), rng.choice(AUDIO) + rng.choice([1, -1, 7])
        else:
            ir, orr = rng.choice([44100, 48000]), rng.choice([44100, 48000, 96000, 22050, 8000])
        if ir <= 0 or orr <= 0:
            continue
        if orr / ir > max_up or ir / orr > max_down:
            continue
        return ir, orr
    return 44100, 48000


def small_ratio_grid(n=12):
    """every reduced ratio a:b with 1 <= a, b <= n (a != b): the small-integer ratios, each of which the planner treats in its own way
    (which stage carries which factor, time- or frequency-domain rate change, decimation by 2 or by 4 inside a dft stage ...)"""
    return [(a, b) for a in range(1, n + 1) for b in range(1, n + 1) if a != b and math.gcd(a, b) == 1]


def gen_config(rng, allow_nonlinear=True, max_up=300.0, max_down=3000.0, datatypes=False, channels=False, rates=None):
    ir, orr = gen_rates(rng, max_up, max_down)
    if rates is not None:
        ir, orr = rates
    cfg = {"ir": repr(float(ir)) if isinstance(ir, float) else str(ir),
           "or": repr(float(orr)) if isinstance(orr, float) else str(orr)}
    recipe = rng.choice([0, 1, 2, 3, 4, 4, 5, 6, 6, 7, 8, 9, 10])      # QQ…32-bit, LSR0-2 (8,9,10)
    if rng.chance(.15):
        recipe |= 0x40                                                # steep filter
    qflags = rng.choice([0, 0, 0, 1, 2, 8, 8, 16, 16 | 8])
    cfg["recipe"] = recipe
    cfg["qflags"] = qflags
    if allow_nonlinear and rng.chance(.25):
        cfg["phase"] = rng.choice([0, 10, 25, 45, 55, 75, 100])
    if rng.chance(.12):
        cfg["prec"] = rng.choice([15, 16, 17.5, 20, 20.5, 24, 28, 32, 33])
    if rng.chance(.3):
        cfg["min"] = 8 + rng.below(8)
        cfg["large"] = 8 + rng.below(13)      # the whole documented range 8..20 (F5, which broke <= 12 with SIMD up-sampling, is repaired)
        cfg["kb"] = 100 + rng.below(701)
    if rng.chance(.2):
        cfg["rtflags"] = rng.choice([0, 1, 2, 3, 8, 9])               # coefficient interpolation, NOSMALLINTOPT
    if datatypes:
        cfg["itype"] = rng.below(8)
        cfg["otype"] = rng.below(8)
        cfg["ioflags"] = 8       # SOXR_NO_DITHER: output is compared across schedules
        if rng.chance(.3):       # gain: integer outputs then saturate (clip-repair paths of rint-clip.h, clip counter)
            cfg["scale"] = rng.choice([1.5, 2.0, 1.3, 0.5])
    if channels:
        cfg["ch"] = 1 + rng.below(4)
    env = {}
    if rng.chance(.45):
        env["SOXR_USE_SIMD"] = "0"
    return cfg, env


def create_line(cfg):
    return "create " + " ".join("%s=%s" % kv for kv in cfg.items())


def io_ratio(cfg):
    return float(cfg["ir"]) / float(cfg["or"])


def exact_ratio(cfg):
    """orate/irate as an exact rational of the two doubles handed to soxr_create."""
    return Fraction(float(cfg["or"])) / Fraction(float(cfg["ir"]))


def parse_kv(line):
    d = {}
    for tok in line.split():
        if "=" in tok:
            k, v = tok.split("=", 1)
            d[k] = v
    return d


class Trace:
    """What the trace harness printed for one job."""

    def __init__(self, out, rc, err):
        self.rc, self.err = rc, err
        self.lines = out.splitlines()
        self.model_in = [l[2:] for l in self.lines if l.startswith("> ")]
        self.real_out = [l[2:] for l in self.lines if l.startswith("< ")]
        self.plan = [parse_kv(l) for l in self.lines if l.startswith("P stage=")]
        self.hashes = [l for l in self.lines if l.startswith("H ")]
        self.delays = [parse_kv(l) for l in self.lines if l.startswith("D ")]
        self.created = any(l.startswith("< CREATE ok") for l in self.lines)
        self.create_line = next((l for l in self.lines if l.startswith("< CREATE")), "")
        self.engine = parse_kv(self.create_line).get("engine", "")
        self.results = [parse_kv(l) for l in self.real_out if l.startswith("R ")]


def run_trace(exe, ops, env=None, timeout=120):
    e = dict(os.environ)
    e.pop("SOXR_USE_SIMD", None); e.pop("SOXR_USE_SIMD32", None); e.pop("SOXR_USE_SIMD64", None)
    e["ASAN_OPTIONS"] = "detect_leaks=0:abort_on_error=0:exitcode=99"
    e["UBSAN_OPTIONS"] = "halt_on_error=1:exitcode=98:print_stacktrace=1"
    e.update(env or {})
    try:
        p = subprocess.run([exe], input="\n".join(ops) + "\n", stdout=subprocess.PIPE, stderr=subprocess.PIPE,
                           universal_newlines=True, timeout=timeout, env=e)
        return Trace(p.stdout, p.returncode, p.stderr[-4000:])
    except subprocess.TimeoutExpired as ex:
        out = ex.stdout or ""
        if isinstance(out, bytes):
            out = out.decode(errors="replace")
        return Trace(out, "timeout", "timeout after %ss" % timeout)


def run_model(lines, area="cr", timeout=300):
    p = subprocess.run([common.model_exe(), area], input="\n".join(lines) + "\n", stdout=subprocess.PIPE,
                       stderr=subprocess.PIPE, universal_newlines=True, timeout=timeout)
    return p.stdout.splitlines()


def diff_model(trace):
    """Feed the real run's operations to the Lean driver; returns None when every line agrees, else
    (index, op, real, model)."""
    model = run_model(trace.model_in)
    real = trace.real_out
    # real_out contains CREATE lines the model does not answer; drop them
    real = [l for l in real if not l.startswith("CREATE")]
    n = min(len(real), len(model))
    for i in range(n):
        if real[i] != model[i]:
            op = trace.model_in[i] if i < len(trace.model_in) else "?"
            return (i, "op#%d" % i, real[i], model[i])
    if len(real) != len(model):
        return (n, "length", "real has %d answer lines" % len(real), "model has %d" % len(model))
    return None


def signals_end(t):
    """does this `> cr.proc hasIn flushReq useIdone ilen olen` line (split into tokens) tell the library that the input has ended?
    in == NULL, or the ~ilen mark on a block that is taken whole (empty, or offered without the idone clamp)"""
    return t[2] != "1" or (t[3] == "1" and (t[5] == "0" or t[4] == "0"))


def marked_whole(t, r):
    """a marked block (`~ilen`) offered WITH an idone pointer ends the input only if the call took all of it (soxr.h: idone says how
    much was accepted; what was not accepted has not been supplied yet).  t: tokens of the `> cr.proc` line, r: its `< R` answer"""
    return bool(t) and t[2] == "1" and t[3] == "1" and t[4] == "1" and "id" in r and int(r["id"]) == int(t[5])


def block_sizes(plan):
    """Internal block lengths of an exported plan, for schedule sizes around them."""
    bs = set()
    for s in plan:
        for k in ("isz", "blockLen", "dftLen", "prePost", "preload"):
            v = int(s.get(k, 0) or 0)
            if 0 < v < 200000:
                bs.add(v)
    return sorted(bs)


def gen_sizes(rng, plan, small=False):
    sizes = [0, 1, 2, 3, 7, 64, 100, 1000]
    for b in block_sizes(plan):
        sizes += [max(b - 1, 0), b, b + 1]
    sizes += [4095, 4096, 4097, 8191, 8192, 8193, 16384 // 8 - 1, 16384 // 8, 16384 // 8 + 1, 16384 // 4, 16384 // 4 + 1]
    if not small:
        sizes += [20000, 50000]
    return sizes


def gen_push_schedule(rng, plan, N, ratio, max_calls=400, with_delay=True, sizes=None):
    """Random push schedule feeding exactly N frames then draining.  Returns op lines."""
    sizes = sizes or gen_sizes(rng, plan)
    style = rng.below(4)
    cap = [10 ** 9, 50, 3000, 10 ** 9][style]
    ops, fed, calls, flushed = [], 0, 0, False
    est_out = int(N / ratio) + 10

    def size():
        s = rng.choice(sizes) if rng.chance(.6) else rng.below(2000)
        return min(s, cap)
    while calls < max_calls:
        calls += 1
        if fed < N:
            il = min(size(), N - fed)
            if calls > max_calls * 0.6:
                il = N - fed
            ol = size()
            use = 1 if rng.chance(.5) else 0
            # with idone the library may take fewer than il; the harness advances by what was taken.
            ops.append(("proc", 1, 0, use, il, ol))
            if with_delay and rng.chance(.3):
                ops.append(("delay",))
            fed += il if not use else min(il, math.ceil(ol * ratio))
        else:
            break
    return ops, fed


def flush_ops(rng, plan, est_out, sizes=None, with_delay=True, max_calls=200):
    """Drain: end-of-input signalled, then requests until two empty answers."""
    sizes = sizes or gen_sizes(rng, plan)
    ops = []
    big = est_out + 10
    style = rng.below(3)
    remaining = est_out + 5
    calls = 0
    while remaining > 0 and calls < max_calls:
        calls += 1
        if style == 0 or calls > max_calls * 0.7:
            ol = big
        elif style == 1:
            ol = max(1, rng.choice(sizes))
        else:
            ol = 1 + rng.below(500)
        ops.append(("proc", 0, 0, 0, 0, ol))
        if with_delay and rng.chance(.3):
            ops.append(("delay",))
        remaining -= ol
    ops.append(("proc", 0, 0, 0, 0, big))
    ops.append(("proc", 0, 0, 0, 0, 17))
    ops.append(("delay",))
    return ops


def op_line(op):
    return " ".join(str(x) for x in op)


def owed_exact(N, cfg):
    """round(N*orate/irate) on the exact rationals of the two doubles; returns (value, near_tie)."""
    x = N * exact_ratio(cfg)
    fl = math.floor(x + Fraction(1, 2))
    frac = x - math.floor(x)
    near = abs(frac - Fraction(1, 2)) < Fraction(1, 2 ** 30)
    return fl, near


def ceil_exact(N, cfg):
    x = N * exact_ratio(cfg)
    return math.ceil(x), abs(x - round(x)) < Fraction(1, 2 ** 30)


def bits_to_double(u):
    return struct.unpack("<d", struct.pack("<Q", int(u)))[0]


def pmap(fn, items, workers=None):
    with ThreadPoolExecutor(workers or common.NCPU) as ex:
        return list(ex.map(fn, items))


def is_pow2(x):
    return x >= 2 and (x & (x - 1)) == 0


def classify_known(plan, cfg):
    """Known-finding signatures that this (exported plan, configuration) matches — predicates over the plan, not
    over the symptom, so that a different violation of the same property is still reported."""
    hits = []
    for s in plan:
        L = int(s.get("L", 1) or 1)
        if s.get("kind") == "dft" and is_pow2(L) and int(s.get("blockLen", 0)) % L != 0:
            hits.append("F1")      # F-domain up-sampling stage whose block length is not a multiple of L (non-linear phase only)
        if s.get("kind") == "cubic" and int(s.get("prePost", 0)) >= int(s.get("isz", 1)):
            hits.append("F3")      # cubic stage that can never advance
    return hits


def plan_sig(tr):
    return "|".join("%s:%s:%s" % (s["kind"], s.get("L"), s.get("M")) for s in tr.plan) + "|" + tr.engine


def sweep(ctx, pid, exe, jobs, make_ops, oracle, timeout=None, extra_known=None, crash_is_violation=True):
    """Runs every job on the real code (trace harness), replays its operations through the Lean count model and
    evaluates the property's oracle on the real answers.  Records coverage, known-finding hits and violations.
    make_ops(job, plan) -> op lines (first must be the create line); oracle(job, trace) -> (bad list, info dict).
    Returns the list of (job, ops, trace, bad, info)."""
    known = {f["id"]: f for f in common.known_active(pid)}
    timeout = timeout or (40 if ctx.quick else 300)

    def work(job):
        tr0 = run_trace(exe, [create_line(job["cfg"])], job["env"], timeout=120)
        if not tr0.created:
            return job, None, None, ([], {}), tr0
        ops = make_ops(job, tr0.plan)
        tr = run_trace(exe, ops, job["env"], timeout=timeout)
        d = None
        if tr.rc == 0:
            d = diff_model(tr)
            bad, info = oracle(job, tr)
        elif tr.rc == "timeout":
            bad, info = [("hang", "no answer within %ds; last op: %s" % (timeout, (tr.model_in or ["?"])[-1][:200]))], {}
        else:
            bad, info = [("crash", "harness exit %s: %s" % (tr.rc, tr.err[-800:]))], {}
        return job, ops, d, (bad, info), tr

    results = pmap(work, jobs)
    distinct = set()
    out = []
    searched = [0]
    for job, ops, d, (bad, info), tr in results:
        ctx.count("evaluations")
        if ops is None:
            ctx.count("rejected_configs")
            if tr.rc != 0:
                bad = [("create", "soxr_create did not return normally: %s %s" % (tr.rc, tr.err[-500:]))]
                kn = (extra_known(job, tr) if extra_known else [])
                hit = [k for k in kn if k in known]
                if hit:
                    ctx.known(hit[0], known[hit[0]]["what"]); ctx.count("known_finding_hits")
                else:
                    ctx.violation("%s: %s (%s)" % (pid, bad[0][1], create_line(job["cfg"])), {"cfg": job["cfg"], "env": job["env"], "oracle": bad})
            continue
        distinct.add((plan_sig(tr), job.get("N", 0) > 0, job.get("style", "")))
        ctx.hist("dist_engine", tr.engine)
        ctx.hist("dist_stages", "+".join(s["kind"] for s in tr.plan) or "none")
        ctx.count("api_calls_compared", len(tr.results))
        tr.diff = d
        out.append((job, ops, tr, bad, info))
        if d or bad:
            kn = classify_known(tr.plan, job["cfg"]) + (extra_known(job, tr) if extra_known else [])
            hit = [k for k in kn if k in known]
            rep = {"cfg": job["cfg"], "env": job["env"], "N": job.get("N"), "ops": ops, "plan": tr.plan}
            if hit:
                ctx.known(hit[0], known[hit[0]]["what"])
                ctx.count("known_finding_hits")
                continue
            if bad:
                rep["oracle"] = bad
                ctx.violation("%s fails on the real code: %s (%s %s)" % (pid, bad[0][1], create_line(job["cfg"]), job["env"]), rep)
            else:
                rep["correspondence"] = {"at": d[1], "real": d[2], "model": d[3]}
                # model and code disagree on this configuration but the property's own oracle was satisfied on this stream: search the
                # configuration (other stream lengths and schedules) for an input on which the property itself fails
                found = None
                if searched[0] < 4:
                    searched[0] += 1
                    found = find_input(exe, job, make_ops, oracle)
                if found:
                    j2, ops2, bad2 = found
                    ctx.violation("%s fails on the real code: %s (%s %s) - found by searching the configuration on which the Lean count model and the real "
                                  "code disagree (at %s)" % (pid, bad2[0][1], create_line(j2["cfg"]), j2["env"], d[1]),
                                  {"cfg": j2["cfg"], "env": j2["env"], "N": j2.get("N"), "ops": ops2, "oracle": bad2, "correspondence": rep["correspondence"]})
                    continue
                ctx.violation("correspondence broken (Lean count model vs real code) at %s:\n real : %s\n model: %s\n (%s)" % (
                    d[1], d[2][:400], d[3][:400], create_line(job["cfg"])), rep, no_input=True)
        else:
            ctx.sample({"create": create_line(job["cfg"]), "env": job["env"], "N": job.get("N"), "calls": len(tr.results),
                        "stages": [s["kind"] for s in tr.plan], "info": info})
    ctx.cov["distinct_nontrivial"] = ctx.cov.get("distinct_nontrivial", 0) + len(distinct)
    ctx.cov["traces_validated_against_impl"] = ctx.cov.get("traces_validated_against_impl", 0) + len(out)
    return out


def find_input(exe, job, make_ops, oracle, tries=8):
    """other stream lengths / schedules of one configuration through the property's oracle; -> (job, ops, bad) or None"""
    rng = common.Rng((job.get("seed", 1) ^ 0x5eed) & 0xffffffff)
    ratio = io_ratio(job["cfg"])
    for _ in range(tries):
        n = rng.choice([0, 1, 1000, 5000, 20000, 60000])
        j2 = dict(job, N=min(n, int(2e5 * ratio) + 3), seed=rng.next() & 0xffffffff)
        tr0 = run_trace(exe, [create_line(j2["cfg"])], j2["env"], timeout=120)
        if not tr0.created:
            return None
        try:
            ops = make_ops(j2, tr0.plan)
        except Exception:
            return None
        tr = run_trace(exe, ops, j2["env"], timeout=120)
        if tr.rc == 0:
            bad, _ = oracle(j2, tr)
        elif tr.rc == "timeout":
            bad = [("hang", "no answer within 120 s")]
        else:
            bad = [("crash", "harness exit %s: %s" % (tr.rc, tr.err[-400:]))]
        if bad:
            return j2, ops, bad
    return None


def report_broken(ctx, broken, searched):
    for b in broken:
        ctx.violation("proof obligation no longer checks: " + b, {"broken": b, "searched": searched}, no_input=True)


CR_ASSUME = [
    "configurations upstream of the stage plan are covered by sweep, not by proof (planner and filter design are floating point); "
    "each exported plan is checked against the decidable PlanWF the theorems assume",
    "N, olen < 2^31 (the C code casts to int)",
    "numeric kernels are abstract: deterministic functions of (window, phase)",
]


def find_eoi_overrun(exe, cfg, env, span=200):
    """search one configuration for a stream length at which the library has handed out more than round(N*orate/irate) frames before
    end-of-input is said (everything available is taken first, with generous room).  Returns {"what", "ops"} or None."""
    ratio = io_ratio(cfg)
    for N in range(1, span):
        est = int(N / ratio) + 50
        if est > 2000000:           # (huge up-sampling factors: keep the output buffers of the search small)
            break
        ops = [create_line(cfg), "limit %d" % N, "feed %d %d 0" % (N, est)]
        tr = run_trace(exe, ops, env, timeout=60)
        if tr.rc != 0 or not tr.results:
            continue
        got = sum(int(r.get("od", 0)) for r in tr.results if "od" in r)
        exp, near = owed_exact(N, cfg)
        if got > exp and not near:
            return {"what": "after %d input frames %d output frames have been delivered before end-of-input, the whole stream owes round(N*orate/irate) = %d" % (N, got, exp),
                    "ops": ops}
    return None

