"""C18 Input-function contract: bounded requests, no call after end or failure."""
from vlib import common
from checks import crcommon as cr

LEVEL = "proof"
PID = "C18"


def make_job(rng, idx, quick):
    # half the jobs with every datatype / layout (split or interleaved on each side) and 1-4 channels: what is delivered is then
    # also compared, byte for byte, with a one-shot run over exactly the frames that were supplied
    cfg, env = cr.gen_config(rng, allow_nonlinear=False, max_up=64, max_down=200, datatypes=rng.chance(.5), channels=rng.chance(.5))
    total = rng.choice([0, 5, 300, 5000, 40000]) if rng.chance(.6) else rng.below(30000)
    total = min(total, int(100000 * max(1.0, cr.io_ratio(cfg))), int(100000 * cr.io_ratio(cfg)) + 3)
    if rng.chance(.04):
        # soxr_runtime_spec(0): the channels of one call are processed by OpenMP threads - the pull loop then drives another body of
        # soxr_output_no_callback.  A few such jobs only, with a small team that sleeps while idle (DESIGN section 13: a spinning full-size
        # team in every job starves the machine).  Round 7, `C18-flush-hoisted-omp-path-missed`.
        cfg = dict(cfg); cfg["ch"] = 2 + rng.below(3); cfg["threads"] = 0
        env = dict(env, OMP_NUM_THREADS="4", OMP_WAIT_POLICY="PASSIVE")
    return {"cfg": cfg, "env": env, "N": total, "seed": rng.next() & 0xffffffff, "idx": idx,
            "style": rng.choice(["eof", "eof", "fail", "fail", "limit"]),
            "clear_first": rng.chance(.15)}


def job_ops(job, plan):
    rng = common.Rng(job["seed"])
    N = job["N"]
    maxilen = rng.choice([0, 1, 7, 64, 1000, 100000])
    mode = rng.below(3)
    toks = []
    supplied = 0
    # supply tokens until N frames (for style eof/fail the end token comes at a random call index)
    ncalls = rng.choice([0, 1, 2, 5, 9, 16, 29, 40, 200])
    lim = maxilen or 10 ** 9
    while supplied < N and (job["style"] == "limit" or len(toks) < ncalls):
        n = [10 ** 6, 1, 1 + rng.below(3000)][mode]
        n = min(n, N - supplied)
        toks.append("d%d" % n)
        supplied += min(n, lim)      # an upper bound; the harness clamps to the request
    end = {"eof": "e", "fail": "f", "limit": "e"}[job["style"]]
    if end == "f" and rng.chance(.4):
        # failure reported with a non-zero count (NULL data after a partial read): the NULL pointer is the signal, whatever the count
        # (round 7 of the seeded changes, `C18-failure-with-nonzero-count-not-recognised`)
        end = "F%d" % rng.choice([1, 1, 7, 100, 10 ** 6])
    toks.append(end)
    toks += ["d100"] * 3          # what a call after the end / failure would be given
    ops = [cr.create_line(job["cfg"])]
    if job["style"] == "limit":
        ops.append("limit %d" % N)
    ops.append("setfn %d" % maxilen)
    if job["clear_first"]:
        ops += ["clear"]       # soxr_clear keeps the input function (and must keep its max_ilen)
        if job["style"] == "limit":
            ops.append("limit %d" % N)
    ops.append("script " + " ".join(toks))
    est = int(N / cr.io_ratio(job["cfg"])) + 10
    ol = max(rng.choice([1, 5, 64, 1000, 4096, 20000, est]), est // 400 + 1)
    if maxilen and maxilen < 8:
        ol = max(ol, est // 40 + 1)
    for i in range(rng.choice([1, 3, 10, 40])):
        ops.append("pull %d" % max(1, rng.choice([ol, rng.below(ol + 1)])))
        if rng.chance(.12):      # the bound is changed mid-stream by registering the same function again (soxr.h: "may be called at any time")
            ops.append("setfn %d" % rng.choice([0, 1, 5, 16, 64, 1000]))
    for i in range(420):
        ops.append("pull %d" % ol)
    ops += ["pull 100", "pull 1", "hash"]
    job["maxilen"] = maxilen
    return ops


def expand(tokens):
    out = []
    for t in tokens:
        if "*" in t:
            a, n = t.split("*"); out += [a] * int(n)
        else:
            out.append(t)
    return out


def oracle(job, tr):
    bad = []
    maxilen = job.get("maxilen", 0)
    ended = failed = False
    short_seen = False
    supplied = 0
    out = 0
    err_reported = None
    for l in tr.lines:
        if l.startswith("> cr.setfn"):
            maxilen = int(l.split()[2])
        if l.startswith("> cr.pull"):
            t = l.split()
            olen = int(t[2])
            # tokens actually answered in this call = all but the two look-ahead ones
            cur = expand(t[3:])[:-2] if len(t) > 3 else []
        elif l.startswith("< R "):
            r = cr.parse_kv(l)
            used = int(r["used"]); od = int(r["od"])
            reqs = [int(x.split("*")[0]) for x in r.get("reqs", "").split(",") if x]
            if maxilen and any(q > maxilen for q in reqs):
                bad.append(("request", "input function asked for %d frames, max_ilen is %d" % (max(reqs), maxilen)))
            if any(q == 0 for q in reqs) and olen > 0:
                bad.append(("request-zero", "input function asked for 0 frames (a 0 answer is then taken for end-of-input)"))
            answers = cur[:used]
            for i, a in enumerate(answers):
                if ended:
                    bad.append(("call-after-eof", "input function called again after it had reported end-of-input")); break
                if failed:
                    bad.append(("call-after-fail", "input function called again after it had reported failure")); break
                if a == "e":
                    ended = True
                elif a == "f":
                    failed = True
                else:
                    supplied += int(a[1:])
            if failed and not answers_contains_fail_now(answers) and od:
                bad.append(("output-after-fail", "%d frames produced by a call made after the failure" % od))
            out += od
            # a short answer (fewer frames than asked for, no failure) means the stream is over: nothing may come afterwards
            if short_seen and od and not failed and not job.get("vr"):      # (variable rate: a ratio moved during the drain changes what is left)
                bad.append(("short-then-more", "a soxr_output call returned fewer frames than requested although the stream had not "
                            "drained: %d more frames came from a later call" % od))
            if od < olen and not failed and r.get("err") != "1":
                short_seen = True
            if failed and r.get("err") != "1":
                bad.append(("no-error-state", "failure reported but the resampler is not in the error state"))
            if r.get("err") == "1" and not failed:
                bad.append(("error-without-failure", "the resampler is in the error state although the input function never reported failure "
                            "(%d frames supplied so far, %d delivered)" % (supplied, out)))
            if bad:
                break
        elif l.startswith("H "):
            h = cr.parse_kv(l)
            err_reported = l.split("err=")[1].split(" ")[0] if "err=" in l else None
    info = {"supplied": supplied, "out": out, "ended": ended, "failed": failed}
    if not bad and ended and not failed and not job.get("vr"):
        exp, near = cr.owed_exact(supplied, job["cfg"])
        exp_c = int(supplied / cr.io_ratio(job["cfg"]) + .5)
        if out != exp and not (near and out == exp_c):
            bad.append(("drain", "end-of-input after %d frames supplied: %d frames delivered in all, round(n*orate/irate) = %d" % (supplied, out, exp)))
    if not bad and failed and err_reported is not None and "input" not in (err_reported or ""):
        bad.append(("error-string", "error state is %r" % err_reported))
    return bad, info


def answers_contains_fail_now(answers):
    return "f" in answers


def extra_known(job, tr):
    return []


def run(ctx):
    broken = common.proof_stage(ctx, ["SoxrModel.Properties.C18"], "C18")
    exe = common.build_harness("crtrace", ["cr/trace.c"], "rel")
    njobs = 800 if ctx.quick else 20000
    jobs = [make_job(ctx.rng, i, ctx.quick) for i in range(njobs)]
    res = cr.sweep(ctx, PID, exe, jobs, job_ops, oracle, extra_known=extra_known)
    for job, ops, tr, bad, info in res:
        ctx.hist("dist_style", job["style"])
        ctx.hist("dist_max_ilen", job.get("maxilen"))
        ctx.count("frames_supplied", info.get("supplied", 0))
    # ---- long start-up latency x tiny supplies: thousands of successive calls of the input function before the first output frame
    #      exists (latency in input frames / frames per supply: 7000 single-frame calls for 8:1 at VHQ, 57000 for 64:1), each a short
    #      non-zero supply that must be accepted; then the stream ends and must drain to round(n*orate/irate)
    def slow_job(i):
        rng = common.Rng(ctx.rng.next())
        ir, k = rng.choice([(8, 1), (64, 1), (12, 1), (96000 / 8000.0, 1), (1000, 64), (30, 1), (5, 1), (3, 7)]) if i else (8, 1)
        cfg = {"ir": repr(float(ir)), "or": "1", "recipe": rng.choice([6, 4, 7, 6 | 0x40]) if i else 6, "qflags": rng.choice([0, 0, 8])}
        if ir == 1000: k = rng.choice([7, 64])
        elif i: k = rng.choice([1, 1, 2, 7])
        ratio = float(ir)
        N = int(min(150000, max(30000, 2500 * ratio)))
        return {"cfg": cfg, "env": {}, "N": N, "seed": rng.next() & 0xffffffff, "idx": i, "style": "limit", "clear_first": False,
                "maxilen": rng.choice([0, 64, k]), "supply": k}

    def slow_ops(job, plan):
        rng = common.Rng(job["seed"])
        est = int(job["N"] / cr.io_ratio(job["cfg"])) + 10
        ol = rng.choice([256, 64, est, 1000])
        ops = [cr.create_line(job["cfg"]), "limit %d" % job["N"], "setfn %d" % job["maxilen"]]
        ops += ["pull %d d%d" % (ol, job["supply"])] * (est // ol + 6)
        ops += ["pull 100 d%d" % job["supply"], "hash"]
        return ops
    res_slow = cr.sweep(ctx, PID, exe, [slow_job(i) for i in range(6 if ctx.quick else 150)], slow_ops, oracle, timeout=300)
    for job, ops, tr, bad, info in res_slow:
        ctx.hist("dist_style", "slow-start/supply=%d" % job["supply"])
        ctx.count("frames_supplied", info.get("supplied", 0))
        if tr.results:
            calls = max((int(x.get("used", 0)) for x in tr.results), default=0) if isinstance(tr.results[0], dict) else 0
            ctx.cov["max_input_fn_calls_in_one_soxr_output"] = max(ctx.cov.get("max_input_fn_calls_in_one_soxr_output", 0), calls)
    res = res + res_slow
    # "everything supplied is consumed exactly once, in order": the delivered bytes of a stream that ended normally equal those of
    # soxr_oneshot-style processing of exactly the supplied frames (the harness' signal is a function of the stream position)
    refs = [(job, tr, info) for job, ops, tr, bad, info in res
            if not bad and info.get("ended") and not info.get("failed") and tr.hashes]

    def ref_work(x):
        job, tr, info = x
        n = info["supplied"]
        est = int(n / cr.io_ratio(job["cfg"])) + 110
        t2 = cr.run_trace(exe, [cr.create_line(job["cfg"]), "limit %d" % n, "proc 1 1 1 %d %d" % (n, est), "hash"], job["env"], timeout=300)
        return job, tr, t2

    strip = lambda h: " ".join(t for t in h.split() if not t.startswith("pos="))
    for job, tr, t2 in cr.pmap(ref_work, refs):
        ctx.count("pull_vs_oneshot_compared")
        if t2.rc != 0 or not t2.hashes:
            continue
        if strip(tr.hashes[-1]) != strip(t2.hashes[-1]):
            kn = [k for k in cr.classify_known(tr.plan, job["cfg"]) if k in {f["id"] for f in common.known_active(PID)}]
            if kn:
                ctx.known(kn[0], "pull output differs from one-shot output"); continue
            ctx.violation("C18 fails on the real code: what the pull stream delivered is not the resampling of the frames supplied, in order "
                          "(pull %s / one-shot of the same %d frames %s) (%s %s)" % (strip(tr.hashes[-1]), job.get("N"), strip(t2.hashes[-1]),
                                                                                   cr.create_line(job["cfg"]), job["env"]),
                          {"cfg": job["cfg"], "env": job["env"], "ops": job_ops(job, tr.plan), "pull": tr.hashes[-1], "oneshot": t2.hashes[-1]})
    # ---- the variable-rate engine, with the ratio moved between the soxr_output calls by the idiom of soxr.h
    #      (soxr_set_error(p, soxr_set_io_ratio(p, r, slew))): the same contract - bounded requests, nothing after end or failure, the
    #      failure stays latched and no further output comes
    def vr_job(i):
        rng = common.Rng(ctx.rng.next())
        mx = rng.choice([1.0, 1.5, 2.0, 4.0, 8.0, 3.7])
        job = {"cfg": {"ir": repr(mx), "or": "1", "recipe": 4, "qflags": 32, "ch": 1 + rng.below(2), "itype": rng.choice([0, 1, 3]), "otype": rng.choice([0, 1, 3]),
                       "ioflags": 8}, "env": {}, "N": rng.choice([300, 5000, 40000]), "seed": rng.next() & 0xffffffff, "idx": i,
               "style": rng.choice(["eof", "fail", "fail"]), "clear_first": False, "vr": True}
        ops = job_ops(job, [])
        out = []
        for o in ops:
            if o.startswith("pull ") and rng.chance(.5):
                out.append("ratio %r %d" % (mx * 2.0 ** -rng.uniform(0, 3), rng.choice([0, 0, 100, 1000])))
            out.append(o)
        return job, out

    def vr_work(x):
        job, ops = x
        return job, ops, cr.run_trace(exe, ops, job["env"], timeout=120)
    for job, ops, tr in cr.pmap(vr_work, [vr_job(i) for i in range(60 if ctx.quick else 2000)]):
        ctx.count("evaluations"); ctx.count("vr_streams")
        if tr.rc != 0:
            ctx.violation("C18 (variable-rate engine): harness exit %s: %s (%s)" % (tr.rc, tr.err[-300:], cr.create_line(job["cfg"])), {"cfg": job["cfg"], "ops": ops})
            continue
        bad, info = oracle(job, tr)
        ctx.hist("vr_style", job["style"] + ("/failed" if info.get("failed") else "/ended" if info.get("ended") else "/open"))
        if bad:
            ctx.violation("C18 fails on the real code (variable-rate engine, ratio moved by soxr_set_error(p, soxr_set_io_ratio(...)) between the calls): %s (%s)"
                          % (bad[0][1], cr.create_line(job["cfg"])), {"cfg": job["cfg"], "ops": ops, "oracle": bad})
    ctx.cov["rule"] = ("pull-mode streams over random configurations with a scripted input function: full / single-frame / random short "
                       "supplies, end-of-input or failure at a random call index (then three more data answers on offer), max_ilen in "
                       "{0,1,7,64,1000,100000}, optional soxr_clear after registration; every (request, answer) pair logged by the harness, "
                       "replayed through the Lean model of the soxr_output loop and checked against the contract")
    ctx.assume(*cr.CR_ASSUME)
    cr.report_broken(ctx, broken, "C18 oracle on %d jobs found no failing input" % njobs)
