"""C09 Every configuration is rejected with an error or yields a working resampler; documented-range violations are
rejected; an error once recorded is sticky until soxr_clear."""
import math, os
from fractions import Fraction
from vlib import common
from checks import crcommon as cr
from checks import configlib as cl

LEVEL = "proof"
PID = "C09"

CR_ENGINES = ("cr32", "cr32s", "cr64", "cr64s")
MAX_PER_KIND = 4      # replay files written per kind of violation and run; the rest are counted


def violation(ctx, kind, what, replay, no_input=False):
    """ctx.violation with a cap per kind, so that a systematic break does not flood /verif/replays"""
    k = "_viol_" + kind
    n = getattr(ctx, k, 0) + 1
    setattr(ctx, k, n)
    if n <= MAX_PER_KIND:
        ctx.violation(what, replay, no_input)
    else:
        ctx.count("further_violations_not_written:" + kind)


# ---------------------------------------------------------------- known-finding signatures (predicates on the configuration
# as the MODEL stores it / on the exported plan -- not on the symptom)

def effective(u):
    """kv of the model's `C ok` line of a unit (stored specs after rescaling / env overrides), or None if the model rejects."""
    if u.model and u.model[0].startswith("C ok"):
        return cl.kv(u.model[0])
    return None


def sig_known(u, plan=None):
    """ids of the known findings whose signature this unit's configuration matches"""
    a = effective(u)
    cfg = u.meta["cfg"]
    hits = []
    if a is None:
        return hits
    ratio = cl.b2d(a["ratio"])
    eng = a["engine"]
    ready = a["ready"] == "1"
    qf = [cl.b2d(a[k]) for k in ("prec", "phase", "pb", "sb")]
    if ready and eng in CR_ENGINES and any(math.isnan(x) for x in qf):
        hits.append("F26")
    if ready and eng == "vr32" and not (ratio < 2.0 ** 30):
        hits.append("F22")
    if ready and eng in CR_ENGINES and qf[0] == 0 and ratio >= 2147483647.0:
        hits.append("F24")
    if ready and eng in ("cr32s", "cr64s") and int(a["large"]) <= 12 and ratio < .25:
        hits.append("F5")
    if ready and eng in CR_ENGINES and ratio < 2.0 ** -14 and plan is None:
        hits.append("F23")          # extreme up-sampling; decided on the plan when one was exported
    if plan is not None and cl.plan_load(plan)[1] >= 2.0 ** 31:
        hits.append("F23")
    if cfg.get("viaio") and (int(cfg.get("itype", 0)) | int(cfg.get("otype", 0))) >= 8:
        hits.append("F21")
    return hits


# ---------------------------------------------------------------- direct oracle of the property on the real verdict

def clearly(x, lo, hi, slack=1e-4):
    """(inside, outside) with a margin so that the oracle never argues about the last bits of a threshold"""
    inside = lo * (1 + slack) <= x <= hi * (1 - slack)
    outside = x < lo * (1 - slack) or x > hi * (1 + slack)
    return inside, outside


def oracle(u):
    """C09's clauses on what the REAL soxr_create answered.  Returns list of (what, detail)."""
    bad = []
    if not u.real:
        return bad
    r = u.real[0]
    cfg = u.meta["cfg"]
    if r.startswith("C err (null error string)"):
        bad.append(("null-without-error", "soxr_create returned NULL and *error is NULL"))
    if r.startswith("C ok-with-error"):
        bad.append(("non-null-with-error", "soxr_create returned a resampler and *error = %s" % r[16:]))
    ir, orr = cl.b2d(cfg["ir"]), cl.b2d(cfg["or"])
    ch = int(cfg.get("ch", 1))
    accepted = r.startswith("C ok ")
    have_q = int(cfg.get("q", 1)) == 1
    # datatypes
    if int(cfg.get("io", 1)) and (int(cfg.get("itype", 0)) | int(cfg.get("otype", 0))) >= 8 and accepted:
        bad.append(("datatype", "datatype code >= 8 accepted" + (" (flagged by soxr_io_spec in io_spec.e)" if cfg.get("viaio") else "")))
    if ch and (ir < 0 or orr < 0) and accepted:
        bad.append(("rates", "negative rate accepted: %r -> %r" % (ir, orr)))
    # one rate given, the other not; or exactly one negative
    finite = all(math.isfinite(x) for x in (ir, orr))
    if ch and finite and ((ir > 0) != (orr > 0)) and not (ir == 0 and orr == 0) and accepted:
        bad.append(("rates", "rates %r -> %r (one of them not positive) accepted" % (ir, orr)))
    if accepted:
        a = cl.kv(r)
        # two finite positive rates and channels given: what comes back is a working resampler (ready), never an object still waiting for
        # its rates (F43: a quotient that underflows to 0 was taken for "rates not yet given" - repaired in /repo)
        if ch and finite and ir > 0 and orr > 0 and cl.kv(r).get("ready") != "1":
            bad.append(("not-ready", "rates %r -> %r (finite, positive) and %d channel(s) accepted, but no resampler was built (object not ready; the first "
                        "soxr_process dereferences the missing engines)" % (ir, orr, ch)))
        # SOXR_* overrides outside their documented ranges must be ignored (INSTALL / soxr.h: 8..15, 8..20, 100..800, 0..64)
        for name, field, lo, hi in (("SOXR_MIN_DFT_SIZE", "min", 8, 15), ("SOXR_LARGE_DFT_SIZE", "large", 8, 20),
                                    ("SOXR_COEFS_SIZE", "kb", 100, 800), ("SOXR_NUM_THREADS", "threads", 0, 64)):
            v = cfg.get("E." + name)
            if v is None:
                continue
            txt = cl.unhexs(v)
            if txt.lstrip("-").isdigit() and len(txt) < 9 and not (lo <= int(txt) <= hi):
                given = int(cfg.get(field, {"min": 10, "large": 17, "kb": 400, "threads": 1}[field])) if int(cfg.get("rt", 1)) else {"min": 10, "large": 17, "kb": 400, "threads": 1}[field]
                if int(a[field]) == int(txt) and given != int(txt):
                    bad.append(("env-range", "%s=%s (outside the documented range %d..%d) took effect" % (name, txt, lo, hi)))
        if a["ready"] == "1" and a["engine"] in CR_ENGINES:
            p, ph, pb, sb = (cl.b2d(a[k]) for k in ("prec", "phase", "pb", "sb"))
            if math.isnan(p) or (p != 0 and clearly(p, 15, 33, 1e-9)[1]):
                bad.append(("precision", "precision %r accepted" % p))
            if math.isnan(ph) or ph < -1e-300 or ph > 100 * (1 + 1e-9):
                bad.append(("phase", "phase_response %r accepted" % ph))
            if math.isnan(pb) or math.isnan(sb):
                bad.append(("band-edges", "passband_end %r / stopband_begin %r accepted" % (pb, sb)))
            else:
                if clearly(sb - pb, .002, .5)[1]:
                    bad.append(("transition-band", "transition bandwidth %r accepted" % (sb - pb)))
                if pb < .5 * (1 - 1e-4) or sb > 1.5 * (1 + 1e-4):
                    bad.append(("band-edges", "passband_end %r / stopband_begin %r accepted" % (pb, sb)))
            ratio = cl.b2d(a["ratio"])
            if not (ratio > 0) or not (ratio < 2147483647.0):
                bad.append(("factor", "resampling factor %r accepted" % ratio))
        if a["ready"] == "1" and a["engine"] == "vr32" and not (0 < cl.b2d(a["ratio"]) < 2.0 ** 30):
            bad.append(("factor", "variable-rate engine: maximum ratio %r accepted" % cl.b2d(a["ratio"])))
    elif r.startswith("C err") and have_q and ch and finite and ir > 0 and orr > 0 and not cfg.get("qe"):
        # clearly inside every documented range => must be accepted
        q = u.meta.get("qfields")      # fields as given (before rescaling), from the real constructor
        if q and not q["e"] and not cfg.get("ioe") and (not int(cfg.get("io", 1)) or (int(cfg.get("itype", 0)) | int(cfg.get("otype", 0))) < 8):
            p, ph, pb, sb = q["prec"], q["phase"], q["pb"], q["sb"]
            ratio = ir / orr
            vr = (q["flags"] & cl.VR) != 0
            inside = (vr or ((p == 0 or 15 <= p <= 33) and 0 <= ph <= 100 and pb <= 2 and sb <= 2 and
                             clearly(sb - pb, .002, .5)[0] and pb >= .5 * (1 + 1e-4) and sb <= 1.5 * (1 - 1e-4) and
                             (ratio >= 1 or sb - 1 <= (1 - pb) * (1 - 1e-4)))) and 0 < ratio < (2.0 ** 30 if vr else 2.0 ** 31) * (1 - 1e-9)
            if inside:
                bad.append(("in-range-rejected", "every field inside its documented range, rejected with: %s" % r[6:]))
    return bad


# ---------------------------------------------------------------- stages of the check

def stage_constructors(ctx, exe):
    """soxr_quality_spec / soxr_runtime_spec / soxr_io_spec / atoi: real vs model."""
    rng = ctx.rng
    ops = []
    for r in range(128):
        ops.append("qspec %d 0" % r)
        ops.append("qspec %d %d" % (r, rng.choice(cl.QFLAG_SETS)))
    for _ in range(300 if ctx.quick else 3000):
        ops.append("qspec %d %d" % (rng.next() & rng.choice([0x7f, 0xff, 0xffffffff, 2 ** 63 - 1]), rng.next() & rng.choice([0x3f, 0xffffffff, 2 ** 64 - 1])))
    for n in (0, 1, 2, 7, 64, 65, 4294967295):
        ops.append("rtspec %d" % n)
    for i in range(16):
        for o in range(16):
            ops.append("iospec %d %d" % (i, o))
    strs = sorted(set(v for vs in cl.ENV_VALUES.values() for v in vs) | {"2147483647", "2147483648", "-2147483648", "-2147483649",
                  "9223372036854775807", "9223372036854775808", "-9223372036854775809", "  +7", "- 7", "+-7", "\n8", "\v\f\r 8", "08", "0008", "8 9"})
    for s in strs:
        ops.append("atoi " + cl.hexs(s))
    rc, out, err = cl._run_proc(exe, ops, 120)
    real = [l[2:] for l in out.splitlines() if l.startswith("< ")]
    mi = [l[2:] for l in out.splitlines() if l.startswith("> ")]
    u = cl.Unit(ops)
    u.model_in, u.real, u.complete, u.rc = mi, real, rc == 0, rc
    cl.run_model([u])
    d = cl.diff_unit(u)
    ctx.count("constructor_calls_compared", len(real))
    ctx.count("evaluations", len(real))
    if rc != 0 or d:
        violation(ctx, "constructors", "constructors: real code and Config model disagree: %s" % (d or (rc, err[-300:]),),
                      {"stage": "constructors", "diff": d, "rc": rc}, no_input=d is None)


def site_ok(fid, rc, err):
    """the call-site half of a signature: where the run died must be the site the finding names"""
    if fid == "F5":
        return rc != "timeout" and "pffft" in err
    if fid == "F22":
        return rc == "timeout" or "vr32.c" in err
    if fid == "F26":
        return rc != "timeout"
    if fid == "F23":       # int overflow of a stage reservation / filter-design assertion; never the FFT set-up, never a hang
        return rc != "timeout" and "pffft" not in err and (rc in (-11, 139) or any(k in err for k in ("filter.c", "cr-core.c", "cr.c", "poly-fir", "allocation-size-too-big", "fifo.h")))
    return True


def classify_dead(ctx, u, known, stage):
    """a unit whose process died or hung: known finding by signature, else a violation with the failing input"""
    hits = [h for h in sig_known(u) if h in known and site_ok(h, u.rc, u.err)]
    what = "hang (no answer within the watchdog)" if u.rc == "timeout" else "crash (exit %s): %s" % (u.rc, u.err[-600:])
    if hits:
        ctx.known(hits[0], known[hits[0]]["what"])
        ctx.count("known_finding_hits")
        ctx.hist("known_hits", hits[0])
        return True
    violation(ctx, "classify_dead", "C09: soxr_create / the API sequence did not return normally: %s (%s)" % (what, " | ".join(u.ops)[:600]),
                  {"stage": stage, "ops": u.ops, "rc": u.rc, "stderr": u.err[-1500:], "model": u.model[:3]})
    return False


def fill_qfields(units, exe):
    """the quality spec fields as the real constructor + overrides give them (for the in-range oracle)"""
    for u in units:
        cfg = u.meta["cfg"]
        if int(cfg.get("q", 1)) != 1:
            continue
        u.meta["qreq"] = "qspec %d %d" % (cfg.get("recipe", 4), cfg.get("rflags", 0))
    reqs = sorted(set(u.meta["qreq"] for u in units if "qreq" in u.meta))
    rc, out, err = cl._run_proc(exe, reqs, 120)
    ans = [l[2:] for l in out.splitlines() if l.startswith("< Q")]
    table = dict(zip(reqs, ans)) if len(ans) == len(reqs) else {}
    for u in units:
        a = table.get(u.meta.get("qreq"))
        if not a:
            continue
        k = cl.kv(a)
        cfg = u.meta["cfg"]
        q = {"e": k["e"] == "1", "prec": cl.b2d(k["prec"]), "phase": cl.b2d(k["phase"]), "pb": cl.b2d(k["pb"]), "sb": cl.b2d(k["sb"]),
             "flags": int(k["flags"])}
        for f in ("prec", "phase", "pb", "sb"):
            if f in cfg:
                q[f] = cl.b2d(cfg[f])
        if "qflags" in cfg:
            q["flags"] = int(cfg["qflags"])
        if "qe" in cfg:
            q["e"] = bool(int(cfg["qe"]))
        u.meta["qfields"] = q


def stage_create(ctx, exe, n, known):
    rng = ctx.rng
    units = []
    for i in range(n):
        cfg, kinds = cl.gen_create(rng, f5=True)
        units.append(cl.Unit([cl.create_line(cfg)], {"cfg": cfg, "kinds": kinds}))
        for k, v in kinds.items():
            ctx.hist("dist_" + k, v.split(":")[0] if isinstance(v, str) else v)
    fill_qfields(units, exe)

    def solo(u):      # quotient of the rates overflows: the variable-rate engine hangs on it (F22)
        a, b = cl.b2d(u.meta["cfg"]["ir"]), cl.b2d(u.meta["cfg"]["or"])
        try:
            return b != 0 and not math.isfinite(a / b)
        except OverflowError:
            return True
    cl.run_real(exe, units, solo=solo, timeout=8)
    cl.run_model(units)
    verdicts = set()
    for u in units:
        ctx.count("evaluations")
        ctx.count("creates_compared")
        if u.rc != 0:
            classify_dead(ctx, u, known, "create")
            continue
        v = u.real[0] if u.real else "?"
        key = v[:40] if v.startswith("C err") else "ok:" + cl.kv(v).get("engine", "?") + ":ready" + cl.kv(v).get("ready", "?")
        verdicts.add(key)
        ctx.hist("dist_verdict", key)
        d = cl.diff_unit(u)
        bad = oracle(u)
        if d or bad:
            hits = [h for h in sig_known(u) if h in known]
            # F21 (constructor-flagged datatypes accepted) is a verdict-level finding: model and code agree, the oracle objects
            if bad:
                violation(ctx, "create-oracle", "C09 fails on the real code: %s (%s)" % (bad[0][1], u.ops[0][:500]),
                              {"stage": "create", "ops": u.ops, "oracle": bad, "real": u.real, "model": u.model})
            else:
                violation(ctx, "create", "correspondence broken (Config model vs real soxr_create):\n op   : %s\n real : %s\n model: %s" % (
                    d[1][:500], d[2][:400], d[3][:400]), {"stage": "create", "ops": u.ops, "real": u.real, "model": u.model}, no_input=True)
        else:
            ctx.sample({"create": u.ops[0][:300], "real": v[:200]})
    ctx.cov["distinct_nontrivial"] = ctx.cov.get("distinct_nontrivial", 0) + len(verdicts)
    return units


def gen_api_unit(rng):
    """create (mostly accepted, some deferred, some split/split, some VR) followed by a random call sequence"""
    cfg = {}
    c = rng.below(10)
    ir, orr = (float(rng.choice(cr.AUDIO)), float(rng.choice(cr.AUDIO))) if c < 6 else rng.choice([(0.0, 0.0), (0.0, 0.0), (1.0, 0.0), (0.0, 1.0), (3.0, 1.0), (1.0, 3.0)])
    cfg["ir"], cfg["or"] = cl.d2b(ir), cl.d2b(orr)
    cfg["ch"] = rng.choice([0, 1, 1, 1, 2, 3, 8])
    cfg["recipe"] = rng.choice([0, 1, 4, 4, 6, 8, 10])
    cfg["rflags"] = rng.choice([0, 0, 0, 16, 32])
    split = rng.chance(.3)
    cfg["itype"] = rng.below(4) | (cl.SPLIT if split or rng.chance(.2) else 0)
    cfg["otype"] = rng.below(4) | (cl.SPLIT if split or rng.chance(.2) else 0)
    if rng.chance(.3):
        # a quality spec _soxr_init rejects: the error arises at once, or -- with the configuration supplied in two steps
        # (no channels / no ratio yet) -- later, inside soxr_set_io_ratio / soxr_set_num_channels (fatal_error)
        bad = rng.below(7)
        if bad == 0:
            cfg["prec"] = cl.d2b(rng.choice([14.0, 34.0, 16.0]))
        elif bad == 1:
            cfg["phase"] = cl.d2b(rng.choice([101.0, -1.0]))
        elif bad == 2:
            cfg["pb"], cfg["sb"] = cl.d2b(.95), cl.d2b(.9505)           # transition bandwidth too small
        elif bad == 3:
            cfg["pb"], cfg["sb"] = cl.d2b(.4), cl.d2b(.8)               # passband below 50 %
        elif bad == 4:
            cfg["pb"], cfg["sb"] = cl.d2b(.9), cl.d2b(1.3)              # imaging (when up-sampling)
        elif bad == 5:
            cfg["pb"], cfg["sb"] = cl.d2b(.99), cl.d2b(1.6)             # stopband beyond 150 %
        else:
            cfg["prec"] = cl.d2b(14.0); cfg["phase"] = cl.d2b(200.0)
    if rng.chance(.3):
        cfg["E.SOXR_USE_SIMD"] = cl.hexs(rng.choice(["0", "1"]))
    ops = [cl.create_line(cfg)]
    osplit = bool(cfg["otype"] & cl.SPLIT)
    ratio = ir / orr if (orr and ir) else 2.0      # deferred configuration: the ratio comes later, through soxr_set_io_ratio
    for _ in range(4 + rng.below(22)):
        k = rng.below(22)
        if k < 2:
            ops.append("setfn " + rng.choice(["none", "data", "fail", "eof"]))
        elif k < 5:
            r = rng.choice([ratio, ratio, ratio * .5, 0.0, -1.0, cl.NAN, ratio * (1 + 1e-16), ratio + 1e-14, 2.0, 1e10, cl.INF])
            if (cfg["rflags"] & 32) and not (0 < r <= max(ratio, 1e-9)):
                r = ratio
            ops.append("setratio %d" % cl.d2b(r))
        elif k < 7:
            ops.append("setch %d" % rng.choice([0, 1, 2, cfg["ch"], cfg["ch"], 5]))
        elif k < 9:
            ops.append("seterr %s" % rng.choice(["-", "-", "16", "14", "3"]))
        elif k < 14:
            i_null = rng.chance(.3)
            o_null = (not osplit) and rng.chance(.25)
            ops.append("process %d %d %d %d" % (i_null, o_null, rng.choice([0, 5, 100, 700]), rng.choice([5, 100] if o_null else [0, 5, 100, 2000])))
        elif k < 17:
            o_null = (not osplit) and rng.chance(.3)
            ops.append("output %d %d" % (o_null, rng.choice([5, 100] if o_null else [0, 5, 100, 2000])))
        elif k == 17:
            ops.append("delay")
        elif k == 18:
            ops.append("clear")
        elif k < 21:
            ops.append("error")
        else:
            ops.append("engine")
    ops.append("error")
    return cl.Unit(ops, {"cfg": cfg})


def stage_api(ctx, exe, n, known):
    exe = common.build_harness("config_probe", ["config/probe.c"], "san")     # call sequences run under ASan/UBSan, asserts on
    units = [gen_api_unit(ctx.rng) for _ in range(n)]
    cl.run_real(exe, units, batch=20)
    cl.run_model(units)
    seen = set()
    for u in units:
        ctx.count("evaluations")
        ctx.count("api_sequences_compared")
        ctx.count("api_calls_compared", len(u.real))
        if u.rc != 0:
            classify_dead(ctx, u, known, "api")
            continue
        d = cl.diff_unit(u)
        # direct oracle of the sticky clause on the real answers: between the first stored error and the next clear /
        # seterr, every process/output answers that error and delivers nothing
        bad = sticky_oracle(u)
        for op, l in zip(u.model_in, u.real):
            seen.add(l[:30])
            ctx.hist("dist_api_answers", op.split()[0] + " -> " + l[:34])
        if bad:
            if "F25" in known and bad[0] == "split":
                ctx.known("F25", known["F25"]["what"]); ctx.hist("known_hits", "F25")
            else:
                violation(ctx, "api-oracle", "C09 sticky error fails on the real code: %s (%s)" % (bad[1], " | ".join(u.model_in)[:800]),
                              {"stage": "api", "ops": u.ops, "real": u.real, "oracle": bad})
        if d:
            violation(ctx, "api", "correspondence broken (error state machine of the Config model vs real soxr.c) at call %d:\n op   : %s\n real : %s\n model: %s\n sequence: %s" % (
                d[0], d[1][:300], d[2][:300], d[3][:300], " | ".join(u.model_in[:d[0] + 1])[:1200]),
                {"stage": "api", "ops": u.ops, "real": u.real, "model": u.model}, no_input=True)
    ctx.cov["distinct_nontrivial"] = ctx.cov.get("distinct_nontrivial", 0) + len(seen)


# messages of _soxr_init's validation: when soxr_set_io_ratio / soxr_set_num_channels / soxr_clear return one of them the
# deferred initialisation has failed (fatal_error) and the error must stay recorded
ENGINE_MSGS = ("imaging greater than rolloff", "transition bandwidth not in", "transition band not within", "precision not in",
               "resampling factor not positive", "resampling factor too large", "phase response not in")


def sticky_oracle(u):
    """The sticky clause on the REAL answers of one API sequence.  An error counts as recorded from the moment (a) soxr_error()
    reports it, (b) soxr_process returns it, (c) a deferred initialisation fails with one of _soxr_init's messages, (d) the
    input function reports failure; from then until soxr_clear / soxr_set_error: soxr_error() and soxr_set_io_ratio answer
    it, soxr_process returns it with odone = 0, soxr_output and soxr_delay return 0, and no call is left that would
    dereference NULL.  Returns None or (kind, text)."""
    cfg = u.meta["cfg"]
    both = bool(cfg["itype"] & cfg["otype"] & cl.SPLIT)
    err = None
    found_engine_null = False
    for op, ans in zip(u.model_in, u.real):
        t = op.split()
        if t[0] == "create":
            err = None
            continue
        if t[0] == "seterr":
            err = None
            continue
        if t[0] == "clear":
            err = None
            if ans.startswith("S ") and ans[2:].startswith(ENGINE_MSGS):
                err = ans[2:]
            continue
        if err is not None:
            if t[0] == "engine":
                continue
            if ans.startswith("X misuse") or ans.startswith("X nullcall"):
                return ("lost", "after the error `%s` `%s` would dereference NULL: the recorded error is gone" % (err, t[0]))
            if t[0] == "error" and ans != "S " + err:
                return ("lost", "soxr_error() answers `%s` after the error `%s` had been reported" % (ans[2:], err))
            if t[0] == "setratio" and ans.startswith("S ") and ans != "S " + err:
                return ("msg", "soxr_set_io_ratio answers `%s` while the error `%s` is recorded" % (ans[2:], err))
            if t[0] == "process" and ans.startswith("P "):
                k = cl.kv(ans)
                msg = ans.split("err=", 1)[1]
                if msg != err:
                    return ("msg", "soxr_process returned `%s` while the error `%s` was recorded" % (msg, err))
                if k["z"] != "1":
                    return ("split" if both else "out", "soxr_process delivered output while the error `%s` was recorded" % err)
            if t[0] in ("output", "delay") and ans.startswith("K ") and cl.kv(ans)["z"] != "1":
                return ("out", "soxr_%s returned non-zero while the error `%s` was recorded" % (t[0], err))
            continue
        # no error recorded so far: does this call record one?
        if t[0] == "error" and ans.startswith("S ") and ans != "S -":
            err = ans[2:]
        elif t[0] in ("setratio", "setch") and ans.startswith("S ") and ans[2:].startswith(ENGINE_MSGS):
            err = ans[2:]
        elif t[0] == "process" and ans.startswith("P ") and not ans.endswith("err=-"):
            err = ans.split("err=", 1)[1]
        elif t[0] in ("process", "output") and t[-1] == "failed":
            err = "input function reported failure"
    return None


def working_ops(rng, tcfg, plan, up):
    """a short stream: a few input blocks, then drain"""
    n = 3000 if up <= 4 else max(8, min(2000, int(40000 / up)))
    if up < 1e-3:
        # where affordable (SOXR_QQ, one channel: a cubic stage only): a frame owed at end-of-input, round(N*up) > floor(N*up); anything else keeps
        # the short stream (a first version fed millions of frames to many-stage plans under ASan and reported the time-outs as hangs)
        cheap = (int(tcfg.get("recipe", 4)) & 15) == 0 and int(tcfg.get("ch", 1)) == 1
        n = int(2.6 / up) if cheap and 20000 <= 2.6 / up <= 3e6 else 20000
    sizes = [1, 7, 64, 500, 4096]
    ops = [cr.create_line(tcfg), "limit %d" % n]
    for _ in range(3):
        ops.append("feed %d %d %d" % (rng.choice(sizes), rng.choice(sizes), rng.below(2)))
    ops.append("feed %d %d 0" % (n, rng.choice(sizes)))
    ops.append("delay")
    ops.append("drain %d" % rng.choice([257, 4096, 4096]))
    ops += ["feed 0 100 0", "delay", "hash"]
    return ops, n


def stage_working(ctx, units, nmax, known):
    """accepted => working: every sampled accepted configuration is re-created in the trace harness (ASan/UBSan build,
    asserts on): the exported plan must satisfy PipeWF (decided by the Lean driver on the theorems' own definition), a
    short stream must run to its end under a watchdog and deliver round(N*orate/irate) frames."""
    exe = common.build_harness("crtrace", ["cr/trace.c"], "san")
    rng = ctx.rng
    cands = [u for u in units if u.rc == 0 and u.real and u.real[0].startswith("C ok") and cl.kv(u.real[0])["ready"] == "1"]
    # stratify: engine x rates class x quality class, round-robin
    strata = {}
    for u in cands:
        a = cl.kv(u.real[0])
        strata.setdefault((a["engine"], u.meta["kinds"]["rates"], u.meta["kinds"]["quality"].split(":")[0]), []).append(u)
    picked = []
    keys = sorted(strata)
    while len(picked) < nmax and keys:
        for k in list(keys):
            if strata[k]:
                picked.append(strata[k].pop(rng.below(len(strata[k]))))
            else:
                keys.remove(k)
            if len(picked) >= nmax:
                break

    def work(u):
        a = cl.kv(u.real[0])
        cfg = dict(u.meta["cfg"])
        if int(cfg.get("ch", 1)) > 8:
            cfg["ch"] = 1 + int(cfg["ch"]) % 4
        tcfg, env = cl.trace_cfg(cfg, a)
        up = 1.0 / cl.b2d(a["ratio"])
        pre = sig_known(u)
        if "F22" in pre or "F24" in pre or (a["engine"] in CR_ENGINES and up > 2.0 ** 22):
            return u, "skip-known", None, pre, None
        if up > 2.0 ** 22:           # variable-rate engine asked for millions of output frames per input frame: nothing to run
            return u, "skip-extreme", None, pre, None
        tr0 = cr.run_trace(exe, [cr.create_line(tcfg)], env, timeout=120)
        if not tr0.created:
            return u, "create-differs", tr0, pre, None
        load = cl.plan_load(tr0.plan)[0]
        if load >= 2.0 ** 22:
            return u, "skip-memory", tr0, sig_known(u, tr0.plan), None
        ops, n = working_ops(common.Rng(cfg["ir"] ^ cfg["or"] ^ 5), tcfg, tr0.plan, up)
        tr = cr.run_trace(exe, ops, env, timeout=300)
        return u, "ran", tr, sig_known(u, tr0.plan), (tcfg, env, ops, n)

    shapes = set()
    for u, how, tr, pre, job in cr.pmap(work, picked):
        ctx.count("evaluations")
        ctx.hist("working_runs", how)
        a = cl.kv(u.real[0])
        if how == "skip-extreme":
            continue
        if how == "skip-known":
            for h in pre:
                if h in known and h in ("F22", "F24", "F23"):
                    ctx.known(h, known[h]["what"]); ctx.hist("known_hits", h)
                elif h in ("F22", "F24"):
                    violation(ctx, "working", "C09: an accepted configuration matches the signature of the repaired finding %s (%s)" % (h, u.ops[0][:400]),
                              {"stage": "working", "ops": u.ops, "real": u.real})
            continue
        if how == "create-differs":
            hits = [h for h in pre if h in known]
            if hits:
                ctx.known(hits[0], known[hits[0]]["what"]); ctx.hist("known_hits", hits[0])
            else:
                violation(ctx, "working", "C09: configuration accepted in the probe harness is not created by the trace harness (%s): rc=%s %s" % (
                    u.ops[0][:400], tr.rc, (tr.create_line or tr.err)[-400:]), {"stage": "working", "ops": u.ops, "trace": tr.lines[-5:], "stderr": tr.err[-1500:]})
            continue
        if how == "skip-memory":
            if "F23" in pre and "F23" in known:
                ctx.known("F23", known["F23"]["what"]); ctx.hist("known_hits", "F23")
            continue
        tcfg, env, ops, n = job
        shapes.add(cr.plan_sig(tr))
        ctx.hist("dist_engine_working", tr.engine)
        ctx.hist("dist_stages", "+".join(s["kind"] for s in tr.plan) or "none")
        rep = {"stage": "working", "probe_create": u.ops[0], "trace_ops": ops, "env": env, "plan": tr.plan}
        bad = None
        if tr.rc == "timeout":
            bad = "hang: the stream did not end within 300 s"
        elif tr.rc != 0:
            bad = "crash / sanitizer report (exit %s): %s" % (tr.rc, tr.err[-700:])
        else:
            d = cr.diff_model(tr) if tr.engine.startswith("cr") else None
            if d and d[2].startswith("WF") or (d and d[3].startswith("WF")):
                bad = "exported plan is not PipeWF: %s" % (d[3],)
            elif d:
                bad = "count model and real engine disagree at %s: real %s / model %s" % (d[1], d[2][:200], d[3][:200])
            else:
                h = next((l for l in tr.hashes), "")
                out = int(cr.parse_kv(h).get("out", -1)) if h else -1
                if tr.engine.startswith("cr"):
                    expect, near = cr.owed_exact(n, tcfg)
                    expect_c = int(n / (float(tcfg["ir"]) / float(tcfg["or"])) + .5)
                    if out != expect and not (near and out == expect_c) and abs(out - expect) > 0:
                        bad = "stream of %d frames delivered %d, round(N*orate/irate) = %d" % (n, out, expect)
                if "err=-" not in h:
                    bad = "error recorded during a plain stream: %s" % h[:200]
            if not bad and tr.engine.startswith("cr"):
                bad = repaired_shape(tr.plan, tcfg, known)
        if bad:
            # F1 and F3 are repaired in /repo: a plan that matches their signature again is a violation like any other
            hits = [h for h in pre + cr.classify_known(tr.plan, tcfg) if (h in known and site_ok(h, tr.rc, tr.err))]
            if hits and hits[0] in known:
                ctx.known(hits[0], known[hits[0]]["what"]); ctx.hist("known_hits", hits[0])
            else:
                rep["what"] = bad
                violation(ctx, "working", "C09 accepted => working fails on the real code: %s (%s %s)" % (bad, cr.create_line(tcfg), env), rep)
        else:
            ctx.count("working_streams_ok")
    ctx.cov["distinct_nontrivial"] = ctx.cov.get("distinct_nontrivial", 0) + len(shapes)
    ctx.cov["traces_validated_against_impl"] = ctx.cov.get("traces_validated_against_impl", 0) + ctx.cov.get("working_streams_ok", 0)


def gen_threshold_cfg(rng):
    """rational ratios whose reduced denominator L sits at one of the planner's size decisions: the largest exact poly-phase table the
    planner allows (mode 0: coef_size_kbytes*1000 / (42 or 44 taps * sizeof sample); otherwise 2048), and the table size at which it
    falls back to an interpolated one; default and small coef_size_kbytes; every recipe incl. the 16-bit ones and the LSR ones"""
    kb = rng.choice([400, 400, 100, 50, 200, 800])
    size = rng.choice([4, 4, 8])
    t = rng.choice([kb * 1000 / (42 * size), kb * 1000 / (44 * size), kb * 1000 / (42 * size), kb * 1000 / (44 * size), 2048, 1024,
                    kb * 1000 / (20 * size), kb * 1000 / (100 * size)])
    L = max(2, int(t * rng.uniform(.93, 1.07)))
    M = max(1, int(L * 2.0 ** rng.uniform(-3, 3)))
    for _ in range(50):
        if math.gcd(L, M) == 1 and M != L:
            break
        M += 1
    cfg = {"ir": str(M), "or": str(L), "recipe": rng.choice([1, 1, 1, 1, 2, 3, 4, 6, 8, 10, 0x41]), "qflags": 16 if size == 8 else 0}
    if kb != 400:
        cfg["kb"] = kb
    if rng.chance(.15):
        cfg["rtflags"] = rng.choice([2, 3])
    return cfg, ({"SOXR_USE_SIMD": "0"} if rng.chance(.3) else {})


def repaired_shape(plan, cfg, known):
    """The exported plan has the shape of a finding that is repaired in /repo (F1: a power-of-two frequency-domain up-sampling stage whose
    block length is not a multiple of L - the clause `L | block_len` of DftShapeOK / PlanEarlyOK that the dft-block closed forms and
    never_early need; the frame COUNTS of a short stream can still be right while every block is misplaced.  F3: a cubic stage that can
    never advance).  Not an active known finding any more: a violation of accepted => working."""
    for h in cr.classify_known(plan, cfg):
        if h not in known:
            return {"F1": "the plan has a power-of-two frequency-domain up-sampling stage whose block length is not a multiple of L (shape of the "
                          "repaired finding F1: blocks are misplaced, the output is not the input signal): %s" % [
                              (x.get("L"), x.get("blockLen"), x.get("numTaps")) for x in plan if x.get("kind") == "dft"],
                    "F3": "the plan has a cubic stage whose pre_post >= input_size (shape of the repaired finding F3: it can never advance)"}.get(h, h)
    return None


def corner_cfgs(rng, quick):
    """Corners of the planner that a draw from the verdict product space hardly ever lands on (round 7 of the seeded changes:
    `C09-cubic-input-size-equals-pre-post`, `C09-fdomain-phase-pad-off-by-one`): (i) SOXR_QQ at decimation factors around and far
    beyond the cubic stage's default input size (8192: from there on `input_size` is decided by `pre_post`), stream lengths that leave
    a frame owed at end-of-input; (ii) every power-of-two up-sampling post stage (factors 8 ... 512 and beyond) x non-linear phase
    responses, whose transformed filter has to be padded to a multiple of L (F1 repair) - for both, the exported plan must be PipeWF
    and a short stream must run to its end."""
    jobs = []
    qq = [8191, 8192, 8193, 10000, 16384, 65537, 1000003] if quick else [4096, 8191, 8192, 8193, 9000, 10000, 16384, 20011, 65536, 65537, 1000003, 2 ** 24 + 1]
    for r in qq:
        jobs.append(({"ir": str(r), "or": "1", "recipe": 0}, {}))
        jobs.append(({"ir": str(r) + ".5", "or": "1", "recipe": 0}, {}))
    ups = [8, 16, 32, 64, 128, 256, 512, 1024] if quick else [8, 16, 24, 32, 48, 64, 96, 128, 160, 256, 320, 512, 1024, 2048]
    phases = [0, 10, 25, 33.3, 66, 75, 90, 100]
    recipes = [1, 3, 4, 6]        # LQ, (16-bit) MQ, HQ, VHQ
    for k, up in enumerate(ups):
        for j, ph in enumerate(phases):
            rec = recipes[(j + k) % len(recipes)] if quick else rng.choice(recipes)
            jobs.append(({"ir": "1", "or": str(up), "recipe": rec, "phase": ph}, ({"SOXR_USE_SIMD": "0"} if (j + 2 * k) % 5 == 0 else {})))
    return jobs


def stage_thresholds(ctx, n, known):
    """accepted => working at the planner's size decisions (see gen_threshold_cfg): created under ASan/UBSan with asserts on, exported plan
    replayed through the Lean count model, a short stream run to its end under a watchdog, total compared."""
    exe = common.build_harness("crtrace", ["cr/trace.c"], "san")
    jobs = corner_cfgs(ctx.rng, ctx.quick) + [gen_threshold_cfg(ctx.rng) for _ in range(n)]

    def work(j):
        cfg, env = j
        tr0 = cr.run_trace(exe, [cr.create_line(cfg)], env, timeout=120)
        if not tr0.created:
            return cfg, env, ("refused" if tr0.rc == 0 else "create-crash"), tr0, None
        if cl.plan_load(tr0.plan)[0] >= 2.0 ** 22:
            return cfg, env, "skip-memory", tr0, None
        up = float(cfg["or"]) / float(cfg["ir"])
        ops, nfr = working_ops(common.Rng(int(float(cfg["ir"])) * 7919 + int(float(cfg["or"]))), cfg, tr0.plan, up)
        return cfg, env, "ran", cr.run_trace(exe, ops, env, timeout=300), (ops, nfr)

    for cfg, env, how, tr, job in cr.pmap(work, jobs):
        ctx.count("evaluations")
        ctx.hist("threshold_runs", how)
        bad = None
        if how == "create-crash":
            bad = "soxr_create does not return normally (exit %s): %s" % (tr.rc, tr.err[-500:])
        elif how == "ran":
            ops, nfr = job
            ctx.hist("threshold_stages", "+".join(x["kind"] for x in tr.plan) or "none")
            if tr.rc == "timeout":
                bad = "hang: the stream did not end within 300 s"
            elif tr.rc != 0:
                bad = "crash / sanitizer report (exit %s): %s" % (tr.rc, tr.err[-700:])
            else:
                d = cr.diff_model(tr)
                h = next((l for l in tr.hashes), "")
                out = int(cr.parse_kv(h).get("out", -1)) if h else -1
                expect, near = cr.owed_exact(nfr, cfg)
                if d:
                    bad = "count model and real engine disagree at %s: real %s / model %s" % (d[1], d[2][:200], d[3][:200])
                elif out != expect and not (near and abs(out - expect) <= 1):
                    bad = "stream of %d frames delivered %d, round(N*orate/irate) = %d" % (nfr, out, expect)
                elif "err=-" not in h:
                    bad = "error recorded during a plain stream: %s" % h[:200]
            if not bad:
                bad = repaired_shape(tr.plan, cfg, known)
        if bad:
            hits = [h for h in cr.classify_known(tr.plan, cfg) if h in known and site_ok(h, tr.rc, tr.err)]
            if hits:
                ctx.known(hits[0], known[hits[0]]["what"]); ctx.hist("known_hits", hits[0])
            else:
                violation(ctx, "working", "C09 accepted => working fails on the real code: %s (%s %s)" % (bad, cr.create_line(cfg), env),
                          {"stage": "thresholds", "trace_ops": (job[0] if job else [cr.create_line(cfg)]), "env": env, "plan": tr.plan, "what": bad})
        elif how == "ran":
            ctx.count("working_streams_ok")


# ---------------------------------------------------------------- the planner's rate decomposition: model vs real _soxr_init

PLANNER_THRESH = [1.0, 1.5, 2.0, 3.0, 4.0, 5.0, 8.0, 16.0, 0.5, 0.25, 0.2, 0.125, 1 / 3.0, 2 / 3.0, 0.75, 1 / 16.0, 1 / 64.0, 1 / 80.0, 1 / 5.0]


def gen_planner_cfg(rng):
    """(probe-style cfg, class): ratios on every path of the stage-determination loop"""
    c = rng.below(16)
    if c < 2:
        ir, orr, k = float(rng.choice(cr.AUDIO)), float(rng.choice(cr.AUDIO)), "audio"
    elif c < 4:
        ir, orr, k = float(1 + rng.below(24)), float(1 + rng.below(24)), "small-int"
    elif c < 6:      # coprime pairs up to 4500 (denominators around and beyond maxL)
        a, b = 1 + rng.below(4500), 1 + rng.below(4500)
        ir, orr, k = float(a), float(b), "coprime-4500"
    elif c == 6:
        e = rng.below(47) - 16
        ir, orr, k = 2.0 ** e, 1.0, "pow2"
        if rng.chance(.5):
            ir = cl.nextafter(ir, rng.chance(.5))
    elif c < 9:      # the loop's thresholds (times powers of two), at and around
        t = rng.choice(PLANNER_THRESH) * 2.0 ** rng.choice([0, 0, 0, 1, 2, 3, 5, 10, -1, -2])
        ir, orr, k = cl.around(rng, t), 1.0, "threshold"
    elif c < 11:     # irrational
        ir, orr, k = rng.uniform(.05, 40), rng.choice([1.0, 3.14159, 2.71828]), "irrational"
    elif c == 11:    # near-rational: p/q (1 +- 2^-k), around the snap's epsilon
        a, b = 1 + rng.below(40), 1 + rng.below(40)
        ir, orr, k = (a / b) * (1 + rng.choice([1, -1]) * 2.0 ** -rng.choice([20, 28, 31, 32, 33, 34, 36, 40, 45, 52])), 1.0, "near-rational"
    elif c == 12:    # log-uniform 2^-16 .. 2^31
        ir, orr, k = 2.0 ** rng.uniform(-16, 31), 1.0, "log-uniform"
    elif c == 13:    # integer and half-integer up-sampling factors (the d > 4 && d != 5 branch)
        f = rng.choice([4, 5, 6, 7, 8, 9, 10, 12, 16, 20, 32, 100, 128, 147, 256, 320, 1000, 4.5, 5.5, 4.000001, 5.000001, 4.999999])
        ir, orr, k = 1.0, float(f), "up-integer"
    elif c == 14:
        a, b = cr.gen_rates(rng)[:2]
        ir, orr, k = float(a), float(b), "planner-paths"
    else:
        ir, orr, k = float(1 + rng.below(400)), float(1 + rng.below(400)), "coprime-400"
    cfg = {"ir": cl.d2b(ir), "or": cl.d2b(orr), "ch": 1}
    cfg["recipe"] = rng.choice([0, 1, 1, 2, 2, 3, 4, 4, 5, 6, 6, 7, 8, 9, 10]) | (rng.choice([0x10, 0x30, 0x40]) if rng.chance(.2) else 0)
    cfg["rflags"] = rng.choice([0, 0, 0, 1, 2, 8, 8, 16, 16 | 8, 4])
    if rng.chance(.12):
        cfg["prec"] = cl.d2b(rng.choice([15.0, 16.0, 17.0, 18.5, 20.0, 21.0, 22.0, 24.0, 26.0, 28.0, 30.0, 33.0]))
    if rng.chance(.5):
        cfg["rtflags"] = rng.choice([0, 1, 2, 3, 8, 9, 10, 11])
        cfg["kb"] = rng.choice([100, 400, 800, 100 + rng.below(701)])
        cfg["min"], cfg["large"] = 10, 17
    if rng.chance(.3):
        cfg["itype"], cfg["otype"] = rng.below(4), rng.below(4)
    if rng.chance(.3):
        cfg["E.SOXR_USE_SIMD"] = cl.hexs(rng.choice(["0", "1"]))
    return cfg, k


FULL_SCALE = [1.0, 1.0, 65536.0 * 32768, 32768.0]


def real_stage_line(plan):
    """canonical list of the stages of an exported plan, in the form the model prints (`stageLine`)"""
    out = []
    for st in plan:
        kind = st["kind"]
        if kind == "half":
            out.append("half")
        elif kind == "dft":
            m = int(st["M"])            # F-domain decimation stores -M/2 in step.integer
            out.append("dft:%s/%s" % (st["L"], -2 * m if m < 0 else m))
        elif kind == "poly0":
            out.append("exact:%s:%s" % (st["L"], st["step"]))
        elif kind == "cubic":
            out.append("cubic:%s" % st["step"])
        else:
            out.append("interp:%s:%s" % (st["den"], st["step"]))
    return " ".join(out)


def stage_planner(ctx, n):
    """The stage planner's rate decomposition: the exported plan of the REAL _soxr_init (stage kinds, L, M, clock steps) against the
    Lean model `planRates` + `finishArb` for generated configurations; the oracle parameters of `finishArb` (which kernel, odd number
    of taps) are read off the exported plan."""
    exe = common.build_harness("crtrace", ["cr/trace.c"], "rel")
    rng = ctx.rng
    jobs = []
    for _ in range(n):
        cfg, k = gen_planner_cfg(rng)
        jobs.append({"cfg": cfg, "cls": k})
    # 1. the model's verdict and stored specs (for the trace harness's create line)
    p = subprocess_run([cl.DRIVER], [cl.create_line(j["cfg"]) for j in jobs])
    for j, l in zip(jobs, p):
        j["acc"] = cl.kv(l) if l.startswith("C ok") else None
    live = [j for j in jobs if j["acc"] and j["acc"]["ready"] == "1" and j["acc"]["engine"] != "vr32"]
    # 2. the real plans
    def work(batch):
        lines, envs = [], None
        for j in batch:
            tcfg, env = cl.trace_cfg(j["cfg"], j["acc"])
            j["tcfg"], j["env"] = tcfg, env
        # one process per (batch, env): SIMD choice comes from the environment
        for j in batch:
            tr = cr.run_trace(exe, [cr.create_line(j["tcfg"])], j["env"], timeout=60)
            j["tr"] = tr
    batches = [live[i:i + 8] for i in range(0, len(live), 8)]
    cr.pmap(work, batches)
    # 3. the model's plans with the oracle parameters observed
    ask = []
    for j in live:
        tr = j["tr"]
        if tr.rc != 0 or not tr.created:
            continue
        arb = [s_ for s_ in tr.plan if s_["kind"].startswith("poly")]
        interp = int(arb[0]["kind"][4:]) if arb else 0
        odd = 1 if arb and float(arb[0].get("phase0", 0)) != 0 else 0
        io = j["cfg"]
        it, ot = (int(io.get("itype", 0)) & 3, int(io.get("otype", 0)) & 3) if int(io.get("io", 1)) else (0, 0)
        gain = 1 if FULL_SCALE[ot] / FULL_SCALE[it] != 1 else 0
        j["ask"] = "planner " + " ".join("%s=%s" % kv for kv in j["cfg"].items()) + " cpu32=1 cpu64=1 gain=%d interp=%d odd=%d" % (gain, interp, odd)
        ask.append(j)
    ans = subprocess_run([cl.DRIVER], [j["ask"] for j in ask])
    shapes = set()
    for j, a in zip(ask, ans):
        ctx.count("evaluations")
        ctx.count("planner_plans_compared")
        ctx.hist("dist_planner_class", j["cls"])
        real = real_stage_line(j["tr"].plan)
        model = a[3:].split("|")[0].strip() if a.startswith("PL ") else a
        k = cl.kv(a)
        shapes.add((" ".join(x.split(":")[0] for x in real.split()), k.get("rational"), k.get("mode")))
        ctx.hist("dist_planner_rational", k.get("rational", "?"))
        ctx.hist("dist_planner_product", "exact" if k.get("prodexact") == "1" else "within 2^-32" if k.get("prod32") == "1" else "off")
        rep = {"stage": "planner", "ops": [cl.create_line(j["cfg"])], "trace_create": cr.create_line(j["tcfg"]), "env": j["env"], "real": real, "model": a}
        # the one oracle parameter that could hide a planner change: the fall-back from the exact coefficient table the model's
        # rational plan asks for to an interpolated kernel is legitimate only if that table would exceed coef_size_kbytes
        fb = None
        arbs = [s_ for s_ in j["tr"].plan if s_["kind"].startswith("poly")]
        if k.get("rational") == "1" and arbs and arbs[0]["kind"] != "poly0" and int(k.get("arbL", 1)) > 1:
            rtf = int(j["tcfg"].get("rtflags", 0)) & 3
            nobs = int(arbs[0].get("n", 0))
            size = 8 if j["tr"].engine in ("cr64", "cr64s") else 4
            need = int(k["arbL"]) * 2 * (1.5 * nobs + 8) * size / 1000.0       # generous upper bound of the exact table's size in kbytes
            if rtf == 1:
                fb = "SOXR_COEF_INTERP=1 (exact table demanded) but the real plan interpolates"
            elif rtf == 0 and need <= int(j["tcfg"].get("kb", 400)):
                fb = "an exact table of at most %.0f kbytes fits coef_size_kbytes=%s, yet the real plan fell back to an interpolated kernel" % (need, j["tcfg"].get("kb", 400))
            ctx.count("planner_table_fallbacks")
        if fb:
            violation(ctx, "planner", "planner model vs real _soxr_init: the model finds the rational %s/%s within maxL; %s (%s %s; real stages `%s`)" % (
                k.get("arbM"), k.get("arbL"), fb, cr.create_line(j["tcfg"]), j["env"], real), rep, no_input=True)
        elif real != model:
            violation(ctx, "planner", "correspondence broken (planner model vs real _soxr_init): stages of the real plan `%s`, of the model `%s` (%s %s)" % (
                real, a[:300], cr.create_line(j["tcfg"]), j["env"]), rep, no_input=True)
        elif k.get("finished") != "1" or k.get("faithful") != "1":
            violation(ctx, "planner", "planner model: %s (%s): %s" % ("the loop did not end within 4 passes" if k.get("finished") != "1" else
                      "an exact dyadic operation of the model differs from the rounded IEEE operation", cr.create_line(j["tcfg"]), a[:300]), rep, no_input=True)
        elif k.get("prod32") != "1":
            violation(ctx, "planner-product", "planner: the product of the stage rates of the plan differs from io_ratio by more than 2^-32 * max(1, io_ratio) (%s): %s" % (
                cr.create_line(j["tcfg"]), a[:400]), rep)
        elif len(ctx.cov.get("planner_samples", [])) < 4:
            ctx.cov.setdefault("planner_samples", []).append({"create": cr.create_line(j["tcfg"]), "stages": real, "model": a[:200]})
    for j in live:
        tr = j["tr"]
        if tr.rc != 0 or not tr.created:
            ctx.count("planner_real_create_failed")
    ctx.cov["distinct_nontrivial"] = ctx.cov.get("distinct_nontrivial", 0) + len(shapes)


def subprocess_run(argv, lines):
    import subprocess
    p = subprocess.run(argv, input="\n".join(lines) + "\n", stdout=subprocess.PIPE, stderr=subprocess.PIPE, universal_newlines=True, timeout=1800)
    out = p.stdout.splitlines()
    if len(out) != len(lines):
        raise RuntimeError("driver answered %d lines for %d ops: %s" % (len(out), len(lines), p.stderr[-400:]))
    return out


PINNED = [
    # (finding id, probe ops, which harness variant, expectation)
    ("F5", ["create ir=%d or=%d ch=1 recipe=1 large=8 E.SOXR_USE_SIMD=%s" % (cl.d2b(1.0), cl.d2b(8192.0), cl.hexs("1"))], "dead"),
    ("F26", ["create ir=%d or=%d ch=1 recipe=4 sb=%d" % (cl.d2b(44100.0), cl.d2b(48000.0), cl.d2b(cl.NAN))], "dead"),
    ("F22", ["create ir=%d or=%d ch=1 recipe=4 rflags=32" % (cl.d2b(1e308), cl.d2b(1e-308))], "dead"),
    ("F21", ["create ir=%d or=%d ch=1 viaio=1 itype=9 otype=0" % (cl.d2b(1.0), cl.d2b(2.0))], "accepted"),
    ("F27", ["create ir=%d or=%d ch=1" % (cl.d2b(-44100.0), cl.d2b(-48000.0))], "accepted"),
    ("F28", ["create ir=%d or=%d ch=1 prec=%d" % (cl.d2b(0.0), cl.d2b(0.0), cl.d2b(14.0)), "setratio %d" % cl.d2b(2.0), "error", "engine", "error"], "dead"),
    ("F24", ["create ir=%d or=%d ch=1 recipe=0" % (cl.d2b(2147483647.0), cl.d2b(1.0))], "accepted"),
    ("F22b", ["create ir=%d or=%d ch=1 recipe=4 rflags=32" % (cl.d2b(2.0 ** 30), cl.d2b(1.0))], "accepted"),
    ("F25", ["create ir=%d or=%d ch=1 itype=4 otype=4" % (cl.d2b(1.0), cl.d2b(1.0)), "process 0 0 700 100", "output 1 5", "error", "process 0 0 700 100", "error"], "sticky-split"),
]


def stage_pinned(ctx, exe, known):
    """The reproduction of every finding of this area is replayed on every run: a `known` one prints KNOWN-FINDING, a repaired
    (`fixed`) one must no longer reproduce -- if it does (the repair was reverted) that is a VIOLATION with this input."""
    units = [cl.Unit(ops, {"cfg": {"itype": 4, "otype": 4} if fid == "F25" else {"itype": 0, "otype": 0}, "fid": fid, "expect": exp}) for fid, ops, exp in PINNED]
    cl.run_real(exe, units, timeout=8, batch=1)
    cl.run_model(units)
    for u in units:
        fid, exp = u.meta["fid"], u.meta["expect"]
        ctx.count("evaluations")
        if exp == "dead":
            hit = u.rc != 0
        elif exp == "accepted":
            hit = bool(u.real) and u.real[0].startswith("C ok")
        else:
            b = sticky_oracle(u)
            hit = bool(b) and b[0] == ("split" if exp == "sticky-split" else exp)
        ctx.cov.setdefault("pinned_findings", {})[fid] = "reproduced" if hit else "not reproduced"
        fid = fid.rstrip("b")
        if hit and fid in known:
            ctx.known(fid, known[fid]["what"])
        elif hit and fid not in known:
            # a reproduced defect that is not (or no longer) listed as known
            violation(ctx, "pinned-" + fid, "C09: defect %s reproduces on the real code but is not an active known finding (its repair is gone?): %s" % (fid, " | ".join(u.ops)[:400]),
                          {"stage": "pinned", "ops": u.ops, "real": u.real, "rc": u.rc, "stderr": u.err[-800:]})
        if u.rc == 0 and cl.diff_unit(u):
            d = cl.diff_unit(u)
            violation(ctx, "pinned", "correspondence broken on pinned case %s: op %s real %s model %s" % (fid, d[1][:200], d[2][:200], d[3][:200]),
                          {"stage": "pinned", "ops": u.ops, "real": u.real, "model": u.model}, no_input=True)


def replay_only(ctx, exe, known):
    """bin/check C09 --replay <file>: re-runs exactly the stored failing input on the current tree (probe ops through the real
    library and the model; trace ops through the sanitizer build of the trace harness)."""
    import json
    rep = json.load(open(ctx.replay)).get("replay", {})
    ctx.cov["rule"] = "replay of " + os.path.basename(ctx.replay)
    if rep.get("trace_ops"):
        tr = cr.run_trace(common.build_harness("crtrace", ["cr/trace.c"], "san"), rep["trace_ops"], rep.get("env") or {}, timeout=300)
        ctx.count("evaluations")
        d = cr.diff_model(tr) if tr.rc == 0 and tr.engine.startswith("cr") else None
        if tr.rc != 0 or d:
            ctx.violation("C09 replay still fails: rc=%s %s %s" % (tr.rc, tr.err[-600:], d), rep)
        ctx.sample({"trace_ops": rep["trace_ops"][:4], "rc": tr.rc, "last": tr.lines[-2:]})
        return
    ops = rep.get("ops") or []
    cfg = {}
    for t in (ops[0].split()[1:] if ops else []):
        k, _, v = t.partition("=")
        cfg[k] = v if k.startswith("E.") else int(v)
    u = cl.Unit(ops, {"cfg": cfg, "kinds": {}})
    fill_qfields([u], exe)
    cl.run_real(exe, [u], batch=1, timeout=60)
    cl.run_model([u])
    ctx.count("evaluations")
    ctx.sample({"ops": ops[:6], "real": u.real[:6], "model": u.model[:6], "rc": u.rc})
    if u.rc != 0:
        classify_dead(ctx, u, known, "replay")
        return
    d, bad = cl.diff_unit(u), oracle(u)
    st = sticky_oracle(u) if "itype" in cfg and "otype" in cfg else None
    if bad or st:
        ctx.violation("C09 replay still fails on the real code: %s" % ((bad or [st])[0][1],), rep)
    elif d:
        ctx.violation("C09 replay: correspondence still broken: op %s real %s model %s" % (d[1][:200], d[2][:200], d[3][:200]), rep, no_input=True)


def _convert_job(c):
    from checks import _signal as S
    S.RUN_TIMEOUT = 150          # "never hangs": a probe that does not come back is a result
    try:
        ratio = float(c["ir"]) / float(c["orr"])
        r = S.tone_job(c, 0.2 * min(1.0, 1.0 / ratio), amp=0.5, nfit=4000)
    except Exception as ex:          # a run that dies is a result too
        r = {"error": repr(ex)[:300]}
    r["cfg"] = c
    return r


def _convert_typed_job(c):
    """one configuration with an integer output type, several channels, dither on or off, either layout: every channel of the typed
    run must be the float64-output run of the same configuration (same engine, same internal samples) rounded to that type"""
    from checks import _signal as S
    import numpy as np
    S.RUN_TIMEOUT = 150
    try:
        ch, ot = c["ch"], c["otype"]
        ratio = float(c["ir"]) / float(c["orr"])
        n_out = 3000
        N = int(n_out * ratio) + 64
        k = np.arange(N, dtype=float)
        X = np.zeros((N, ch))
        for cc in range(ch):
            X[:, cc] = 0.45 * np.sin(math.pi * (0.11 + 0.07 * cc) * min(1.0, 1.0 / ratio) * k + cc)
        info, y = S.run(c, X.reshape(-1), ch=ch)
        info2, yr = S.run(dict(c, otype=1, ioflags=8), X.reshape(-1), ch=ch)
        m = min(len(y), len(yr)) // ch
        fs = {2: 2.0 ** 31, 3: 32768.0}[ot & 3]
        yi = y[:m * ch].astype(np.float64).reshape(-1, ch) / fs
        yf = yr[:m * ch].reshape(-1, ch)
        err = np.abs(yi - yf).max(axis=0) * fs if m else np.zeros(ch)
        return {"cfg": c, "engine": info["engine"], "frames": [len(y) // ch, len(yr) // ch], "err_lsb": [float(e) for e in err]}
    except Exception as ex:
        return {"cfg": c, "error": repr(ex)[:300]}


def stage_converts(ctx, n):
    """accepted => converts correctly (the property's observe_at: 'behaviour of the created object under C01 probes'): a tone at a fifth
    of the lower Nyquist limit, half of full scale, through configurations drawn over the WHOLE documented ranges rather than the
    recipes' points - precision in half-bit bins over [15, 33], every coefficient-interpolation setting, rational and irrational ratios,
    phase and band edges - must come out as that tone: gain within 1 dB, everything else at least 40 dB down.  (Loose on purpose: this is
    not C01's accuracy claim, only 'the resampler converts'.)"""
    from checks import _signal as S
    rng = ctx.rng
    jobs = []
    ratios_irr = [(44100, 48001), (48000, 44101), (3.14159, 1), (1, 2.71828), (1.0001, 1), (1, 1.41421356), (7.3, 1), (1, 9.87)]
    ratios_rat = [(44100, 48000), (48000, 44100), (3, 2), (2, 3), (1, 2), (5, 1), (1, 6), (96000, 44100), (147, 80), (8, 1)]
    bins = [15.0 + 0.5 * k for k in range(36)]
    for i in range(n):
        lo = bins[i % len(bins)]
        prec = round(min(33.0, lo + rng.uniform(0.0, 0.5)), 3) if rng.chance(.8) else rng.choice([lo, min(33.0, lo + 0.5)])
        irr = (i // len(bins)) % 2 == 0
        ir, orr = rng.choice(ratios_irr if irr else ratios_rat)
        c = S.mkcfg(ir, orr, recipe=rng.choice([4, 4, 6, 1, 4 | 0x40]), qflags=rng.choice([0, 0, 8, 16, 1, 2]), simd=rng.below(2), prec=prec,
                    rtflags=rng.choice([0, 0, 1, 2, 3]) if not irr else rng.choice([0, 0, 2, 3]))
        if rng.chance(.3):
            c["phase"] = rng.choice([0, 25, 50, 75, 100, round(rng.uniform(0, 100), 1)])
        if rng.chance(.25):
            c["kb"] = 50 + rng.below(700)
        if rng.chance(.2):
            c["min"], c["large"] = 8 + rng.below(8), 8 + rng.below(13)
        jobs.append(c)
    for r in S.pool_map(_convert_job, jobs):
        ctx.count("evaluations"); ctx.count("converts_probes")
        c = r["cfg"]
        if "skipped" in r:
            ctx.count("converts_skipped"); continue
        ctx.hist("dist_converts_precision", int(float(c["prec"])))
        if "error" in r:
            violation(ctx, "converts", "C09 fails on the real code: an accepted configuration does not run: %s (%s)" % (r["error"], S.cfg_label(c)), {"stage": "converts", "cfg": c, "result": r})
            continue
        ctx.hist("dist_converts_kinds", r.get("kinds"))
        resid_db = 20 * math.log10(max(r["resid"] / 0.5, 1e-30))
        if abs(r["gain_db"]) > 1.0 or resid_db > -40.0:
            violation(ctx, "converts", "C09 fails on the real code: soxr_create accepted the configuration but the resampler does not convert: a tone at %.4f x input "
                      "Nyquist, amplitude 0.5, comes out with gain %+.2f dB and a residual %.1f dB below it - i.e. not the tone (%s; stages %s)"
                      % (r["f_in"], r["gain_db"], -resid_db, S.cfg_label(c), r.get("kinds")), {"stage": "converts", "cfg": c, "result": {k: v for k, v in r.items() if k != "cfg"}})


def stage_converts_typed(ctx, n):
    """accepted => converts correctly, for the I/O spec too: integer output types x 2-3 channels x dither on / off x interleaved / split
    x either engine precision"""
    from checks import _signal as S
    rng = ctx.rng
    jobs = []
    for i in range(n):
        ir, orr = rng.choice([(44100, 48000), (48000, 44100), (2, 1), (1, 2), (3, 2), (1, 1), (1.7320508, 1), (8000, 44100)])
        ot = rng.choice([2, 3])
        c = S.mkcfg(ir, orr, recipe=rng.choice([1, 4, 6, 6, 4]), qflags=rng.choice([0, 0, 16]), simd=rng.below(2), ch=rng.choice([2, 2, 3]),
                    itype=1, otype=ot, ioflags=rng.choice([8, 8, 0]) if ot == 3 else 8, split=rng.choice([0, 0, 2, 3]))
        jobs.append(c)
    for r in S.pool_map(_convert_typed_job, jobs):
        ctx.count("evaluations"); ctx.count("converts_typed_probes")
        c = r["cfg"]
        if "error" in r:
            violation(ctx, "converts", "C09 fails on the real code: an accepted configuration does not run: %s (%s)" % (r["error"], S.cfg_label(c)), {"stage": "converts-typed", "cfg": c, "result": r})
            continue
        double = r["engine"] in ("cr64", "cr64s")
        fs = {2: 2.0 ** 31, 3: 32768.0}[c["otype"] & 3]
        # rounding to the type (+ 1 LSB of dither for int16) + what the engine's own precision leaves of the full-scale factor it folds in
        tol = 0.51 + (1.0 if (c["otype"] & 3) == 3 and not c["ioflags"] & 8 else 0.0) + 0.5 * fs * 2.0 ** (-50 if double else -20)
        ctx.hist("dist_converts_typed", "%s/%s/%s" % (r["engine"], {2: "i32", 3: "i16"}[c["otype"] & 3], "dither" if not c["ioflags"] & 8 else "nodither"))
        if r["frames"][0] != r["frames"][1] or max(r["err_lsb"]) > tol:
            violation(ctx, "converts", "C09 fails on the real code: soxr_create accepted the I/O spec but the typed output is not the resampled signal: per channel, "
                      "max |typed - float64 output of the same configuration| = %s LSB (allowed %.3g), frames %s (%s ch=%d split=%s ioflags=%s, engine %s)"
                      % (["%.4g" % e for e in r["err_lsb"]], tol, r["frames"], S.cfg_label(c), c["ch"], c["split"], c["ioflags"], r["engine"]),
                      {"stage": "converts-typed", "cfg": c, "result": {k: v for k, v in r.items() if k != "cfg"}})


def run(ctx):
    broken = common.proof_stage(ctx, ["SoxrModel.Properties.C09"], "C09", exes=("soxr_config", "soxrmodel"), gens=("Config",))
    known = {f["id"]: f for f in common.known_active(PID)}
    exe = common.build_harness("config_probe", ["config/probe.c"], "dbg")
    if getattr(ctx, "replay", None):
        replay_only(ctx, exe, known)
        cr.report_broken(ctx, broken, "replay only")
        return
    stage_constructors(ctx, exe)
    units = stage_create(ctx, exe, 5000 if ctx.quick else 120000, known)
    stage_api(ctx, exe, 1500 if ctx.quick else 60000, known)
    stage_working(ctx, units, 220 if ctx.quick else 5000, known)
    stage_thresholds(ctx, 400 if ctx.quick else 6000, known)
    stage_planner(ctx, 1500 if ctx.quick else 40000)
    stage_converts(ctx, 144 if ctx.quick else 3600)
    stage_converts_typed(ctx, 60 if ctx.quick else 1500)
    stage_pinned(ctx, exe, known)
    ctx.cov["rule"] = ("generated soxr_create calls over the product space (rates: audio / small integers / 1e-300..1e300 decades / the 2^31 factor bound / "
                       "big up-sampling / zeros, signs, non-finite, overflowing quotients; channels 0..300; recipes 0..15 x phase bits x steep x flag words; "
                       "precision, phase, pass/stop band inside, at and just beyond each threshold incl. NaN/inf and percent style; io specs NULL / direct / "
                       "constructor incl. invalid codes; runtime specs NULL / default / in-range incl. log2_large_dft_size 8..12; each SOXR_* variable unset or "
                       "set to in-range, boundary and garbage strings) through the REAL soxr_create and through the Lean model `validate`: verdict, error "
                       "string, engine name, stored quality/runtime spec and io_ratio compared; random API call sequences (set_io_ratio, set_num_channels, "
                       "set_error, process, output with input functions, delay, clear, error, engine) through the real soxr.c and the model's `step`; "
                       "a stratified sample of the accepted configurations re-created under ASan/UBSan: exported plan decided against PipeWF by the Lean driver, "
                       "short stream run to the end under a watchdog, total compared with round(N*orate/irate); direct oracle of every clause on the real verdicts; "
                       "distinct = distinct verdict classes + distinct answer classes + distinct stage-plan shapes")
    ctx.assume("what happens after a configuration is accepted (stage planning, filter design: floating point) is not in the Lean model: "
               "`accepted => working` is covered by re-creating sampled accepted configurations under sanitizers and deciding PipeWF on each exported plan, not by proof",
               "binary64 arithmetic of the validation code is modelled as correctly rounded IEEE-754 (SSE2, no -ffast-math, no x87 excess precision)",
               "malloc succeeds (C20); runtime-spec fields handed over directly are inside their documented ranges (only the SOXR_* overrides are range-checked by the code)",
               "API misuse that dereferences NULL (processing before channels and ratio are set, NULL array of split buffers, input after end-of-input, a NULL buffer together with length 0) is outside the property; "
               "the model marks it `misuse` and the harness does not execute it",
               "streams of configurations whose plan reserves more than 2^22 frames per stage invocation (up-sampling by more than ~500 with 8192-frame blocks) are not run (memory); "
               "their plans are still exported and checked")
    cr.report_broken(ctx, broken, "C09 correspondence and oracle on %d creates / %d API sequences found no failing input" % (
        ctx.cov.get("creates_compared", 0), ctx.cov.get("api_sequences_compared", 0)))
