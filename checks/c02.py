"""C02 - stop-band rejection.

  proof stage   Lean: SoxrModel/Properties/C02.lean (the output level of every finite sum of stop-band tones over the WHOLE
                stream is decided by the L outputs of one period; every image line of an in-band tone is bounded by the
                period's deviation) + axiom audit
  measurement   the premise `level` of `Soxr.C02.StopBand` and the image lines, evaluated on the REAL code (float64):
                down-sampling: max_r |c_r(w)| <= 2^(-bits) for tones from the stop-band start to input Nyquist, on a grid of
                >= 16 points per side-lobe period plus the exact band edge;
                up-sampling: every image line of every in-band tone (DFT over one period of c_r) <= 2^(-bits)
  exploration   stop-band tones / image lines end to end for irrational ratios, engines, flags
  verdict       a frequency where the inequality fails is the failing tone: it is re-run end to end and reported.
"""
import math
import numpy as np
from vlib import common
from checks import _signal as S

LEVEL = "proof"


def lim2(bits):
    """"attenuated by at least the configured precision, about 6.02 dB per bit"."""
    return 2.0 ** (-bits)


def strongest_line(c, f_in, amp=1.0, nfit=1 << 15):
    """End-to-end replay for an up-sampling image: in-band tone in, fitted tone removed, strongest remaining spectral
    line (Hann window, amplitude-calibrated) out."""
    ratio = float(c["ir"]) / float(c["orr"])
    wlo, whi = S.extents(c, 1.0 / ratio, 1.0)
    H = wlo + whi + 16
    N = int(math.ceil((nfit + 2 * H) * ratio)) + 8
    x = amp * np.sin(math.pi * f_in * np.arange(N, dtype=float) + 0.3)
    info, y = S.run(c, x)
    a, b = H, len(y) - H
    g, ph, r, coef = S.fit4(y, math.pi * f_in * ratio, a, b)
    w = np.hanning(len(r))
    X = np.abs(np.fft.rfft(r * w, 8 * len(r))) * 2 / w.sum()
    i = int(X.argmax())
    return float(X[i] / amp), i / (4.0 * len(r))     # level, frequency in units of output Nyquist


def run(ctx):
    broken = common.proof_stage(ctx, ["SoxrModel.Properties.C02"], "C02", exes=(), gens=())
    S.harness()
    rng = ctx.rng
    quick = ctx.quick

    if quick:
        cfgs = list(S.QUICK_CORE) + S.pick_rational(rng, 4, exclude=S.QUICK_CORE)
        cap = 700
    else:
        cfgs = S.all_rational() + S.pick_rational(rng, 300)
        cap = 2000
    results = S.pool_map(S.job_rows, [(c, cap, 3e6 if quick else 8e6) for c in cfgs])
    worst, n_eval, measured, sigs = {}, 0, 0, set()
    n_down = n_up = 0
    for r in results:
        if "error" in r:
            ctx.violation("measurement crashed on %s: %s" % (r["label"], r["error"][-600:]), {"config": r["cfg"], "traceback": r["error"]}, no_input=True)
            continue
        if "skipped" in r:
            ctx.hist("skipped", r["skipped"].split(":")[0][:60])
            continue
        measured += 1
        bits = r["bits"]
        lim = lim2(bits)
        sigs.add((r["engine"], r["plan"], bits, r["sb"]))
        ctx.hist("engine", r["engine"])
        ctx.hist("grid_points_per_sidelobe_period", int(r["pass"]["nfft"] // r["W"]))
        if r["pass"]["nfft"] < 16 * r["W"]:
            ctx.violation("frequency grid of %s thinner than 16 points per side-lobe period" % r["label"],
                          {"config": r["cfg"], "nfft": r["pass"]["nfft"], "row_length": r["W"]}, no_input=True)
        sm = r["stop"]
        samp = {"config": r["label"], "engine": r["engine"], "plan": r["plan"], "L_P": r["LP"], "M_P": r["MP"], "bits": bits, "row_taps": r["W"]}
        if sm is not None:
            # down-sampling: input content from the stop-band start to the input Nyquist limit
            n_down += 1
            n_eval += sm["nbins"] * r["LP"]
            m = sm["lvl"] / lim
            worst["stopband_level/2^-bits"] = max(worst.get("stopband_level/2^-bits", 0), m)
            samp.update(stopband_bins=sm["nbins"], n_fft=sm["nfft"], stopband_level_over_bound=round(m, 4),
                        stopband_level_dB=round(S.dB(sm["lvl"]), 2), at_x_input_nyquist=round(sm["lvl_w"] / math.pi, 6))
            if m > 1:
                t = S.tone_job(r["cfg"], sm["lvl_w"] / math.pi, amp=1.0, kind="stop", nfit=20000)
                ok = t.get("level", 0) > lim
                ctx.violation("C02 stop band: %s: tone at %.6f x input Nyquist (stop band starts at %.6f) comes out at max_r|c_r| = %.3g = %.1f dB "
                              "= %.2f x 2^-bits (row %d of the period); end to end the same tone peaks at %.3g (bound %.3g = %.1f dB)"
                              % (r["label"], sm["lvl_w"] / math.pi, sm["ws"] / math.pi, sm["lvl"], S.dB(sm["lvl"]), m, sm["lvl_r"],
                                 t.get("level", float("nan")), lim, S.dB(lim)),
                              {"config": r["cfg"], "plan": r["plan"], "engine": r["engine"], "frequency_x_input_nyquist": sm["lvl_w"] / math.pi,
                               "measured_rows_level": sm["lvl"], "measured_end_to_end_level": t.get("level"), "bound": lim,
                               "replay": "harness/signal/run.c " + " ".join(S.cfg_args(r["cfg"])) + "  < sine of that frequency, amplitude 1.0 (float64)"},
                              no_input=not ok)
        if r["L"] > r["M"]:
            # up-sampling: every spectral image of the pass-band
            n_up += 1
            pm = r["pass"]
            n_eval += pm["nbins"] * (r["LP"] - 1)
            m = pm["img"] / lim
            worst["image_line/2^-bits"] = max(worst.get("image_line/2^-bits", 0), m)
            samp.update(passband_bins=pm["nbins"], image_line_over_bound=round(m, 4), image_dB=round(S.dB(pm["img"]), 2))
            if m > 1:
                lvl, fo = strongest_line(r["cfg"], pm["img_w"] / math.pi)
                ok = lvl > lim
                ctx.violation("C02 images: %s: in-band tone at %.6f x input Nyquist has an image line of %.3g = %.1f dB = %.2f x 2^-bits; "
                              "end to end the strongest line left beside the tone is %.3g at %.5f x output Nyquist (bound %.3g)"
                              % (r["label"], pm["img_w"] / math.pi, pm["img"], S.dB(pm["img"]), m, lvl, fo, lim),
                              {"config": r["cfg"], "plan": r["plan"], "engine": r["engine"], "frequency_x_input_nyquist": pm["img_w"] / math.pi,
                               "measured_rows_level": pm["img"], "measured_end_to_end_level": lvl, "at_x_output_nyquist": fo, "bound": lim},
                              no_input=not ok)
        ctx.sample(samp)
    ctx.count("row_configurations_measured", measured)
    ctx.count("row_configurations_down_sampling", n_down)
    ctx.count("row_configurations_up_sampling", n_up)
    ctx.count("row_inequality_evaluations", n_eval)

    # ---------------- end-to-end exploration: stop-band tones (down) and image lines (up), any ratio
    n_fit = 60 if quick else 2000
    jobs = []
    for c in S.pick_any(rng, 3 * n_fit):
        if len(jobs) >= n_fit:
            break
        down = float(c["ir"]) > float(c["orr"])
        kw = dict(amp=0.95, phase0=rng.uniform(0, 6.28), nfit=8000 if quick else 12000, _frac=rng.uniform(0.0, 1.0), _down=down)
        jobs.append((c, kw))
    fits = S.pool_map(job_stop, jobs)
    n_fits = 0
    for t in fits:
        if "error" in t:
            ctx.violation("tone job crashed on %s: %s" % (t["label"], t["error"][-600:]), {"config": t["cfg"], "traceback": t["error"]}, no_input=True)
            continue
        if "skipped" in t:
            ctx.hist("fit_skipped", t["skipped"][:50])
            continue
        n_fits += 1
        lim = lim2(t["bits"])
        sigs.add((t["engine"], t["plan"], t["bits"], t["sb"]))
        ctx.hist("fit_engine", t["engine"])
        ctx.hist("fit_stage_kinds", t["kinds"])
        rep = {"config": t["cfg"], "plan": t["plan"], "engine": t["engine"], "frequency_x_input_nyquist": t["f_in"], "amplitude": 0.95,
               "window_output_frames": t["n_fit"], "horizon_output_frames": t["horizon"]}
        if "level" in t:
            ctx.hist("fit_kind", "stop-band tone (down-sampling)")
            worst["tone_level/2^-bits"] = max(worst.get("tone_level/2^-bits", 0), t["level"] / lim)
            if t["level"] > lim:
                ctx.violation("C02 stop band (end to end): %s: tone at %.6f x input Nyquist comes out at %.3g = %.1f dB (bound 2^-bits = %.3g = %.1f dB)"
                              % (t["label"], t["f_in"], t["level"], S.dB(t["level"]), lim, S.dB(lim)), dict(rep, measured_level=t["level"], bound=lim))
        else:
            ctx.hist("fit_kind", "image lines of an in-band tone (up-sampling)")
            worst["tone_image/2^-bits"] = max(worst.get("tone_image/2^-bits", 0), t["image"] / lim)
            if t["image"] > lim:
                ctx.violation("C02 images (end to end): %s: in-band tone at %.6f x input Nyquist leaves an image line of %.3g = %.1f dB (bound %.3g)"
                              % (t["label"], t["f_in"], t["image"], S.dB(t["image"]), lim), dict(rep, measured_level=t["image"], bound=lim))
    ctx.count("end_to_end_tones", n_fits)

    ctx.cov["worst_margins"] = {k: round(v, 5) for k, v in sorted(worst.items())}
    ctx.cov["worst_margins_note"] = "ratios measured/bound (< 1 holds); bound = 2^-bits of the tone's amplitude (6.02 dB per bit)"
    ctx.count("evaluations", measured + n_fits)
    ctx.cov["distinct_nontrivial"] = len(sigs)
    ctx.cov["rule"] = ("rows: fixed core of 6 rational configurations plus seeded random draws from ratio class x recipe/flags x engine (thorough: the "
                       "whole product, all M_P phases up to the cap, larger ones counted under `skipped`); the stop-band grid runs from the "
                       "configured stop-band start to the input Nyquist limit; end-to-end tones: seeded random configurations incl. irrational "
                       "ratios and random stop-band / in-band frequencies. distinct_nontrivial = distinct (engine, exported stage plan, precision, "
                       "stop-band start) tuples actually measured.")
    ctx.assume(
        "MEASUREMENT, not proof: max_r |c_r(w)| <= 2^-bits (down-sampling) and image lines <= 2^-bits (up-sampling) are float64 evaluations on "
        "rows obtained from the real code for SAMPLED configurations; nothing proves that the designed filters reject the stop band",
        "between grid frequencies only the grid density speaks (>= 16 points per side-lobe period of every row, plus the exact stop-band edge); "
        "'at every frequency up to the input Nyquist limit' is therefore covered densely, not completely",
        "the real kernels are assumed linear and (L_P, M_P)-shift covariant beyond the start-up horizon (C12); rows are assembled from impulses "
        "at different stream positions under that assumption",
        "irrational ratios and engines' rounding noise are explored by sampled end-to-end tones only",
        "configurations matching known finding F1 (non-linear phase + power-of-two-L DFT stage, L >= 8) are skipped and counted",
    )
    if broken and not ctx.violations:
        ctx.violation("Lean obligations of C02 no longer check: " + "; ".join(broken)[:1500],
                      {"broken": broken, "falsifier": "measurement found no failing tone on this run"}, no_input=True)


def job_stop(args):
    c, kw = args
    try:
        info, _ = S.run(c)
        if "error" in info:
            return {"cfg": c, "label": S.cfg_label(c), "skipped": "create failed: " + info["error"]}
        kw = dict(kw)
        frac, down = kw.pop("_frac"), kw.pop("_down")
        ratio = float(c["ir"]) / float(c["orr"])
        nyq_low = min(1.0, 1.0 / ratio)
        fs = info["q"]["sb"] * nyq_low
        if down and fs < 0.9999:
            kw["kind"] = "stop"
            kw["f_in"] = fs + frac * (0.9999 - fs)              # stop-band start ... just under input Nyquist
        else:
            kw["kind"] = "pass"
            kw["f_in"] = (0.02 + 0.979 * frac) * info["q"]["pb"] * nyq_low
        return S.job_tone((c, kw))
    except Exception:
        import traceback
        return {"cfg": c, "label": S.cfg_label(c), "error": traceback.format_exc()[-1500:]}
