"""C02 - stop-band rejection.

  proof stage   Lean: SoxrModel/Properties/C02.lean (the output level of every finite sum of stop-band tones over the WHOLE
                stream is decided by the L outputs of one period; every image line of an in-band tone is bounded by the
                period's deviation) + axiom audit
  measurement   the premise `level` of `Soxr.C02.StopBand` and the image lines, evaluated on the REAL code (float64):
                down-sampling: max_r |c_r(w)| <= 2^(-bits) for tones from the stop-band start to input Nyquist, on a grid of
                >= 16 points per side-lobe period plus the exact band edge;
                up-sampling: every image line of every in-band tone (DFT over one period of c_r) <= 2^(-bits)
  exploration   end to end for irrational ratios / interpolated coefficients: sums of stop-band tones stratified over the whole
                band from the configured stop-band start to input Nyquist (down), image lines of in-band tones (up)
  cases         one member of every (plan class, knob) pair of the covering pool (checks/_signal.py cover)
  verdict       a frequency where the inequality fails is the failing tone: it is re-run end to end and reported.
"""
import math
import numpy as np
from vlib import common
from checks import _signal as S

LEVEL = "proof"
COVER_RULE = 'covering set (checks/_signal.py cover): a seeded pool of candidate configurations - %s - is planned by the REAL library; every candidate is labelled with its plan class (per stage: half-band / dft stage with F-domain or time-domain rate change, decimation grid aligned to block_len or not / poly-phase order) and its knob; one member of EVERY (plan class, knob) pair is measured, cheapest implementation periods first, members rotating with the seed; the run reports a violation when a required planner path or engine (REQUIRED_CLASSES, REQUIRED_ORDERS, cr32 / cr32s / cr64 / cr64s) is not hit. '


def lim2(bits):
    """"attenuated by at least the configured precision, about 6.02 dB per bit"."""
    return 2.0 ** (-bits)


def strongest_line(c, f_in, amp=1.0, nfit=1 << 15):
    """End-to-end replay for an up-sampling image: in-band tone in, fitted tone removed, strongest remaining spectral
    line (Hann window, amplitude-calibrated) out."""
    ratio = float(c["ir"]) / float(c["orr"])
    wlo, whi = S.extents(c, 1.0 / ratio, 1.0)
    H = wlo + whi + 16
    N = int(math.ceil((nfit + 2 * H) * ratio)) + 8
    x = amp * np.sin(math.pi * f_in * np.arange(N, dtype=float) + 0.3)
    info, y = S.run(c, x)
    a, b = H, len(y) - H
    g, ph, r, coef = S.fit4(y, math.pi * f_in * ratio, a, b)
    w = np.hanning(len(r))
    X = np.abs(np.fft.rfft(r * w, 8 * len(r))) * 2 / w.sum()
    i = int(X.argmax())
    return float(X[i] / amp), i / (4.0 * len(r))     # level, frequency in units of output Nyquist


def run(ctx):
    broken = common.proof_stage(ctx, ["SoxrModel.Properties.C02"], "C02", exes=(), gens=())
    S.harness()
    S.set_active("C02")
    rng = ctx.rng
    quick = ctx.quick

    # covering set: one member of every (plan class, knob) pair the REAL planner produces on a seeded pool (ratio x recipe x engine x
    # knob: phase_response 0/25/75/100 by field or recipe flag, stopband_begin < 1 and > 1, passband_end, roll-off class, fractional
    # precision), cheap implementation periods preferred, members rotating with the seed; plus the fixed core (tightest margins)
    sel, st = S.cover(rng, S.KNOBS_SPECTRAL, S.COVER_RATIOS, per_ratio=2 if quick else 6, members=3, max_period=64 if quick else 400)
    ctx.cov["covering_pool"] = st
    members = [[c] for c in S.QUICK_CORE] + [e["members"] for e in sel]
    cap = 700 if quick else 2000
    if not quick:
        members += [[c] for c in S.all_rational() + S.pick_rational(rng, 300)]
    results = S.pool_map(S.job_rows_first, [(m, cap, 3e6 if quick else 8e6) for m in members])
    worst, n_eval, measured, sigs = {}, 0, 0, set()
    n_down = n_up = 0
    classes_hit, engines_hit, knobs_hit, f1_seen = set(), set(), {}, []
    for e, r in zip([None] * len(S.QUICK_CORE) + sel, results[:len(S.QUICK_CORE) + len(sel)]):
        if e is not None and "pass" in r:
            knobs_hit[e["knob"]] = knobs_hit.get(e["knob"], 0) + 1
    ctx.cov["row_configurations_per_knob"] = knobs_hit
    for r in results:
        if "error" in r:
            ctx.violation("measurement crashed on %s: %s" % (r["label"], r["error"][-600:]), {"config": r["cfg"], "traceback": r["error"]}, no_input=not S.lib_failed(r["error"]))
            continue
        if "skipped" in r:
            ctx.hist("skipped", r["skipped"].split(":")[0][:60])
            if r.get("f1"):
                f1_seen.append(r)
            continue
        measured += 1
        bits = r["bits"]
        lim = lim2(bits)
        sigs.add((r["engine"], r["plan"], bits, r["sb"]))
        classes_hit.add(r["pclass"])
        engines_hit.add(r["engine"])
        fl = r.get("flags", {})
        ctx.hist("rows_plan_class", r["pclass"])
        ctx.hist("stopband_begin", "< 1" if r["sb"] < 1 else "> 1" if r["sb"] > 1 else "= 1 (recipe)")
        ctx.hist("phase_response", "%g" % r["phase"])
        ctx.hist("engine", r["engine"])
        ctx.hist("grid_points_per_sidelobe_period", int(r["pass"]["nfft"] // r["W"]))
        if r["pass"]["nfft"] < 16 * r["W"]:
            ctx.violation("frequency grid of %s thinner than 16 points per side-lobe period" % r["label"],
                          {"config": r["cfg"], "nfft": r["pass"]["nfft"], "row_length": r["W"]}, no_input=True)
        sm = r["stop"]
        samp = {"config": r["label"], "engine": r["engine"], "plan": r["plan"], "L_P": r["LP"], "M_P": r["MP"], "bits": bits, "row_taps": r["W"]}
        if sm is not None:
            # down-sampling: input content from the stop-band start to the input Nyquist limit
            n_down += 1
            n_eval += sm["nbins"] * r["LP"]
            m = sm["lvl"] / lim
            wk = "stopband_level/2^-bits" + (" [F-PH1 / F-SG3 / F-SG6 signature]" if fl.get("F-PH1") or fl.get("F-SG3") or fl.get("F-SG6") else "")
            worst[wk] = max(worst.get(wk, 0), m)
            if sm.get("lvl_low") is not None:
                wk = "stopband_level between stopband_begin and the lower Nyquist limit/2^-bits"
                worst[wk] = max(worst.get(wk, 0), sm["lvl_low"] / lim)
            samp.update(stopband_bins=sm["nbins"], n_fft=sm["nfft"], stopband_level_over_bound=round(m, 4),
                        stopband_level_dB=round(S.dB(sm["lvl"]), 2), at_x_input_nyquist=round(sm["lvl_w"] / math.pi, 6))
            fid = S.known_excess(r, "stop", m)
            if fid:
                ctx.known(fid, S.known_text(fid, r, "tone at %.6f x input Nyquist (stop band starts at %.6f) comes out at %.3g = %.1f dB = %.2f x 2^-bits"
                                            % (sm["lvl_w"] / math.pi, sm["ws"] / math.pi, sm["lvl"], S.dB(sm["lvl"]), m)))
            elif m > 1:
                t = S.tone_job(r["cfg"], sm["lvl_w"] / math.pi, amp=1.0, kind="stop", nfit=20000)
                ok = t.get("level", 0) > lim
                ctx.violation("C02 stop band: %s: tone at %.6f x input Nyquist (stop band starts at %.6f) comes out at max_r|c_r| = %.3g = %.1f dB "
                              "= %.2f x 2^-bits (row %d of the period); end to end the same tone peaks at %.3g (bound %.3g = %.1f dB)"
                              % (r["label"], sm["lvl_w"] / math.pi, sm["ws"] / math.pi, sm["lvl"], S.dB(sm["lvl"]), m, sm["lvl_r"],
                                 t.get("level", float("nan")), lim, S.dB(lim)),
                              {"config": r["cfg"], "plan": r["plan"], "engine": r["engine"], "frequency_x_input_nyquist": sm["lvl_w"] / math.pi,
                               "measured_rows_level": sm["lvl"], "measured_end_to_end_level": t.get("level"), "bound": lim,
                               "replay": "harness/signal/run.c " + " ".join(S.cfg_args(r["cfg"])) + "  < sine of that frequency, amplitude 1.0 (float64)"},
                              no_input=not ok)
        if r["L"] > r["M"]:
            # up-sampling: every spectral image of the pass-band
            n_up += 1
            pm = r["pass"]
            n_eval += pm["nbins"] * (r["LP"] - 1)
            m = pm["img"] / lim
            wk = "image_line/2^-bits" + (" [F-PH1 signature]" if fl.get("F-PH1") else "")
            worst[wk] = max(worst.get(wk, 0), m)
            samp.update(passband_bins=pm["nbins"], image_line_over_bound=round(m, 4), image_dB=round(S.dB(pm["img"]), 2))
            fid = S.known_excess(r, "img", m, level=pm["img"])
            if fid:
                ctx.known(fid, S.known_text(fid, r, "in-band tone at %.6f x input Nyquist has an image line of %.3g = %.1f dB = %.2f x 2^-bits"
                                            % (pm["img_w"] / math.pi, pm["img"], S.dB(pm["img"]), m)))
            elif m > 1:
                lvl, fo = strongest_line(r["cfg"], pm["img_w"] / math.pi)
                ok = lvl > lim
                ctx.violation("C02 images: %s: in-band tone at %.6f x input Nyquist has an image line of %.3g = %.1f dB = %.2f x 2^-bits; "
                              "end to end the strongest line left beside the tone is %.3g at %.5f x output Nyquist (bound %.3g)"
                              % (r["label"], pm["img_w"] / math.pi, pm["img"], S.dB(pm["img"]), m, lvl, fo, lim),
                              {"config": r["cfg"], "plan": r["plan"], "engine": r["engine"], "frequency_x_input_nyquist": pm["img_w"] / math.pi,
                               "measured_rows_level": pm["img"], "measured_end_to_end_level": lvl, "at_x_output_nyquist": fo, "bound": lim},
                              no_input=not ok)
        ctx.sample(samp)
    ctx.count("row_configurations_measured", measured)
    ctx.count("row_configurations_down_sampling", n_down)
    ctx.count("row_configurations_up_sampling", n_up)
    ctx.count("row_inequality_evaluations", n_eval)

    # ---------------- end-to-end exploration: stop-band tones (down) and image lines (up), any ratio
    # every interpolated / irrational planner path x knob.  Down-sampling: a sum of 8 stop-band tones stratified over the WHOLE band from
    # the configured stop-band start to the input Nyquist limit (first percent above the start, the stretch below the lower Nyquist limit
    # when stopband_begin < 1, first alias zone, equal strata of the rest); up-sampling: image lines of two in-band tones
    sel_t, st_t = S.cover(rng, ["base", "ph*", "sb<1", "sb>1", "sb>1.1", "pb", "prec", "gain"], S.COVER_IRRATIONAL + S.RATIOS_ARB, per_ratio=2 if quick else 6,
                          members=1, max_period=1 << 30, rtflags=(None, None, 2, 3))
    ctx.cov["covering_pool_tones"] = st_t
    jobs = []
    nfit = 8000 if quick else 12000
    cfgs_t = [e["members"][0] for e in sel_t] + S.pick_any(rng, 40 if quick else 2000)
    for c in cfgs_t:
        down = float(c["ir"]) > float(c["orr"])
        if down:
            jobs.append((c, dict(_multi=rng.below(1 << 30), nfit=nfit)))
        else:
            for frac in (rng.uniform(0.0, 0.95), rng.uniform(0.95, 1.0)):
                jobs.append((c, dict(amp=0.95, phase0=rng.uniform(0, 6.28), nfit=nfit, _frac=frac, _down=False)))
    fits = S.pool_map(job_stop, jobs)
    n_fits = 0
    for t in fits:
        if "error" in t:
            ctx.violation("tone job crashed on %s: %s" % (t["label"], t["error"][-600:]), {"config": t["cfg"], "traceback": t["error"]}, no_input=not S.lib_failed(t["error"]))
            continue
        if "skipped" in t:
            ctx.hist("fit_skipped", t["skipped"][:50])
            if t.get("f1"):
                f1_seen.append(t)
            continue
        n_fits += 1
        lim = lim2(t["bits"])
        sigs.add((t["engine"], t["plan"], t["bits"], t["sb"]))
        classes_hit.add(t["pclass"])
        engines_hit.add(t["engine"])
        fl = t.get("flags", {})
        ctx.hist("fit_engine", t["engine"])
        ctx.hist("fit_plan_class", t["pclass"])
        if "freqs" in t:
            ctx.hist("fit_kind", "sum of stratified stop-band tones (down-sampling)")
            bound = lim * t["sum_amp"]
            m = t["level"] / bound
            wk = "multitone_level/(2^-bits x sum of amplitudes)" + (" [F-PH1 signature]" if fl.get("F-PH1") else "")
            worst[wk] = max(worst.get(wk, 0), m)
            fid = S.known_excess(t, "stop", m)
            if fid:
                ctx.known(fid, S.known_text(fid, t, "sum of stop-band tones comes out at %.3g = %.2f x bound" % (t["level"], m)))
            elif m > 1:
                single = t.get("single_level", 0) > lim
                ctx.violation("C02 stop band (end to end): %s: a sum of %d stop-band tones (amplitude %.4f each, from %.6f x input Nyquist up) comes out at "
                              "%.3g = %.1f dB, %.2f x the bound 2^-bits x sum of amplitudes; alone, the tone at %.6f x input Nyquist (stop band starts at "
                              "%.6f) comes out at %.3g = %.1f dB of its amplitude (bound %.3g = %.1f dB)"
                              % (t["label"], len(t["freqs"]), t["amp_each"], t["freqs"][0], t["level"], S.dB(t["level"]), m, t.get("single_f", float("nan")),
                                 t["sb"] * min(1.0, float(t["cfg"]["orr"]) / float(t["cfg"]["ir"])), t.get("single_level", float("nan")),
                                 S.dB(t.get("single_level", 0)), lim, S.dB(lim)),
                              {"config": t["cfg"], "plan": t["plan"], "engine": t["engine"], "tone_frequencies_x_input_nyquist": t["freqs"],
                               "amplitude_each": t["amp_each"], "signal_seed": t["seed"], "failing_single_tone_x_input_nyquist": t.get("single_f"),
                               "measured_level_single_tone": t.get("single_level"), "measured_level_sum": t["level"], "bound": lim,
                               "window_output_frames": t["n_fit"], "horizon_output_frames": t["horizon"],
                               "replay": "harness/signal/run.c " + " ".join(S.cfg_args(t["cfg"])) + "  < sine of the failing frequency, amplitude 0.9 (float64)"},
                              no_input=not single)
        else:
            ctx.hist("fit_kind", "image lines of an in-band tone (up-sampling)")
            rep = {"config": t["cfg"], "plan": t["plan"], "engine": t["engine"], "frequency_x_input_nyquist": t["f_in"], "amplitude": 0.95,
                   "window_output_frames": t["n_fit"], "horizon_output_frames": t["horizon"],
                   "replay": "harness/signal/run.c " + " ".join(S.cfg_args(t["cfg"])) + "  < sine of that frequency, amplitude 0.95 (float64)"}
            m = t["image"] / lim
            wk = "tone_image/2^-bits" + (" [F-PH1 signature]" if fl.get("F-PH1") else "")
            worst[wk] = max(worst.get(wk, 0), m)
            fid = S.known_excess(t, "img", m, level=t["image"])
            if fid:
                ctx.known(fid, S.known_text(fid, t, "in-band tone at %.6f x input Nyquist leaves an image line of %.3g = %.2f x 2^-bits" % (t["f_in"], t["image"], m)))
            elif m > 1:
                ctx.violation("C02 images (end to end): %s: in-band tone at %.6f x input Nyquist leaves an image line of %.3g = %.1f dB (bound %.3g)"
                              % (t["label"], t["f_in"], t["image"], S.dB(t["image"]), lim), dict(rep, measured_level=t["image"], bound=lim))
    ctx.count("end_to_end_tones", n_fits)

    # ---------------- planner paths hit; known finding F1 probed on members the pool produced
    miss = S.missing_classes(classes_hit, S.REQUIRED_CLASSES + S.REQUIRED_ORDERS) + ["engine " + e for e in S.REQUIRED_ENGINES if e not in engines_hit]
    ctx.cov["plan_classes_hit"] = len(classes_hit)
    ctx.cov["required_classes_missing"] = miss
    for name in miss:
        ctx.violation("coverage: no measured configuration of this run went through the planner path `%s` (the covering pool no longer produces it)"
                      % name, {"missing_class": name, "classes_hit": sorted(classes_hit)}, no_input=True)
    S.report_f1(ctx, f1_seen, probe_f1_image, "C02")

    ctx.cov["worst_margins"] = {k: round(v, 5) for k, v in sorted(worst.items())}
    ctx.cov["worst_margins_note"] = "ratios measured/bound (< 1 holds); bound = 2^-bits of the tone's amplitude (6.02 dB per bit)"
    ctx.count("evaluations", measured + n_fits)
    ctx.cov["distinct_nontrivial"] = len(sigs)
    ctx.cov["rule"] = ("rows: fixed core of 6 rational configurations plus the " + COVER_RULE % (
                       "coprime ratios a:b up to 12, halving chains, large up-sampling and audio rates x 14 recipes (LQ..32-bit, LSR presets, steep) x engine "
                       "(SIMD / portable, SOXR_DOUBLE_PRECISION) x knob in {recipe as is, phase_response 0 / 25 / 75 / 100 by field or recipe flag, "
                       "stopband_begin < 1, stopband_begin in (1, 1.09) and in (1.09, 1.14), passband_end, roll-off class, fractional precision 15..33}") +
                       "The stop-band grid of every member runs from the CONFIGURED stop-band start to the input Nyquist limit (with stopband_begin < 1 "
                       "this includes the stretch below the lower Nyquist limit where nothing aliases; its level is also listed on its own); up-sampling "
                       "members: every image line of every in-band grid tone. End to end: the same covering over irrational / interpolated ratios: "
                       "down-sampling members get a sum of 8 stop-band tones stratified over the whole band (bound 2^-bits x sum of amplitudes; on failure "
                       "each tone is re-run alone), up-sampling members two in-band tones whose image lines are measured. "
                       "distinct_nontrivial = distinct (engine, exported stage plan, precision, stop-band start) tuples actually measured.")
    ctx.assume(
        "MEASUREMENT, not proof: max_r |c_r(w)| <= 2^-bits (down-sampling) and image lines <= 2^-bits (up-sampling) are float64 evaluations on "
        "rows obtained from the real code for SAMPLED configurations; nothing proves that the designed filters reject the stop band",
        "between grid frequencies only the grid density speaks (>= 16 points per side-lobe period of every row, plus the exact stop-band edge); "
        "'at every frequency up to the input Nyquist limit' is therefore covered densely, not completely",
        "the real kernels are assumed linear and (L_P, M_P)-shift covariant beyond the start-up horizon (C12); rows are assembled from impulses "
        "at different stream positions under that assumption",
        "irrational ratios and engines' rounding noise are explored by sampled end-to-end tones only",
        "F1 (non-linear phase + power-of-two-L dft stage with L not dividing block_len) is repaired in /repo (279ce1a) and listed as fixed: no configuration is "
        "set aside, non-linear phase with L = 8 .. 256 post stages is measured like everything else (the set-aside / child-process probe path of "
        "checks/_signal.py only returns if an F1 entry is listed as known again)",
        "the stop band is read as the property states it: everything at or above the CONFIGURED stop-band start up to the input Nyquist limit, "
        "also where it would not alias (stopband_begin < 1) and also when up-sampling; with stopband_begin > 1 it starts at stopband_begin",
        "known findings of the pinned tree (known_findings.d/signal.json: F-PH1, F-SG3, F-SG6) are recognised by a configuration/plan signature AND a "
        "symptom bound; their margins are listed separately under worst_margins ([... signature])",
    )
    if broken and not ctx.violations:
        ctx.violation("Lean obligations of C02 no longer check: " + "; ".join(broken)[:1500],
                      {"broken": broken, "falsifier": "measurement found no failing tone on this run"}, no_input=True)


def probe_f1_image(c):
    return S.probe_f1(c, "image")


def job_stop(args):
    c, kw = args
    try:
        info, _ = S.run(c)
        if "error" in info:
            return {"cfg": c, "label": S.cfg_label(c), "skipped": "create failed: " + info["error"]}
        kw = dict(kw)
        if "_multi" in kw:
            if not info.get("engine", "").startswith("cr") or S.bits_of(info) < 15:
                return {"cfg": c, "label": S.cfg_label(c), "skipped": "property does not speak (precision < 15 bits)"}
            if S.f1_known(info):
                return {"cfg": c, "label": S.cfg_label(c), "skipped": "known finding F1 signature", "f1": True, "f1_linear": info["q"]["phase"] == 50}
            d = S.stop_multitone_job(c, kw["_multi"], nfit=kw["nfit"])
            d.update(cfg=c, label=S.cfg_label(c), seed=kw["_multi"])
            return d
        frac, down = kw.pop("_frac"), kw.pop("_down")
        ratio = float(c["ir"]) / float(c["orr"])
        nyq_low = min(1.0, 1.0 / ratio)
        kw["kind"] = "pass"
        kw["f_in"] = (0.02 + 0.979 * frac) * min(info["q"]["pb"], 2 - info["q"]["sb"]) * nyq_low
        return S.job_tone((c, kw))
    except Exception:
        import traceback
        return {"cfg": c, "label": S.cfg_label(c), "error": traceback.format_exc()[-1500:]}
