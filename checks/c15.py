"""C15 soxr_delay reports exactly the output still owed for the input accepted."""
import math
from fractions import Fraction
from vlib import common
from checks import crcommon as cr
from checks import c18
from checks import c03

LEVEL = "proof"
PID = "C15"


def job_ops(job, plan):
    rng = common.Rng(job["seed"])
    sizes = cr.gen_sizes(rng, plan)
    ops = [cr.create_line(job["cfg"]), "limit %d" % job["N"], "delay"]
    if not job.get("blocks") and rng.chance(.2):
        # the pull API: the same relation at every point, `frames_not_yet_supplied` being what the input function still has
        # (registered with max_ilen 0 = unlimited, as the library's own libsamplerate binding does, or with a bound)
        ops.append("setfn %d" % rng.choice([0, 0, 64, 1000, 7]))
        pat = rng.choice([["d1000000"], ["d%d" % (1 + rng.below(3000)) for _ in range(8)], ["d7", "d1", "d4096"]])
        if rng.chance(.3):
            # the input function reports failure in mid-stream: from then on nothing more is owed and soxr_delay must say 0
            # (guard of soxr_delay; Properties/C15.delay_zero_after_error)
            pat = ["d%d" % (1 + rng.below(800)) for _ in range(1 + rng.below(6))] + ["f"]
        est = int(job["N"] / cr.io_ratio(job["cfg"])) + 10
        ol = max(rng.choice([1, 5, 64, 1000, 4096, est]), est // 150 + 1)
        for i in range(est // ol + 4):
            ops += ["pull %d %s" % (ol, " ".join(pat)), "delay"]
        ops += ["pull 100 %s" % " ".join(pat), "delay", "hash"]
        return ops
    if rng.chance(.35):
        ops.append("stale %d" % rng.choice([1, 37, 300, 100000]))
    ops.append("eoistyle %d" % rng.below(6))   # how end-of-input is said and how the drain calls look (harness/cr/trace.c after_end)
    ops.append("nullout %d" % rng.below(2))    # a call that asks for 0 frames passes out == NULL (soxr.h allows it)
    cap = [10 ** 9, 60, 3000, 10 ** 9][rng.below(4)]
    if job.get("blocks"):        # huge decimation (checks/c03.make_job): blocks of about one output period, little output room
        for i in range(min(80, job["N"] // max(1, job["blocks"]) + 2)):
            ops += ["feed %d %d 0" % (job["blocks"], rng.choice([8, 1, 100])), "delay"]
    for i in range(0 if job.get("blocks") else rng.choice([3, 10, 40, 120])):
        il = min(rng.choice(sizes) if rng.chance(.6) else rng.below(3000), cap)
        ol = min(rng.choice(sizes) if rng.chance(.6) else rng.below(3000), cap)
        ops += ["feed %d %d %d" % (il, ol, rng.below(2)), "delay"]
    for i in range(rng.below(4)):       # (`eoistyle 5`: the marked last block, accepted only in part)
        ops += ["feed %d %d 1" % (job["N"], rng.choice([1, 10, 100, 700])), "delay"]
    ops += ["feed %d %d 0" % (job["N"], rng.choice(sizes)), "delay"]
    est = int(job["N"] / cr.io_ratio(job["cfg"])) + 10
    for i in range(rng.choice([1, 3, 12])):
        ops += ["feed 0 %d 0" % max(1, rng.choice([1, 7, 100, 1000, est // 3 + 1])), "delay"]
    ops += ["drain %d" % (est // 50 + 1), "delay"]
    if rng.chance(.5):
        ops += ["clear", "delay"]
    ops.append("hash")
    return ops


def oracle(job, tr):
    cfg, N = job["cfg"], job["N"]
    bad = []
    expect, near_tie = cr.owed_exact(N, cfg)
    expect_c = int(N / cr.io_ratio(cfg) + .5)
    ratio = cr.exact_ratio(cfg)          # orate/irate
    fed = out = 0
    flushed = cleared = False
    olen = 0
    drained = False
    npoints = 0
    cur = None
    pull_ans = None
    failed = False
    for l in tr.lines:
        if l.startswith("> cr.proc"):
            t = l.split(); olen = int(t[6]); cur = t
            if cr.signals_end(t):      # in == NULL, or the ~ilen mark on a block taken whole
                flushed = True
        elif l.startswith("> cr.eoi"):                            # end-of-input by a call without buffers
            flushed = True; olen = 0; cur = None
        elif l.startswith("> cr.pull"):                           # answers of the input function in this call: all but the two look-ahead tokens
            t = l.split(); olen = int(t[2]); cur = None
            pull_ans = c18.expand(t[3:])[:-2] if len(t) > 3 else []
        elif l.startswith("> cr.clear"):
            cleared = True; fed = out = 0; flushed = False
        elif l.startswith("< R "):
            r = cr.parse_kv(l)
            fed += int(r["id"]); out += int(r["od"])
            if pull_ans is not None:
                for a in pull_ans[:int(r.get("used", 0))]:
                    if a == "f":
                        failed = True
                    if a in ("e", "f"):
                        flushed = True
                    else:
                        fed += int(a[1:])
                pull_ans = None
            if cr.marked_whole(cur, r):
                flushed = True
            if flushed and olen > 0 and int(r["od"]) == 0:
                drained = True
        elif l.startswith("D "):
            d = float(cr.parse_kv(l)["delay"])
            npoints += 1
            if cleared:
                if d != 0:
                    bad.append(("cleared", "delay %r after soxr_clear" % d))
                continue
            if failed:
                # the object carries an error: it will deliver nothing more (C18), so nothing is owed
                if d != 0:
                    bad.append(("after-error", "after %d in / %d out the input function reported failure; the stream delivers nothing more, soxr_delay reports %r" % (fed, out, d)))
                    break
                continue
            if fed == 0 and out == 0 and not flushed and d != 0:
                bad.append(("fresh", "delay %r before any input" % d))
            x = Fraction(d) + (N - fed) * ratio if not flushed else Fraction(d)
            pred = out + math.floor(x + Fraction(1, 2))
            tie = abs((x - math.floor(x)) - Fraction(1, 2)) < Fraction(1, 10 ** 6)
            target = expect
            okv = pred == target or (tie and abs(pred - target) <= 1) or (near_tie and pred == expect_c)
            if not okv:
                bad.append(("relation", "after %d in / %d out: delay %r predicts a total of %d, the stream delivers %d" % (fed, out, d, pred, target)))
            if not flushed and d < -1:
                bad.append(("below-minus-one", "delay %r while streaming" % d))
            if flushed and d < 0:
                bad.append(("negative-after-eoi", "delay %r after end-of-input" % d))
            if drained and d != 0:
                bad.append(("drained", "delay %r once the stream is drained" % d))
            if bad:
                break
    return bad, {"N": N, "delay_points": npoints, "near_tie": near_tie}


def run(ctx):
    broken = common.proof_stage(ctx, ["SoxrModel.Properties.C15"], "C15")
    exe = common.build_harness("crtrace", ["cr/trace.c"], "rel")
    njobs = 1000 if ctx.quick else 25000
    jobs = [c03.make_job(ctx.rng, i, ctx.quick) for i in range(njobs)]
    res = cr.sweep(ctx, PID, exe, jobs, job_ops, oracle)
    for job, ops, tr, bad, info in res:
        ctx.count("delay_points_checked", info.get("delay_points", 0))
    # ---- the decidable hypotheses of delay_gt_neg_one_every_run and hearly_every_run (StageWF, PlanEarlyOK, PlanLatOK false, and the
    #      post-context clause rate/2 <= 1 + offset + margin), evaluated by the Lean driver on the exported plan of every linear-phase job;
    #      a plan that fails the post-context clause is searched for a stream length at which a frame too many is handed out
    from checks import c04

    def hyp(x):
        job, ops, tr, bad, info = x
        if not tr.plan:
            return None
        return job, tr, c04.plan_time(tr)[0]
    known_ids = {f["id"] for f in common.known_active(PID)}
    seen_sig = set()
    todo = []
    for x in res:
        job, ops, tr, bad, info = x
        sig = cr.plan_sig(tr)
        if tr.plan and sig not in seen_sig:
            seen_sig.add(sig); todo.append(x)
    searched = 0
    for h in cr.pmap(hyp, todo):
        if h is None:
            continue
        job, tr, t = h
        ctx.count("plans_delay_hypotheses_checked")
        if [k for k in cr.classify_known(tr.plan, job["cfg"]) if k in known_ids]:
            continue
        linear = float(job["cfg"].get("phase", 50)) == 50 and not (int(job["cfg"].get("recipe", 4)) & 0x30)
        if (linear and (t is None or int(t["lat"]) < 1 or t.get("early") != "1")) or (not linear and (t is None or t.get("earlyg") != "1")):
            ctx.violation("hypothesis of delay_gt_neg_one_every_run fails on a plan of the real planner (PlanLatOK / PlanEarlyOK / StageWF): %s (%s %s)"
                          % (t, cr.create_line(job["cfg"]), job["env"]), {"cfg": job["cfg"], "env": job["env"], "plan": tr.plan, "time": t}, no_input=True)
        elif t.get("post") != "1":
            found = cr.find_eoi_overrun(exe, job["cfg"], job["env"]) if searched < 5 else None
            searched += 1
            if found:
                ctx.violation("C15 fails on the real code: %s, so soxr_delay() is negative once end-of-input is said (%s %s); the plan's post-context is below "
                              "half an output period (hypothesis of hearly_every_run: %s)" % (found["what"], cr.create_line(job["cfg"]), job["env"], t),
                              {"cfg": job["cfg"], "env": job["env"], "plan": tr.plan, "time": t, "ops": found["ops"] + ["feed 0 10 0", "delay"]})
            else:
                ctx.violation("hypothesis of hearly_every_run fails on a plan of the real planner (post-context below half an output period): %s (%s %s)"
                              % (t, cr.create_line(job["cfg"]), job["env"]), {"cfg": job["cfg"], "env": job["env"], "plan": tr.plan, "time": t}, no_input=True)
        else:
            ctx.count("plans_where_hearly_every_run_applies")
    # ---- streams longer than an int can count (2^31 and 2^32 frames): samples_in / samples_out are 64-bit and the frames owed at
    #      end-of-input are computed from them; silence through the real engine in large calls (`fast 1`: input not synthesised, output
    #      not hashed), every call replayed through the count model, delay read before and after end-of-input and after the drain
    ljobs = [{"cfg": {"ir": "1.0", "or": "1.0", "recipe": 4, "itype": 0, "otype": 0}, "env": {}, "N": 2 ** 31 + 1000, "blk": 1 << 22, "seed": 0, "idx": 0, "style": "long"}]
    if not ctx.quick:
        ljobs += [{"cfg": {"ir": "1.0", "or": "1.0", "recipe": 1, "itype": 3, "otype": 3}, "env": {}, "N": 2 ** 32 + 777, "blk": 1 << 22, "seed": 0, "idx": 1, "style": "long"},
                  {"cfg": {"ir": "2.0", "or": "1.0", "recipe": 1, "itype": 0, "otype": 0}, "env": {}, "N": 2 ** 32 + 2000, "blk": 8192, "seed": 0, "idx": 2, "style": "long"}]

    def long_ops(job, plan):
        N, blk = job["N"], job["blk"]
        room = int(blk / cr.io_ratio(job["cfg"])) + 64
        ops = [cr.create_line(job["cfg"]), "limit %d" % N, "fast 1"]
        ops += ["feed %d %d 0" % (blk, room)] * (N // blk)
        ops += ["feed %d %d 0" % (blk, room), "delay", "feed 0 %d 0" % room, "delay", "drain %d" % room, "delay"]
        return ops
    res1 = cr.sweep(ctx, PID, exe, ljobs, long_ops, oracle, timeout=600 if ctx.quick else 3600)
    ctx.count("long_stream_jobs", len(res1))
    ctx.cov["long_stream_frames"] = [j["N"] for j in ljobs]
    # ---- end-of-input at EVERY stream length: whether a frame has been handed out that the final total does not contain depends on
    #      where in the output period the input stops, so each configuration is run for N = 0..span with everything available taken
    #      before end-of-input is said (generous room), delay read before and after.  Ratios: the grid of small ratios, factors whose
    #      integer part is odd / even on both sides of 4 (the cubic stage's hold-back is max(3, floor(factor))), one recipe per class.
    span = 40 if ctx.quick else 130
    ecfgs = []
    erng = common.Rng(ctx.rng.next())
    ratios = [(49, 10), (31, 5), (17, 2), (4, 1), (5, 1), (9, 2), (41, 10), (7, 3), (3, 7), (1, 5), (11, 10), (10, 11), (160, 147)]
    grid = cr.small_ratio_grid(7)
    ratios += [grid[erng.below(len(grid))] for _ in range(6 if ctx.quick else 40)]
    ratios += [(erng.uniform(3.5, 9.5), 1) for _ in range(4 if ctx.quick else 30)]
    for (a, b) in ratios:
        for recipe in ([0, erng.choice([1, 4, 6])] if ctx.quick else [0, 1, 3, 4, 6]):
            ecfgs.append({"ir": repr(float(a)), "or": repr(float(b)), "recipe": recipe, "qflags": erng.choice([0, 0, 8])})
    ejobs = [{"cfg": c, "env": {}, "N": n, "seed": 0, "idx": i, "style": "eoi-everywhere"} for i, c in enumerate(ecfgs) for n in range(span)]

    def eoi_ops(job, plan):
        est = int(job["N"] / cr.io_ratio(job["cfg"])) + 50
        ops = [cr.create_line(job["cfg"]), "limit %d" % job["N"], "delay", "eoistyle %d" % (job["N"] % 3)]
        if job["N"]:
            ops += ["feed %d %d 0" % (job["N"], est), "delay", "feed 0 %d 0" % est, "delay"]      # second call: whatever else is ready, still streaming... (N used up: this call says end-of-input)
        ops += ["drain %d" % est, "delay"]
        return ops
    res2 = cr.sweep(ctx, PID, exe, ejobs, eoi_ops, oracle)
    ctx.count("eoi_everywhere_jobs", len(res2))
    for job, ops, tr, bad, info in res2:
        ctx.count("delay_points_checked", info.get("delay_points", 0))
    ctx.cov["rule"] = ("random (configuration, N, schedule) jobs with soxr_delay() read after every call, before input, after the drain and "
                       "after soxr_clear; real answers replayed through the Lean count model (delay compared bit for bit) and checked against "
                       "the property in exact rationals: delivered + round(delay + remaining*orate/irate) = round(N*orate/irate); "
                       ">= -1 while streaming; >= 0 after end-of-input; 0 when drained / cleared / fresh")
    ctx.assume(*cr.CR_ASSUME)
    ctx.assume("rounding in the oracle is exact-rational; within 1e-6 of a tie either neighbour is accepted (counted as near_ties)")
    cr.report_broken(ctx, broken, "C15 oracle on %d jobs found no failing input" % njobs)
