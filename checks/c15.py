"""C15 soxr_delay reports exactly the output still owed for the input accepted."""
import math
from fractions import Fraction
from vlib import common
from checks import crcommon as cr
from checks import c03

LEVEL = "proof"
PID = "C15"


def job_ops(job, plan):
    rng = common.Rng(job["seed"])
    sizes = cr.gen_sizes(rng, plan)
    ops = [cr.create_line(job["cfg"]), "limit %d" % job["N"], "delay"]
    if rng.chance(.35):
        ops.append("stale %d" % rng.choice([1, 37, 300, 100000]))
    ops.append("eoistyle %d" % rng.below(6))   # how end-of-input is said and how the drain calls look (harness/cr/trace.c after_end)
    ops.append("nullout %d" % rng.below(2))    # a call that asks for 0 frames passes out == NULL (soxr.h allows it)
    cap = [10 ** 9, 60, 3000, 10 ** 9][rng.below(4)]
    for i in range(rng.choice([3, 10, 40, 120])):
        il = min(rng.choice(sizes) if rng.chance(.6) else rng.below(3000), cap)
        ol = min(rng.choice(sizes) if rng.chance(.6) else rng.below(3000), cap)
        ops += ["feed %d %d %d" % (il, ol, rng.below(2)), "delay"]
    for i in range(rng.below(4)):       # (`eoistyle 5`: the marked last block, accepted only in part)
        ops += ["feed %d %d 1" % (job["N"], rng.choice([1, 10, 100, 700])), "delay"]
    ops += ["feed %d %d 0" % (job["N"], rng.choice(sizes)), "delay"]
    est = int(job["N"] / cr.io_ratio(job["cfg"])) + 10
    for i in range(rng.choice([1, 3, 12])):
        ops += ["feed 0 %d 0" % max(1, rng.choice([1, 7, 100, 1000, est // 3 + 1])), "delay"]
    ops += ["drain %d" % (est // 50 + 1), "delay"]
    if rng.chance(.5):
        ops += ["clear", "delay"]
    ops.append("hash")
    return ops


def oracle(job, tr):
    cfg, N = job["cfg"], job["N"]
    bad = []
    expect, near_tie = cr.owed_exact(N, cfg)
    expect_c = int(N / cr.io_ratio(cfg) + .5)
    ratio = cr.exact_ratio(cfg)          # orate/irate
    fed = out = 0
    flushed = cleared = False
    olen = 0
    drained = False
    npoints = 0
    cur = None
    for l in tr.lines:
        if l.startswith("> cr.proc"):
            t = l.split(); olen = int(t[6]); cur = t
            if cr.signals_end(t):      # in == NULL, or the ~ilen mark on a block taken whole
                flushed = True
        elif l.startswith("> cr.eoi"):                            # end-of-input by a call without buffers
            flushed = True; olen = 0; cur = None
        elif l.startswith("> cr.clear"):
            cleared = True; fed = out = 0; flushed = False
        elif l.startswith("< R "):
            r = cr.parse_kv(l)
            fed += int(r["id"]); out += int(r["od"])
            if cr.marked_whole(cur, r):
                flushed = True
            if flushed and olen > 0 and int(r["od"]) == 0:
                drained = True
        elif l.startswith("D "):
            d = float(cr.parse_kv(l)["delay"])
            npoints += 1
            if cleared:
                if d != 0:
                    bad.append(("cleared", "delay %r after soxr_clear" % d))
                continue
            if fed == 0 and out == 0 and not flushed and d != 0:
                bad.append(("fresh", "delay %r before any input" % d))
            x = Fraction(d) + (N - fed) * ratio if not flushed else Fraction(d)
            pred = out + math.floor(x + Fraction(1, 2))
            tie = abs((x - math.floor(x)) - Fraction(1, 2)) < Fraction(1, 10 ** 6)
            target = expect
            okv = pred == target or (tie and abs(pred - target) <= 1) or (near_tie and pred == expect_c)
            if not okv:
                bad.append(("relation", "after %d in / %d out: delay %r predicts a total of %d, the stream delivers %d" % (fed, out, d, pred, target)))
            if not flushed and d < -1:
                bad.append(("below-minus-one", "delay %r while streaming" % d))
            if flushed and d < 0:
                bad.append(("negative-after-eoi", "delay %r after end-of-input" % d))
            if drained and d != 0:
                bad.append(("drained", "delay %r once the stream is drained" % d))
            if bad:
                break
    return bad, {"N": N, "delay_points": npoints, "near_tie": near_tie}


def run(ctx):
    broken = common.proof_stage(ctx, ["SoxrModel.Properties.C15"], "C15")
    exe = common.build_harness("crtrace", ["cr/trace.c"], "rel")
    njobs = 1000 if ctx.quick else 25000
    jobs = [c03.make_job(ctx.rng, i, ctx.quick) for i in range(njobs)]
    res = cr.sweep(ctx, PID, exe, jobs, job_ops, oracle)
    for job, ops, tr, bad, info in res:
        ctx.count("delay_points_checked", info.get("delay_points", 0))
    ctx.cov["rule"] = ("random (configuration, N, schedule) jobs with soxr_delay() read after every call, before input, after the drain and "
                       "after soxr_clear; real answers replayed through the Lean count model (delay compared bit for bit) and checked against "
                       "the property in exact rationals: delivered + round(delay + remaining*orate/irate) = round(N*orate/irate); "
                       ">= -1 while streaming; >= 0 after end-of-input; 0 when drained / cleared / fresh")
    ctx.assume(*cr.CR_ASSUME)
    ctx.assume("rounding in the oracle is exact-rational; within 1e-6 of a tie either neighbour is accepted (counted as near_ties)")
    cr.report_broken(ctx, broken, "C15 oracle on %d jobs found no failing input" % njobs)
