"""C17 — distinct resamplers can be used concurrently; results equal serial use; the process-wide FFT cache and coefficient
tables are never read while being rebuilt nor initialised twice.

  proof      lean/SoxrModel/Properties/C17.lean (26 theorems): counter-abstraction model of ONE FFT cache (fft4g_cache.h +
             ccrw2.h + the unguarded lazy initialiser, 55 program points, 65 transitions, five semaphores, readcount, writecount,
             FFT_LEN, built length) for ANY number of threads and EVERY interleaving: after initialisation writer/reader
             exclusion, no read during a rebuild, readers find the tables built, every rebuild is a strict growth (the
             re-test after the reader->writer upgrade), tables stable under a reader; the same from process start when
             initialisation is not raced (`…_partial`); NEGATIONS for the pinned unguarded initialisers (FFT cache and
             vr_init's tables) by reachable witness traces (finding F9).
  tie        the REAL library (built from /repo's working tree with the SOXR_VERIF lock shim and yield points) runs 2-3
             threads of resampling jobs under a deterministic scheduler (harness/conc/sched.c) that owns every lock operation
             and yield point; every event, with the real values of FFT_LEN / readcount / writecount / built length / the five
             lock words sampled right after it, is replayed by the compiled Lean driver soxr_conc on the SAME `fire` the
             theorems quantify over: the transition must be enabled, the abstract variables must equal the real ones, the
             counts must equal the threads' program points.  REJECT = correspondence broken.
             Table uses are events too: fft4g's rdft/cdft report the first dereference of the shared tables (hook
             soxr_verif_table_use, also a scheduling point); the model takes a `use` only from a thread that holds the reader or
             the writer role (TABLE-USE-OUTSIDE-LOCK otherwise) and proves that no other thread rebuilds at that moment.
  falsifier  monitors inside the harness on the real code (table use outside UPDATE_FFT_CACHE..DONE_WITH_FFT_CACHE or while
             another thread rebuilds, second initialisation of a held / initialised lock, FFT_LEN reset,
             table or FFT_LEN written without the writer role, rebuild without growth, two rebuilders, reader inside a
             transform during a rebuild, release of a lock not held, use of an uninitialised lock, deadlock) and every job's
             output compared bit for bit with the same job run alone in a fresh process.  Supplement without the scheduler
             (what the hook granularity cannot see): free-running real threads after a completed initialisation, outputs vs
             serial runs, and the same under ThreadSanitizer; and the scheduler harness itself built with ThreadSanitizer, the
             scheduler hidden from it and the lock shim as the only source of happens-before: conflicting accesses to FFT_LEN,
             the table pointers or the tables that the lock does not order are reported deterministically per schedule (any
             report other than the two listed ones is a violation).
  F9         reproduced on purpose (schedules that park one thread inside LSX_INIT_FFT_CACHE / vr_init while another
             initialises, builds and uses the tables): KNOWN-FINDING.  The signature is decided by the model during the
             replay (a thread took `i0_cold` while another was inside the initialiser = the step `ReachableS` excludes); any
             monitor hit, wrong output, deadlock or crash in a run WITHOUT that signature is a VIOLATION.
"""
import json, os, re, time
from vlib import common
from checks import conclib as L

LEVEL = "proof"
PID = "C17"


def label_names():
    txt = open(os.path.join(common.LEAN, "SoxrModel", "Conc", "Model.lean")).read()
    body = txt.split("inductive Label where", 1)[1].split("deriving", 1)[0]
    return re.findall(r"^\s*\|\s*(\w+)", body, re.M)


class Gen:
    def __init__(self, ctx):
        self.ctx, self.n, self.specs = ctx, 0, []

    def add(self, setname, family, **kw):
        self.n += 1
        sp = L.mk(setname, family, id="s%06d" % self.n, **kw)
        self.specs.append(sp)
        return sp

    def take(self):
        s, self.specs = self.specs, []
        return s


def round1(g, sets, quick):
    """tail policies, random prefixes; the `tail=c` run of each (set, warm) is the base of the pre-emption families"""
    rng = g.ctx.rng
    for s in sets:
        nt = L.nthreads(L.JOBSETS[s][0])
        for warm in L.starts(s):
            for rs in (0, 1):
                g.add(s, "base" if rs == 0 else "tail", tail="c", warm=warm, relswitch=rs)
                g.add(s, "tail", tail="r", warm=warm, relswitch=rs)
            for i in range(12 if quick else 60):
                g.add(s, "random-tail", tail="x", seed=1 + rng.below(1 << 30), p=rng.choice([8, 16, 64, 128, 255]), warm=warm,
                      relswitch=rng.below(2))
            for i in range(20 if quick else 100):
                ln = 2 + rng.below(40)
                pre = "".join(str(rng.below(nt)) for _ in range(ln))
                g.add(s, "random-prefix", sched=pre, tail=rng.choice(["c", "r", "x"]), seed=1 + rng.below(1 << 30),
                      p=rng.choice([16, 64, 255]), warm=warm, relswitch=rng.below(2))


def round2(g, sets, base, quick):
    """pre-emption-bounded schedules relative to the non-pre-emptive base run, the F9 family, exhaustive prefixes (thorough)"""
    rng = g.ctx.rng
    for s in sets:
        nt = L.nthreads(L.JOBSETS[s][0])
        sw = ["n"] if nt == 2 else ["n", "m"]
        for warm in L.starts(s):
            nd = base.get((s, warm), 30)
            # bound 1: EVERY decision point of the base run, every other thread
            for i in range(nd + 2):
                for ch in sw:
                    g.add(s, "preempt-1", sched="c" * i + ch, tail="c", warm=warm)
            # bound 2 / 3
            if quick:
                for _ in range(80):
                    i, j = rng.below(nd + 1), rng.below(nd + 1)
                    g.add(s, "preempt-2", sched="c" * i + rng.choice(sw) + "c" * j + rng.choice(sw), tail="c", warm=warm, relswitch=rng.below(2))
            else:
                lim = min(nd + 2, 70 if nt == 2 else 36)
                for i in range(lim):
                    for j in range(lim - i):
                        for a in sw:
                            for b in sw:
                                g.add(s, "preempt-2", sched="c" * i + a + "c" * j + b, tail="c", warm=warm)
                for _ in range(300):
                    parts = [("c" * rng.below(nd // 2 + 2)) + rng.choice(sw) for _ in range(3)]
                    g.add(s, "preempt-3", sched="".join(parts), tail="c", warm=warm, relswitch=rng.below(2))
        # F9 family: thread 0 parked right after the test FFT_LEN >= 0 (or fade_coefs[0]==0), thread 1 advanced by k decisions,
        # then thread 0 resumed: every k
        nd = base.get((s, 0), 30)
        for k in range(0, nd + 3):
            g.add(s, "f9-park", sched="0" + "1" * k + "0", tail="c", warm=0)
            if not quick or k % 4 == 0:
                g.add(s, "f9-park", sched="0" + "1" * k + "0", tail="r", warm=0)
        depth = (7 if nt == 2 else 4) if quick else (12 if nt == 2 else 7)
        digits = "012"[:nt]
        for warm in L.starts(s):
            for tail in ("c", "r"):
                for v in range(nt ** depth):
                    pre, x = "", v
                    for _ in range(depth):
                        pre += digits[x % nt]
                        x //= nt
                    g.add(s, "exhaustive-prefix", sched=pre, tail=tail, warm=warm)


def replay_line(run):
    """a batch line that reproduces the run decision by decision (no tail policy, no generator)"""
    sp = dict(run["spec"])
    if run.get("decisions") and run["decisions"] != "-":
        sp["sched"], sp["tail"] = run["decisions"], "c"
    return L.spec_line(sp)


def do_replay(ctx, exe):
    d = json.load(open(ctx.replay))
    line = d.get("replay", {}).get("line") or d.get("replay", {}).get("line_as_generated")
    if not line:
        print("replay file has no schedule line")
        return
    toks = line.split()
    kv = dict(t.split("=", 1) for t in toks[1:])
    sp = dict(id=toks[0], jobs=kv["jobs"], sched=kv.get("sched", "-"), tail=kv.get("tail", "c"), seed=int(kv.get("seed", 1)), p=int(kv.get("p", 64)),
              warm=int(kv.get("warm", 0)), relswitch=int(kv.get("relswitch", 0)), simd32=int(kv.get("simd32", 0)), simd64=int(kv.get("simd64", 0)),
              set="replay", family="replay")
    run = L.run_all(exe, [sp], keep_trace=True)[sp["id"]]
    vio, known = L.classify(run)
    print("replay of: " + line)
    for t in run.get("trace", [])[-40:]:
        print("  " + t)
    print("harness: status=%s wrong=%s monitors=%s" % (run["status"], run["wrong"], [(e, k) for e, k, _ in run["viol"]]))
    print("model  : %s" % (run["model"].get("raw") or run["model"].get("why")))
    for k, t in known:
        print("known-finding consequence: %s %s" % (k, t))
    for k, t in vio:
        ctx.violation("%s: %s" % (k, t), {"line": line, "kind": k})
    if str(d.get("replay", {}).get("how", "")).startswith("TSAN_OPTIONS"):
        import subprocess
        ts = common.build_harness("sched", ["conc/sched.c"], variant="tsan")
        p = subprocess.run([ts, "line", line], stdout=subprocess.PIPE, stderr=subprocess.PIPE, universal_newlines=True,
                           env=dict(os.environ, TSAN_OPTIONS="halt_on_error=0 exitcode=0"))
        for rep in L.parse_tsan(p.stderr):
            k = L.tsan_known(rep)
            print("ThreadSanitizer: %s; %s; %s -> %s" % (rep["summary"], rep["location"], rep["tops"], k or "NOT a listed race"))
            if not k:
                print(rep["text"])
                ctx.violation("accesses not ordered by the cache lock (ThreadSanitizer): %s; location %s" % (rep["summary"], rep["location"]),
                              {"line": line, "how": d["replay"]["how"]})


def run(ctx):
    t0 = time.time()
    broken = common.proof_stage(ctx, ["SoxrModel.Properties.C17"], "C17", exes=("soxr_conc",))
    exe = L.sched_exe()
    if getattr(ctx, "replay", None):
        do_replay(ctx, exe)
        return
    quick = ctx.quick
    sets = L.QUICK_SETS if quick else list(L.JOBSETS)
    labels = label_names()
    g = Gen(ctx)

    stats = {"runs": 0, "events": 0, "fired": 0, "distinct": set(), "cov": [0, 0], "f9_runs": 0, "good_cold": 0, "warm": 0,
             "upgrades": 0, "downgrades": 0, "max_readers": 0, "vr_raced": 0, "ok_status": 0}
    vios, knowns, witness = [], {}, []

    def absorb(runs):
        for rid in sorted(runs):
            r = runs[rid]
            sp, mo = r["spec"], r["model"]
            stats["runs"] += 1
            stats["events"] += r["events"]
            if r["events"] > 0 and r["ndec"] > 1:
                stats["distinct"].add((sp["jobs"], sp.get("warm", 0), sp.get("relswitch", 0), sp.get("simd32", 0), sp.get("simd64", 0), r["decisions"]))
            if mo and mo.get("ok"):
                stats["ok_model"] = stats.get("ok_model", 0) + 1
            if stats["runs"] % 997 == 1:
                ctx.sample({"schedule": replay_line(r), "family": sp["family"], "events": r["events"], "decision_points": r["ndec"],
                            "status": r["status"], "outputs_differing_from_serial": r["wrong"], "monitor_hits": [k for _, k, _ in r["viol"]][:6],
                            "model": (mo or {}).get("raw", "")[:300]})
            ctx.hist("schedules_by_family", sp["family"])
            ctx.hist("schedules_by_jobset", sp["set"])
            ctx.hist("schedules_by_threads", L.nthreads(sp["jobs"]))
            ctx.hist("schedules_by_start", {0: "cold", 1: "warm", 2: "double cache warm, float cache cold", 3: "float cache warm, double cache cold"}[sp.get("warm", 0)])
            ctx.hist("run_status", r["status"])
            ctx.hist("decision_points", min(200, 20 * (r["ndec"] // 20)))
            vio, known = L.classify(r)
            raced = False
            if mo and mo.get("ok"):
                for c in (0, 1):
                    m = mo["c%d" % c]
                    stats["fired"] += m["fired"]
                    stats["cov"][c] |= m["cov"]
                    stats["upgrades"] += m["upgrades"]
                    stats["downgrades"] += m["downgrades"]
                    stats["max_readers"] = max(stats["max_readers"], m["maxReaders"])
                    raced = raced or m["raced"] > 0
                    if m["raced"] and m["overlap"] and m["nReset"] >= 2:
                        witness.append((r, c))
                stats["fired"] += mo["vr"]["fired"]
                if mo["vr"]["raced"]:
                    stats["vr_raced"] += 1
            if raced:
                stats["f9_runs"] += 1
            elif sp.get("warm") == 1:
                stats["warm"] += 1
            else:
                stats["good_cold"] += 1
            for k, t in known:
                d = knowns.setdefault(k, {"n": 0, "example": t, "line": replay_line(r)})
                d["n"] += 1
            for k, t in vio:
                vios.append((k, t, r))

    # ---------------- round 1: tails and random schedules; learn the number of decision points of the base schedules
    round1(g, sets, quick)
    runs = L.run_all(exe, g.take())
    base = {}
    for r in runs.values():
        if r["spec"]["family"] == "base":
            base[(r["spec"]["set"], r["spec"]["warm"])] = r["ndec"]
    absorb(runs)
    # ---------------- round 2: pre-emption bounded enumeration, F9 family, exhaustive prefixes
    round2(g, sets, base, quick)
    specs = g.take()
    for i in range(0, len(specs), 20000):
        absorb(L.run_all(exe, specs[i:i + 20000]))

    # ---------------- evidence
    ctx.count("evaluations", stats["runs"])
    ctx.count("distinct_nontrivial", len(stats["distinct"]))
    ctx.cov["traces_validated_against_impl"] = stats.get("ok_model", 0)
    ctx.cov["events_replayed_on_model"] = stats["events"]
    ctx.cov["model_transitions_fired"] = stats["fired"]
    fired = [n for i, n in enumerate(labels) if (stats["cov"][0] | stats["cov"][1]) >> i & 1]
    ctx.cov["model_labels_exercised"] = "%d of %d" % (len(fired), len(labels))
    ctx.cov["model_labels_never_exercised"] = [n for n in labels if n not in fired]
    ctx.cov["labels_exercised_double_cache"] = bin(stats["cov"][0]).count("1")
    ctx.cov["labels_exercised_float_cache"] = bin(stats["cov"][1]).count("1")
    ctx.cov["runs_with_raced_initialisation"] = stats["f9_runs"]
    ctx.cov["runs_cold_serial_initialisation"] = stats["good_cold"]
    ctx.cov["runs_after_initialisation"] = stats["warm"]
    ctx.cov["reader_to_writer_upgrades"] = stats["upgrades"]
    ctx.cov["downgrades_after_failed_retest"] = stats["downgrades"]
    ctx.cov["max_concurrent_readers_in_transform"] = stats["max_readers"]
    ctx.cov["vr_runs_with_raced_table_init"] = stats["vr_raced"]
    ctx.cov["jobsets"] = {s: L.JOBSETS[s][3] for s in sets}
    ctx.cov["rule"] = ("schedule = explicit decisions at every scheduling point (lock acquisition, yield point, table use, optionally lock release, "
                       "thread exit) + tail policy; families: tail policies (run-to-block, round-robin, random with 5 switch probabilities), "
                       "random decision prefixes, EVERY single pre-emption of the non-pre-emptive schedule (every decision point x every other "
                       "thread), pairs of pre-emptions (%s), thread 0 parked inside the initialiser for EVERY progress k of thread 1%s; "
                       "each from process start and from a completed initialisation.  distinct_nontrivial = distinct (job set, start, release-switching, "
                       "engine selection, complete decision string) among the runs with at least one cache / table event and more than one decision"
                       % ("random sample" if quick else "exhaustive up to 70 decision points (36 for 3 threads), random triples",
                          ", ALL decision prefixes of length %s x 2 tails" % ("7 (2 threads) / 4 (3 threads)" if quick else "12 (2 threads) / 7 (3 threads)")))
    ctx.assume(
        "OpenMP simple locks behave as binary semaphores that may be released by a thread other than the acquirer (Courtois' P/V as "
        "ccrw2.h uses them; libgomp's simple locks permit it, the OpenMP specification does not promise it)",
        "sequentially consistent execution at the granularity of the hooks: threads switch only at lock operations and yield points "
        "(the transforms themselves run unpre-empted); accesses between two hooks are judged by ThreadSanitizer's happens-before analysis of "
        "the same deterministic schedules (lock shim = only source of happens-before) and of free-running threads, not by the event traces",
        "the abstraction does not track a thread's `len`: the model allows the upgrade whenever the real code takes it (driver-side oracle "
        "`spurious` checks the one consequence: a downgrade implies growth since the first test)",
        "outputs equal serial use: measured on the explored schedules (bit-exact comparison with a fresh-process serial run), implied for "
        "all schedules only under the recorded assumption that a transform's result depends on the tables' content only through `len` "
        "(tables for a length are a pure function of that length) — not a Lean theorem",
        "`_soxr_trace_level` (written by every soxr_create, same value) is a benign write-write race; LSX_CLEAR_FFT_CACHE runs only from "
        "atexit, after all threads have finished (not modelled)")

    # ---------------- verdicts
    active = [f for f in common.known_active(PID) if f.get("id") == "F9"]
    # schedules on which the real code misbehaved or left the model: reported first, they carry the failing input
    seen = {}
    for k, t, r in vios:
        # a structural fact (the same in every schedule) is reported once, the behaviour it leads to per job set and start
        key = (k, "(every job set)", -1) if k.startswith("LOCK-") else (k, r["spec"]["set"], r["spec"].get("warm", 0))
        seen.setdefault(key, []).append((t, r))
    ctx.cov["violating_runs"] = len(set(r["spec"]["id"] for _, _, r in vios))
    order = sorted(seen, key=lambda k: (k[0] == "REJECT", not k[0].startswith("LOCK-"), not k[0].startswith("REINIT"), k))        # real-code monitor hits first: they carry the failing behaviour
    for key in order[:10]:
        t, r = sorted(seen[key], key=lambda x: (len(x[1]["decisions"]), x[1]["spec"]["id"]))[0]
        ctx.violation("%s in %d schedule(s) of job set %s (%s start): %s" % (key[0], len(seen[key]), key[1], {0: "cold", 1: "warm", 2: "double-cache-warm", 3: "float-cache-warm", -1: "any"}[key[2]], t),
                      {"line": replay_line(r), "line_as_generated": L.spec_line(r["spec"]), "kind": key[0], "detail": t,
                       "monitors": [(e, k2, x) for e, k2, x in r["viol"]][:12], "status": r["status"], "wrong": r["wrong"],
                       "model": (r["model"] or {}).get("raw") or (r["model"] or {}).get("why"),
                       "how": "build/harness/sched-rel-* line '<line>' | lean/.lake/build/bin/soxr_conc   (or bin/check C17 --replay <this file>)"})
    fr = L.free_running(ctx, bool(active))
    ts = L.tsan_scheduled(ctx, bool(active), sets, base)
    if ts.get("f9_tsan") and not fr.get("f9_tsan"):
        fr["f9_tsan"] = ts["f9_tsan"]
    if knowns:
        text = ("first-use initialisation raced by two threads before either completed it (model step i0_cold with another thread inside the "
                "initialiser) in %d explored schedules; consequences seen on the real code: %s; e.g. `%s`"
                % (stats["f9_runs"] + stats["vr_raced"], ", ".join("%s x%d" % (k, v["n"]) for k, v in sorted(knowns.items())),
                   sorted(knowns.values(), key=lambda v: v["line"])[0]["line"]))
        if fr.get("f9_tsan"):
            text += "; " + fr["f9_tsan"]
        if active:
            ctx.known("F9", text)
        else:
            k0 = sorted(knowns)[0]
            ctx.violation("unguarded lazy initialisation raced (F9 is not listed as an active known finding): " + text,
                          {"line": knowns[k0]["line"], "kind": k0})
    if fr.get("f9_tsan") and not knowns:
        ctx.known("F9", fr["f9_tsan"])
    ctx.cov["f9_consequences_seen"] = {k: v["n"] for k, v in knowns.items()}
    if witness:
        r, c = sorted(witness, key=lambda w: (len(w[0]["decisions"]), w[0]["spec"]["id"]))[0]
        ctx.cov["lean_witness_replayed_on_real_code"] = {
            "theorem": "Soxr.C17.late_init_breaks_exclusion (nInit = 2, nReset = 2, a reader inside a transform while a writer rebuilds)",
            "schedule": replay_line(r), "cache": c, "model_summary": r["model"]["raw"][:400], "schedules_reaching_it": len(witness)}
    else:
        ctx.notes.append("no explored schedule reached the state of late_init_breaks_exclusion on the real code")

    if broken:
        ctx.cov["broken_obligations"] = broken
        if not vios:
            ctx.violation("proof stage broken and no schedule of the real code misbehaved: " + "; ".join(broken)[:1500],
                          {"broken": broken}, no_input=True)
        else:
            ctx.notes.append("proof stage broken: " + "; ".join(broken)[:1500])
    if not quick:
        ok, out = common.leanchecker("SoxrModel.Properties.C17")
        ctx.cov["leanchecker"] = "ok" if ok else out[-500:]
        if not ok:
            ctx.violation("leanchecker rejects SoxrModel.Properties.C17: " + out[-800:], {"module": "SoxrModel.Properties.C17"}, no_input=True)
    ctx.cov["check_wall_s"] = round(time.time() - t0, 1)
