"""C06 — channel isolation: every channel of a multi-channel resampler equals a mono run, any layout or threading.

  proof      lean/SoxrModel/Properties/C06.lean (sequential half; model Chan/Model.lean = the API layer of soxr.c over ABSTRACT
             per-channel engines, Chan/Index.lean = the (de)interleave index maps of data-io.c / rint-clip.h):
             index bijection / round trips / pull-loop pointer advance for all ch, n; multi_equals_mono_partial for EVERY call
             sequence, channel count, layout combination, count-abstractable engine, seed-free conversion; its negation for
             dithered int16 output (F17); multi_equals_mono_view / channel_data_isolation for ANY
             conversion with a data-independent seed advance (dither included); clips = sum of per-channel clips; both-split path == generic path.
             lean/SoxrModel/Properties/C06Threads.lean (area conc): atomic clip sum under every interleaving, lost-update
             witness for the pinned non-atomic `p->clips +=` (F8).
  tie        harness/chan/api.c plugs a toy per-channel engine (C) under the REAL soxr.c + data-io.c through control_block; the
             compiled Lean model `soxr_chan` runs the same toy engine under Chan/Model.lean; generated API call sequences
             (process / output+input function / set_input_fn / set_io_ratio / clear; all layouts, 16 datatype pairs, float and
             double engines, dither on/off, misuse) are executed on both and every answer line is diffed: idone, odone, error,
             flushing, delay, clips, dither seed, and every sample of the caller's output memory (integers); plus the index
             maps of _soxr_deinterleave(_f) / _soxr_interleave(_f) for random (ch, n, datatype) against Chan/Index.lean.
  falsifier  harness/chan/iso.c on the REAL engines: a multi-channel resampler vs one mono resampler per channel, every
             delivered byte, per-call idone/odone/error/delay, clip counters; 4 layouts x 16 datatype pairs x num_threads 0/1
             x recipes x ratios x push/pull/one-shot schedules.  conclib.clips_threads: OpenMP clip counter (F8).
"""
import os
from vlib import common
from checks import chanlib as cl

LEVEL = "proof"
PID = "C06"


BIG_RATIOS = [(1, 32), (1, 40), (1, 64), (1, 128), (750, 48000), (1200, 48000), (1, 100), (3, 128), (64, 1), (40, 1), (100, 1), (128, 3)]


def gen_iso_job(rng, ctx, force=None):
    kv, vr = cl.gen_real_cfg(rng)
    wide = rng.chance(.45)
    if wide:
        # the whole configuration space of the constant-rate planner (checks/crcommon.gen_config: every recipe, steep filters, roll-offs,
        # non-linear phase, precision, runtime knobs), with large up- and down-sampling factors favoured: whatever the planner sets up
        # once for the first channel and shares with the others (filter design, padding, preload, phase) is reached
        from checks import crcommon
        cfg, _ = crcommon.gen_config(rng, allow_nonlinear=True, max_up=130.0, max_down=200.0)
        if rng.chance(.4):
            cfg["ir"], cfg["or"] = map(str, rng.choice(BIG_RATIOS))
            if rng.chance(.6):
                cfg["phase"] = rng.choice([0, 10, 25, 45, 55, 75, 100])
        kv, vr = dict(cfg), False
    ch = rng.choice([1, 2, 2, 3, 3, 4, 5, 6])
    lay_i, lay_o = rng.below(2), rng.below(2)
    it, ot = rng.below(4), rng.below(4)
    threads = rng.below(2)                      # 0: OpenMP over the channels
    dither_on = (ot == 3) and rng.chance(.25)
    kv.update({"ch": ch, "itype": it | (4 if lay_i else 0), "otype": ot | (4 if lay_o else 0), "threads": threads,
               "ioflags": 0 if dither_on else 8, "amp": rng.choice([.3, .9, 1.0, 1.6]), "sigseed": rng.below(1000),
               "scale": rng.choice([1, 1, .5, 2])})
    if rng.chance(.3):
        kv["mlay"] = rng.below(4)               # mono runs in another layout (same bytes for one channel, other code path)
    if force:
        kv.update(force)
    N = rng.choice([0, 1, 17, 1000, 5000]) if rng.chance(.3) else rng.below(12000 if ctx.quick else 40000)
    ratio = float(kv["ir"]) / float(kv["or"])
    if wide:
        N = min(N, int((60000 if ctx.quick else 200000) * ratio) + 8)       # bounded output volume for large up-sampling factors
    ops = cl.gen_schedule(rng, N, vr, ratio)
    return kv, ops


def classify(kv, out):
    """-> (kind, text): kind in ok / F17 / F8 / violation"""
    diffs = [l for l in out if l.startswith("DIFF")]
    s = next((l for l in out if l.startswith("S ")), None)
    done = any(l == "DONE" for l in out)
    ot, ch, threads = int(kv["otype"]) & 3, int(kv["ch"]), int(kv["threads"])
    dither = ot == 3 and not (int(kv["ioflags"]) & 8)
    if not done:
        return "violation", "harness did not finish: " + " | ".join(out[-3:])
    if any(l.startswith("CREATE err") for l in out):
        return "skip", out[0]
    clips_bad = None
    if s:
        f = dict(t.split("=") for t in s.split()[1:])
        if int(f["clips"]) != int(f["monosum"]):
            clips_bad = (int(f["clips"]), int(f["monosum"]))
    if not diffs and not clips_bad:
        return "ok", ""
    if dither and ch >= 2:
        # F17: one dither stream for all channels (under OpenMP the seed is raced as well: F8)
        only = all(("what=bytes" in d) for d in diffs)
        if only:
            return "F17", "ch=%d threads=%d: %s" % (ch, threads, diffs[0] if diffs else "clips %s" % (clips_bad,))
    if not diffs and clips_bad and threads == 0 and ch >= 2 and clips_bad[0] < clips_bad[1]:
        return "F8", "clips=%d < sum of mono runs %d (ch=%d, OpenMP)" % (clips_bad[0], clips_bad[1], ch)
    return "violation", (diffs[0] if diffs else "clip counter %d != sum of the mono runs %d (threads=%d)" % (clips_bad + (threads,)))


def falsifier(ctx, njobs):
    from concurrent.futures import ThreadPoolExecutor
    exe = cl.exe_iso()
    active = {f["id"] for f in common.known_active(PID)}
    nviol = 0
    env = dict(os.environ, OMP_WAIT_POLICY="passive", OMP_NUM_THREADS="4")
    jobs = []
    for i in range(njobs):
        kv, ops = gen_iso_job(ctx.rng, ctx)
        simd = "0" if ctx.rng.chance(.35) else None              # portable engines cr32 / cr64 instead of the SIMD ones
        jobs.append((kv, ops, ["job " + cl.kvline(kv)] + ops + ["end"], simd))
    with ThreadPoolExecutor(max(2, common.NCPU // 3)) as ex:
        results = list(ex.map(lambda j: cl.run_text(exe, j[2], timeout=600, env=(dict(env, SOXR_USE_SIMD=j[3]) if j[3] else env)), jobs))
    for (kv, ops, lines, simd), (rc, out, err) in zip(jobs, results):
        if rc != 0:
            out = out + ["rc=%s %s" % (rc, err[-300:])]
        kind, text = classify(kv, out)
        ctx.count("iso_jobs")
        ctx.hist("iso_ch", kv["ch"]); ctx.hist("iso_threads", kv["threads"]); ctx.hist("iso_recipe", "%s/%s" % (kv["recipe"], kv["qflags"]))
        ctx.hist("iso_types", "%d->%d" % (int(kv["itype"]) & 3, int(kv["otype"]) & 3))
        ctx.hist("iso_layout", "%d%d" % (int(kv["itype"]) >> 2, int(kv["otype"]) >> 2))
        ctx.hist("iso_outcome", kind)
        eng = next((l.split("engine=")[1].split()[0] for l in out if l.startswith("CREATE ok")), "-")
        ctx.hist("iso_engine", eng)
        if kind in ("F17", "F8") and kind in active:
            ctx.known(kind, text)
        elif kind in ("violation", "F17", "F8"):
            nviol += 1
            ctx.violation("channel of the multi-channel resampler differs from the mono run: " + text,
                          {"harness": "chan/iso.c", "stdin": lines, "classified": kind, "SOXR_USE_SIMD": simd})
        ctx.sample({"job": cl.kvline(kv), "ops": len(ops), "outcome": kind})
    return nviol


def replay_F17(ctx):
    """The Lean witness `dither_breaks_multi_equals_mono` on the real code: two channels carrying the SAME signal, int16 output,
    dither on, one thread: the two channels of the multi-channel run differ from each other (and channel 1 from its mono run);
    with SOXR_NO_DITHER the same job is clean."""
    exe = cl.exe_iso()
    base = "ir=1 or=2 ch=2 itype=0 otype=3 amp=0.5 threads=1 recipe=4"
    ops = ["oneshot 1000 3000", "end"]
    rc, out, _ = cl.run_text(exe, ["job " + base + " ioflags=0"] + ops)
    rc2, out2, _ = cl.run_text(exe, ["job " + base + " ioflags=8"] + ops)
    hit = any(l.startswith("DIFF what=bytes ch=1") for l in out) and not any(l.startswith("DIFF") and "what=bytes" not in l for l in out)
    clean = not any(l.startswith("DIFF") for l in out2) and any(l == "DONE" for l in out2)
    ctx.cov["F17_replay"] = {"dither_on_differs": hit, "no_dither_clean": clean}
    active = {f["id"] for f in common.known_active(PID)}
    if hit and clean:
        if "F17" in active:
            ctx.known("F17", "int16 output with dither, 2 channels: channel 1 != mono run (one dither LCG stream threads through the "
                             "channels: rint-clip.h / soxr.c p->seed); identical with SOXR_NO_DITHER; Lean witness dither_breaks_multi_equals_mono")
        else:
            ctx.violation("dithered int16 output: channel 1 of a 2-channel resampler differs from the mono run",
                          {"harness": "chan/iso.c", "stdin": ["job " + base + " ioflags=0"] + ops})
    elif not clean:
        ctx.violation("2-channel int16 job without dither differs from the mono runs", {"harness": "chan/iso.c", "stdin": ["job " + base + " ioflags=8"] + ops})
    elif "F17" in active:
        ctx.violation("finding F17 is listed as known but its witness no longer reproduces on the real code (model and code have parted: "
                      "theorem dither_breaks_multi_equals_mono describes the pinned seed threading)",
                      {"harness": "chan/iso.c", "stdin": ["job " + base + " ioflags=0"] + ops, "out": out[-6:]}, no_input=True)


def run(ctx):
    if getattr(ctx, "replay", None):
        import json
        r = json.load(open(ctx.replay))["replay"]
        if "stdin" in r:
            exe = cl.exe_iso() if "iso" in r.get("harness", "") else cl.exe_api()
            env = dict(os.environ, SOXR_USE_SIMD=r["SOXR_USE_SIMD"]) if r.get("SOXR_USE_SIMD") else None
            rc, out, err = cl.run_text(exe, r["stdin"], env=env)
            print("\n".join(out[-40:]))
            if any(l.startswith("DIFF") for l in out) or rc != 0:
                ctx.violation("replay reproduces", r)
            return
        if "job" in r:
            rc, a, _ = cl.run_text(cl.exe_api(), r["job"]); rl, b, _ = cl.run_text(cl.CHAN_EXE, [cl.lean_line(l) for l in r["job"]])
            for x, y in zip(a, b):
                print(("  " if x == y else "!!") + " real  " + x + "\n   model " + y)
            if a != b:
                ctx.violation("replay reproduces: real API layer and model disagree", r)
            return
    broken = common.proof_stage(ctx, ["SoxrModel.Properties.C06"], "C06", exes=("soxr_chan",), gens=("Chan",))
    # threads half (area conc): builds + audits Properties/C06Threads.lean, runs the OpenMP clip-counter falsifier (F8)
    try:
        from checks import conclib
        conclib.clips_threads(ctx, broken, audit=True)
    except ImportError:
        ctx.notes.append("checks/conclib.py not present: threads half of C06 (C06Threads, F8) not run here")
        ok, out = common.lake_build(["SoxrModel.Properties.C06Threads"])
        if not ok:
            broken.append("C06Threads: lake build failed")
    # tie
    mismatch = None
    if os.path.exists(cl.CHAN_EXE):
        mismatch = cl.toy_correspondence(ctx, 800 if ctx.quick else 20000, 200 if ctx.quick else 3000)
    else:
        broken.append("driver soxr_chan was not built")
    # falsifier
    nviol = falsifier(ctx, 400 if ctx.quick else 12000)
    replay_F17(ctx)
    if mismatch:
        ctx.violation("the real API layer (soxr.c + data-io.c over the toy engine) and the model disagree at op %s `%s`:\n real  %s\n model %s"
                      % (mismatch["op_index"], mismatch["op"], mismatch["real"], mismatch["model"]),
                      {"harness": "chan/api.c", "job": mismatch["job"]}, no_input=False)
    ctx.cov["rule"] = ("tie: random toy-engine jobs (ch 1..8, 4 layouts, 16 datatype pairs, float/double/VR-flavoured engine, dither on/off, "
                       "ratios m/l, user scale 1/2/4 so that int outputs clip) of 4..25 API calls (process with/without input, flush "
                       "request, idone, NULL out; output with scripted input function incl. failure / end / short supplies; set_input_fn; "
                       "set_io_ratio; clear) + random (de)interleave index-map probes; every answer line of real code and Lean model "
                       "diffed as integers.  falsifier: random real-engine jobs multi vs mono (see iso_* histograms).  distinct = "
                       "distinct (op kind, error, flushing, output empty?) and configuration classes seen in the tie")
    ctx.assume("frame rule for the real engines (cr*.c, vr32.c): a channel's resampler touches only its own state; `shared` is read-only "
               "after creation — exercised by iso.c, not proved",
               "engine counts do not depend on sample values (Shape): proved for the toy engine; for the constant-rate engine it is the "
               "count model of C03; for the VR engine an assumption exercised by iso.c",
               "per-channel conversion of LSX_RINT_CLIP_2 (strided) equals LSX_RINT_CLIP (C11's domain); seed-free unless int16+dither",
               "sizes < 2^53 so that ceil(olen*io_ratio) is exact in the toy tie; no allocation failure (C20)",
               "NULL output with both layouts split, and NULL output with olen = 0 in split layout, dereference NULL: outside the model")
    if broken:
        for b in broken:
            ctx.violation("proof obligation no longer checks: " + b,
                          {"broken": b, "searched": "toy correspondence + %d iso jobs" % ctx.cov.get("iso_jobs", 0)}, no_input=(nviol == 0 and not mismatch))
