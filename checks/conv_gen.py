"""Shared by checks/c11.py and checks/c19_helpers.py: bit-pattern pools (boundary-heavy), the conv line protocol,
runners for the C harness (real kernels) and the Lean driver (model), exact-rational property oracles, minimisation.

Values are handled as bit patterns (ints) and exact rationals (fractions.Fraction) only: no float comparison anywhere.
"""
import os, struct, subprocess
from concurrent.futures import ThreadPoolExecutor
from fractions import Fraction
from vlib import common

MODEL = os.path.join(common.LEAN, ".lake", "build", "bin", "soxr_conv")
TYPES = ("f32", "f64", "i32", "i16")
WIDTH = {"f32": 32, "f64": 64, "i32": 32, "i16": 16}
FS_LOG2 = {"f32": 0, "f64": 0, "i32": 31, "i16": 15}
FMT = {"f32": (24, 8), "f64": (53, 11)}          # (significand bits incl. hidden, exponent bits)


# ------------------------------------------------------------------ exact decoding / encoding (independent of the model)

from functools import lru_cache


@lru_cache(maxsize=1 << 20)
def decode(t, b):
    """bit pattern -> ("nan",) | ("inf", neg) | ("fin", Fraction) ; integers -> ("fin", Fraction)."""
    if t in ("i16", "i32"):
        w = WIDTH[t]
        b &= (1 << w) - 1
        return ("fin", Fraction(b - (1 << w) if b >> (w - 1) else b))
    p, w = FMT[t]
    fb = p - 1
    neg = (b >> (fb + w)) & 1
    ex = (b >> fb) & ((1 << w) - 1)
    fr = b & ((1 << fb) - 1)
    if ex == (1 << w) - 1:
        return ("inf", bool(neg)) if fr == 0 else ("nan",)
    bias = (1 << (w - 1)) - 1
    if ex == 0:
        v = Fraction(fr) * Fraction(2) ** (1 - bias - fb)
    else:
        v = Fraction((1 << fb) + fr) * Fraction(2) ** (ex - bias - fb)
    return ("fin", -v if neg else v)


def is_neg(t, b):
    return bool((b >> (WIDTH[t] - 1)) & 1)


def rhe(x):
    """round half even of a Fraction."""
    f = x.numerator // x.denominator
    r = x - f
    if r < Fraction(1, 2):
        return f
    if r > Fraction(1, 2):
        return f + 1
    return f if f % 2 == 0 else f + 1


def f32b(x):
    return struct.unpack("<I", struct.pack("<f", x))[0]


def f64b(x):
    return struct.unpack("<Q", struct.pack("<d", x))[0]


def hexs(t, b):
    return "%0*x" % (WIDTH[t] // 4, b & ((1 << WIDTH[t]) - 1))


@lru_cache(maxsize=1 << 20)
def nearest_ok(t, v, out_bits):
    """Is the float pattern out_bits a correctly rounded (nearest, ties to even, overflow to inf) image of the exact
    rational v?  Checked from the definition: no neighbouring pattern is strictly closer; a tie has an even significand."""
    p, w = FMT[t]
    fb = p - 1
    mag = out_bits & ((1 << (fb + w)) - 1)
    neg = is_neg(t, out_bits)
    if v != 0 and neg != (v < 0):
        return False
    a = abs(v)
    infmag = ((1 << w) - 1) << fb
    maxfin = decode(t, infmag - 1)[1]
    ulp_top = maxfin - decode(t, infmag - 2)[1]
    if mag == infmag:
        return a >= maxfin + ulp_top / 2
    if mag > infmag:
        return False
    d = decode(t, mag)[1]
    err = abs(a - d)
    if mag + 1 <= infmag:
        up = decode(t, mag + 1)[1] if mag + 1 < infmag else maxfin + ulp_top
        e2 = abs(a - up)
        if e2 < err or (e2 == err and mag % 2 == 1):
            return False
    if mag >= 1:
        dn = decode(t, mag - 1)[1]
        e2 = abs(a - dn)
        if e2 < err or (e2 == err and mag % 2 == 1):
            return False
    return True


# ------------------------------------------------------------------ pattern pools

def _around_f32(x):
    b = f32b(x)
    return [(b + d) & 0xffffffff for d in (-2, -1, 0, 1, 2)]


def _around_f64(x):
    b = f64b(x)
    return [(b + d) & 0xffffffffffffffff for d in (-2, -1, 0, 1, 2)]


NAN32 = [0x7fc00000, 0xffc00000, 0x7f800001, 0xff800001, 0x7fa00000, 0x7fffffff, 0xffffffff, 0x7fc12345, 0x7f923456]
NAN64 = [0x7ff8000000000000, 0xfff8000000000000, 0x7ff0000000000001, 0xfff0000000000001, 0x7ff4000000000000,
         0x7fffffffffffffff, 0xffffffffffffffff, 0x7ff8000012345678, 0x7ff2345620000001, 0x7ff000001fffffff]
INF32 = [0x7f800000, 0xff800000]
INF64 = [0x7ff0000000000000, 0xfff0000000000000]


def int_boundaries():
    ks = set()
    for c in (0, 1, 2, 3, 4, 5, 7, 8, 15, 16, 17, 100, 255, 256, 32765, 32766, 32767, 32768, 32769, 32770, 65535, 65536,
              (1 << 23) - 1, 1 << 23, (1 << 23) + 1, (1 << 24) - 1, 1 << 24, (1 << 24) + 2,
              (1 << 31) - 256, (1 << 31) - 128, (1 << 31) - 3, (1 << 31) - 2, (1 << 31) - 1, 1 << 31, (1 << 31) + 1, (1 << 31) + 2,
              (1 << 31) + 256, 1 << 32, 1 << 52, (1 << 53) - 1, 1 << 53, 1 << 62, 1 << 63, 1 << 64):
        ks.add(c); ks.add(-c)
    return sorted(ks)


def pool_f32(scale_log2=0):
    """float32 patterns: all exponents x boundary mantissas x sign, values around every rounding tie and saturation
    boundary (divided by 2^scale_log2 for the paths that multiply by a full-scale factor), NaNs, infinities."""
    out = []
    for e in range(0, 255):
        for m in (0, 1, 2, 0x3fffff, 0x400000, 0x400001, 0x7ffffe, 0x7fffff):
            out.append((e << 23) | m); out.append(0x80000000 | (e << 23) | m)
    sc = 2.0 ** -scale_log2
    for k in int_boundaries():
        for off in (-1.0, -0.75, -0.5, -0.25, 0.0, 0.25, 0.5, 0.75, 1.0):
            v = (k + off) * sc
            if abs(v) < 3e38:
                out += _around_f32(v)
    out += NAN32 + INF32
    return out


def pool_f64(scale_log2=0, dither=False):
    out = []
    for e in list(range(0, 2047, 1)):
        for m in (0, 1, (1 << 51) - 1, 1 << 51, (1 << 51) + 1, (1 << 52) - 1):
            out.append((e << 52) | m); out.append((1 << 63) | (e << 52) | m)
    sc = 2.0 ** -scale_log2
    for k in int_boundaries():
        for off in (-1.0, -0.75, -0.5, -0.25, 0.0, 0.25, 0.5, 0.75, 1.0):
            v = (k + off) * sc
            out += _around_f64(v)
    # float32 rounding boundaries (double -> float): midpoints between adjacent floats, overflow threshold, subnormals
    for b in (0x00000000, 0x00000001, 0x007fffff, 0x00800000, 0x3f7fffff, 0x3f800000, 0x46fffe00, 0x4effffff, 0x7f7ffffe, 0x7f7fffff):
        lo = struct.unpack("<f", struct.pack("<I", b))[0]
        hi = struct.unpack("<f", struct.pack("<I", b + 1))[0] if b + 1 < 0x7f800000 else 2.0 ** 128
        mid = (Fraction(lo) + Fraction(hi)) / 2
        try:
            m = float(mid)
        except OverflowError:
            continue
        for s in (1.0, -1.0):
            out += _around_f64(s * m) + _around_f64(s * lo)
    if dither:
        # operands whose sum with k/32 lands on or next to a tie / saturation boundary, and tiny operands (the double
        # addition rounds there)
        for k in (0, 1, 2, 100, 32766, 32767, -1, -2, -32767, -32768, -32769):
            for j in range(-31, 32, 3):
                out += _around_f64(k + 0.5 - j / 32.0)
        for e in (-1074, -1060, -1022, -600, -100, -60, -54, -53, -52, -40, -30, -10, -6, -5, -4):
            for s in (1.0, -1.0):
                out.append(f64b(s * 2.0 ** e)); out.append(f64b(s * (0.5 + 2.0 ** e))); out.append(f64b(s * (0.5 - 2.0 ** max(e, -54))))
    out += NAN64 + INF64
    return out


def pool_i16():
    return list(range(0, 1 << 16))


def pool_i32():
    out = set()
    for k in int_boundaries():
        if -(1 << 31) <= k < (1 << 31):
            for d in (-2, -1, 0, 1, 2):
                if -(1 << 31) <= k + d < (1 << 31):
                    out.add((k + d) & 0xffffffff)
    for e in range(0, 32):                      # int32 -> float32 rounding: around 2^e, and 25-bit ties
        for d in (-3, -2, -1, 0, 1, 2, 3):
            v = (1 << e) + d
            if -(1 << 31) <= v < (1 << 31):
                out.add(v & 0xffffffff); out.add((-v) & 0xffffffff)
        for m in (0x1000001, 0x1000003, 0x1fffffe, 0x1ffffff, 0x1800001):
            v = m << max(0, e - 24)
            if v < (1 << 31):
                out.add(v); out.add((-v) & 0xffffffff)
    return sorted(out)


# ------------------------------------------------------------------ line protocol

class Case:
    """one `conv` line."""
    __slots__ = ("kern", "n", "ch", "seed", "flag", "pats", "itype", "tag")

    def __init__(self, kern, n, ch, seed, flag, pats, itype, tag=""):
        self.kern, self.n, self.ch, self.seed, self.flag, self.pats, self.itype, self.tag = kern, n, ch, seed, flag, pats, itype, tag

    def line(self):
        return "conv %s %d %d %x %d %s" % (self.kern, self.n, self.ch, self.seed, self.flag,
                                           " ".join(hexs(self.itype, p) for p in self.pats))

    def replay(self):
        return {"kernel": self.kern, "n": self.n, "channels": self.ch, "seed": "%x" % self.seed, "stale_invalid_flag": self.flag,
                "bit_patterns": [hexs(self.itype, p) for p in self.pats], "line": self.line()}


def in_type(kern):
    p = kern.split("-")
    if p[0] == "il":
        return "f64" if p[1] == "d" else "f32"
    if p[0] == "de":
        return p[2]
    if p[0] == "lsr":
        return {"s2f": "i16", "f2s": "f32", "i2f": "i32", "f2i": "f32"}[p[1]]
    if p[0] == "api":
        return p[2]
    raise ValueError(kern)


def out_type(kern):
    p = kern.split("-")
    if p[0] == "il":
        return p[2]
    if p[0] == "de":
        return "f64" if p[1] == "d" else "f32"
    if p[0] == "lsr":
        return {"s2f": "f32", "f2s": "i16", "i2f": "f32", "f2i": "i32"}[p[1]]
    if p[0] == "api":
        return p[3]
    raise ValueError(kern)


def parse_out(line):
    """canonical output line -> (list of int patterns, dict of tail fields) or None for ERR / CRASH / malformed."""
    if "|" not in line:
        return None
    a, b = line.split("|", 1)
    try:
        vals = [int(x, 16) for x in a.split()]
        kv = dict(x.split("=") for x in b.split())
        return vals, {"c": int(kv["c"]), "s": int(kv["s"], 16), "p": int(kv["p"]), "f": int(kv["f"])}
    except (ValueError, KeyError):
        return None


def _run(args, text, env=None):
    p = subprocess.run(args, input=text, stdout=subprocess.PIPE, stderr=subprocess.PIPE, universal_newlines=True,
                       env=dict(os.environ, **env) if env else None)
    return p.returncode, p.stdout.splitlines(), p.stderr


def run_lines(exe, lines, jobs=None, env=None):
    """Runs `lines` through `exe` in parallel chunks; returns one output line per input line ("" if the process died
    before answering, the CRASH line where it died)."""
    jobs = jobs or min(common.NCPU, max(1, len(lines) // 200))
    size = (len(lines) + jobs - 1) // jobs if lines else 1
    chunks = [lines[i:i + size] for i in range(0, len(lines), size)]

    def one(chunk):
        rc, out, err = _run([exe], "\n".join(chunk) + "\n", env)
        out = out[:len(chunk)] + [""] * max(0, len(chunk) - len(out))
        return out
    with ThreadPoolExecutor(max(1, len(chunks))) as ex:
        res = list(ex.map(one, chunks))
    return [l for r in res for l in r]


def model_available():
    return os.path.exists(MODEL)


# ------------------------------------------------------------------ property oracles (exact, on the real code's output)

def conv_ref(v, mx):
    """(value, saturated) of the specification: round half even, saturate; NaN -> minimum (observed x87 behaviour)."""
    if v[0] == "nan":
        return -mx - 1, True
    if v[0] == "inf":
        return (-mx - 1 if v[1] else mx), True
    r = rhe(v[1])
    if r > mx:
        return mx, True
    if r < -mx - 1:
        return -mx - 1, True
    return r, False


def signed(t, b):
    w = WIDTH[t]
    b &= (1 << w) - 1
    return b - (1 << w) if b >> (w - 1) else b


def oracle_interleave(case, outs, tail):
    """Property oracle for an `il-*` case on the implementation's answer.  Returns a list of failure strings."""
    p = case.kern.split("-")
    st, ot, dith = in_type(case.kern), p[2], "dith" in p[3:]
    n, ch = case.n, case.ch
    bad = []
    if len(outs) != n * ch:
        return ["%d output samples for n*ch = %d" % (len(outs), n * ch)]
    if tail["p"] != n * ch:
        bad.append("destination pointer advanced by %d elements, not n*ch = %d" % (tail["p"], n * ch))
    if case.flag == 0 and tail["f"] != 0:
        bad.append("x87 invalid flag left set")
    if ot in ("f32", "f64"):
        if tail["c"] != 0:
            bad.append("clip count %d for a floating-point output" % tail["c"])
        for c in range(ch):
            for i in range(n):
                ib, ob = case.pats[c * n + i], outs[i * ch + c]
                v = decode(st, ib)
                o = decode(ot, ob)
                if v[0] != "fin":
                    if o[0] != v[0] or (v[0] == "inf" and o[1] != v[1]):
                        bad.append("sample %d ch %d: %s -> %s (class of a non-finite value not kept)" % (i, c, hexs(st, ib), hexs(ot, ob)))
                elif not nearest_ok(ot, v[1], ob):
                    bad.append("sample %d ch %d: %s -> %s is not the nearest %s (exact where representable)" % (i, c, hexs(st, ib), hexs(ot, ob), ot))
        return bad
    mx = (1 << (WIDTH[ot] - 1)) - 1
    use_dither = dith and ot == "i16"
    if not use_dither:
        clips = 0
        for c in range(ch):
            for i in range(n):
                ib, ob = case.pats[c * n + i], outs[i * ch + c]
                want, cl = conv_ref(decode(st, ib), mx)
                clips += cl
                if case.flag == 0 and signed(ot, ob) != want:
                    bad.append("sample %d ch %d: %s -> %d, nearest-even / saturated value is %d" % (i, c, hexs(st, ib), signed(ot, ob), want))
        if case.flag == 0 and tail["c"] != clips:
            bad.append("clip counter grew by %d, %d samples saturate" % (tail["c"], clips))
        if tail["s"] != case.seed:
            bad.append("seed changed without dither")
    else:
        lo = hi = 0
        for c in range(ch):
            for i in range(n):
                ib, ob = case.pats[c * n + i], outs[i * ch + c]
                v = decode(st, ib)
                got = signed(ot, ob)
                if v[0] != "fin":
                    want, _ = conv_ref(v, mx)
                    lo += 1; hi += 1
                    if case.flag == 0 and got != want:
                        bad.append("sample %d ch %d: %s -> %d, expected saturation to %d" % (i, c, hexs(st, ib), got, want))
                    continue
                x = v[1]
                must = x > mx + 2 or x < -mx - 3
                may = x > mx - 1 or x < -mx
                lo += must; hi += may
                if case.flag == 0 and not abs(got - x) < Fraction(3, 2):
                    if not ((got == mx and x > mx) or (got == -mx - 1 and x < -mx - 1)):
                        bad.append("sample %d ch %d: %s -> %d: total error %s LSB is not below 1.5" % (i, c, hexs(st, ib), got, float(abs(got - x))))
                if case.flag == 0 and x.denominator == 1 and abs(x) < mx - 2 and abs(got - x) > 1:
                    bad.append("sample %d ch %d: integer operand %s -> %d: dither of one LSB or more" % (i, c, hexs(st, ib), got))
        if case.flag == 0 and not (lo <= tail["c"] <= hi):
            bad.append("clip counter grew by %d, between %d and %d samples can saturate" % (tail["c"], lo, hi))
        if tail["s"] == case.seed:
            bad.append("dither seed not advanced")
    return bad


def oracle_deinterleave(case, outs, tail):
    st, it = out_type(case.kern), in_type(case.kern)
    n, ch = case.n, case.ch
    bad = []
    if len(outs) != n * ch:
        return ["%d output samples for n*ch = %d" % (len(outs), n * ch)]
    if tail["p"] != n * ch:
        bad.append("source pointer advanced by %d elements, not n*ch = %d" % (tail["p"], n * ch))
    for c in range(ch):
        for j in range(n):
            ib, ob = case.pats[j * ch + c], outs[c * n + j]
            v, o = decode(it, ib), decode(st, ob)
            if v[0] != "fin":
                if o[0] != v[0] or (v[0] == "inf" and o[1] != v[1]):
                    bad.append("frame %d ch %d: %s -> %s (class of a non-finite value not kept)" % (j, c, hexs(it, ib), hexs(st, ob)))
            elif not nearest_ok(st, v[1], ob):
                bad.append("frame %d ch %d: %s %s -> %s is not the nearest %s (exact where representable)" % (j, c, it, hexs(it, ib), hexs(st, ob), st))
    return bad


def oracle_api(case, outs, tail):
    """equal rates, unit gain: exact pass-through wherever engine format and output type can represent the scaled value;
    integer output otherwise within half an LSB of the engine's value (plus the engine's rounding), saturating, clips counted."""
    p = case.kern.split("-")
    eng, it, ot = ("f64" if p[1] == "d" else "f32"), p[2], p[3]
    dith = "dith" in p[5:]
    n, ch = case.n, case.ch
    bad = []
    if tail["p"] != n or len(outs) != n * ch:
        return ["%d frames delivered (%d samples) for %d frames in at equal rates" % (tail["p"], len(outs), n)]
    j = FS_LOG2[ot] - FS_LOG2[it]
    pe = FMT[eng][0]
    lo = hi = 0
    for k in range(n * ch):
        ib, ob = case.pats[k], outs[k]
        v = decode(it, ib)
        if v[0] != "fin":
            continue
        x = v[1] * Fraction(2) ** j                      # the exact scaled value
        # engine rounding: relative 2^-pe (two roundings at most: input cast, scaling), absolute underflow ignored (inputs avoid it)
        slack = abs(x) * Fraction(2) ** (1 - pe) * 2
        if ot in ("f32", "f64"):
            o = decode(ot, ob)
            po = FMT[ot][0]
            tol = slack + abs(x) * Fraction(2) ** (-po)
            in_range = all(normal_range(t, x) for t in (eng, ot))
            if in_range and (o[0] != "fin" or abs(o[1] - x) > tol):
                bad.append("sample %d: %s %s -> %s %s: not the scaled value within the formats' precision" % (k, it, hexs(it, ib), ot, hexs(ot, ob)))
            elif representable(eng, v[1]) and representable(eng, x) and representable(ot, x) and o[1] != x:
                bad.append("sample %d: %s %s -> %s %s: value representable but not passed exactly" % (k, it, hexs(it, ib), ot, hexs(ot, ob)))
        else:
            mx = (1 << (WIDTH[ot] - 1)) - 1
            got = signed(ot, ob)
            d = Fraction(3, 2) if (dith and ot == "i16") else Fraction(1, 2)
            must = x - slack > mx + d or x + slack < -mx - 1 - d
            may = x + slack >= mx + Fraction(1, 2) - (d - Fraction(1, 2)) or x - slack <= -mx - 1 - Fraction(1, 2) + (d - Fraction(1, 2))
            lo += must; hi += may
            if abs(got - x) > d + slack and not ((got == mx and x > mx - slack) or (got == -mx - 1 and x < -mx - 1 + slack)):
                bad.append("sample %d: %s %s -> %s %d: scaled value %s" % (k, it, hexs(it, ib), ot, got, float(x)))
            elif not dith and representable(eng, v[1]) and representable(eng, x) and x.denominator == 1 and -mx - 1 <= x <= mx and got != x:
                bad.append("sample %d: %s %s -> %s %d: integer value %d representable but not passed exactly" % (k, it, hexs(it, ib), ot, got, x))
    if not (lo <= tail["c"] <= hi):
        bad.append("soxr_num_clips = %d, between %d and %d samples saturate" % (tail["c"], lo, hi))
    return bad


def normal_range(t, x):
    """|x| within the normal range of float type t (so that relative error bounds apply), or x == 0."""
    p, w = FMT[t]
    bias = (1 << (w - 1)) - 1
    a = abs(x)
    return a == 0 or (Fraction(2) ** (1 - bias) <= a < Fraction(2) ** bias)


def representable(t, x):
    """is the rational x exactly representable in type t?"""
    if t in ("i16", "i32"):
        mx = (1 << (WIDTH[t] - 1)) - 1
        return x.denominator == 1 and -mx - 1 <= x <= mx
    p, w = FMT[t]
    if x == 0:
        return True
    a = abs(x)
    bias = (1 << (w - 1)) - 1
    emin = 1 - bias - (p - 1)                  # exponent of the least subnormal
    # a = m * 2^e with m odd
    m, e = a.numerator, 0
    if a.denominator != 1:
        d = a.denominator
        if d & (d - 1):
            return False
        e = -(d.bit_length() - 1)
    while m % 2 == 0:
        m //= 2; e += 1
    if m.bit_length() > p:
        return False
    if e < emin:
        return False
    return m.bit_length() + e - 1 <= bias


# ------------------------------------------------------------------ minimisation of a failing case

def shrink(case, fails, idx=None):
    """fails(case) -> bool.  Tries smaller cases that still fail; idx = index (into pats) of the sample of interest."""
    cands = []
    if idx is not None and 0 <= idx < len(case.pats):
        if case.kern.startswith("de-"):
            fr = idx // case.ch
            cands.append(Case(case.kern, 1, 1, case.seed, case.flag, [case.pats[idx]], case.itype))
            cands.append(Case(case.kern, 1, case.ch, case.seed, case.flag, case.pats[fr * case.ch:(fr + 1) * case.ch], case.itype))
        else:
            c, i = idx // max(case.n, 1), idx % max(case.n, 1)
            chan = case.pats[c * case.n:(c + 1) * case.n]
            cands.append(Case(case.kern, 1, 1, case.seed, case.flag, [case.pats[idx]], case.itype))
            cands.append(Case(case.kern, i + 1, 1, case.seed, case.flag, chan[:i + 1], case.itype))
            cands.append(Case(case.kern, case.n, 1, case.seed, case.flag, chan, case.itype))
    for n in range(0, case.n):
        if case.kern.startswith("de-"):
            cands.append(Case(case.kern, n, case.ch, case.seed, case.flag, case.pats[:n * case.ch], case.itype))
        else:
            cands.append(Case(case.kern, n, case.ch, case.seed, case.flag,
                              [p for c in range(case.ch) for p in case.pats[c * case.n:c * case.n + n]], case.itype))
        if len(cands) > 40:
            break
    for c in cands:
        try:
            if fails(c):
                return c
        except Exception:
            pass
    return case
