"""Shared by C09 and C13: generators of soxr_create configurations over the full product space, the runner of
harness/config/probe.c (real library) and of the Lean driver soxr_config, and the line diff."""
import math, os, struct, subprocess
from vlib import common
from checks import crcommon as cr

DRIVER = os.path.join(common.LEAN, ".lake", "build", "bin", "soxr_config")
ENVS = ["SOXR_USE_SIMD", "SOXR_USE_SIMD32", "SOXR_USE_SIMD64", "SOXR_MIN_DFT_SIZE", "SOXR_LARGE_DFT_SIZE",
        "SOXR_COEFS_SIZE", "SOXR_NUM_THREADS", "SOXR_COEF_INTERP", "SOXR_STRICT_BUF", "SOXR_NOSMALLINTOPT"]
VR, DOUBLE, HIPREC = 32, 16, 8
SPLIT = 4
INF, NAN = float("inf"), float("nan")


def d2b(x):
    return struct.unpack("<Q", struct.pack("<d", float(x)))[0]


def b2d(u):
    return struct.unpack("<d", struct.pack("<Q", int(u)))[0]


def hexs(s):
    return "x" + s.encode("latin-1").hex()


def unhexs(v):
    return bytes.fromhex(v[1:]).decode("latin-1")


def nextafter(x, up=True):
    u = d2b(x)
    if x == 0:
        return b2d(1) if up else -b2d(1)
    if (x > 0) == up:
        return b2d(u + 1)
    return b2d(u - 1)


TOL = 1 + 1e-5

# ---------------------------------------------------------------- generators

def gen_rates(rng):
    """(irate, orate, class).  Many decades, both directions, the thresholds of the validation code, signs, zeros,
    non-finite values (the malformed part)."""
    c = rng.below(20)
    if c < 4:
        return float(rng.choice(cr.AUDIO)), float(rng.choice(cr.AUDIO)), "audio"
    if c < 6:
        return float(rng.choice(cr.SMALL)), float(rng.choice(cr.SMALL)), "small-int"
    if c < 9:        # decades
        a, b = 10.0 ** rng.uniform(-6, 6), 10.0 ** rng.uniform(-6, 6)
        if rng.chance(.3):
            a, b = 10.0 ** rng.uniform(-300, 300), 10.0 ** rng.uniform(-300, 300)
        return a, b, "decades"
    if c < 11:       # moderate random ratio
        return rng.uniform(.2, 50), rng.uniform(.2, 50), "moderate"
    if c == 11:      # the 2^31 bound of the resampling factor
        t = rng.choice([2.0 ** 31, 2.0 ** 31 - 1, nextafter(2.0 ** 31, False), nextafter(2.0 ** 31), 2.0 ** 32, 1e10, 2.0 ** 30, 2.0 ** 31 - 2, 3e9, 2e9, 1e9])
        o = rng.choice([1.0, 1.0, 3.0, 0.5])
        return t * o, o, "factor-2^31"
    if c == 12:      # large up-sampling
        t = rng.choice([1e3, 8192.0, 1e4, 65537.0 / 8, 1e5, 262144.0, 1e6, 1e9, 2.0 ** 31, 1e12])
        return 1.0, t, "big-up"
    if c == 13:      # zeros and signs
        a = rng.choice([0.0, -0.0, 1.0, -1.0, 44100.0, -44100.0])
        b = rng.choice([0.0, -0.0, 1.0, -1.0, 48000.0, -48000.0])
        return a, b, "zero-sign"
    if c == 14:      # non-finite
        a = rng.choice([INF, -INF, NAN, 1.0, 0.0])
        b = rng.choice([INF, -INF, NAN, 1.0, 0.0])
        return a, b, "non-finite"
    if c == 15:      # quotient overflows / underflows
        a, b = rng.choice([(1e308, 1e-308), (1e-308, 1e308), (5e-324, 1.0), (1.0, 5e-324), (1.7e308, 0.5), (5e-324, 1e308), (1e200, 1e-200)])
        return a, b, "overflow"
    if c == 16:      # the ratio 1 and its neighbours
        a = rng.choice([1.0, nextafter(1.0), nextafter(1.0, False), 1 + 1e-9, 1 - 1e-9])
        return a, 1.0, "near-1"
    if c == 17:
        k = float(1 << rng.below(12))
        return (1.0, k, "pow2") if rng.chance(.5) else (k, 1.0, "pow2")
    a, b = cr.gen_rates(rng)[:2]
    return float(a), float(b), "planner-paths"


PREC = [0.0, -0.0, 15.0, 16.0, 20.0, 24.0, 28.0, 32.0, 33.0]
PREC_EDGE = [nextafter(15.0, False), nextafter(15.0), nextafter(20.0, False), nextafter(20.0), nextafter(33.0, False), nextafter(33.0),
             14.0, 34.0, -1.0, 1e9, 5e-324, -5e-324, 1.0, NAN, INF, -INF, 20.5, 17.3]
PHASE = [0.0, -0.0, 25.0, 50.0, 75.0, 100.0]
PHASE_EDGE = [nextafter(0.0, False), nextafter(100.0), nextafter(100.0, False), 5e-324, -1.0, 101.0, 1e9, NAN, INF, -INF, 49.999, 50.001]


def around(rng, t):
    """t itself, its neighbours, and points at relative distances 1e-9 .. 1e-2 on both sides: a threshold that moves by
    more than ~1e-9 relative lands on the other side of one of them"""
    c = rng.below(4)
    if c == 0:
        return rng.choice([t, nextafter(t), nextafter(t, False)])
    return t * (1 + rng.choice([1, -1]) * rng.choice([1e-9, 1e-8, 1e-7, 1e-6, 3e-6, 1e-5, 3e-5, 1e-4, 3e-4, 1e-3, 1e-2]))


def gen_bands(rng):
    """(pb, sb, class): inside the documented ranges, at and just beyond each threshold, percent style."""
    c = rng.below(12)
    if c < 4:
        pb = rng.uniform(.55, .99)
        sb = rng.choice([1.0, 1.0, min(pb + rng.uniform(.003, .45), 1.49)])
        return pb, sb, "in-range"
    if c == 4:       # transition bandwidth thresholds .002/tol and .5*tol
        pb = rng.uniform(.6, .99)
        t = rng.choice([.002 / TOL, .5 * TOL])
        return pb, pb + around(rng, t), "tbw-edge"
    if c == 5:       # passband threshold .5/tol
        pb = rng.choice([around(rng, .5 / TOL), .5, .49])
        return pb, rng.choice([1.0, pb + .3]), "pb-edge"
    if c == 6:       # stopband threshold 1.5*tol
        sb = rng.choice([around(rng, 1.5 * TOL), 1.5, 1.51])
        return sb - rng.choice([.3, .45, .5]), sb, "sb-edge"
    if c == 7:       # percent style (backwards compatibility rescaling) and the 2.0 threshold
        pb = rng.choice([91.3, 95.0, 60.0, 2.0, nextafter(2.0), 50.0, 49.0, 150.0])
        sb = rng.choice([100.0, 1.0, 95.0, 2.0, nextafter(2.0), 50.0, 150.0, 51.0])
        return pb, sb, "percent"
    if c == 8:       # imaging condition (only for up-sampling)
        pb = rng.uniform(.6, .99)
        m = 1 - pb / TOL
        sb = 1 + rng.choice([around(rng, m), 2 * m])
        return pb, sb, "imaging"
    if c == 9:
        return rng.choice([NAN, INF, -INF, 0.0, -1.0, .9]), rng.choice([NAN, INF, -INF, 0.0, 1.0, -1.0]), "non-finite"
    if c == 10:
        return rng.uniform(0, 2.2), rng.uniform(0, 2.2), "random"
    pb = rng.choice([.913, 1385 / 2048., .931, .832, .663, .99])
    return pb, 1.0, "recipe-like"


QFLAG_SETS = [0, 0, 0, 1, 2, 3, 4, 8, 16, 16 | 8, 32, 32, 32 | 16, 64, 128, 1 << 31, (1 << 32) | 2, 0xffffffff, 2 ** 64 - 1]


def gen_quality(rng, cfg):
    c = rng.below(20)
    if c == 0:
        cfg["q"] = 0
        return "null"
    recipe = rng.choice([0, 1, 2, 3, 4, 4, 4, 5, 6, 7, 8, 9, 10, 11, 12, 13, 14, 15])
    if rng.chance(.35):
        recipe |= rng.choice([0x10, 0x20, 0x30])
    if rng.chance(.2):
        recipe |= 0x40
    if rng.chance(.05):
        recipe |= rng.choice([0x80, 0x100, 1 << 31, 1 << 40])
    cfg["recipe"] = recipe
    cfg["rflags"] = rng.choice(QFLAG_SETS)
    if c < 11:
        return "recipe"
    kind = []
    if rng.chance(.5):
        cfg["prec"] = d2b(rng.choice(PREC) if rng.chance(.5) else rng.choice(PREC_EDGE)); kind.append("prec")
    if rng.chance(.4):
        cfg["phase"] = d2b(rng.choice(PHASE) if rng.chance(.5) else (rng.choice(PHASE_EDGE) if rng.chance(.7) else rng.uniform(0, 100))); kind.append("phase")
    if rng.chance(.5):
        pb, sb, k = gen_bands(rng)
        cfg["pb"], cfg["sb"] = d2b(pb), d2b(sb); kind.append("bands:" + k)
    if rng.chance(.15):
        cfg["qflags"] = rng.choice(QFLAG_SETS); kind.append("flags")
    if rng.chance(.03):
        cfg["qe"] = rng.below(2); kind.append("e")
    return "override:" + "+".join(kind) if kind else "recipe"


def gen_io(rng, cfg):
    c = rng.below(20)
    if c < 5:
        cfg["io"] = 0
        return "null"
    if c < 15:
        cfg["itype"], cfg["otype"] = rng.below(8), rng.below(8)
        cfg["ioflags"] = rng.choice([0, 8, 8])
        if rng.chance(.02):
            cfg["ioe"] = 1
            return "valid+e"
        return "valid"
    if c < 17:
        cfg["itype"], cfg["otype"] = rng.choice([8, 9, 12, 15, 16, 255, 0, 3]), rng.choice([8, 10, 15, 64, 1, 7, 2 ** 31])
        return "raw-types"
    cfg["viaio"] = 1
    cfg["itype"], cfg["otype"] = rng.below(8), rng.below(8)
    if c == 19:
        if rng.chance(.5):
            cfg["itype"] = rng.choice([8, 9, 15])
        else:
            cfg["otype"] = rng.choice([8, 11, 15])
        return "constructor-invalid"
    return "constructor"


def gen_rt(rng, cfg, f5=False):
    c = rng.below(10)
    if c < 3:
        cfg["rt"] = 0
        return "null"
    if c < 5:
        cfg["threads"] = rng.choice([0, 1, 1, 2, 4])
        return "default"
    cfg["min"] = 8 + rng.below(8)
    cfg["large"] = (8 + rng.below(13)) if f5 else (13 + rng.below(8))
    cfg["kb"] = rng.choice([100, 400, 800, 100 + rng.below(701)])
    cfg["rtflags"] = rng.choice([0, 0, 1, 2, 3, 4, 8, 8 | 2, 8 | 3, 15])
    cfg["threads"] = rng.choice([0, 1, 1, 2])
    return "in-range"


ENV_VALUES = {
    "SOXR_USE_SIMD": ["0", "1", "1", "0", "2", "-1", "", "x", "00", " 1", "1x", "0x1", "4294967296"],
    "SOXR_USE_SIMD32": ["0", "1", "", "yes", "-0"],
    "SOXR_USE_SIMD64": ["0", "1", "", "no", "+1"],
    "SOXR_MIN_DFT_SIZE": ["7", "8", "10", "15", "16", "0", "-8", " 9", "12abc", "abc", "", "4294967306", "1e1"],
    "SOXR_LARGE_DFT_SIZE": ["13", "14", "16", "17", "20", "21", "7", "0", "-13", "+15", "18.9", "", "zz", "99999999999999999999"],
    "SOXR_COEFS_SIZE": ["99", "100", "101", "400", "800", "801", "0", "-100", "1000", "", "\t200", "8e2"],
    "SOXR_NUM_THREADS": ["-1", "0", "1", "2", "64", "65", "", "four", "3 "],
    "SOXR_COEF_INTERP": ["-1", "0", "1", "2", "3", "4", "", "low"],
    "SOXR_STRICT_BUF": ["-1", "0", "1", "2", ""],
    "SOXR_NOSMALLINTOPT": ["-1", "0", "1", "2", "", "on"],
}
ENV_F5 = ["8", "9", "10", "11", "12"]


def gen_env(rng, cfg, f5=False, p=.12):
    n = 0
    for name in ENVS:
        if rng.chance(p if not name.startswith("SOXR_USE_SIMD") else .3 if name == "SOXR_USE_SIMD" else .15):
            vals = ENV_VALUES[name]
            if name == "SOXR_LARGE_DFT_SIZE" and f5:
                vals = vals + ENV_F5
            cfg["E." + name] = hexs(rng.choice(vals))
            n += 1
    return n


def gen_channels(rng):
    c = rng.below(20)
    if c < 2:
        return 0
    if c < 12:
        return 1
    if c < 17:
        return 2 + rng.below(7)
    if c < 19:
        return rng.choice([9, 16, 17, 32, 64])
    return rng.choice([100, 300])


def gen_create(rng, f5=False):
    """One soxr_create call.  f5: allow the log2_large_dft_size <= 12 region (known finding F5 on the pinned tree)."""
    cfg = {}
    ir, orr, rc = gen_rates(rng)
    cfg["ir"], cfg["or"] = d2b(ir), d2b(orr)
    cfg["ch"] = gen_channels(rng)
    kinds = {"rates": rc, "quality": gen_quality(rng, cfg), "io": gen_io(rng, cfg), "rt": gen_rt(rng, cfg, f5)}
    kinds["env"] = gen_env(rng, cfg, f5)
    return cfg, kinds


def create_line(cfg):
    return "create " + " ".join("%s=%s" % kv for kv in cfg.items())


# ---------------------------------------------------------------- running

def env_base():
    e = dict(os.environ)
    for n in ENVS + ["SOXR_TRACE"]:
        e.pop(n, None)
    e["ASAN_OPTIONS"] = "detect_leaks=0:abort_on_error=0:exitcode=99:allocator_may_return_null=0"
    e["UBSAN_OPTIONS"] = "halt_on_error=1:exitcode=98:print_stacktrace=1"
    return e


class Unit:
    """One create (+ following api ops) and what both sides answered."""
    __slots__ = ("ops", "meta", "model_in", "real", "model", "rc", "err", "complete")

    def __init__(self, ops, meta=None):
        self.ops, self.meta = ops, meta or {}
        self.model_in, self.real, self.model, self.rc, self.err, self.complete = [], [], [], None, "", False


def _run_proc(exe, lines, timeout):
    try:
        p = subprocess.run([exe], input="\n".join(lines) + "\n", stdout=subprocess.PIPE, stderr=subprocess.PIPE,
                           universal_newlines=True, timeout=timeout, env=env_base(), errors="replace")
        return p.returncode, p.stdout, p.stderr[-3000:]
    except subprocess.TimeoutExpired as ex:
        out = ex.stdout or ""
        if isinstance(out, bytes):
            out = out.decode(errors="replace")
        return "timeout", out, "timeout after %ss" % timeout


def _split_units(units, out):
    """Distribute the harness output over the units: a unit starts at its `> create` line."""
    cur = -1
    for l in out.splitlines():
        if l.startswith("> create "):
            cur += 1
        if cur < 0 or cur >= len(units):
            continue
        u = units[cur]
        if l.startswith("> "):
            u.model_in.append(l[2:])
        elif l.startswith("< "):
            u.real.append(l[2:])
    return cur


def run_real(exe, units, timeout=10, batch=40, batch_timeout=40, solo=None):
    """Runs the units on the real library, `batch` per process; a batch that dies or hangs is re-run unit by unit so
    that exactly the offending configuration is isolated (u.rc != 0).  Units for which solo(u) holds (configurations
    expected to hang on the pinned tree) run alone from the start."""
    alone = [u for u in units if solo and solo(u)]
    rest = [u for u in units if not (solo and solo(u))]
    batches = [[u] for u in alone] + [rest[i:i + batch] for i in range(0, len(rest), batch)]

    def work(b):
        lines = [l for u in b for l in u.ops]
        rc, out, err = _run_proc(exe, lines, batch_timeout if len(b) > 1 else timeout)
        if rc == 0 or len(b) == 1:
            _split_units(b, out)
            for u in b:
                u.rc, u.err, u.complete = rc, err, rc == 0
            return
        for u in b:
            u.model_in, u.real = [], []
            rc, out, err = _run_proc(exe, u.ops, timeout)
            _split_units([u], out)
            u.rc, u.err, u.complete = rc, err, rc == 0
    cr.pmap(work, batches)


def run_model(units):
    """Feeds every unit's `> ` lines to the Lean driver (one process) and distributes the answers."""
    lines, idx = [], []
    for i, u in enumerate(units):
        for l in u.model_in:
            lines.append(l); idx.append(i)
        u.model = []
    if not lines:
        return
    p = subprocess.run([DRIVER], input="\n".join(lines) + "\n", stdout=subprocess.PIPE, stderr=subprocess.PIPE,
                       universal_newlines=True, timeout=1800)
    out = p.stdout.splitlines()
    if len(out) != len(lines):
        raise RuntimeError("driver soxr_config answered %d lines for %d ops (rc %s): %s" % (len(out), len(lines), p.returncode, p.stderr[-500:]))
    for i, l in zip(idx, out):
        units[i].model.append(l)


def line_eq(real, model):
    """Equal, where a `z=*` of the model (frame count not decided by this model) matches anything."""
    if real == model:
        return True
    rt, mt = real.split(" "), model.split(" ")
    if len(rt) != len(mt):
        return False
    return all(a == b or (b == "z=*" and a.startswith("z=")) for a, b in zip(rt, mt))


def diff_unit(u):
    """None when the real answers and the model's agree line by line; else (index, op, real, model)."""
    n = min(len(u.real), len(u.model))
    for i in range(n):
        if not line_eq(u.real[i], u.model[i]):
            return (i, u.model_in[i] if i < len(u.model_in) else "?", u.real[i], u.model[i])
    if u.complete and len(u.real) != len(u.model):
        return (n, "length", "%d answer lines" % len(u.real), "%d answer lines" % len(u.model))
    return None


def kv(line):
    return cr.parse_kv(line)


# ---------------------------------------------------------------- from a probe create line to a trace-harness job

def trace_cfg(cfg, accepted):
    """The same configuration for harness/cr/trace.c (decimal fields; repr() of a double round-trips exactly).
    `accepted`: the kv dict of the model's / real `C ok` line (stored quality and runtime specs after rescaling and env
    overrides).  Quality is passed as recipe 4 plus explicit fields, so the recipe's flag edits are already inside qflags."""
    t = {"ir": repr(b2d(cfg["ir"])), "or": repr(b2d(cfg["or"])), "ch": cfg.get("ch", 1), "recipe": 4,
         "qflags": int(accepted["qflags"]) & 0xffffffff,
         "prec": repr(b2d(accepted["prec"])), "phase": repr(b2d(accepted["phase"])),
         "pb": repr(b2d(accepted["pb"])), "sb": repr(b2d(accepted["sb"])),
         "min": accepted["min"], "large": accepted["large"], "kb": accepted["kb"], "threads": accepted["threads"],
         "rtflags": accepted["rtflags"]}
    if cfg.get("io", 1) and (int(cfg.get("itype", 0)) | int(cfg.get("otype", 0))) < 8:
        t["itype"], t["otype"] = cfg.get("itype", 0), cfg.get("otype", 0)
        t["ioflags"] = cfg.get("ioflags", 0)
    else:
        t["itype"], t["otype"] = 0, 0
    env = {}
    for k, v in cfg.items():
        if k.startswith("E.SOXR_USE_SIMD"):
            env[k[2:]] = unhexs(v)
    return t, env


def plan_load(plan):
    """(frames, chain): frames = max over stages of input_size * out_in_ratio, the number of frames one stage invocation
    reserves in the next FIFO; chain = the largest int product the stage functions form from it: the reservation itself,
    and L * num_in of a following dft stage (num_in = whatever the previous stage has delivered)."""
    m, c = 0.0, 0.0
    for i, s in enumerate(plan):
        try:
            f = int(s.get("isz", 0)) * b2d(int(s.get("oir", 0)))
        except (ValueError, OverflowError):
            continue
        m = max(m, f)
        nxt = plan[i + 1] if i + 1 < len(plan) else None
        c = max(c, f * (int(nxt.get("L", 1) or 1) if nxt is not None and nxt.get("kind") == "dft" else 1))
    return m, c
