"""C14 The phase setting changes phase only: magnitude, stop-band rejection, output length and rate as for linear phase;
linear phase symmetric about the input instant; p and 100-p mirror images.

proof      lean/SoxrModel/Properties/C14.lean (21 theorems; models: Phase/Model.lean = selection step of lsx_fir_to_phase,
           lsx_make_lpf index structure, dft_stage_init arithmetic; Cr/Model.lean = count model) + axiom audit
tie        harness/phase/sel.c runs the REAL lsx_fir_to_phase (index-valued markers injected behind its last FFT through
           ld --wrap: every output tap names the index it was read from), the REAL dft_stage_init and lsx_design_lpf on
           generated inputs; the Lean driver (Phase/Main.lean) runs the model on the same lines; integers diffed.
           Every dft stage of a sweep of exported plans is evaluated against the clauses the theorems speak about
           (latency split, padded dft_length, linear => centred, FDomainOK for every phase) by the Lean definitions themselves.
falsifier  measurement on the real library (checks/phaselib.py): prototype filters from impulses at every input phase of the
           implementation period, |H_p| against |H_50| over pass- and stop-band, end-to-end mirror law, linear-phase symmetry
           about the input instant, sine-fit amplitude / residual, output length.  Never counted as proof.
"""
import json, math, os, re, subprocess
import numpy as np
from vlib import common
from checks import crcommon as cr
from checks import phaselib as P

LEVEL = "proof"
PID = "C14"
SEL_WRAP = "-Wl,--wrap=_soxr_rdft -Wl,--wrap=_soxr_fir_to_phase"
FIT_FLOOR = 4e-9        # resolution of the harness' on-the-fly least-squares residual (normal equations in long double over 2e4 frames)
PB_TOL_DB = 0.01        # soxr.h: pass-band promise of the recipe's roll-off class: SOXR_ROLLOFF_SMALL <= 0.01 dB (P.ROLL_DB for the others)


def pb_tol(q):
    """dB.  LQ (medium roll-off, <= 0.35 dB) is the one recipe whose PLAN depends on the phase: `mode` of _soxr_init becomes 1 when
    phase_response != 50, another interpolation filter with another band edge (measured: 0.11 dB at 0.93 of the pass-band)."""
    return P.ROLL_DB.get(int(q["flags"]) & 3, PB_TOL_DB)


# ------------------------------------------------------------------ the Lean driver

MAX_REPLAYS = 12


def viol(ctx, what, replay, no_input=False):
    """ctx.violation, but at most MAX_REPLAYS replay files per run (the rest are counted)"""
    if len(ctx.violations) < MAX_REPLAYS:
        ctx.violation(what, replay, no_input)
    else:
        ctx.count("violations_beyond_the_first_%d_not_written" % MAX_REPLAYS)


def driver_cmd():
    exe = os.path.join(common.LEAN, ".lake", "build", "bin", "soxr_phase")
    if os.path.exists(exe) and "soxr_phase" in open(os.path.join(common.LEAN, "lakefile.toml")).read():
        return [exe], None
    env = dict(os.environ)
    env["LEAN_PATH"] = os.path.join(common.LEAN, ".lake", "build", "lib", "lean")
    return ["lean", "--run", "SoxrModel/Phase/Main.lean"], env


def run_model(lines):
    if not lines:
        return []
    cmd, env = driver_cmd()
    p = subprocess.run(cmd, input="\n".join(lines) + "\n", stdout=subprocess.PIPE, stderr=subprocess.PIPE, universal_newlines=True,
                       cwd=common.LEAN, env=env, timeout=1800)
    if p.returncode:
        raise RuntimeError("Lean driver soxr_phase failed: " + p.stderr[-1500:])
    return p.stdout.splitlines()


def fields(line):
    t = line.split()
    return t[0] if t else "", cr.parse_kv(line), [x for x in t[1:] if "=" not in x]


# ------------------------------------------------------------------ correspondence: sel.c against the model

def sel_exe():
    return common.build_harness("phase_sel", ["phase/sel.c"], variant="rel", extra=SEL_WRAP)


def correspondence(ctx):
    exe = sel_exe()
    n = {"sel": 40 if ctx.quick else 2000, "dft": 150 if ctx.quick else 20000, "lpf": 100 if ctx.quick else 5000}
    mism = 0
    for mode in ("sel", "dft", "lpf"):
        seed = ctx.rng.next() >> 8
        p = subprocess.run([exe, "mode=" + mode, "seed=%d" % seed, "count=%d" % n[mode]], stdout=subprocess.PIPE, stderr=subprocess.PIPE,
                           universal_newlines=True, timeout=3600)
        lines = p.stdout.splitlines()
        if p.returncode or not lines or lines[-1] != "END":
            viol(ctx, "harness phase/sel.c mode=%s did not finish (exit %s): %s" % (mode, p.returncode, p.stderr[-800:]),
                          {"harness": "phase/sel.c", "mode": mode, "seed": seed}, no_input=True)
            continue
        ops, real = [], []
        for i, l in enumerate(lines):
            if l.startswith("> "):
                ops.append(l[2:]); real.append(lines[i + 1])
            elif l.startswith("D "):
                t = l.split()
                ctx.hist("dist_" + t[1], t[2])
            elif l.startswith("X "):
                direct_oracle(ctx, l, mode, seed)
        model = run_model(ops)
        if len(model) != len(ops):
            viol(ctx, "Lean driver answered %d lines for %d operations (mode %s)" % (len(model), len(ops), mode),
                          {"mode": mode, "seed": seed}, no_input=True)
            continue
        ctx.count("evaluations", len(ops))
        ctx.count("traces_validated_against_impl", len(ops))
        ctx.count("distinct_nontrivial", len(set(ops)))
        for op, r, m in zip(ops, real, model):
            ctx.count("correspondence_lines")
            ctx.count("correspondence_" + mode)
            partial = r.startswith("<~ ")
            rk, rf, rpos = fields(r[3:] if partial else r[2:])
            mk, mf, mpos = fields(m)
            bad = rk != mk or rpos != mpos or any(mf.get(k) != v for k, v in rf.items()) or (not partial and set(rf) != set(mf))
            if bad:
                mism += 1
                if mism <= 3:
                    viol(ctx, "correspondence broken (Lean phase model vs real code) for `%s`:\n real : %s\n model: %s" % (op, r, m),
                                  {"harness": "phase/sel.c", "mode": mode, "seed": seed, "op": op, "real": r, "model": m,
                                   "rerun": "%s mode=%s seed=%d count=%d" % (exe, mode, seed, n[mode])}, no_input=False)
        if ops:
            ctx.sample({"correspondence": mode, "op": ops[0], "real": real[0], "model": model[0]})
    ctx.cov["correspondence_mismatches"] = mism


def direct_oracle(ctx, line, mode, seed):
    """X lines of sel.c: the property's own clauses asked of the real function on real data."""
    k, f, _ = fields(line[2:])
    ctx.count("direct_oracle_" + k.replace("-", "_"))
    rep = {"harness": "phase/sel.c", "mode": mode, "seed": seed, "line": line}
    if k == "mirror":
        ok = f["reversed"] == "1" and f["len"] == f["lenm"] and int(f["post"]) + int(f["postm"]) == int(f["len"]) - 1
        if not ok:
            viol(ctx, "lsx_fir_to_phase: the filter for 100-p is not the filter for p reversed / post_len not mirrored: " + line, rep)
    elif k == "linear":
        n, post = int(f["len"]), int(f["post"])
        if post != (n - 1) // 2 or float(f["asym"]) > 1e-9 * max(float(f["top"]), 1e-300):
            viol(ctx, "lsx_fir_to_phase(phase = 50): not centred / not symmetric: " + line, rep)
    elif k == "lpf":
        if f["sym"] != "1":
            viol(ctx, "lsx_make_lpf: h[i] != h[n-1-i]: " + line, rep)
    else:
        viol(ctx, "harness phase/sel.c reports an inconsistency: " + line, rep, no_input=True)


# ------------------------------------------------------------------ exported plans against the clauses

def to_pcfg(cfg, env):
    c = P.mkcfg(float(cfg["ir"]), float(cfg["or"]), int(cfg["recipe"]), int(cfg["qflags"]), 0 if env.get("SOXR_USE_SIMD") == "0" else 1)
    for k in ("phase", "prec", "min", "large", "kb", "rtflags"):
        if k in cfg:
            c[k] = cfg[k]
    return c


def plan_job(c):
    try:
        info, _ = P.run(c)
        return c, info, None
    except Exception as e:          # noqa
        return c, None, str(e)[-400:]


def plan_sweep(ctx):
    rng = ctx.rng
    n = 400 if ctx.quick else 20000
    cfgs = []
    for i in range(n):
        cfg, env = cr.gen_config(rng, allow_nonlinear=True, max_up=600.0)
        c = to_pcfg(cfg, env)
        r = rng.below(10)
        if r < 3:        # power-of-two (and near) up-sampling: where the F-domain path is used
            c["ir"], c["orr"] = 1.0, float(rng.choice([2, 4, 8, 16, 32, 64, 128, 256, 512, 48, 96, 100, 300]))
            if rng.chance(.3):
                c["ir"] = float(rng.choice([3, 5, 7]))
        if rng.chance(.15):
            c["large"] = 8 + rng.below(5)            # small log2_large_dft_size: where dft_stage_init pads dft_length to 32 L
        if r < 7 and "phase" not in c:
            k = rng.below(4)
            if k == 0:
                c["recipe"] = (c["recipe"] & ~0x30) | rng.choice([0x10, 0x20, 0x30])      # the recipe's own phase bits
            elif k < 3:
                c["phase"] = rng.choice([0, 100, 25, 75, 10, 49, 51, 99, 1, 37.5, 62.5])
        cfgs.append(c)
    res = P.pool_map(plan_job, cfgs)
    ops, owner = [], []
    for c, info, err in res:
        ctx.count("plans_requested")
        if err:
            viol(ctx, "plan export failed: %s (%s)" % (err, P.label(c)), {"cfg": c}, no_input=True)
            continue
        if "error" in info or "plan" not in info:
            ctx.count("plans_rejected_or_not_cr")
            continue
        lin = float(info["q"]["phase"]) == 50
        ctx.hist("dist_plan_phase", "linear" if lin else "non-linear")
        for s in info["stages"]:
            if s["kind"] != "dft":
                continue
            ops.append("plan lin=%d L=%d dftLen=%d numTaps=%d postPeak=%d preload=%d clk=%d blockLen=%d isz=%d" % (
                lin, s["L"], s["dftLen"], s["numTaps"], s["postPeak"], s["preload"], int(s["clk"]), s["blockLen"], s["isz"]))
            owner.append((c, info, s, lin))
    ans = run_model(ops)
    misaligned = 0
    for op, a, (c, info, s, lin) in zip(ops, ans, owner):
        _, f, _ = fields(a)
        ctx.count("dft_stages_checked")
        ctx.hist("dist_plan_dft_L", s["L"] if s["L"] <= 8 else ">8" if not P.is_pow2(s["L"]) else "pow2>=16")
        rep = {"cfg": c, "stage": s, "model": a, "plan": info["stages"]}
        if f.get("latency") != "1" or f.get("shape") != "1" or f.get("pad") != "1":
            viol(ctx, "dft stage violates the latency / shape / padding clauses of dft_stage_init (post_peak = L*preload + at, at < L, block_len, "
                          "input_size, dft_length >= 32 L for power-of-two L): %s -> %s (%s)" % (op, a, P.label(c)), rep)
        elif lin and f.get("centred") != "1":
            viol(ctx, "LINEAR-phase dft stage is not centred on the input grid (theorems linear_design_centred, linear_block_aligned "
                          "say it always is): %s -> %s (%s)" % (op, a, P.label(c)), rep)
        elif f.get("fdok") != "1":
            misaligned += 1
            viol(ctx, "dft stage with a power-of-two L that does not divide block_len (theorem block_aligned_all_phases says dft_stage_init "
                          "never leaves one, for any phase response; this was finding F1 before its repair): %s -> %s (%s)" % (op, a, P.label(c)), rep)
    ctx.count("evaluations", len(res))
    ctx.count("traces_validated_against_impl", len(ops))
    ctx.count("distinct_nontrivial", len(set(ops)))
    ctx.cov["misaligned_plans_in_sweep"] = misaligned
    ctx.cov["plans_swept"] = len(res)
    if len(ans) != len(ops):
        viol(ctx, "Lean driver answered %d lines for %d plan stages" % (len(ans), len(ops)), {}, no_input=True)


# ------------------------------------------------------------------ falsifier: measurement on the real library

def eng_eps(engine):
    return 2.0 ** -22 if engine.startswith("cr32") else 2.0 ** -50


def sine_job(c, x, nyq_scale):
    """amplitude / residual of one in-band tone, window mid-stream"""
    ir, orr = float(c["ir"]), float(c["orr"])
    N = int(max(20000, 20000 * ir / orr))
    No = int(N * orr / ir)
    a = int(.4 * No); b = min(int(.6 * No), a + 20000)
    f = x * nyq_scale * 0.5 * min(1.0, orr / ir)
    info, _ = P.run(c, mode="sine", n=N, f=repr(f), amp=0.5, ph0=0.1234, win="%d:%d" % (a, b))
    if "error" in info:
        return {"error": info["error"]}
    w = info["wins"][0]
    return {"x": x, "amp": math.hypot(w["A"], w["B"]), "rms": float(w["rms"]), "out": info["r"]["out"], "n": N}


RECIPE_PHASE = {50: 0x00, 25: 0x10, 100: 0x20, 0: 0x30}     # soxr.h: SOXR_LINEAR_PHASE, SOXR_INTERMEDIATE_PHASE, SOXR_MAXIMUM_PHASE, SOXR_MINIMUM_PHASE


def cfg_for(job, p):
    """the configuration of one phase setting of a job: by q_spec.phase_response, or (job['via_recipe']) by the recipe's phase flag"""
    c0 = job["cfg"]
    if p is None:
        return dict(c0)
    if job.get("via_recipe"):
        return dict(c0, recipe=(int(c0["recipe"]) & ~0x30) | RECIPE_PHASE[p])
    return dict(c0, phase=p)


def measure(job):
    """everything about one base configuration, for all its phase settings"""
    c0, phases, proto_cap = job["cfg"], job["phases"], job["proto_cap"]
    out = {"job": job, "phase": {}, "proto": None}
    try:
        infos = {}
        for p in phases:
            c = cfg_for(job, p)
            info, _ = P.run(c)
            if "error" in info or "plan" not in info:
                out["skipped"] = info.get("error", "not the constant-rate engine")
                return out
            infos[p] = info
        out["plans"] = {p: P.plan_strs(infos[p]) for p in phases}
        q = infos[phases[0]]["q"]
        for p in phases:
            c = cfg_for(job, p)
            out["phase"][p] = {"plan": P.plan_strs(infos[p]), "engine": infos[p].get("engine", ""), "q": infos[p]["q"],
                               "sine": [sine_job(c, x, float(q["pb"])) for x in job["tones"]]}
        fr = P.exact_fraction(c0)
        per = P.impl_period(infos[phases[0]]) if fr else None
        if fr and per and per[1] <= proto_cap and per[0] <= 4 * proto_cap and all(P.impl_period(infos[p]) == per for p in phases):
            L, M = fr
            W = 0
            for p in phases:
                c = cfg_for(job, p)
                lo, hi = P.support(c, L / M)
                W = max(W, lo, hi)
            pr = {}
            for p in phases:
                c = cfg_for(job, p)
                r = P.prototype(c, L, M, infos[p], W, max_phases=proto_cap)
                if isinstance(r, dict):
                    pr = None
                    break
                pr[p] = r
            if pr:
                out["proto"] = proto_measures(pr, phases, L, M, q)
    except Exception as e:      # noqa
        out["error"] = repr(e)[-600:]
    return out


def proto_measures(pr, phases, L, M, q):
    ref = phases[0]
    n = len(pr[ref].h)
    nfft = 1 << int(math.ceil(math.log2(8 * n)))
    nu = 2 * math.pi * np.arange(nfft // 2 + 1) / nfft
    nyq = math.pi / max(L, M)
    pb = nu <= float(q["pb"]) * nyq
    sb = nu >= float(q["sb"]) * nyq
    H = {p: np.abs(P.spectrum(pr[p].h, pr[p].J, nfft)) / L for p in phases}
    res = {"L": L, "M": M, "len": n, "per": {}}
    a50 = H[ref]
    for p in phases:
        h = pr[p].h
        d = {"n_out": pr[p].n_out, "n_in": pr[p].n_in, "spread": pr[p].spread, "outside": pr[p].outside, "top": float(np.abs(h).max()),
             "pb_db": float(np.abs(20 * np.log10(np.maximum(H[p][pb], 1e-300) / np.maximum(a50[pb], 1e-300))).max()),
             "sb_db": float(20 * np.log10(max(H[p][sb].max(), 1e-300))) if sb.any() else -999.0,
             "peak_j": int(np.argmax(np.abs(h))) - pr[p].J}
        res["per"][p] = d
    res["sym50"] = float(np.abs(pr[ref].h - pr[ref].h[::-1]).max())
    res["mirror"] = {}
    for p in phases:
        if p is None or p == ref:
            continue
        m = [x for x in phases if x is not None and x != ref and abs((100 - p) - x) < 1e-12]
        if m and p < m[0]:
            diff, s = P.best_mirror(pr[m[0]].h, pr[p].h, 2 * L)
            res["mirror"]["%g" % p] = {"with": m[0], "diff": diff, "s": s}
    return res


def evaluate(ctx, r):
    """returns [(phase(s) involved, kind, text)]"""
    job = r["job"]
    phases = job["phases"]
    ref = phases[0]
    bad = []
    if "error" in r:
        m = re.search(r"phase=([0-9.]+)", r["error"])
        who = ref
        if m:
            who = ([p for p in phases if abs(float(m.group(1)) - p) < 1e-9] or [ref])[0]
        return [((who,), "crash" if "harness failed" in r["error"] else "machinery", r["error"])]
    base = r["phase"][ref]
    bits = float(base["q"]["prec"]) or 16.0
    eps = eng_eps(base["engine"])
    pbt = pb_tol(base["q"])
    for p in phases[1:]:
        cur = r["phase"][p]
        if job.get("via_recipe"):
            # the recipe's phase flag changes phase_response and nothing else of the quality spec the library works from
            ctx.count("recipe_flag_spec_comparisons")
            diff = [k for k in ("flags", "pb", "sb", "prec") if str(cur["q"].get(k)) != str(base["q"].get(k))]
            if diff:
                bad.append(((p,), "spec", "soxr_quality_spec(recipe | phase flag for %s) differs from the linear recipe in more than the phase: %s" % (
                    p, ", ".join("%s %s vs %s" % (k, cur["q"].get(k), base["q"].get(k)) for k in diff))))
        for s0, s1 in zip(base["sine"], cur["sine"]):
            if "error" in s1 or "error" in s0:
                bad.append(((p,), "process", "soxr_process failed: %s" % (s1.get("error") or s0.get("error"))))
                continue
            ctx.count("tone_comparisons")
            if s1["out"] != s0["out"]:
                bad.append(((p,), "length", "output length %d for phase %s, %d for linear phase (N = %d)" % (s1["out"], p, s0["out"], s0["n"])))
            db = abs(20 * math.log10(max(s1["amp"], 1e-300) / max(s0["amp"], 1e-300)))
            if db > pbt:
                bad.append(((p,), "gain", "pass-band tone at %.2f of the pass-band: gain differs from linear phase by %.4f dB (> %.2f dB)" % (s0["x"], db, pbt)))
            tol = max(4 * s0["rms"], 2.0 ** (1 - bits) + 8 * eps) + FIT_FLOOR
            if s1["rms"] > tol:
                bad.append(((p,), "residual", "pass-band tone at %.2f: fit residual %.3g rms (linear phase: %.3g; tolerance %.3g)" % (s0["x"], s1["rms"], s0["rms"], tol)))
    pm = r.get("proto")
    if pm:
        ctx.count("prototype_configs")
        L = pm["L"]
        d0 = pm["per"][ref]
        # engine rounding + what the configured precision leaves of images / block-edge leakage (F-domain decimation truncates the spectrum)
        tol_t = (16 * eps + 2.0 ** (1 - bits)) * max(d0["top"], 1e-12) * max(1, len(base["plan"]))
        if pm["sym50"] > tol_t:
            bad.append(((ref,), "symmetry", "linear-phase impulse response not symmetric about the input instant: max |h[j]-h[-j]| = %.3g (tolerance %.3g)" % (pm["sym50"], tol_t)))
        if d0["peak_j"] != 0:
            bad.append(((ref,), "symmetry", "linear-phase impulse response peaks %d/%d input periods off the input instant" % (d0["peak_j"], L)))
        for p in phases[1:]:
            d = pm["per"][p]
            ctx.count("response_comparisons")
            if d["n_out"] != d0["n_out"]:
                bad.append(((p,), "length", "output length %d for phase %s, %d for linear phase (N = %d)" % (d["n_out"], p, d0["n_out"], d0["n_in"])))
            if d["pb_db"] > pbt:
                bad.append(((p,), "gain", "|H_p| differs from |H_50| by %.4f dB in the pass-band (> %.2f dB)" % (d["pb_db"], pbt)))
            lim = max(-6.0206 * bits + 1.0, d0["sb_db"] + 3.0)
            if d["sb_db"] > lim:
                bad.append(((p,), "rejection", "stop-band peak %.1f dB for phase %s (linear phase %.1f dB, configured %.1f dB)" % (d["sb_db"], p, d0["sb_db"], -6.0206 * bits)))
        for p, m in pm["mirror"].items():
            ctx.count("mirror_comparisons")
            if m["diff"] > 2 * tol_t:
                bad.append(((float(p), m["with"]), "mirror", "responses for phase %s and %s are not mirror images about any axis within one input period: best axis %g/%d, max difference %.3g (tolerance %.3g)" % (
                    p, m["with"], m["s"] / 2.0, L, m["diff"], 2 * tol_t)))
    return bad


def fph1(r, p):
    """signature of known finding F-PH1 (known_findings.d/phase.json): configuration, plan, and a stop-band shortfall not above the
    worst value measured for that precision plus the stated margin (checks/phaselib.py: FPH1_WORST_DB, calibrated by design-probes/fph1/fph1_sweep*.py)"""
    cur = r["phase"][p]
    bits = float(cur["q"]["prec"])
    ph = float(cur["q"]["phase"])
    allow = P.fph1_allowance_db(bits, ph)
    sb = r["proto"]["per"][p]["sb_db"]
    return allow is not None and P.fph1_plan(cur["plan"]) and sb <= -6.0206 * bits + allow


BASE_RATIOS = [(1, 2), (2, 1), (1, 4), (3, 1), (2, 3), (1, 8), (1, 16), (1, 128), (1, 64), (44100, 48000), (3.14159, 1), (1, 1.41421356),
               (8, 1), (1, 3), (4, 1), (1, 32), (48000, 44100), (3, 256), (1, 5), (96000, 44100), (1, 256)]


def make_jobs(ctx):
    rng = ctx.rng
    jobs = []
    nbase = len(BASE_RATIOS)
    recs = [4, 1, 6, 4, 3, 7, 4, 0x14, 4, 4, 4, 6, 5, 4, 2, 4, 1, 4, 6, 4, 4]
    combos = [(ir, orr, recs[i], rng.below(2)) for i, (ir, orr) in enumerate(BASE_RATIOS[:nbase])]
    if not ctx.quick:
        combos += [(ir, orr, rec, simd) for (ir, orr) in BASE_RATIOS[:9] for rec in (1, 4, 6) for simd in (0, 1)]
    for i in range(12 if ctx.quick else 400):
        ir, orr = cr.gen_rates(rng, max_up=300.0, max_down=400.0)
        combos.append((ir, orr, rng.choice([1, 2, 3, 4, 4, 5, 6, 7]), rng.below(2)))
    for (ir, orr, rec, simd) in combos:
        c0 = P.mkcfg(float(ir), float(orr), rec & ~0x30, rng.choice([0, 0, 0, 2, 8]), simd)
        a = rng.choice([10, 40, 49, 5, 33, 12.5, 45, 1, 49.5, 49.9])      # (non-integer settings next to linear: 50.5 / 50.1 are not 50)
        phases = [50, 0, 100, 25, 75, a, 100 - a]
        if rec & 0x30:
            phases = [50, 25, 75]        # the recipe's own intermediate-phase bit is exercised in the plan sweep; here explicit values
        if rng.chance(.25):
            c0["min"], c0["large"] = 8 + rng.below(8), 8 + rng.below(13)      # log2_large_dft_size <= 12: dft_stage_init pads (former F5 region)
        up = float(orr) / float(ir)
        jobs.append({"cfg": c0, "phases": phases, "tones": [0.11, 0.47, 0.93] if up < 40 or not ctx.quick else [0.47],
                     "proto_cap": (4 if up > 20 else 16) if ctx.quick else (40 if up > 20 else 160)})
    # the corners of (precision, phase): the highest precisions the library accepts (32 by recipe, 33 by field) and the lowest, at minimum
    # / maximum phase and two intermediate settings - where the cepstral reconstruction of lsx_fir_to_phase has the least room
    for i, (ir, orr) in enumerate([(1, 4), (1, 16), (2, 1), (1, 2), (3, 1), (1, 8)][: (3 if ctx.quick else 6)]):
        for prec in ((33,) if ctx.quick else (33, 32, 31.5, 15)):
            c0 = P.mkcfg(float(ir), float(orr), 7, 0, rng.below(2), prec=prec)
            jobs.append({"cfg": c0, "phases": [50, 0, 100, 25, 75], "tones": [0.47], "proto_cap": 16 if ctx.quick else 64})
    # one linear-phase member of every planner path (plan class of checks/_signal.py cover: which stage kinds with which L / M / interpolation
    # order, incl. the low-quality single-stage shortcut) is measured at phase settings on both sides of linear, mirror pairs included
    from checks import _signal as S
    S.harness()
    sel, _ = S.cover(rng, ["base"], S.COVER_RATIOS, per_ratio=1 if ctx.quick else 4, members=1, max_period=24 if ctx.quick else 200)
    for e in sel[: (80 if ctx.quick else 600)]:
        c0 = dict(e["members"][0])
        c0["recipe"] = int(c0["recipe"]) & ~0x30
        a = rng.choice([10, 30, 40, 20, 49.5])
        up = float(c0["orr"]) / float(c0["ir"])
        jobs.append({"cfg": c0, "phases": [50, 25, 75, a, 100 - a] if rng.chance(.5) else [50, 0, 100, a, 100 - a], "tones": [0.47],
                     "proto_cap": (4 if up > 20 else 24) if ctx.quick else (40 if up > 20 else 200)})
    # the phase chosen by the RECIPE's flags (soxr_quality_spec(recipe | SOXR_MINIMUM_PHASE ...)), alone and combined with the other recipe
    # flag of the same nibble (SOXR_STEEP_FILTER): same comparisons, with a tone close to the end of the pass-band
    for i in range(10 if ctx.quick else 160):
        ir, orr = rng.choice(BASE_RATIOS[:9]) if rng.chance(.6) else cr.gen_rates(rng, max_up=60.0, max_down=100.0)
        rec = rng.choice([1, 2, 3, 4, 4, 5, 6, 7]) | (0x40 if rng.chance(.6) else 0)
        if i < 4:       # every roll-off class the recipes set by themselves (LQ / MQ: medium), with a poly-phase stage in the plan
            (ir, orr), rec = [(44100, 48000), (48000, 44100), (44100, 48000), (3, 2)][i], [2, 1, 1 | 0x40, 2][i]
        c0 = P.mkcfg(float(ir), float(orr), rec, rng.choice([0, 0, 2]), rng.below(2))
        up = float(orr) / float(ir)
        jobs.append({"cfg": c0, "phases": [50, 0, 100, 25], "via_recipe": True, "tones": [0.47, 0.97] if up < 40 else [0.97],
                     "proto_cap": (4 if up > 20 else 16) if ctx.quick else (40 if up > 20 else 160)})
    return jobs


def falsifier(ctx, jobs):
    known = {f["id"]: f for f in common.known_active(PID)}
    res = P.pool_map(measure, jobs)
    distinct = set()
    for r in res:
        job = r["job"]
        ctx.count("evaluations")
        if "skipped" in r:
            ctx.count("configs_skipped")
            continue
        ref = job["phases"][0]
        if ref in r["phase"]:
            distinct.add(("+".join(s["kind"] + s["L"] for s in r["phase"][ref]["plan"]), r["phase"][ref]["engine"], r.get("proto") is not None))
            ctx.hist("dist_engine", r["phase"][ref]["engine"])
            ctx.hist("dist_stages", "+".join(s["kind"] for s in r["phase"][ref]["plan"]) or "none")
            ctx.hist("dist_measured_by", "prototype+tones" if r.get("proto") else "tones")
        bad = evaluate(ctx, r)
        reported = set()
        for who, kind, text in bad:
            hits = []
            for p in who:
                if p in r["phase"] and float(r["phase"][p]["q"]["phase"]) != 50:
                    hits += [k for k in cr.classify_known(r["phase"][p]["plan"], job["cfg"]) if k in known]
                elif kind == "crash" and p != 50 and p in r.get("plans", {}):
                    hits += [k for k in cr.classify_known(r["plans"][p], job["cfg"]) if k in known]
            if not hits and kind == "rejection" and "F-PH1" in known and fph1(r, who[0]):
                hits = ["F-PH1"]
            if hits:
                ctx.count("known_finding_hits")
                ctx.known(hits[0], "%s [e.g. %s phase %s: %s]" % (known[hits[0]]["what"], P.label(job["cfg"]), "/".join("%g" % x for x in who), text))
                continue
            if (who, kind) in reported:
                continue
            reported.add((who, kind))
            viol(ctx, "C14 fails on the real code: %s (%s, phase %s)" % (text, P.label(job["cfg"]), "/".join("%g" % x for x in who)),
                          {"cfg": job["cfg"], "phases": job["phases"], "who": list(who), "kind": kind, "what": text,
                           "plan": {str(p): r["phase"][p]["plan"] for p in who if p in r["phase"]}, "tones": job["tones"], "proto_cap": job["proto_cap"]},
                          no_input=(kind == "machinery"))
        if not bad:
            pm = r.get("proto")
            pbt = pb_tol(r["phase"][ref]["q"])
            for p in job["phases"][1:]:
                for s0, s1 in zip(r["phase"][ref]["sine"], r["phase"][p]["sine"]):
                    db = abs(20 * math.log10(max(s1["amp"], 1e-300) / max(s0["amp"], 1e-300)))
                    ctx.cov["worst_tone_gain_dev_over_tolerance"] = max(ctx.cov.get("worst_tone_gain_dev_over_tolerance", 0), round(db / pbt, 4))
            if pm:
                ctx.cov["worst_pb_dev_over_tolerance"] = max(ctx.cov.get("worst_pb_dev_over_tolerance", 0), round(max(d["pb_db"] for d in pm["per"].values()) / pbt, 4))
            ctx.sample({"cfg": P.label(job["cfg"]), "phases": job["phases"],
                        "worst_tone_gain_dev_db": max([abs(20 * math.log10(max(s1["amp"], 1e-300) / max(s0["amp"], 1e-300)))
                                                       for p in job["phases"][1:] for s0, s1 in zip(r["phase"][ref]["sine"], r["phase"][p]["sine"])] or [0]),
                        "pb_dev_db": max([d["pb_db"] for d in pm["per"].values()]) if pm else None,
                        "mirror": pm["mirror"] if pm else None, "sym50": pm["sym50"] if pm else None})
    ctx.cov["distinct_nontrivial"] = ctx.cov.get("distinct_nontrivial", 0) + len(distinct)
    return res


def former_f1_witness(ctx):
    """HQ, 1 -> 128, phase_response = 0: the configuration of finding F1 (repaired in /repo by trailing zeros after the phase
    transform).  Its plan must be the one theorem f1_historical_misaligned computes with the code as it is, and it goes through
    the same numeric oracles as every other configuration (falsifier job below)."""
    c = P.mkcfg(1.0, 128.0, 4, 0, 1, phase=0)
    info, _ = P.run(c)
    post = [s for s in info["stages"] if s["kind"] == "dft"][-1]
    got = (post["L"], post["numTaps"], post["postPeak"], post["dftLen"], post["blockLen"])
    ctx.cov["former_f1_witness"] = {"post_stage": dict(zip(("L", "numTaps", "postPeak", "dftLen", "blockLen"), got)),
                                    "plan_matches_theorem": got == (32, 385, 293, 2048, 1664),
                                    "block_aligned": post["blockLen"] % post["L"] == 0}
    if post["blockLen"] % post["L"]:
        viol(ctx, "the former F1 witness (HQ 1->128 phase_response=0) has a block-misaligned post stage again: L=%d block_len=%d" % (post["L"], post["blockLen"]),
             {"cfg": c, "plan": P.plan_strs(info)})
    return {"cfg": P.mkcfg(1.0, 128.0, 4, 0, 1), "phases": [50, 0, 100, 25, 75], "tones": [0.11, 0.47, 0.93],
            "proto_cap": 4 if ctx.quick else 40}


def run(ctx):
    has_exe = "soxr_phase" in open(os.path.join(common.LEAN, "lakefile.toml")).read()
    broken = common.proof_stage(ctx, ["SoxrModel.Properties.C14", "SoxrModel.Phase.Main"], "C14", exes=("soxr_phase",) if has_exe else (), gens=("Phase",))
    P.harness()
    if getattr(ctx, "replay", None):
        rep = json.load(open(ctx.replay)).get("replay", {})
        if "cfg" in rep and "phases" in rep:
            falsifier(ctx, [{"cfg": rep["cfg"], "phases": rep["phases"], "tones": rep.get("tones", [0.11, 0.47, 0.93]), "proto_cap": rep.get("proto_cap", 16)}])
            return
    model_ok = not any("lake build failed" in b for b in broken)
    if model_ok:
        correspondence(ctx)
        plan_sweep(ctx)
    jobs = [former_f1_witness(ctx)] + make_jobs(ctx)
    falsifier(ctx, jobs)
    ctx.cov["rule"] = ("(1) generated (filter, phase n/d, peak) cases through the real lsx_fir_to_phase with index-valued markers behind its last FFT, "
                       "generated (L, M, Fn, phase, band edges, attenuation) through the real dft_stage_init: len / post_len / source index of "
                       "every tap / num_taps as designed / padded dft_length / post_peak / preload / at / block_len / input_size / FDomainOK equal to the Lean model; "
                       "(2) every dft stage of a sweep of exported plans satisfies post_peak = L*preload + at, at < L, dft_length >= 32 L for power-of-two L, linear => centred, "
                       "at = 0, and EVERY phase L | block_len for power-of-two L (Lean definitions evaluated by the driver; a misaligned stage is a violation), "
                       "(3) measurement (the former F1 witness HQ 1->128 phase 0 included): |H_p| vs |H_50| <= %.2f dB over the pass-band (0.35 dB for the medium roll-off recipes, whose plan depends on the phase), stop-band peak <= max(configured "
                       "precision + 1 dB, linear + 3 dB), equal output length, p vs 100-p mirror images about an axis within one input period "
                       "(16 eps of the engine + 2^(1-bits)), linear phase symmetric about the input instant, tone gain / fit residual against linear phase" % PB_TOL_DB)
    ctx.assume("the cepstral transform (FFT, atan2, log, exp) is opaque to the model: it enters the theorems as an arbitrary array `work`, "
               "peak position and the two rounded window lengths; that it leaves |H| unchanged is measured, not proved",
               "pass-band tolerance 0.01 dB: the tightest pass-band promise of soxr.h (the transform's own truncation costs up to ~0.0025 dB at "
               "minimum phase, measured); time-domain tolerances (16 eps of the engine's arithmetic (2^-22 float, 2^-50 double) + 2^(1-bits) of the configured precision) times the response peak times the number of stages",
               "the exported plan is read from the private structs of the library built from the working tree (harness includes soxr.c)",
               "the mirror axis may sit up to one input period off the input instant (the F-domain path ignores `at`; alignment is promised for linear phase only)",
               "the Lean driver is the compiled lean_exe soxr_phase (rebuilt by the proof stage of every run); interpreted (`lean --run`) only if lakefile.toml does not declare it")
    ctx.assume(*cr.CR_ASSUME[:1])
    if broken and not ctx.violations:
        cr.report_broken(ctx, broken, "C14 falsifier on %d configurations found no failing input" % len(jobs))
    elif broken:
        for b in broken:
            ctx.notes.append("proof obligation no longer checks: " + b)
