"""C01 - pass-band fidelity.

  proof stage   Lean: SoxrModel/Properties/C01.lean (tone response of an (L,M)-covariant linear system; the error of every
                finite sum of in-band tones over the WHOLE stream is decided by L numbers per frequency) + axiom audit
  measurement   the premises of `Soxr.C01.PassBand` evaluated on the REAL code (float64, never counted as proof):
                rows of one implementation period by impulses at all M_P input phases, c_r(w) on a dense grid;
                |mean_r c_r| inside the roll-off class, max_r |c_r - G| <= 2^(1-bits) over the pass-band
  exploration   sine fits end to end for what rows cannot reach (irrational ratios, rounding noise under a full-scale
                tone, engines, channels, integer / float32 formats against the double run)
  cases         one member of every (plan class, knob) pair of the covering pool (checks/_signal.py cover)
  verdict       a frequency where an inequality fails is the failing tone: it is re-run end to end and reported.
"""
import math
import numpy as np
from vlib import common
from checks import _signal as S

LEVEL = "proof"
COVER_RULE = 'covering set (checks/_signal.py cover): a seeded pool of candidate configurations - %s - is planned by the REAL library; every candidate is labelled with its plan class (per stage: half-band / dft stage with F-domain or time-domain rate change, decimation grid aligned to block_len or not / poly-phase order) and its knob; one member of EVERY (plan class, knob) pair is measured, cheapest implementation periods first, members rotating with the seed; the run reports a violation when a required planner path or engine (REQUIRED_CLASSES, REQUIRED_ORDERS, cr32 / cr32s / cr64 / cr64s) is not hit. '


def lim1(bits):
    return 2.0 ** (1 - bits)


def confirm_pass_tone(c, w, ch=1):
    """End-to-end replay of one in-band tone (w rad / input frame): fit residual peak, gain."""
    return S.tone_job(c, w / math.pi, amp=1.0, phase0=0.3, nfit=20000, kind="pass")


def evaluate_rows(ctx, res, worst):
    """Apply the C01 inequalities to the measured rows of one configuration; returns number of inequality evaluations."""
    pm = res["pass"]
    bits = res["bits"]
    lim = lim1(bits)
    n_eval = pm["nbins"] * res["LP"]
    m_res = pm["res"] / lim
    m_gain = abs(pm["gain_db"]) / res["class_db"]
    fl = res.get("flags", {})
    kr = "residual/2^(1-bits)" + (" [F-PH1 signature]" if fl.get("F-PH1") else "")
    kg = "gain_error/class" + (" [F-SG1 signature]" if fl.get("F-SG1") else "")
    worst[kr] = max(worst.get(kr, 0), m_res)
    worst[kg] = max(worst.get(kg, 0), m_gain)
    key = "gain_db_class_" + S.ROLL_NAME[res["rolloff"]] + (" [F-SG1 signature]" if fl.get("F-SG1") else "")
    worst[key] = max(worst.get(key, 0), abs(pm["gain_db"]))
    if res["rolloff"] == 2 and res["linear"]:
        worst["none_flatness(linear phase)/2^(1-bits)"] = max(worst.get("none_flatness(linear phase)/2^(1-bits)", 0),
                                                               abs(pm["gain_db"]) / S.none_flat_db(bits))
    ctx.hist("grid_points_per_sidelobe_period", int(pm["nfft"] // res["W"]))
    if pm["nfft"] < 16 * res["W"]:
        ctx.violation("frequency grid of %s thinner than 16 points per side-lobe period" % res["label"],
                      {"config": res["cfg"], "nfft": pm["nfft"], "row_length": res["W"]}, no_input=True)
    fid = S.known_excess(res, "res", m_res, level=pm["res"])
    if fid:
        ctx.known(fid, S.known_text(fid, res, "tone at %.6f x input Nyquist leaves max_r|c_r - G| = %.3g = %.2f x 2^(1-bits)"
                                    % (pm["res_w"] / math.pi, pm["res"], m_res)))
    elif m_res > 1:
        t = confirm_pass_tone(res["cfg"], pm["res_w"])
        ok = t.get("resid", 0) > lim
        ctx.violation("C01 residual: %s: tone at %.6f x input Nyquist leaves max_r|c_r - G| = %.3g = %.2f x 2^(1-bits) "
                      "(row %d of the period); end to end the same tone gives a fit residual of %.3g (bound %.3g)"
                      % (res["label"], pm["res_w"] / math.pi, pm["res"], m_res, pm["res_r"], t.get("resid", float("nan")), lim),
                      {"config": res["cfg"], "plan": res["plan"], "engine": res["engine"], "frequency_x_input_nyquist": pm["res_w"] / math.pi,
                       "measured_rows_level": pm["res"], "measured_end_to_end_residual": t.get("resid"), "bound": lim,
                       "replay": "harness/signal/run.c " + " ".join(S.cfg_args(res["cfg"])) + "  < sine of that frequency, amplitude 1.0 (float64)"},
                      no_input=not ok)
    fid = S.known_excess(res, "gain", m_gain) if pm["gain_db"] < 0 and pm["gain_w"] >= 0.8 * pm["wp"] else None
    if fid:
        ctx.known(fid, S.known_text(fid, res, "pass-band gain %.5f dB at %.6f x input Nyquist (pass-band end %.6f), class %s <= %.3g dB"
                                    % (pm["gain_db"], pm["gain_w"] / math.pi, pm["wp"] / math.pi, S.ROLL_NAME[res["rolloff"]], res["class_db"])))
    elif m_gain > 1:
        t = confirm_pass_tone(res["cfg"], pm["gain_w"])
        ok = abs(t.get("gain_db", 0)) > res["class_db"]
        ctx.violation("C01 gain: %s: pass-band gain %.5f dB at %.6f x input Nyquist is outside the roll-off class %s (<= %.3g dB); "
                      "end to end: %.5f dB" % (res["label"], pm["gain_db"], pm["gain_w"] / math.pi, S.ROLL_NAME[res["rolloff"]],
                                               res["class_db"], t.get("gain_db", float("nan"))),
                      {"config": res["cfg"], "plan": res["plan"], "engine": res["engine"], "frequency_x_input_nyquist": pm["gain_w"] / math.pi,
                       "measured_gain_db": pm["gain_db"], "measured_end_to_end_gain_db": t.get("gain_db"), "bound_db": res["class_db"],
                       "replay": "harness/signal/run.c " + " ".join(S.cfg_args(res["cfg"])) + "  < sine of that frequency, amplitude 1.0 (float64)"},
                      no_input=not ok)
    return n_eval


def tone_bounds(t, c):
    """Bounds for one sine fit (double I/O): residual 2^(1-bits) of full scale, gain inside the class, and - linear
    phase only - time alignment within C04's clock allowance plus what the residual bound means for a phase."""
    lim = lim1(t["bits"])
    ratio = float(c["ir"]) / float(c["orr"])
    f = t["f_in"]
    dt_allow = t["k_mid"] * 2.0 ** -32 * max(1.0, ratio) * 2 + lim / (math.pi * f * 0.95) if f > 0 else float("inf")
    return lim, t["class_db"], dt_allow


def run(ctx):
    broken = common.proof_stage(ctx, ["SoxrModel.Properties.C01", "SoxrModel.Properties.C01Engine"], ["C01", "C01Engine"], exes=("soxrmodel",), gens=())
    S.harness()
    S.set_active("C01")
    rng = ctx.rng
    quick = ctx.quick

    # ---------------- rows of the real resampler: the measured hypotheses of Soxr.C01.PassBand
    # covering set: one member of every (plan class, knob) pair the REAL planner produces on a seeded pool (ratio x recipe x engine x
    # knob: phase_response 0/25/75/100 by field or recipe flag, stopband_begin < 1 and > 1, passband_end, roll-off class, fractional
    # precision), cheap implementation periods preferred, members rotating with the seed; plus the fixed core (tightest margins)
    sel, st = S.cover(rng, S.KNOBS_SPECTRAL, S.COVER_RATIOS, per_ratio=2 if quick else 6, members=3, max_period=64 if quick else 400)
    ctx.cov["covering_pool"] = st
    members = [[c] for c in S.QUICK_CORE] + [e["members"] for e in sel]
    cap = 700 if quick else 2000
    if not quick:
        members += [[c] for c in S.all_rational() + S.pick_rational(rng, 300)]
    results = S.pool_map(S.job_rows_first, [(m, cap, 3e6 if quick else 8e6) for m in members])
    worst, n_eval, measured, sigs = {}, 0, 0, set()
    classes_hit, engines_hit, knobs_hit = set(), set(), {}
    f1_seen = []
    for e, r in zip([None] * len(S.QUICK_CORE) + sel, results[:len(S.QUICK_CORE) + len(sel)]):
        if e is not None and "pass" in r:
            knobs_hit[e["knob"]] = knobs_hit.get(e["knob"], 0) + 1
    ctx.cov["row_configurations_per_knob"] = knobs_hit
    for r in results:
        if "error" in r:
            ctx.violation("measurement crashed on %s: %s" % (r["label"], r["error"][-600:]), {"config": r["cfg"], "traceback": r["error"]}, no_input=not S.lib_failed(r["error"]))
            continue
        if "skipped" in r:
            ctx.hist("skipped", r["skipped"].split(":")[0][:60])
            if r.get("f1"):
                f1_seen.append(r)
            continue
        measured += 1
        sigs.add((r["engine"], r["plan"], r["rolloff"], r["bits"]))
        classes_hit.add(r["pclass"])
        engines_hit.add(r["engine"])
        ctx.hist("rows_plan_class", r["pclass"])
        ctx.hist("engine", r["engine"])
        ctx.hist("implementation_period_ne_reduced", int((r["LP"], r["MP"]) != (r["L"], r["M"])))
        n_eval += evaluate_rows(ctx, r, worst)
        ctx.sample({"config": r["label"], "engine": r["engine"], "plan": r["plan"], "L_P": r["LP"], "M_P": r["MP"], "bits": r["bits"],
                    "row_taps": r["W"], "n_fft": r["pass"]["nfft"], "passband_bins": r["pass"]["nbins"],
                    "residual_over_bound": round(r["pass"]["res"] / lim1(r["bits"]), 4), "gain_db": round(r["pass"]["gain_db"], 6),
                    "class_db": r["class_db"]})
    ctx.count("row_configurations_measured", measured)
    ctx.count("row_inequality_evaluations", n_eval)
    # ---------------- the two models of the same plan agree on its period.  Properties/C01Engine (tone_step_one_run,
    # tone_error_first_period) proves for the ENGINE MODEL - FIFOs, block schedules, any call sequence, kernels arbitrary functions of
    # (stage, phase tags, window) - that one period of d_out output frames beyond the horizon decides the error of a tone over a stream
    # of any length; d_out is `planShift` of the exported plan, evaluated by the compiled driver.  Because a dft stage's kernel is
    # arbitrary there, d_out contains the period of its BLOCK schedule; that the block transform is a shift-invariant convolution
    # (overlap-save) is what reduces d_out to the L_P rows measured here (Signal.implPeriod of the stage rates) and is covered by
    # measurement (C12's bit-exact shift runs, the rows themselves).  Demanded here: L_P divides d_out, at the same rate.
    period_tie(ctx, [r for r in results if "LP" in r])

    # ---------------- sine-fit exploration, end to end
    n_fit = 60 if quick else 2000
    jobs = []
    for c in S.pick_any(rng, n_fit):
        kw = dict(kind="pass", amp=0.95, phase0=rng.uniform(0, 6.28), nfit=8000 if quick else 12000)
        kw["_frac"] = rng.uniform(0.02, 0.999)          # fraction of the pass-band
        if rng.below(6) == 0:
            kw["ch"], kw["chan"] = 2, rng.below(2)
        jobs.append((c, kw))
    # every interpolated / irrational planner path x knob, two tones each: a random one and one in the last 3 % of the pass-band
    sel_f, st_f = S.cover(rng, ["base", "ph*", "band*", "roll", "prec", "gain"], S.COVER_IRRATIONAL + S.RATIOS_ARB, per_ratio=2 if quick else 6, members=1,
                          max_period=1 << 30, rtflags=(None, None, 2, 3))
    ctx.cov["covering_pool_fits"] = st_f
    for e in sel_f:
        c = e["members"][0]
        for frac in (rng.uniform(0.02, 0.97), rng.uniform(0.97, 0.9995)):
            jobs.append((c, dict(kind="pass", amp=0.95, phase0=rng.uniform(0, 6.28), nfit=8000 if quick else 12000, _frac=frac)))
    fits = S.pool_map(job_fit, jobs)
    n_fits = 0
    for t in fits:
        if "error" in t:
            ctx.violation("sine fit crashed on %s: %s" % (t["label"], t["error"][-600:]), {"config": t["cfg"], "traceback": t["error"]}, no_input=not S.lib_failed(t["error"]))
            continue
        if "skipped" in t:
            ctx.hist("fit_skipped", t["skipped"][:50])
            if t.get("f1"):
                f1_seen.append(t)
            continue
        n_fits += 1
        lim, cls, dt_allow = tone_bounds(t, t["cfg"])
        fl = t.get("flags", {})
        kr = "fit_residual/2^(1-bits)" + (" [F-PH1 signature]" if fl.get("F-PH1") else "")
        kg = "fit_gain_error/class" + (" [F-SG1 signature]" if fl.get("F-SG1") else "")
        worst[kr] = max(worst.get(kr, 0), t["resid"] / lim)
        worst[kg] = max(worst.get(kg, 0), abs(t["gain_db"]) / cls)
        ctx.hist("fit_engine", t["engine"])
        ctx.hist("fit_plan_class", t["pclass"])
        classes_hit.add(t["pclass"])
        engines_hit.add(t["engine"])
        sigs.add((t["engine"], t["plan"], t["rolloff"], t["bits"]))
        rep = {"config": t["cfg"], "plan": t["plan"], "engine": t["engine"], "frequency_x_input_nyquist": t["f_in"], "amplitude": 0.95,
               "fit_window_output_frames": t["n_fit"], "horizon_output_frames": t["horizon"],
               "replay": "harness/signal/run.c " + " ".join(S.cfg_args(t["cfg"])) + "  < sine of that frequency, amplitude 0.95 (float64)"}
        fid = S.known_excess(t, "res", t["resid"] / lim, level=t["resid"])
        if fid:
            ctx.known(fid, S.known_text(fid, t, "tone at %.6f x input Nyquist: fit residual %.3g = %.2f x 2^(1-bits)" % (t["f_in"], t["resid"], t["resid"] / lim)))
        elif t["resid"] > lim:
            ctx.violation("C01 residual (sine fit): %s: tone at %.6f x input Nyquist: residual peak %.3g > 2^(1-bits) = %.3g"
                          % (t["label"], t["f_in"], t["resid"], lim), dict(rep, measured_level=t["resid"], bound=lim))
        fid = S.known_excess(t, "gain", abs(t["gain_db"]) / cls) if t["gain_db"] < 0 else None
        if fid:
            ctx.known(fid, S.known_text(fid, t, "tone at %.6f x input Nyquist: gain %.5f dB, class <= %.3g dB" % (t["f_in"], t["gain_db"], cls)))
        elif abs(t["gain_db"]) > cls:
            ctx.violation("C01 gain (sine fit): %s: tone at %.6f x input Nyquist: gain %.5f dB outside the class (<= %.3g dB)"
                          % (t["label"], t["f_in"], t["gain_db"], cls), dict(rep, measured_gain_db=t["gain_db"], bound_db=cls))
        if abs(t["phase"] - 50) < 1e-9:
            worst["fit_time_misalignment/allowance"] = max(worst.get("fit_time_misalignment/allowance", 0), abs(t["dt_in"]) / dt_allow)
            if abs(t["dt_in"]) > dt_allow:
                ctx.violation("C01 alignment (sine fit, linear phase): %s: tone at %.6f x input Nyquist comes out %.3g input frames "
                              "off the same continuous-time signal (allowance %.3g)" % (t["label"], t["f_in"], t["dt_in"], dt_allow),
                              dict(rep, measured_time_offset_input_frames=t["dt_in"], bound=dt_allow))
    ctx.count("sine_fits", n_fits)

    # ---------------- I/O formats against the double run (each format's own resolution added)
    pairs = [(3, 3), (2, 2), (0, 0), (3, 1), (1, 2), (0, 3), (2, 0), (3, 2), (2, 3), (1, 3)]
    fmt_cfgs = S.pick_any(rng, 8 if quick else 120) + [sel_f[rng.below(len(sel_f))]["members"][0] for _ in range(16 if quick else 200)]
    fmt = S.pool_map(job_format, [(c, it, ot, rng.below(1 << 30)) for c in fmt_cfgs
                                  for (it, ot) in [pairs[rng.below(len(pairs))] for _ in range(3)]][: (72 if quick else 900)])
    n_fmt = 0
    for t in fmt:
        if "error" in t:
            ctx.violation("format job crashed on %s: %s" % (t["label"], t["error"][-600:]), {"config": t["cfg"], "traceback": t["error"]}, no_input=not S.lib_failed(t["error"]))
            continue
        if "skipped" in t:
            continue
        n_fmt += 1
        if t["bound"] > 0:
            worst["format_diff/resolution"] = max(worst.get("format_diff/resolution", 0), t["diff"] / t["bound"])
        else:
            worst["format_diff_when_exact_expected"] = max(worst.get("format_diff_when_exact_expected", 0), t["diff"])
        ctx.hist("format_pair", "%d->%d" % (t["itype"], t["otype"]))
        ctx.hist("format_layout", "split=%s ch=%s" % (t.get("split"), t.get("ch")))
        if t["diff"] > t["bound"]:
            ctx.violation("C01 formats: %s itype=%d otype=%d split=%s ch=%s: output differs from the float64 run of the same samples by %.3g of full scale "
                          "(bound: the output format's own resolution %.3g)" % (t["label"], t["itype"], t["otype"], t.get("split"), t.get("ch"), t["diff"], t["bound"]),
                          {"config": t["cfg"], "itype": t["itype"], "otype": t["otype"], "split": t.get("split"), "channels": t.get("ch"), "signal_seed": t["seed"], "measured_level": t["diff"], "bound": t["bound"]})
    ctx.count("format_differentials", n_fmt)

    # ---------------- planner paths hit; known finding F1 probed on members the pool produced
    miss = S.missing_classes(classes_hit, S.REQUIRED_CLASSES + S.REQUIRED_ORDERS) + ["engine " + e for e in S.REQUIRED_ENGINES if e not in engines_hit]
    ctx.cov["plan_classes_hit"] = len(classes_hit)
    ctx.cov["required_classes_missing"] = miss
    for name in miss:
        ctx.violation("coverage: no measured configuration of this run went through the planner path `%s` (the covering pool no longer produces it)"
                      % name, {"missing_class": name, "classes_hit": sorted(classes_hit)}, no_input=True)
    S.report_f1(ctx, f1_seen, S.probe_f1, "C01")

    ctx.cov["worst_margins"] = {k: round(v, 5) for k, v in sorted(worst.items())}
    ctx.cov["worst_margins_note"] = "ratios measured/bound (< 1 holds); gain_db_class_* are the largest |gain error| in dB per roll-off class"
    ctx.count("evaluations", measured + n_fits + n_fmt)
    ctx.cov["distinct_nontrivial"] = len(sigs)
    ctx.cov["rule"] = ("rows: fixed core of 6 rational configurations (tightest margins of the pinned tree) plus the " + COVER_RULE % (
                       "coprime ratios a:b up to 12, halving chains, large up-sampling and audio rates x 14 recipes (LQ..32-bit, LSR presets, steep) x engine "
                       "(SIMD / portable, SOXR_DOUBLE_PRECISION) x knob in {recipe as is, phase_response 0 / 25 / 75 / 100 by field or recipe flag, "
                       "stopband_begin < 1, stopband_begin in (1, 1.09) and in (1.09, 1.14), passband_end, roll-off class, fractional precision 15..33}") +
                       "fits: the same covering over irrational / interpolated ratios (interpolation orders 0-3 auto and forced), two tones per member "
                       "(random and in the last 3 % of the pass-band), plus seeded random configurations (hi-prec clock, channels). Thorough: the whole "
                       "product of the old ratio pools as well. distinct_nontrivial = distinct (engine, exported stage plan, roll-off class, precision) "
                       "tuples actually measured; every measured case has a non-empty plan and a non-zero response.")
    ctx.assume(
        "MEASUREMENT, not proof: the spectral inequalities (|mean_r c_r| inside the roll-off class, max_r |c_r - G| <= 2^(1-bits)) are float64 "
        "evaluations on rows obtained from the real code for SAMPLED configurations; nothing proves that the Kaiser designs of filter.c meet them",
        "behaviour between grid frequencies is covered by grid density only (>= 16 points per side-lobe period of every row, plus the exact band edge)",
        "the real kernels are assumed linear and (L_P, M_P)-shift covariant beyond the start-up horizon (C12 proves it for the model and measures "
        "it on the code); rows are assembled from impulses at different stream positions under that assumption",
        "irrational ratios, rounding noise, engines, channels and non-float64 formats are explored by sampled sine fits / differentials only; "
        "the fit carries a first-order frequency term (C04's clock allowance) and starts after the start-up horizon",
        "roll-off class `none` has no figure in soxr.h or the property: it is bounded by the next class (<= 0.01 dB); its flatness in units of "
        "2^(1-bits) is recorded under worst_margins but is no verdict; the internal LSR2Q class is read as `medium`",
        "F1 (non-linear phase + power-of-two-L dft stage with L not dividing block_len) is repaired in /repo (279ce1a) and listed as fixed: no configuration is "
        "set aside, non-linear phase with L = 8 .. 256 post stages is measured like everything else (the set-aside / child-process probe path of "
        "checks/_signal.py only returns if an F1 entry is listed as known again)",
        "F-SG2 and F-SG4 are repaired in /repo (3133031, cd8ddc4; listed as fixed): they suppress nothing",
        "an explicit stopband_begin > 1 admits aliasing / imaging above 2 - stopband_begin: the pass-band the property speaks about is read as "
        "[0, min(passband_end, 2 - stopband_begin)] (for up-sampling _soxr_init enforces passband_end <= 2 - stopband_begin itself); the generator "
        "keeps passband_end below it",
        "known findings of the pinned tree (known_findings.d/signal.json: F-PH1, F-SG1, F-SG5) are recognised by a configuration/plan signature "
        "AND a symptom bound; their margins are listed separately under worst_margins ([... signature])",
    )
    if broken and not ctx.violations:
        ctx.violation("Lean obligations of C01 no longer check: " + "; ".join(broken)[:1500],
                      {"broken": broken, "falsifier": "measurement found no failing tone on this run"}, no_input=True)


def period_tie(ctx, rows):
    from checks import crcommon as cr, c12_engine
    exe = common.build_harness("crtrace", ["cr/trace.c"], "rel")

    def work(r):
        c = r["cfg"]
        cfg = {"ir": repr(float(c["ir"])), "or": repr(float(c["orr"])), "recipe": c["recipe"], "qflags": c["qflags"]}
        for k in ("prec", "phase", "pb", "sb", "rtflags", "kb", "min", "large"):
            if c.get(k) is not None:
                cfg[k] = c[k]
        env = {} if c.get("simd") is None else {"SOXR_USE_SIMD": str(c["simd"])}
        tr = cr.run_trace(exe, [cr.create_line(cfg)], env, timeout=120)
        if not tr.created or not tr.plan:
            return r, cfg, env, "no-plan", None
        per, err = c12_engine.period_of(tr)
        return r, cfg, env, per, err
    for r, cfg, env, per, err in cr.pmap(work, rows):
        ctx.count("period_ties_checked")
        if per == "no-plan":
            ctx.count("period_tie_no_plan"); continue
        if per == "error":
            ctx.violation("the model driver did not answer cr.period for a measured configuration: %s (%s)" % (err, r["label"]), {"cfg": cfg, "env": env}, no_input=True)
            continue
        if per is None:
            ctx.count("period_tie_engine_period_beyond_search_bound"); continue
        d, dout, hor = per
        q = dout // r["LP"] if r["LP"] and dout % r["LP"] == 0 else -1
        ctx.hist("engine_period_over_measured_period", "not nested" if q < 0 else "1" if q == 1 else "<=100" if q <= 100 else "<=10^4" if q <= 10 ** 4 else ">10^4")
        if dout % r["LP"] or d * r["LP"] != r["MP"] * dout:
            ctx.violation("the period C01 measures (L_P = %d output rows per M_P = %d input frames, Signal.implPeriod of the plan's stage rates) and the "
                          "period of the engine model (planShift of the exported plan: %d output frames per %d input frames, horizon %d) do not nest at "
                          "the same rate: the two models of the same plan disagree (%s)"
                          % (r["LP"], r["MP"], dout, d, hor, r["label"]), {"cfg": cfg, "env": env, "measured": [r["LP"], r["MP"]], "engine": list(per)}, no_input=True)


def job_fit(args):
    """Pass-band sine fit: the tone frequency is a fraction of the configuration's own pass-band."""
    c, kw = args
    try:
        info, _ = S.run(c)
        if "error" in info:
            return {"cfg": c, "label": S.cfg_label(c), "skipped": "create failed: " + info["error"]}
        kw = dict(kw)
        frac = kw.pop("_frac")
        nyq_low = min(1.0, float(c["orr"]) / float(c["ir"]))
        kw["f_in"] = frac * info["q"]["pb"] * nyq_low
        return S.job_tone((c, kw))
    except Exception:
        import traceback
        return {"cfg": c, "label": S.cfg_label(c), "error": traceback.format_exc()[-1500:]}


def job_format(args):
    """Same exactly representable samples through (itype, otype) and through float64 I/O: the outputs may differ by the
    output format's own resolution only (integer formats: rounding + TPDF dither; float32: its mantissa)."""
    c, it, ot, seed = args
    c = {k: v for k, v in c.items() if k != "scale"}        # the format clause is about the conversions, not the gain (C12 crosses gains with datatype pairs)
    try:
        info, _ = S.run(c)
        if "error" in info or not info.get("engine", "").startswith("cr") or S.bits_of(info) < 15 or S.f1_known(info):
            return {"cfg": c, "label": S.cfg_label(c), "skipped": "n/a"}
        rg = np.random.default_rng(seed)
        ratio = float(c["ir"]) / float(c["orr"])
        N = int(min(400000, max(6000, 6000 * ratio)))
        nyq_low = min(1.0, 1.0 / ratio)
        n = np.arange(N)
        x = np.zeros(N)
        for _ in range(4):
            x += rg.uniform(0.05, 0.2) * np.sin(math.pi * rg.uniform(0.02, 0.95) * info["q"]["pb"] * nyq_low * n + rg.uniform(0, 6.28))
        fs_in = {0: 1.0, 1: 1.0, 2: 2147483648.0, 3: 32768.0}
        if it in (2, 3):
            xi = np.round(x * fs_in[it]).astype(S.DTYPES[it])
            xd = xi.astype(np.float64) / fs_in[it]
        elif it == 0:
            xi = x.astype(np.float32)
            xd = xi.astype(np.float64)
        else:
            xi = xd = x
        # the typed run goes through a layout drawn from the seed: interleaved or one buffer per channel on either side, one or two
        # channels (both carrying the same samples); the reference is the mono float64 interleaved run
        split, ch = seed & 3, 1 + ((seed >> 2) & 1)
        xi_ch = xi if ch == 1 else np.repeat(xi, ch)
        _, ya = S.run(c, xi_ch, itype=it, otype=ot, split=split, ch=ch)
        _, yb = S.run(c, xd, itype=1, otype=1)
        if len(ya) != len(yb) * ch:
            return {"cfg": c, "label": S.cfg_label(c), "itype": it, "otype": ot, "seed": seed, "diff": float("inf"), "bound": 0.0, "split": split, "ch": ch}
        ya = ya.astype(np.float64) / fs_in[ot]
        diff = max(float(np.abs(ya[k::ch] - yb).max()) for k in range(ch)) if len(yb) else 0.0
        # both runs feed the engine the same values up to an exact power-of-two factor, so only the output conversion differs:
        # integer rounding (0.5 LSB) + TPDF dither (31/32 LSB) for int16, 0.5 LSB for int32, the mantissa for float32
        bound = S.out_resolution(ot)
        return {"cfg": c, "label": S.cfg_label(c), "itype": it, "otype": ot, "seed": seed, "diff": diff, "bound": bound, "split": split, "ch": ch,
                "pclass": S.plan_class(info), "gain_eff": fs_in[ot] / fs_in[it], "plan": S.plan_signature(info), "engine": info["engine"], "bits": S.bits_of(info)}
    except Exception:
        import traceback
        return {"cfg": c, "label": S.cfg_label(c), "error": traceback.format_exc()[-1500:]}
