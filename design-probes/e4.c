#include <stdio.h>
#include <stdlib.h>
#include <string.h>
#include "soxr.h"
int main(int argc,char**argv){
  double ir=atof(argv[1]),orr=atof(argv[2]); unsigned long recipe=strtoul(argv[3],0,0); size_t N=atol(argv[4]);
  soxr_error_t err; soxr_quality_spec_t q=soxr_quality_spec(recipe,0);
  soxr_t s=soxr_create(ir,orr,1,&err,0,&q,0);
  if(!s){printf("create: %s\n",err);return 0;}
  float*in=calloc(N,4); float*out=malloc(4*1000); size_t id,od,tot=0;
  err=soxr_process(s,in,N,&id,out,1000,&od); tot+=od;
  printf("id=%zu od=%zu err=%s\n",id,od,err?err:"none"); fflush(stdout);
  do { err=soxr_process(s,0,0,0,out,1000,&od); tot+=od;} while(od);
  printf("tot=%zu\n",tot);
  soxr_delete(s);free(in);free(out);return 0;}
