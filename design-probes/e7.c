#include <stdio.h>
#include <stdlib.h>
#include <string.h>
#include "soxr.h"
static int calls=0, fail_at=3, eof_at=-1; static float buf[4096]; static size_t maxreq=0, supplied=0;
static size_t infn(void*st, soxr_in_t*data, size_t req){ calls++; if(req>maxreq)maxreq=req;
  if(calls==fail_at){*data=0; return 0;} if(calls==eof_at){*data=buf; return 0;}
  if(calls>fail_at && fail_at>0) fprintf(stderr,"called after failure (call %d, req %zu)\n",calls,req);
  if(eof_at>0&&calls>eof_at) fprintf(stderr,"called after EOF (call %d)\n",calls);
  *data=buf; size_t n=req>100?100:req; supplied+=n; return n; }
int main(int argc,char**argv){ fail_at=atoi(argv[1]); eof_at=atoi(argv[2]); size_t maxi=atol(argv[3]);
  soxr_error_t err; soxr_t s=soxr_create(1,2,1,&err,0,0,0); soxr_set_input_fn(s,infn,0,maxi);
  float out[5000]; size_t tot=0; for(int k=0;k<5;k++){ size_t od=soxr_output(s,out,5000); tot+=od; printf("call %d: od=%zu calls=%d err=%s\n",k,od,calls,soxr_error(s)?soxr_error(s):"none"); }
  printf("tot=%zu supplied=%zu maxreq=%zu\n",tot,supplied,maxreq); soxr_delete(s); return 0; }
