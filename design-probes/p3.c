#include "soxr.c"
#include <stdio.h>
struct rate; void _soxr_verif_plan(struct rate * p, FILE * f); void _soxr_verif_state(struct rate * p, FILE * f);
static unsigned long long rs=88172645463325252ULL; static unsigned long long rnd(void){rs^=rs<<13;rs^=rs>>7;rs^=rs<<17;return rs;}
static double buf[70000]; static long remaining; static int mode, failat, calls;
static size_t infn(void*st, soxr_in_t*data, size_t req){ calls++; size_t n;
  if(failat>0 && calls==failat){ *data=0; printf("FN req=%zu ret=FAIL\n",req); return 0; }
  if(remaining<=0){ *data=buf; printf("FN req=%zu ret=EOF\n",req); return 0; }
  n = mode==0? req : mode==1? 1 : 1+rnd()%req; if(n>req)n=req; if((long)n>remaining)n=remaining; if(n>70000)n=70000; remaining-=n; *data=buf; printf("FN req=%zu ret=%zu\n",req,n); return n; }
int main(int argc,char**argv){ double ir=atof(argv[1]),orr=atof(argv[2]); unsigned long rec=strtoul(argv[3],0,0); rs+=atoll(argv[4]); remaining=atol(argv[5]); mode=atoi(argv[6]); failat=atoi(argv[7]); size_t maxilen=atol(argv[8]);
  soxr_quality_spec_t q=soxr_quality_spec(rec,0); soxr_io_spec_t io=soxr_io_spec(SOXR_FLOAT64_I,SOXR_FLOAT64_I); soxr_error_t e; soxr_t s=soxr_create(ir,orr,1,&e,&io,&q,0); if(!s){printf("ERR %s\n",e);return 0;}
  printf("CFG ir=%s or=%s rec=%lu phase=%g flags=0 engine=%s maxilen=%zu\n",argv[1],argv[2],rec,q.phase_response,soxr_engine(s),maxilen); _soxr_verif_plan((struct rate*)s->resamplers[0],stdout);
  soxr_set_input_fn(s,infn,0,maxilen); size_t maxc=2+rnd()%(rnd()%2?80:9000); double*out=malloc(8*(maxc+1)); int zeros=0;
  for(int g=0;g<100000;g++){ size_t ol=rnd()%maxc; printf("PULL ol=%zu\n",ol); size_t od=soxr_output(s,out,ol); printf("RET od=%zu err=%d\n",od,soxr_error(s)?1:0); _soxr_verif_state((struct rate*)s->resamplers[0],stdout);
    if(od==0&&ol>0){ if(++zeros>2)break; } }
  soxr_delete(s); return 0; }
