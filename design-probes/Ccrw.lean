/-! Prototype: Courtois et al. problem 2 (writers' preference) as used by `ccrw2.h`,
    counter abstraction (threads are anonymous: the state counts how many threads sit at each
    program point), any number of threads.  Semaphores are 0/1 naturals (1 = held). -/
namespace Ccrw

structure St where
  -- semaphores (1 = taken)
  m1 : Nat
  m2 : Nat
  m3 : Nat
  w  : Nat
  r  : Nat
  readcount : Nat
  writecount : Nat
  gw : Nat      -- ghost: reader group holds w
  gr : Nat      -- ghost: writer group holds r
  -- reader entry: r1 = wants m3 … r8 = about to V(m3)
  idle : Nat
  r1 : Nat   -- P(m3)
  r2 : Nat   -- P(r)
  r3 : Nat   -- P(m1)
  r4 : Nat   -- ++readcount
  r5 : Nat   -- P(w)   (first reader)
  r6 : Nat   -- V(m1)
  r7 : Nat   -- V(r)
  r8 : Nat   -- V(m3)
  rd : Nat   -- reading
  x1 : Nat   -- P(m1)
  x2 : Nat   -- --readcount
  x3 : Nat   -- V(w)   (last reader)
  x4 : Nat   -- V(m1)
  w1 : Nat   -- P(m2)
  w2 : Nat   -- ++writecount
  w3 : Nat   -- P(r)   (first writer)
  w4 : Nat   -- V(m2)
  w5 : Nat   -- P(w)
  wr : Nat   -- writing
  y1 : Nat   -- V(w)
  y2 : Nat   -- P(m2)
  y3 : Nat   -- --writecount
  y4 : Nat   -- V(r)   (last writer)
  y5 : Nat   -- V(m2)

/-- one atomic step of some thread -/
inductive Step : St → St → Prop
  | start_read  (s) : 0 < s.idle → Step s { s with idle := s.idle - 1, r1 := s.r1 + 1 }
  | start_write (s) : 0 < s.idle → Step s { s with idle := s.idle - 1, w1 := s.w1 + 1 }
  | r1 (s) : 0 < s.r1 → s.m3 = 0 → Step s { s with r1 := s.r1 - 1, r2 := s.r2 + 1, m3 := 1 }
  | r2 (s) : 0 < s.r2 → s.r = 0 → Step s { s with r2 := s.r2 - 1, r3 := s.r3 + 1, r := 1 }
  | r3 (s) : 0 < s.r3 → s.m1 = 0 → Step s { s with r3 := s.r3 - 1, r4 := s.r4 + 1, m1 := 1 }
  | r4_first (s) : 0 < s.r4 → s.readcount = 0 → Step s { s with r4 := s.r4 - 1, r5 := s.r5 + 1, readcount := 1 }
  | r4_more  (s) : 0 < s.r4 → 0 < s.readcount → Step s { s with r4 := s.r4 - 1, r6 := s.r6 + 1, readcount := s.readcount + 1 }
  | r5 (s) : 0 < s.r5 → s.w = 0 → Step s { s with r5 := s.r5 - 1, r6 := s.r6 + 1, w := 1, gw := 1 }
  | r6 (s) : 0 < s.r6 → Step s { s with r6 := s.r6 - 1, r7 := s.r7 + 1, m1 := 0 }
  | r7 (s) : 0 < s.r7 → Step s { s with r7 := s.r7 - 1, r8 := s.r8 + 1, r := 0 }
  | r8 (s) : 0 < s.r8 → Step s { s with r8 := s.r8 - 1, rd := s.rd + 1, m3 := 0 }
  | stop_read (s) : 0 < s.rd → Step s { s with rd := s.rd - 1, x1 := s.x1 + 1 }
  | x1 (s) : 0 < s.x1 → s.m1 = 0 → Step s { s with x1 := s.x1 - 1, x2 := s.x2 + 1, m1 := 1 }
  | x2_last (s) : 0 < s.x2 → s.readcount = 1 → Step s { s with x2 := s.x2 - 1, x3 := s.x3 + 1, readcount := 0 }
  | x2_more (s) : 0 < s.x2 → 1 < s.readcount → Step s { s with x2 := s.x2 - 1, x4 := s.x4 + 1, readcount := s.readcount - 1 }
  | x3 (s) : 0 < s.x3 → Step s { s with x3 := s.x3 - 1, x4 := s.x4 + 1, w := 0, gw := 0 }
  | x4 (s) : 0 < s.x4 → Step s { s with x4 := s.x4 - 1, idle := s.idle + 1, m1 := 0 }
  | w1 (s) : 0 < s.w1 → s.m2 = 0 → Step s { s with w1 := s.w1 - 1, w2 := s.w2 + 1, m2 := 1 }
  | w2_first (s) : 0 < s.w2 → s.writecount = 0 → Step s { s with w2 := s.w2 - 1, w3 := s.w3 + 1, writecount := 1 }
  | w2_more  (s) : 0 < s.w2 → 0 < s.writecount → Step s { s with w2 := s.w2 - 1, w4 := s.w4 + 1, writecount := s.writecount + 1 }
  | w3 (s) : 0 < s.w3 → s.r = 0 → Step s { s with w3 := s.w3 - 1, w4 := s.w4 + 1, r := 1, gr := 1 }
  | w4 (s) : 0 < s.w4 → Step s { s with w4 := s.w4 - 1, w5 := s.w5 + 1, m2 := 0 }
  | w5 (s) : 0 < s.w5 → s.w = 0 → Step s { s with w5 := s.w5 - 1, wr := s.wr + 1, w := 1 }
  | stop_write (s) : 0 < s.wr → Step s { s with wr := s.wr - 1, y1 := s.y1 + 1 }
  | y1 (s) : 0 < s.y1 → Step s { s with y1 := s.y1 - 1, y2 := s.y2 + 1, w := 0 }
  | y2 (s) : 0 < s.y2 → s.m2 = 0 → Step s { s with y2 := s.y2 - 1, y3 := s.y3 + 1, m2 := 1 }
  | y3_last (s) : 0 < s.y3 → s.writecount = 1 → Step s { s with y3 := s.y3 - 1, y4 := s.y4 + 1, writecount := 0 }
  | y3_more (s) : 0 < s.y3 → 1 < s.writecount → Step s { s with y3 := s.y3 - 1, y5 := s.y5 + 1, writecount := s.writecount - 1 }
  | y4 (s) : 0 < s.y4 → Step s { s with y4 := s.y4 - 1, y5 := s.y5 + 1, r := 0, gr := 0 }
  | y5 (s) : 0 < s.y5 → Step s { s with y5 := s.y5 - 1, idle := s.idle + 1, m2 := 0 }

/-- inductive invariant (all linear) -/
structure Inv (s : St) : Prop where
  m1_def : s.m1 = s.r4 + s.r5 + s.r6 + s.x2 + s.x3 + s.x4
  m1_le : s.m1 ≤ 1
  rc_def : s.readcount = s.r5 + s.r6 + s.r7 + s.r8 + s.rd + s.x1 + s.x2
  w_def : s.w = s.wr + s.y1 + s.gw
  w_le : s.w ≤ 1
  gw_le : s.gw ≤ 1
  gw_on : s.gw = 1 → (0 < s.readcount ∧ s.r5 = 0) ∨ s.x3 = 1
  gw_off : s.gw = 0 → (s.readcount = 0 ∨ s.r5 = 1) ∧ s.x3 = 0
  r5_rc : 0 < s.r5 → s.readcount = 1
  x3_rc : 0 < s.x3 → s.readcount = 0

def init (n : Nat) : St :=
  { m1 := 0, m2 := 0, m3 := 0, w := 0, r := 0, readcount := 0, writecount := 0, gw := 0, gr := 0, idle := n,
    r1 := 0, r2 := 0, r3 := 0, r4 := 0, r5 := 0, r6 := 0, r7 := 0, r8 := 0, rd := 0, x1 := 0, x2 := 0, x3 := 0, x4 := 0,
    w1 := 0, w2 := 0, w3 := 0, w4 := 0, w5 := 0, wr := 0, y1 := 0, y2 := 0, y3 := 0, y4 := 0, y5 := 0 }

theorem inv_init (n : Nat) : Inv (init n) := by
  constructor <;> simp [init]

theorem inv_step (s t : St) (h : Inv s) (st : Step s t) : Inv t := by
  obtain ⟨h1, h2, h3, h4, h5, h6, h7, h8, h9, h10⟩ := h
  cases st <;> constructor <;> simp only <;> first | omega | simp

/-- mutual exclusion: a writer in its critical section excludes readers and other writers -/
theorem exclusion (s : St) (h : Inv s) : s.wr ≤ 1 ∧ (0 < s.wr → s.rd = 0) := by
  obtain ⟨h1, h2, h3, h4, h5, h6, h7, h8, h9, h10⟩ := h
  constructor
  · omega
  · intro hw
    -- wr ≥ 1 ⇒ gw = 0 ⇒ readcount = 0 ∨ r5 = 1; rd ≤ readcount; r5 = 1 ⇒ readcount = 1 = r5 + … ⇒ rd = 0
    omega
end Ccrw

#print axioms Ccrw.inv_step
#print axioms Ccrw.exclusion
