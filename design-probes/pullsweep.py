import subprocess, random, sys, cmpull
random.seed(int(sys.argv[1])); bad=0; tot=0; fn=0; after_fail=0
rates=[1,2,3,5,7,8,44100,48000,96000,3.14159,16,1.0001]
for t in range(int(sys.argv[2])):
    ir=random.choice(rates); orr=random.choice(rates)
    if ir/orr>200 or orr/ir>64: continue
    rec=random.choice([0,1,3,4,6]); N=random.choice([0,5,300,5000,40000]); mode=random.randrange(3); failat=random.choice([0,0,0,1,2,5,9,16,29,40]); maxi=random.choice([0,1,7,64,1000,100000])
    f='pt_%s.txt'%sys.argv[1]
    with open(f,'w') as o:
        try: subprocess.run(['./p3',str(ir),str(orr),str(rec),str(random.randrange(1<<30)),str(N),str(mode),str(failat),str(maxi)],stdout=o,timeout=20)
        except subprocess.TimeoutExpired:
            print("TIMEOUT",ir,orr,rec,N,mode,failat,maxi); continue
    b,p,c=cmpull.run(f); tot+=p; fn+=c
    if b: bad+=1; print("BAD",ir,orr,rec,N,mode,failat,maxi)
print("seed",sys.argv[1],"pulls",tot,"fncalls",fn,"bad",bad)
