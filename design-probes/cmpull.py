import sys, math, cm
SIZE_MAX=(1<<64)-1
def run(fn):
    lines=open(fn).read().split('\n'); cfg=cm.kv(lines[0]); plan=cm.kv(lines[1]); k=int(plan['nstages']); stages=[cm.kv(l) for l in lines[2:2+k]]; i=2+k
    e=cm.Eng(plan,stages); flushing=False; error=False; max_ilen=int(cfg['maxilen']) or SIZE_MAX; bad=0; pulls=0; fncalls=0
    while i<len(lines) and lines[i].startswith('PULL'):
        len0=int(cm.kv(lines[i])['ol']); i+=1; pulls+=1
        ilen=min(max_ilen,math.ceil(len0*e.io_ratio)); odone0=0; olen=len0
        if not error:
            while True:
                if flushing: e.flush()
                e.process(olen); odone=e.out(olen); odone0+=odone
                if odone0==len0 or flushing: break
                olen-=odone
                # expect FN line
                l=lines[i]
                if not l.startswith('FN'): print("MODEL expects FN call, real has",l); bad+=1; break
                d=cm.kv(l); i+=1; fncalls+=1
                if int(d['req'])!=ilen: print("REQ mismatch",d['req'],ilen); bad+=1
                was=flushing
                if d['ret']=='FAIL': error=True; idone=0
                elif d['ret']=='EOF':
                    idone=0
                    if not error: flushing=True
                else:
                    idone=int(d['ret'])
                    if not error: e.inp(idone)
                if not (odone or idone or ((not was) and flushing)): break
        l=lines[i]
        if not l.startswith('RET'): print("MODEL expects RET, real has",l,"(extra FN calls)"); bad+=1
        while not lines[i].startswith('RET'): i+=1
        d=cm.kv(lines[i]); 
        if int(d['od'])!=odone0 or int(d['err'])!=int(error): print("RET mismatch",lines[i],odone0,error); bad+=1
        st=cm.kv(lines[i+1]); got="%d %d %s"%(e.sin,e.sout,','.join(map(str,e.occ))+','); ref="%s %s %s"%(st['in'],st['out'],st['occ'])
        if got!=ref: print("STATE mismatch",got,ref); bad+=1
        i+=2
        if bad>3: break
    return bad,pulls,fncalls
if __name__=='__main__':
    print(run(sys.argv[1]))
