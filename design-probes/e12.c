#include <stdio.h>
#include <stdlib.h>
#include <string.h>
#include <math.h>
#include "soxr.h"
/* VR: e12 maxratio ratio N mode(0 sine,1 ramp) [ratio2 slew] */
int main(int argc,char**argv){ double mx=atof(argv[1]), r=atof(argv[2]); size_t N=atol(argv[3]); int mode=atoi(argv[4]); double r2=argc>5?atof(argv[5]):0; size_t slew=argc>6?atol(argv[6]):0;
  soxr_error_t err; soxr_quality_spec_t q=soxr_quality_spec(SOXR_HQ,SOXR_VR);
  soxr_t s=soxr_create(mx,1,1,&err,0,&q,0); if(!s){printf("create: %s\n",err);return 1;}
  soxr_set_io_ratio(s,r,0);
  float*in=malloc(4*N); double f=0.2*(r>1?1/r:1); for(size_t i=0;i<N;i++) in[i]= mode? (float)(i*(1.0/1048576)) : (float)(0.5*sin(2*M_PI*f*0.5*i+0.3));
  size_t cap=(size_t)(N/(r2&&r2<r?r2:r)*1.2+1000); float*out=malloc(4*cap); size_t tot=0,pos=0,id,od; int fl=0; size_t blk=1000; int switched=0; size_t sw_at=0;
  while(1){ if(r2 && !switched && pos>=N/2){ soxr_set_io_ratio(s,r2,slew); switched=1; sw_at=tot; }
    size_t il=N-pos<blk?N-pos:blk; if(pos<N){ err=soxr_process(s,in+pos,il,&id,out+tot,slew&&switched?slew:blk,&od); pos+=id;} else {err=soxr_process(s,0,0,0,out+tot,blk,&od);fl=1;}
    if(err){printf("err %s\n",err);break;} tot+=od; if(fl&&!od)break; if(tot+blk+slew>cap){printf("cap\n");break;} }
  printf("N=%zu tot=%zu N/r=%.2f diff=%.2f sw_at=%zu\n",N,tot,N/r,tot-N/r,sw_at);
  if(mode==0 && !r2){ double fo=f*0.5*r; size_t a0=tot/4,a1=tot*3/4; double ss=0,cc=0,sc=0,ys=0,yc=0; for(size_t k=a0;k<a1;k++){double t=2*M_PI*fo*k; double sn=sin(t),cs=cos(t); ss+=sn*sn;cc+=cs*cs;sc+=sn*cs;ys+=out[k]*sn;yc+=out[k]*cs;} double det=ss*cc-sc*sc,A=(ys*cc-yc*sc)/det,B=(yc*ss-ys*sc)/det,res=0; for(size_t k=a0;k<a1;k++){double t=2*M_PI*fo*k; double e=out[k]-A*sin(t)-B*cos(t);res+=e*e;} res=sqrt(res/(a1-a0)); double amp=sqrt(A*A+B*B); printf("amp=%.5f resid=%.1f dB\n",amp,20*log10(res/amp)); }
  if(mode==1){ /* print instantaneous ratio around switch */ double prev=0; int nonmono=0; double dmin=1e9,dmax=-1e9; for(size_t k=sw_at>50?sw_at-50:1;k<sw_at+slew+200&&k+1<tot;k++){ double d=(out[k+1]-out[k])*1048576; if(k%((slew+250)/25+1)==0)printf("%zu:%.4f ",k,d); } printf("\n"); }
  soxr_delete(s); free(in);free(out); return 0; }
