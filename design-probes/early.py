import cm, sys, math
from fractions import Fraction
def plans(fn):
    cfg=None
    for line in open(fn):
        if line.startswith('CFG'):
            if cfg: yield cfg,plan,stages
            cfg=cm.kv(line); stages=[]
        elif line.startswith('PLAN'): plan=cm.kv(line)
        elif line.startswith(' S'): stages.append(cm.kv(line))
    if cfg: yield cfg,plan,stages
bad=0; n=0; tight=0
for cfg,plan,stages in plans(sys.argv[1]):
    if any(s['kind']=='unknown' for s in stages): continue
    ph=float(cfg['phase'])
    ratio=Fraction(cfg['ir'])/Fraction(cfg['or'])
    # skip F1/F3 classes
    skip=False
    for s in stages:
        if s['kind']=='dft':
            L=int(s['L']); bl=int(s['block_len'])
            if cm.ispow2(L) and bl%L: skip=True
        if s['kind']=='cubic' and int(s['pre_post'])>=int(s['input_size']): skip=True
    if skip: continue
    n+=1
    for N in list(range(0,60))+[100,257,1000,4097,8192,8193,20000,50001]:
        e=cm.Eng(plan,stages); e.inp(N); e.process(10**9); d=e.out(10**9)
        lim=math.ceil(Fraction(N)/ratio)
        if d>lim:
            bad+=1
            if bad<10: print("EARLY",cfg,N,d,lim)
        if d==lim and N>0: tight+=1
        # drain
        e.flush(); tot=d
        for _ in range(100000):
            e.process(4096); o=e.out(4096); tot+=o
            if o==0: break
        owed=int(N/float(plan['io_ratio'])+.5)
        if tot!=owed:
            bad+=1
            if bad<10: print("TOTAL",cfg,N,tot,owed)
print("plans",n,"bad",bad,"tight cases",tight)
