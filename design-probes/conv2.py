import ctypes, numpy as np, random
from fractions import Fraction
def rhe(x):
    f=x.numerator//x.denominator; r=x-f
    if r<Fraction(1,2): return f
    if r>Fraction(1,2): return f+1
    return f if f%2==0 else f+1
lib=ctypes.CDLL('/tmp/exp/libsoxr_exp.so')
random.seed(2); bad=0; tot=0
def pats(n):
    v=[]
    sp=[0.0,-0.0,1.0,-1.0,0.99996948,0.9999695,0.99998474,1.00001,-1.00001,-0.99998474,-1.0000153,0.5,1/65536.,1.5/32768,2.5/32768,-1.5/32768,-2.5/32768,0.5/32768,-0.5/32768,3e38,-3e38,float('inf'),float('-inf'),float('nan'),1e-45]
    while len(v)<n:
        c=random.random()
        if c<0.3: v.append(random.choice(sp))
        elif c<0.6: v.append(random.uniform(-1.01,1.01))
        elif c<0.8: v.append((random.randrange(-32770,32770)+random.choice([0,0.5,-0.5,0.25,0.4999,0.5001]))/32768.0)
        else: v.append(np.frombuffer(np.uint32(random.getrandbits(32)).tobytes(),dtype=np.float32)[0])
    return np.array(v,dtype=np.float32)
a=pats(200000)
# float -> short
out=np.zeros(len(a),dtype=np.int16); lib.src_float_to_short_array(ctypes.c_void_p(a.ctypes.data),ctypes.c_void_p(out.ctypes.data),ctypes.c_int(len(a)))
for x,o in zip(a,out):
    tot+=1; xf=float(x)
    if xf!=xf: exp=-32768
    elif xf in (float('inf'),): exp=32767
    elif xf==float('-inf'): exp=-32768
    else:
        d=Fraction(xf)*32768
        exp=32767 if d>32767 else -32768 if d<-32768 else rhe(d)
        if exp>32767: exp=32767
    if int(o)!=exp:
        bad+=1
        if bad<8: print("f2s",repr(xf),int(o),exp)
outi=np.zeros(len(a),dtype=np.int32); lib.src_float_to_int_array(ctypes.c_void_p(a.ctypes.data),ctypes.c_void_p(outi.ctypes.data),ctypes.c_int(len(a)))
N=2147483648
for x,o in zip(a,outi):
    tot+=1; xf=float(x)
    if xf!=xf: exp=-N
    elif xf==float('inf'): exp=N-1
    elif xf==float('-inf'): exp=-N
    else:
        d=Fraction(xf)*N
        exp=N-1 if d>=N-1 else -N if d<-N else rhe(d)
    if int(o)!=exp:
        bad+=1
        if bad<8: print("f2i",repr(xf),int(o),exp)
# short -> float -> short roundtrip exhaustive
s=np.arange(-32768,32768,dtype=np.int16); f=np.zeros(len(s),dtype=np.float32); lib.src_short_to_float_array(ctypes.c_void_p(s.ctypes.data),ctypes.c_void_p(f.ctypes.data),ctypes.c_int(len(s)))
assert all(float(fv)==int(sv)/32768.0 for sv,fv in zip(s,f))
back=np.zeros(len(s),dtype=np.int16); lib.src_float_to_short_array(ctypes.c_void_p(f.ctypes.data),ctypes.c_void_p(back.ctypes.data),ctypes.c_int(len(s))); 
print("roundtrip short exact:",bool((back==s).all()))
print("samples",tot,"bad",bad)
