import os, numpy as np, random, math
from spec1 import lib, resample
random.seed(5)
worst=0
cfgs=[(44100,48000),(48000,44100),(2,1),(1,2),(3,2),(5,1),(1,5),(8,1),(1,8),(96000,44100),(7,3),(3.14159,1),(1,3.14159),(16,1),(1,16),(1.0001,1),(65537,44100)]
for (ir,orr) in cfgs:
  for rec in (0,1,2,3,4,5,6,7):
    q=lib.soxr_quality_spec(rec,0); bits=q.precision
    if bits==0: continue
    lim=2.0**(1-bits)
    N=30000; t=np.arange(N); nyq=min(1.0,orr/ir); fp=q.passband_end*nyq*0.9
    x=sum(random.uniform(0.05,0.18)*np.sin(math.pi*random.uniform(0.02,fp)*t+random.uniform(0,6.28)) for _ in range(5))
    os.environ.pop('SOXR_USE_SIMD',None); r1=resample(x,ir,orr,q)
    os.environ['SOXR_USE_SIMD']='0'; r0=resample(x,ir,orr,q); os.environ.pop('SOXR_USE_SIMD')
    if len(r0)!=len(r1): print("LEN",ir,orr,rec); continue
    m=len(r0); a,b=int(m*0.3),int(m*0.7); e=np.abs(r0[a:b]-r1[a:b]).max()/lim; worst=max(worst,e)
    if e>0.5: print("ENG steady",ir,orr,rec,"%.3g"%e)
print("worst steady-state engine diff / lim =",worst)
