#define _GNU_SOURCE
#include <stdio.h>
#include <stdlib.h>
#include <string.h>
#include <math.h>
#include <pthread.h>
#include "soxr.h"
/* deterministic scheduler: managed threads run one at a time; control is handed over only at yield points */
typedef struct {int held, inited, id;} soxr_verif_lock_t;
#define MAXT 4
static pthread_mutex_t mu=PTHREAD_MUTEX_INITIALIZER; static pthread_cond_t cv=PTHREAD_COND_INITIALIZER;
static int current=-1, nthreads=0, finished[MAXT], waiting_on[MAXT]; static __thread int me=-1; static soxr_verif_lock_t *blocked_lock[MAXT];
static const char *schedule; static size_t sched_pos=0; static int violations=0; static int managed=0;
static int runnable(int t){ return !finished[t] && !(blocked_lock[t] && blocked_lock[t]->held); }
static int pick(void){ /* next thread per schedule string; digits = thread ids; when exhausted or not runnable: lowest runnable */
  while(schedule[sched_pos]){ int t=schedule[sched_pos++]-'0'; if(t>=0&&t<nthreads&&runnable(t)) return t; }
  for(int t=0;t<nthreads;t++) if(runnable(t)) return t; return -1; }
static void handover(void){ int t=pick(); current=t; pthread_cond_broadcast(&cv); }
static void wait_turn(void){ while(current!=me) pthread_cond_wait(&cv,&mu); }
void soxr_verif_yield(char const*tag){ if(!managed||me<0) return; pthread_mutex_lock(&mu); printf("EV t%d yield %s\n",me,tag); handover(); wait_turn(); pthread_mutex_unlock(&mu); }
void soxr_verif_init_lock(soxr_verif_lock_t*l,char const*n){ if(managed&&me>=0){ pthread_mutex_lock(&mu); printf("EV t%d init %s%s%s\n",me,n,l->inited?" AGAIN":"",l->held?" WHILE-HELD":""); if(l->inited||l->held)violations++; pthread_mutex_unlock(&mu);} l->held=0; l->inited=1; }
void soxr_verif_destroy_lock(soxr_verif_lock_t*l,char const*n){ l->inited=0; (void)n; }
void soxr_verif_set_lock(soxr_verif_lock_t*l,char const*n){ if(!managed||me<0){ l->held=1; return; } pthread_mutex_lock(&mu);
  for(;;){ blocked_lock[me]=l; printf("EV t%d want %s\n",me,n); handover(); wait_turn(); if(!l->held){ l->held=1; blocked_lock[me]=0; printf("EV t%d got %s\n",me,n); break; } }
  pthread_mutex_unlock(&mu); }
void soxr_verif_unset_lock(soxr_verif_lock_t*l,char const*n){ if(managed&&me>=0){ pthread_mutex_lock(&mu); printf("EV t%d release %s%s\n",me,n,l->held?"":" NOT-HELD"); if(!l->held)violations++; l->held=0; pthread_mutex_unlock(&mu);} else l->held=0; }
static float in[2000]; static float ref[MAXT][8000]; static size_t refn[MAXT]; static double ratio[MAXT]={0.5,0.25,2,3}; static int wrong[MAXT];
static void job(int k,float*out,size_t*on){ soxr_quality_spec_t q=soxr_quality_spec(SOXR_HQ,0); size_t id; soxr_oneshot(1,ratio[k],1,in,2000,&id,out,8000,on,0,&q,0); }
static void* th(void*a){ me=(int)(size_t)a; pthread_mutex_lock(&mu); wait_turn(); pthread_mutex_unlock(&mu); static float out[MAXT][8000]; size_t on; job(me,out[me],&on); if(on!=refn[me]||memcmp(out[me],ref[me],4*on)) wrong[me]=1;
  pthread_mutex_lock(&mu); finished[me]=1; printf("EV t%d done\n",me); handover(); pthread_mutex_unlock(&mu); return 0; }
int main(int argc,char**argv){ schedule=argv[1]; nthreads=atoi(argv[2]); for(int i=0;i<2000;i++)in[i]=sinf(i*0.03f);
  /* references come from a file written by a serial run (argv[3]=="ref" writes it) */
  if(argc>3&&!strcmp(argv[3],"ref")){ for(int k=0;k<nthreads;k++)job(k,ref[k],&refn[k]); FILE*f=fopen("sched.ref","wb"); fwrite(refn,sizeof refn,1,f); fwrite(ref,sizeof ref,1,f); fclose(f); return 0; }
  { FILE*f=fopen("sched.ref","rb"); fread(refn,sizeof refn,1,f); fread(ref,sizeof ref,1,f); fclose(f); }
  managed=1; pthread_t t[MAXT]; for(int k=0;k<nthreads;k++)pthread_create(&t[k],0,th,(void*)(size_t)k);
  pthread_mutex_lock(&mu); handover(); pthread_mutex_unlock(&mu);
  for(int k=0;k<nthreads;k++)pthread_join(t[k],0); managed=0;
  int w=0; for(int k=0;k<nthreads;k++)w+=wrong[k]; printf("RESULT protocol-violations=%d wrong-outputs=%d\n",violations,w); return 0; }
