#include <stdio.h>
#include <stdlib.h>
#include <string.h>
#include <math.h>
#include <pthread.h>
#include <unistd.h>
#include <sys/wait.h>
#include "soxr.h"
#define N 3000
static float in[N]; static float ref[2][4*N]; static size_t refn[2];
static double ratios[2]={2.0,1.0/3};
static void job(int k,float*out,size_t*on){ soxr_quality_spec_t q=soxr_quality_spec(SOXR_HQ,0); size_t id; soxr_error_t e=soxr_oneshot(ratios[k],1,1,in,N,&id,out,4*N,on,0,&q,0); if(e){printf("err %s\n",e);} }
static pthread_barrier_t bar;
static void* th(void*a){ int k=(int)(size_t)a; static float o[2][4*N]; size_t on; pthread_barrier_wait(&bar); job(k,o[k],&on); if(on!=refn[k]||memcmp(o[k],ref[k],4*on)) return (void*)1; return 0; }
int main(int argc,char**argv){ int trials=atoi(argv[1]); for(int i=0;i<N;i++)in[i]=sinf(i*0.03f);
  /* reference computed in a child to keep parent cache uninitialised */
  int pfd[2]; pipe(pfd); if(!fork()){ for(int k=0;k<2;k++){job(k,ref[k],&refn[k]);} write(pfd[1],refn,sizeof refn); write(pfd[1],ref,sizeof ref); _exit(0);} read(pfd[0],refn,sizeof refn); size_t got=0; while(got<sizeof ref){ ssize_t r=read(pfd[0],(char*)ref+got,sizeof ref-got); if(r<=0)break; got+=r;} wait(0);
  int bad=0,crash=0; for(int t=0;t<trials;t++){ pid_t p=fork(); if(!p){ pthread_t a,b; pthread_barrier_init(&bar,0,2); pthread_create(&a,0,th,(void*)0); pthread_create(&b,0,th,(void*)1); void*ra,*rb; pthread_join(a,&ra); pthread_join(b,&rb); _exit((ra||rb)?1:0);} int st; waitpid(p,&st,0); if(WIFSIGNALED(st))crash++; else if(WEXITSTATUS(st))bad++; }
  printf("trials=%d wrong=%d crashed=%d\n",trials,bad,crash); return 0; }
