import numpy as np, math, sys
from spec1 import *
def analyse2(ir,orr,recipe,flags=0):
    q=lib.soxr_quality_spec(recipe,flags); h,j0,L,M=prototype(ir,orr,q); n=len(h)
    # choose nfft multiple of L so that (w+2pi m)/L land on grid: fine grid index = (i + m*nfft/L... ) use nfft = L*K
    K=1<<int(math.ceil(math.log2(n*16/L))); nfft=L*K
    H=np.fft.fft(h,nfft); mag=np.abs(H)/L   # index g <-> theta=2pi g/nfft ; omega = theta*L -> omega index i=g mod K?  theta=(omega+2pi m)/L -> g = i + m*K  where omega=2pi i/K
    nyq_low=min(1.0,float(L)/M)  # in units of input nyquist (omega=pi)
    Fp=q.passband_end*nyq_low
    imax=int(Fp*K/2)  # omega=2pi i/K <= pi*Fp
    worst=0; worstmain=0
    for i in range(0,imax+1, max(1,imax//2000)):
        g=i+K*np.arange(L); terms=mag[g]; main=terms[0]; images=terms[1:].sum()
        # negative-frequency component of real tone handled symmetric
        worst=max(worst,images); worstmain=max(worstmain,abs(main-1))
    bits=q.precision
    print("ir=%g or=%g rec=%d L=%d M=%d: max over passband of sum of images = %.1f dB ; limit %.1f dB ; main dev %.3g"%(ir,orr,recipe,L,M,20*np.log10(worst+1e-300),20*np.log10(2.0**(1-bits)),worstmain))
for a in [(44100,48000,4),(48000,44100,4),(44100,48000,6),(1,2,4),(2,1,4),(44100,48000,1),(5,4,6)]: analyse2(*a)
