namespace Half

structure Cfg where
  n : Nat
  isz : Nat

variable {α : Type}

/-- window of output `j` in the (preloaded) history -/
def window (c : Cfg) (hist : List α) (j : Nat) : List α := (hist.drop (2*j + 1)).take (4*c.n - 1)

/-- canonical k-th output -/
def canon (c : Cfg) (K : List α → α) (hist : List α) (j : Nat) : α := K (window c hist j)

structure St (α : Type) where
  fifo : List α
  outs : List α     -- everything ever produced
  consumed : Nat    -- ghost

def numOut (c : Cfg) (occ : Nat) : Nat := (min (occ - 4*c.n) c.isz + 1) / 2

def step (c : Cfg) (K : List α → α) (s : St α) : St α :=
  let no := numOut c s.fifo.length
  { fifo := s.fifo.drop (2*no)
    outs := s.outs ++ (List.range no).map (fun i => K ((s.fifo.drop (2*i+1)).take (4*c.n - 1)))
    consumed := s.consumed + 2*no }

def feed (s : St α) (xs : List α) : St α := { s with fifo := s.fifo ++ xs }

/-- invariant w.r.t. the history `hist` of everything fed so far (incl. preload) -/
structure Inv (c : Cfg) (K : List α → α) (s : St α) (hist : List α) : Prop where
  fifo_eq : s.fifo = hist.drop s.consumed
  cons_le : s.consumed ≤ hist.length
  even : s.consumed = 2 * s.outs.length
  outs_eq : s.outs = (List.range s.outs.length).map (canon c K hist)
  /-- every window used so far lies inside `hist` (safety) -/
  safe : ∀ j, j < s.outs.length → 2*j + 1 + (4*c.n - 1) ≤ hist.length

theorem window_append (c : Cfg) (hist more : List α) (j : Nat) (h : 2*j + 1 + (4*c.n - 1) ≤ hist.length) :
    window c (hist ++ more) j = window c hist j := by
  unfold window
  rw [List.drop_append_of_le_length (by omega)]
  rw [List.take_append_of_le_length (by simp; omega)]

theorem inv_feed (c : Cfg) (K : List α → α) (s : St α) (hist xs : List α) (h : Inv c K s hist) :
    Inv c K (feed s xs) (hist ++ xs) := by
  refine ⟨?_, ?_, h.even, ?_, ?_⟩
  · simp [feed, h.fifo_eq, List.drop_append_of_le_length h.cons_le]
  · show s.consumed ≤ (hist ++ xs).length
    rw [List.length_append]; have := h.cons_le; omega
  · show s.outs = (List.range s.outs.length).map (canon c K (hist ++ xs))
    have e : (List.range s.outs.length).map (canon c K (hist ++ xs)) = (List.range s.outs.length).map (canon c K hist) := by
      apply List.map_congr_left
      intro j hj
      simp only [List.mem_range] at hj
      unfold canon
      rw [window_append c hist xs j (h.safe j hj)]
    rw [e]; exact h.outs_eq
  · intro j hj
    have := h.safe j hj
    show 2*j + 1 + (4*c.n - 1) ≤ (hist ++ xs).length
    rw [List.length_append]; omega

theorem inv_step (c : Cfg) (K : List α → α) (s : St α) (hist : List α) (hn : 0 < c.n) (h : Inv c K s hist) :
    Inv c K (step c K s) hist := by
  have hlen : s.fifo.length = hist.length - s.consumed := by rw [h.fifo_eq]; simp
  have hno : 2 * numOut c s.fifo.length + 4*c.n ≤ s.fifo.length + 1 ∨ numOut c s.fifo.length = 0 := by
    unfold numOut; omega
  have hno' : 2 * numOut c s.fifo.length ≤ s.fifo.length := by
    unfold numOut; omega
  refine ⟨?_, ?_, ?_, ?_, ?_⟩
  · simp [step, h.fifo_eq, List.drop_drop]
  · simp only [step]; have := h.cons_le; omega
  · simp only [step, List.length_append, List.length_map, List.length_range]; have := h.even; omega
  · simp only [step, List.length_append, List.length_map, List.length_range]
    rw [List.range_add, List.map_append]
    congr 1
    · exact h.outs_eq
    · rw [List.map_map]
      apply List.map_congr_left
      intro i _
      simp only [Function.comp, canon, window, h.fifo_eq, List.drop_drop]
      congr 3
      have := h.even; omega
  · intro j hj
    simp only [step, List.length_append, List.length_map, List.length_range] at hj
    by_cases hj' : j < s.outs.length
    · exact h.safe j hj'
    · have h1 := h.even
      have h2 := h.cons_le
      rcases hno with hno | hno
      · omega
      · omega
end Half
