#include <stdio.h>
#include <stdlib.h>
#include <string.h>
#include <math.h>
#include "soxr.h"
/* usage: e2 irate orate N recipe phase freq_frac(0..1 of lower nyquist) [flags] : sine fit in double I/O */
int main(int argc, char**argv){
  double ir=atof(argv[1]), orr=atof(argv[2]); size_t N=atol(argv[3]); unsigned long recipe=strtoul(argv[4],0,0);
  double phase=atof(argv[5]); double ff=atof(argv[6]); unsigned long flags=argc>7?strtoul(argv[7],0,0):0;
  soxr_quality_spec_t q=soxr_quality_spec(recipe,flags); if(phase>=0) q.phase_response=phase;
  soxr_io_spec_t io=soxr_io_spec(SOXR_FLOAT64_I,SOXR_FLOAT64_I);
  soxr_error_t err; soxr_t s=soxr_create(ir,orr,1,&err,&io,&q,0);
  if(!s){printf("create error: %s\n",err);return 2;}
  double nyq = (ir<orr?ir:orr)/2; double f=ff*nyq; /* Hz */
  double*in=malloc(sizeof(double)*(N+1)); for(size_t i=0;i<N;i++) in[i]=0.5*sin(2*M_PI*f*i/ir+0.3);
  size_t on=(size_t)(N*orr/ir+10); double*out=malloc(sizeof(double)*on); size_t odone,idone;
  err=soxr_process(s,in,~N,&idone,out,on,&odone);
  if(err){printf("err %s\n",err);return 3;}
  /* least-squares fit a*sin+b*cos at freq f over middle half */
  size_t a0=odone/4,a1=odone*3/4; double ss=0,cc=0,sc=0,ys=0,yc=0;
  for(size_t k=a0;k<a1;k++){double t=2*M_PI*f*k/orr; double sn=sin(t),cs=cos(t); ss+=sn*sn;cc+=cs*cs;sc+=sn*cs;ys+=out[k]*sn;yc+=out[k]*cs;}
  double det=ss*cc-sc*sc; double A=(ys*cc-yc*sc)/det,B=(yc*ss-ys*sc)/det; double res=0;
  for(size_t k=a0;k<a1;k++){double t=2*M_PI*f*k/orr; double e=out[k]-A*sin(t)-B*cos(t); res+=e*e;}
  res=sqrt(res/(a1-a0)); double amp=sqrt(A*A+B*B);
  printf("engine=%s odone=%zu amp=%.6f (%.3f dB) phase=%.6f rad (in 0.3) resid_rms=%.3g (%.1f dB re amp)\n",soxr_engine(s),odone,amp,20*log10(amp/0.5),atan2(B,A),res,20*log10(res/amp+1e-300));
  soxr_delete(s); free(in);free(out);return 0;
}
