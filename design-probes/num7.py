import numpy as np, math
from spec1 import lib, resample
def imp(ir,orr,rec,phase,N=4000,pos=None):
    q=lib.soxr_quality_spec(rec,0); q.phase_response=phase; x=np.zeros(N); x[pos or N//2]=1; return resample(x,ir,orr,q),q
for (ir,orr) in ((2,1),(1,2),(3,1),(44100,48000),(4,1),(1,4)):
  for rec in (4,6):
    h50,q=imp(ir,orr,rec,50); lim=2.0**(1-q.precision)
    c=(4000//2)*orr/ir  # centre output index
    for p in (0,25,10):
        hp,_=imp(ir,orr,rec,p); hq,_=imp(ir,orr,rec,100-p)
        # mirror about c: hq[k] ?= hp[2c-k]
        ci=int(round(c)); 
        if abs(c-ci)>1e-9: print("noninteger centre skip"); continue
        K=min(ci,len(hp)-ci-1,len(hq)-ci-1); a=hp[ci-K:ci+K+1]; b=hq[ci-K:ci+K+1][::-1]
        md=np.abs(a-b).max()
        # magnitude response comparison vs linear
        n=1<<16; Hp=np.abs(np.fft.rfft(hp,n)); H50=np.abs(np.fft.rfft(h50,n)); 
        f=np.arange(len(Hp))/len(Hp); pb=f<=q.passband_end*min(1,orr/ir)*(ir/orr if orr>ir else 1)*0+ (f<=0.9*q.passband_end*min(1.0,ir/orr))
        magdiff=np.abs(Hp-H50)[pb].max()/max(H50.max(),1e-30)
        sb=np.abs(Hp)[f>=min(1.0,ir/orr)*1.0].max()/H50.max() if (f>=min(1.0,ir/orr)).any() else 0
        print("ir=%g or=%g rec=%d p=%d: mirror maxdiff=%.3g (lim %.2g) passband |H_p|-|H_50| rel=%.3g stopband max rel=%.1f dB"%(ir,orr,rec,p,md,lim,magdiff,20*np.log10(sb+1e-300)))
