#include <stdio.h>
#include <stdlib.h>
#include <string.h>
#include <math.h>
#include "soxr.h"
static unsigned long long rs=88172645463325252ULL; static unsigned long long rnd(void){rs^=rs<<13;rs^=rs>>7;rs^=rs<<17;return rs;}
int main(int argc,char**argv){ double mx=atof(argv[1]); rs+=atoll(argv[2]); size_t N=atol(argv[3]); int midslew=atoi(argv[4]);
  soxr_quality_spec_t q=soxr_quality_spec(SOXR_HQ,SOXR_VR); soxr_error_t e; soxr_t s=soxr_create(mx,1,1,&e,0,&q,0);
  float*in=malloc(4*20000); for(int i=0;i<20000;i++)in[i]=sinf(i*0.01f); float*out=malloc(4*20000); size_t pos=0; int flushed=0; size_t maxc=2+rnd()%(rnd()%2?100:3000); size_t slew_left=0;
  for(int g=0;g<100000;g++){
    if(rnd()%8==0 && !flushed && (midslew || !slew_left)){ double r=mx*pow(2.0,-(double)(rnd()%6000)/1000.0); size_t slew=rnd()%3? 1+rnd()%4000:0; soxr_set_io_ratio(s,r,slew); slew_left=slew; }
    size_t il=rnd()%maxc, ol=rnd()%maxc; if(il>N-pos)il=N-pos; if(il>20000)il=20000; if(ol>20000)ol=20000; size_t id=0,od=0;
    if(pos<N) soxr_process(s,in,il,&id,out,ol,&od); else { soxr_process(s,0,0,0,out,ol,&od); flushed=1; }
    pos+=id; slew_left = slew_left>od? slew_left-od:0; if(flushed&&od==0&&ol>0)break; }
  soxr_delete(s); free(in);free(out); printf("done\n"); return 0; }
