import Mathlib.Tactic.Ring
import Mathlib.Tactic.Linarith
/-! Prototype: termination of the demand-driven `stage_process` recursion (not flushing),
    count level, abstract stage functions with a liveness and a gain hypothesis. -/
namespace Term

structure Stage where
  isz : Nat
  fn : Nat → Nat × Nat      -- occupancy ↦ (consumed, produced)

abbrev Occ := Nat → Nat

def upd (f : Occ) (i v : Nat) : Occ := fun j => if j = i then v else f j

def runFn (S : Nat → Stage) (i : Nat) (occ : Occ) : Occ :=
  let r := (S i).fn (occ i)
  upd (upd occ i (occ i - r.1)) (i+1) (occ (i+1) + r.2)

def sp (S : Nat → Stage) : Nat → Nat → Occ → Bool → Option (Occ × Bool)
  | 0, _, _, _ => none
  | fuel+1, i, occ, done =>
    if !done && occ i < (S i).isz then
      match i with
      | 0 => sp S fuel 0 occ true
      | j+1 =>
        match sp S fuel j occ false with
        | none => none
        | some (occ', d) => sp S fuel (j+1) occ' d
    else
      let occ' := runFn S i occ
      some (occ', done && occ' i < (S i).isz)

/-- weighted potential (integer valued) of the first `n` FIFOs -/
def phi (W : Nat → Nat) (occ : Occ) : Nat → Int
  | 0 => 0
  | n+1 => phi W occ n + (occ n : Int) * (W n : Int)

structure Hyp (S : Nat → Stage) (W : Nat → Nat) (R : Nat) : Prop where
  cons_le : ∀ i o, ((S i).fn o).1 ≤ o
  live : ∀ i o, (S i).isz ≤ o → 1 ≤ ((S i).fn o).1
  gain : ∀ i o, ((S i).fn o).2 ≤ R * ((S i).fn o).1
  weight : ∀ i, R * W (i+1) + 1 ≤ W i

theorem phi_upd (W : Nat → Nat) (f : Occ) (i v n : Nat) :
    phi W (upd f i v) n = phi W f n + (if i < n then ((v : Int) - (f i : Int)) * (W i : Int) else 0) := by
  induction n with
  | zero => simp [phi]
  | succ n ih =>
    simp only [phi, ih]
    by_cases h1 : i < n
    · have h2 : i < n + 1 := by omega
      have h3 : upd f i v n = f n := by simp [upd]; omega
      simp [h1, h2, h3]; ring
    · by_cases h2 : i = n
      · subst h2
        have h3 : upd f i v i = v := by simp [upd]
        simp [h3]; ring
      · have h3 : ¬ i < n + 1 := by omega
        have h4 : upd f i v n = f n := by simp [upd]; omega
        simp [h1, h3, h4]

/-- running stage `i < n` lowers the potential of the first `n` FIFOs by at least what it consumed -/
theorem phi_runFn (S : Nat → Stage) (W : Nat → Nat) (R : Nat) (H : Hyp S W R) (i : Nat) (occ : Occ) (n : Nat) (hin : i < n) :
    phi W (runFn S i occ) n + (((S i).fn (occ i)).1 : Int) ≤ phi W occ n := by
  unfold runFn
  simp only [phi_upd]
  have hc := H.cons_le i (occ i)
  have hg := H.gain i (occ i)
  have hw := H.weight i
  generalize ((S i).fn (occ i)).1 = c at *
  generalize ((S i).fn (occ i)).2 = p at *
  have e1 : upd occ i (occ i - c) (i+1) = occ (i+1) := by simp [upd]
  rw [e1]
  simp only [hin, if_true]
  have hcast : ((occ i - c : Nat) : Int) = (occ i : Int) - (c : Int) := by omega
  rw [hcast]
  have k1 : (p : Int) * (W (i+1) : Int) ≤ (R : Int) * (c : Int) * (W (i+1) : Int) := by
    have : (p : Int) ≤ (R : Int) * (c : Int) := by exact_mod_cast hg
    exact mul_le_mul_of_nonneg_right this (by positivity)
  have k2 : (c : Int) * ((R : Int) * (W (i+1) : Int) + 1) ≤ (c : Int) * (W i : Int) := by
    have : (R : Int) * (W (i+1) : Int) + 1 ≤ (W i : Int) := by exact_mod_cast hw
    exact mul_le_mul_of_nonneg_left this (by positivity)
  split
  · push_cast; nlinarith
  · nlinarith


theorem phi_nonneg (W : Nat → Nat) (occ : Occ) (n : Nat) : 0 ≤ phi W occ n := by
  induction n with
  | zero => simp [phi]
  | succ n ih => simp only [phi]; positivity

/-- more fuel never changes a result -/
theorem sp_mono (S : Nat → Stage) : ∀ (fuel : Nat) (i : Nat) (occ : Occ) (done : Bool) (r : Occ × Bool),
    sp S fuel i occ done = some r → ∀ k, sp S (fuel + k) i occ done = some r := by
  intro fuel
  induction fuel with
  | zero => intro i occ done r h; simp [sp] at h
  | succ f ih =>
    intro i occ done r h k
    have e : f + 1 + k = (f + k) + 1 := by omega
    rw [e]
    unfold sp at h ⊢
    split at h
    · rename_i hc
      simp only [hc, if_true]
      cases i with
      | zero => exact ih _ _ _ _ h k
      | succ j =>
        simp only at h ⊢
        cases hcal : sp S f j occ false with
        | none => simp [hcal] at h
        | some v =>
          rw [hcal] at h
          rw [ih _ _ _ _ hcal k]
          exact ih _ _ _ _ h k
    · rename_i hc
      simp only [hc] at h ⊢
      exact h

/-- post-condition of a terminated call w.r.t. the potential of the first `n` FIFOs -/
def Post (W : Nat → Nat) (n : Nat) (occ : Occ) (r : Occ × Bool) : Prop :=
  phi W r.1 n ≤ phi W occ n ∧ (r.2 = false → phi W r.1 n < phi W occ n)

/-- the non-loop branch: one step, post-condition holds -/
theorem sp_exit (S : Nat → Stage) (W : Nat → Nat) (R : Nat) (H : Hyp S W R) (n i : Nat) (occ : Occ) (done : Bool)
    (hin : i < n) (hc : (!done && decide (occ i < (S i).isz)) = false) :
    ∃ r, sp S 1 i occ done = some r ∧ Post W n occ r := by
  refine ⟨(runFn S i occ, done && decide (runFn S i occ i < (S i).isz)), ?_, ?_, ?_⟩
  · simp [sp, hc]
  · have := phi_runFn S W R H i occ n hin
    have : (0:Int) ≤ (((S i).fn (occ i)).1 : Int) := by positivity
    simp only; omega
  · intro hd
    simp only at hd ⊢
    have hrun := phi_runFn S W R H i occ n hin
    have hlive : (S i).isz ≤ occ i := by
      have e : runFn S i occ i = occ i - ((S i).fn (occ i)).1 := by simp [runFn, upd]
      cases done with
      | false => simpa using hc
      | true =>
        simp only [Bool.true_and, decide_eq_false_iff_not, Nat.not_lt] at hd
        rw [e] at hd; omega
    have := H.live i (occ i) hlive
    have : (1:Int) ≤ (((S i).fn (occ i)).1 : Int) := by exact_mod_cast this
    omega

theorem sp_terminates (S : Nat → Stage) (W : Nat → Nat) (R : Nat) (H : Hyp S W R) (n : Nat) :
    ∀ (Φ : Nat) (i : Nat) (occ : Occ) (done : Bool), i < n → (phi W occ n).toNat ≤ Φ →
      ∃ fuel r, sp S fuel i occ done = some r ∧ Post W n occ r := by
  intro Φ
  induction Φ using Nat.strong_induction_on with
  | _ Φ ihΦ =>
    intro i
    induction i with
    | zero =>
      intro occ done hin hΦ
      by_cases hc : (!done && decide (occ 0 < (S 0).isz)) = true
      · -- done := true, then exit branch
        have hc' : (!true && decide (occ 0 < (S 0).isz)) = false := by simp
        obtain ⟨r, hr, hp⟩ := sp_exit S W R H n 0 occ true hin hc'
        refine ⟨2, r, ?_, hp⟩
        show sp S (1+1) 0 occ done = some r
        rw [sp]; simp only [hc, if_true]; exact hr
      · have hc' : (!done && decide (occ 0 < (S 0).isz)) = false := by simpa using hc
        obtain ⟨r, hr, hp⟩ := sp_exit S W R H n 0 occ done hin hc'
        exact ⟨1, r, hr, hp⟩
    | succ j ihj =>
      intro occ done hin hΦ
      by_cases hc : (!done && decide (occ (j+1) < (S (j+1)).isz)) = true
      · -- call the stage below
        obtain ⟨f1, r1, hr1, hp1⟩ := ihj occ false (by omega) hΦ
        obtain ⟨occ1, d1⟩ := r1
        have hle : (phi W occ1 n).toNat ≤ Φ := by
          have := hp1.1; have := phi_nonneg W occ1 n; simp only at *; omega
        -- continue at level j+1 with flag d1
        have cont : ∃ f2 r2, sp S f2 (j+1) occ1 d1 = some r2 ∧ Post W n occ r2 := by
          cases d1 with
          | true =>
            have hc' : (!true && decide (occ1 (j+1) < (S (j+1)).isz)) = false := by simp
            obtain ⟨r2, hr2, hp2⟩ := sp_exit S W R H n (j+1) occ1 true hin hc'
            refine ⟨1, r2, hr2, ?_, ?_⟩
            · have := hp1.1; have := hp2.1; simp only at *; omega
            · intro h; have := hp2.2 h; have := hp1.1; simp only at *; omega
          | false =>
            have hlt : phi W occ1 n < phi W occ n := hp1.2 rfl
            have h0 := phi_nonneg W occ1 n
            have h1 := phi_nonneg W occ n
            have hΦ' : (phi W occ1 n).toNat < Φ := by omega
            obtain ⟨f2, r2, hr2, hp2⟩ := ihΦ _ hΦ' (j+1) occ1 false hin (Nat.le_refl _)
            refine ⟨f2, r2, hr2, ?_, ?_⟩
            · have := hp2.1; omega
            · intro _; have := hp2.1; omega
        obtain ⟨f2, r2, hr2, hp2⟩ := cont
        refine ⟨(f1 + f2) + 1, r2, ?_, hp2⟩
        rw [sp]; simp only [hc, if_true]
        rw [sp_mono S f1 j occ false _ hr1 f2]
        simp only
        have := sp_mono S f2 (j+1) occ1 d1 _ hr2 f1
        rw [Nat.add_comm] at this
        exact this
      · have hc' : (!done && decide (occ (j+1) < (S (j+1)).isz)) = false := by simpa using hc
        obtain ⟨r, hr, hp⟩ := sp_exit S W R H n (j+1) occ done hin hc'
        exact ⟨1, r, hr, hp⟩
end Term
#print axioms Term.sp_terminates
