#include "soxr.c"
#include <stdio.h>
struct rate; void _soxr_verif_plan(struct rate * p, FILE * f);
int main(int argc,char**argv){ double ir=atof(argv[1]),orr=atof(argv[2]); unsigned long rec=strtoul(argv[3],0,0); double phase=argc>4?atof(argv[4]):-1; unsigned long fl=argc>5?strtoul(argv[5],0,0):0;
  soxr_quality_spec_t q=soxr_quality_spec(rec,fl); if(phase>=0)q.phase_response=phase; soxr_error_t e; soxr_t s=soxr_create(ir,orr,1,&e,0,&q,0); if(!s){printf("ERR %s\n",e);return 0;}
  printf("CFG ir=%s or=%s rec=%lu phase=%g flags=%lu engine=%s\n",argv[1],argv[2],rec,q.phase_response,fl,soxr_engine(s)); _soxr_verif_plan((struct rate*)s->resamplers[0],stdout); soxr_delete(s); return 0; }
