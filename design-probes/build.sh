#!/bin/bash
# usage: build.sh <outdir> [extra cflags]
set -e
OUT=$1; shift
mkdir -p $OUT
cp /repo/_build/soxr-config.h $OUT/
SRC=/repo/src
CF="-I$OUT -I$SRC -DSOXR_LIB -include soxr-config.h -fopenmp -g $@"
objs=""
for f in soxr data-io dbesi0 filter fft4g64 cr cr32 fft4g32 cr64 vr32 soxr-lsr; do
  gcc $CF -c $SRC/$f.c -o $OUT/$f.o & objs="$objs $OUT/$f.o"
done
for f in cr32s pffft32s util32s; do
  gcc $CF -msse2 -c $SRC/$f.c -o $OUT/$f.o & objs="$objs $OUT/$f.o"
done
for f in cr64s pffft64s util64s; do
  gcc $CF -mavx -c $SRC/$f.c -o $OUT/$f.o & objs="$objs $OUT/$f.o"
done
wait
ar rcs $OUT/libsoxr.a $objs
