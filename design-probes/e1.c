#include <stdio.h>
#include <stdlib.h>
#include <string.h>
#include <math.h>
#include "soxr.h"
/* usage: e1 irate orate N recipe phase [chunk_i chunk_o] */
int main(int argc, char**argv){
  double ir=atof(argv[1]), orr=atof(argv[2]); size_t N=atol(argv[3]); unsigned long recipe=strtoul(argv[4],0,0);
  double phase=atof(argv[5]); size_t ci=argc>6?atol(argv[6]):N, co=argc>7?atol(argv[7]):4096;
  soxr_quality_spec_t q=soxr_quality_spec(recipe,0); if(phase>=0) q.phase_response=phase;
  soxr_error_t err; soxr_t s=soxr_create(ir,orr,1,&err,0,&q,0);
  if(!s){printf("create error: %s\n",err);return 2;}
  float*in=malloc(sizeof(float)*(N+1)); for(size_t i=0;i<N;i++) in[i]=(float)sin(2*M_PI*0.05*i*(ir>orr?orr/ir:1));
  float*out=malloc(sizeof(float)*co);
  size_t tot=0, pos=0, odone, idone; int flushed=0; size_t before_flush=0;
  while(1){
    size_t il = N-pos<ci?N-pos:ci;
    if(pos<N){ err=soxr_process(s,in+pos,il,&idone,out,co,&odone); pos+=idone; if(pos==N) before_flush=tot+odone;}
    else { err=soxr_process(s,NULL,0,NULL,out,co,&odone); flushed=1; }
    if(err){printf("err %s\n",err);break;}
    tot+=odone;
    if(flushed && odone==0) break;
  }
  double expect=floor(N*orr/ir+.5);
  printf("engine=%s N=%zu tot=%zu expect=%.0f before_flush=%zu ceil=%.0f delay=%g %s\n",soxr_engine(s),N,tot,expect,before_flush,ceil(N*orr/ir),soxr_delay(s),tot==(size_t)expect?"OK":"MISMATCH");
  soxr_delete(s); free(in); free(out); return 0;
}
