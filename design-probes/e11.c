#include <stdio.h>
#include <stdlib.h>
#include <string.h>
#include <math.h>
#include "soxr-lsr.h"
int main(int argc,char**argv){ int conv=atoi(argv[1]); double ratio=atof(argv[2]); long N=atol(argv[3]); long ci=atol(argv[4]), co=atol(argv[5]);
  int err; SRC_STATE*s=src_new(conv,1,&err); if(!s){printf("new failed %d\n",err);return 1;}
  float*in=calloc(N+1,4); for(long i=0;i<N;i++)in[i]=sinf(i*0.01f); float*out=malloc(4*(co+1)); long pos=0,tot=0; SRC_DATA d; memset(&d,0,sizeof d);
  for(int g=0;g<1000000;g++){ d.data_in=in+pos; d.input_frames=N-pos<ci?N-pos:ci; d.data_out=out; d.output_frames=co; d.src_ratio=ratio; d.end_of_input=(pos+d.input_frames==N);
    int e=src_process(s,&d); if(e){printf("err %d %s\n",e,src_strerror(e));break;} if(d.input_frames_used>d.input_frames||d.output_frames_gen>d.output_frames)printf("CONTRACT\n");
    pos+=d.input_frames_used; tot+=d.output_frames_gen; if(d.end_of_input && d.output_frames_gen==0 && pos==N)break; }
  printf("conv=%d ratio=%g N=%ld tot=%ld expect=%.0f %s\n",conv,ratio,N,tot,floor(N*ratio+.5), tot==(long)floor(N*ratio+.5)?"OK":"MISMATCH"); src_delete(s); free(in);free(out); return 0;}
