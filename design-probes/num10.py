import os, numpy as np, random, math, sys
from spec1 import lib, resample
random.seed(int(sys.argv[1])); 
def fit(y,f_out,a,b):
    k=np.arange(a,b); t=2*math.pi*f_out*k; kk=(k-(a+b)/2)/(b-a); A=np.stack([np.sin(t),np.cos(t),kk*np.sin(t),kk*np.cos(t)],1); c,_,_,_=np.linalg.lstsq(A,y[a:b],rcond=None); r=y[a:b]-A@c; return math.hypot(c[0],c[1]), np.abs(r).max()
rates=[8000,11025,16000,22050,32000,44100,48000,88200,96000,192000,65537,1,2,3,4,5,6,7,8,9,10,16,32,64,3.14159,2.71828,1.41421356,1.0001]
rollmax={0:0.01,1:0.35,2:0.0005,3:0.35}
bad=0; n=0; worst_res=0; worst_sb=0
for it in range(int(sys.argv[2])):
    ir=random.choice(rates); orr=random.choice(rates)
    if ir==orr or ir/orr>40 or orr/ir>100: continue
    rec=random.choice([1,2,3,4,5,6,7,8,9,10]); flags=random.choice([0,0,1,2,8,16]); steep=random.choice([0,0,0x40])
    q=lib.soxr_quality_spec(rec|steep,flags)
    if q.e: continue
    bits=q.precision; lim=2.0**(1-bits); roll=q.flags&3
    if random.random()<0.4: os.environ['SOXR_USE_SIMD']='0'
    else: os.environ.pop('SOXR_USE_SIMD',None)
    N=int(min(1500000,max(8000,30000*max(1,ir/orr)))); t=np.arange(N); nyq=min(1.0,orr/ir)
    # in-band tone
    ff=random.uniform(0.02,q.passband_end*0.999)*nyq; amp=0.5; x=amp*np.sin(math.pi*ff*t+0.3)
    try: y=resample(x,ir,orr,q)
    except Exception as e: print("EXC",ir,orr,rec,e); continue
    m=len(y); a,b=int(m*0.3),int(m*0.7)
    if b-a<50: continue
    g,res=fit(y,ff/2*ir/orr,a,b); gdb=20*math.log10(g/amp); n+=1
    worst_res=max(worst_res,res/lim)
    if res>lim or abs(gdb)>rollmax[roll]+1e-4:
        bad+=1; print("C01? ir=%g or=%g rec=%d steep=%d flags=%d simd=%s f=%.4f·nyq_low: resid/lim=%.3g gain=%.4f dB (class %d)"%(ir,orr,rec,steep,flags,os.environ.get('SOXR_USE_SIMD'),ff/nyq,res/lim,gdb,roll))
    # stop-band tone (down-sampling only): tone between stopband start and input nyquist
    if orr<ir:
        fs=q.stopband_begin*nyq
        f2=random.uniform(min(fs*1.0005,0.9999),0.9999); x2=amp*np.sin(math.pi*f2*t+0.1); y2=resample(x2,ir,orr,q); lvl=np.abs(y2[a:b]).max()/amp
        worst_sb=max(worst_sb,lvl/2.0**(-bits))
        if lvl>2.0**(-bits): bad+=1; print("C02? ir=%g or=%g rec=%d steep=%d flags=%d simd=%s f=%.4f (fs=%.4f): level=%.1f dB vs -%.1f"%(ir,orr,rec,steep,flags,os.environ.get('SOXR_USE_SIMD'),f2,fs,20*math.log10(lvl+1e-300),bits*6.02))
print("seed",sys.argv[1],"cases",n,"bad",bad,"worst resid/lim %.3g worst stopband/2^-bits %.3g"%(worst_res,worst_sb))
