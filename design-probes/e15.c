#include <stdio.h>
#include <stdlib.h>
#include <string.h>
#include <math.h>
#include "soxr.h"
int main(int argc,char**argv){ double ir=atof(argv[1]),orr=atof(argv[2]); unsigned long rec=strtoul(argv[3],0,0); size_t N=atol(argv[4]); unsigned long fl=argc>5?strtoul(argv[5],0,0):0;
  soxr_quality_spec_t q=soxr_quality_spec(rec,fl); soxr_io_spec_t io=soxr_io_spec(SOXR_FLOAT64_I,SOXR_FLOAT64_I); soxr_error_t e;
  double*in=malloc(8*N); double c=1.0/N; for(size_t i=0;i<N;i++)in[i]=i*c; size_t cap=(size_t)(N*orr/ir)+10; double*out=malloc(8*cap); size_t id,od;
  e=soxr_oneshot(ir,orr,1,in,N,&id,out,cap,&od,&io,&q,0); if(e){printf("err %s\n",e);return 1;}
  double maxerr=0; size_t at=0; size_t lo=od/10, hi=od*9/10; for(size_t k=lo;k<hi;k++){ double t=out[k]/c; double err=fabs(t-k*ir/orr); if(err>maxerr){maxerr=err;at=k;} }
  printf("ir=%g or=%g rec=%lu od=%zu max |t_k - k*ratio| = %.3g input samples at k=%zu (t=%.9f expect %.9f)\n",ir,orr,rec,od,maxerr,at,out[at]/c,at*ir/orr); free(in);free(out); return 0; }
