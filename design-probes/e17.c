#include <stdio.h>
#include <stdlib.h>
#include <string.h>
#include <math.h>
#include "soxr.h"
/* multi-channel split int16 output with clipping under OpenMP threads: clip count vs expectation */
int main(int argc,char**argv){ unsigned ch=atoi(argv[1]); unsigned threads=atoi(argv[2]); size_t N=20000; int reps=atoi(argv[3]); int bad=0;
  for(int r=0;r<reps;r++){
  soxr_io_spec_t io=soxr_io_spec(SOXR_FLOAT32_S,SOXR_INT16_S); io.flags=SOXR_NO_DITHER; soxr_runtime_spec_t rt=soxr_runtime_spec(threads); soxr_quality_spec_t q=soxr_quality_spec(SOXR_QQ,0); soxr_error_t e;
  soxr_t s=soxr_create(1,1,ch,&e,&io,&q,&rt); float*in[64]; short*out[64]; for(unsigned c=0;c<ch;c++){in[c]=malloc(4*N);out[c]=malloc(2*N);for(size_t i=0;i<N;i++)in[c][i]=2.0f;}
  size_t tot=0,pos=0,id,od; while(pos<N){ e=soxr_process(s,in,16,&id,out,16,&od); pos+=16; tot+=od; for(unsigned c=0;c<ch;c++)in[c]+=0; }
  size_t clips=*soxr_num_clips(s); if(clips!=tot*ch){ bad++; if(bad<4)printf("clips=%zu expected=%zu\n",clips,tot*ch);} 
  soxr_delete(s); for(unsigned c=0;c<ch;c++){free(in[c]);free(out[c]);} }
  printf("ch=%u threads=%u reps=%d mismatches=%d\n",ch,threads,reps,bad); return 0; }
