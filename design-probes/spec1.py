import ctypes, numpy as np, sys, math
from fractions import Fraction
lib=ctypes.CDLL('/tmp/exp/libsoxr_exp.so')
class Q(ctypes.Structure): _fields_=[('precision',ctypes.c_double),('phase_response',ctypes.c_double),('passband_end',ctypes.c_double),('stopband_begin',ctypes.c_double),('e',ctypes.c_void_p),('flags',ctypes.c_ulong)]
class IO(ctypes.Structure): _fields_=[('itype',ctypes.c_int),('otype',ctypes.c_int),('scale',ctypes.c_double),('e',ctypes.c_void_p),('flags',ctypes.c_ulong)]
lib.soxr_quality_spec.restype=Q; lib.soxr_quality_spec.argtypes=[ctypes.c_ulong,ctypes.c_ulong]
lib.soxr_io_spec.restype=IO; lib.soxr_io_spec.argtypes=[ctypes.c_int,ctypes.c_int]
lib.soxr_oneshot.restype=ctypes.c_char_p
lib.soxr_oneshot.argtypes=[ctypes.c_double,ctypes.c_double,ctypes.c_uint,ctypes.c_void_p,ctypes.c_size_t,ctypes.POINTER(ctypes.c_size_t),ctypes.c_void_p,ctypes.c_size_t,ctypes.POINTER(ctypes.c_size_t),ctypes.POINTER(IO),ctypes.POINTER(Q),ctypes.c_void_p]
def resample(x,ir,orr,q):
    io=lib.soxr_io_spec(1,1); n=len(x); cap=int(n*orr/ir)+16; out=np.zeros(cap); idn=ctypes.c_size_t(); od=ctypes.c_size_t()
    x=np.ascontiguousarray(x,dtype=np.float64)
    e=lib.soxr_oneshot(ir,orr,1,x.ctypes.data,n,ctypes.byref(idn),out.ctypes.data,cap,ctypes.byref(od),ctypes.byref(io),ctypes.byref(q),None)
    if e: raise Exception(e)
    return out[:od.value]
def prototype(ir,orr,q,Nlen=None):
    fr=Fraction(ir)/Fraction(orr); M,L=fr.numerator,fr.denominator  # io ratio = M/L ; out rate = in*L/M
    # impulse at n0+p for p in 0..M-1 ; h[k*M - n*L]
    # choose length to cover filter support: probe with one impulse first
    n0=None
    N=Nlen or 4000
    while True:
        x=np.zeros(N); x[N//2]=1; y=resample(x,ir,orr,q); nz=np.nonzero(np.abs(y)>0)[0]
        if len(nz)==0: raise Exception('no response')
        lo,hi=nz[0],nz[-1]
        if lo>2 and hi<len(y)-3: break
        N*=2
    base=(N//2//M)*M  # multiple of M
    h={}
    for p in range(M):
        x=np.zeros(N); n=base+p; x[n]=1; y=resample(x,ir,orr,q)
        for k in np.nonzero(y)[0]:
            j=int(k)*M-n*L
            h[j]=y[k]
    js=sorted(h); j0,j1=js[0],js[-1]; harr=np.zeros(j1-j0+1)
    for j,v in h.items(): harr[j-j0]=v
    return harr,j0,L,M
def analyse(ir,orr,recipe,flags=0,phase=None):
    q=lib.soxr_quality_spec(recipe,flags)
    if phase is not None: q.phase_response=phase
    h,j0,L,M=prototype(ir,orr,q)
    n=len(h); nfft=1<<int(math.ceil(math.log2(n*16)))
    H=np.fft.rfft(h,nfft); f=np.arange(len(H))/nfft*2  # normalised to fine-rate nyquist=1 ; fine rate = L*ir
    # in-rate nyquist = 1/L ; out nyquist = 1/M (fine units)
    nyq_low=min(1.0/L,1.0/M)
    Fp=q.passband_end*nyq_low; Fs=q.stopband_begin*nyq_low if q.stopband_begin else nyq_low
    mag=np.abs(H)/L
    pb=mag[f<=Fp]; sb=mag[f>=Fs]
    # up-sampling: stopband relative: images beyond (2-Fs0)*nyq? per property: when upsampling every spectral image of the passband
    if L>M: # upsampling: images of passband: bands around multiples of 2/L: [2m/L - Fp, 2m/L+Fp]
        img=np.zeros(len(f),bool)
        for m in range(1,L//2+2):
            c=2.0*m/L; img|=(np.abs(f-c)<=Fp)
        sbv=mag[img].max() if img.any() else 0
    else:
        sbv=sb.max()
    bern=(f[1]-f[0])*math.pi/2*np.sum(np.abs(np.arange(n)*h))/L
    bits=q.precision
    print("ir=%g or=%g rec=%d L=%d M=%d taps=%d bits=%g Fp=%.4f Fs=%.4f: passband dev max=%.3g dB (%.3g lin), stop/image max=%.1f dB (limit 2^(1-bits)=%.1f dB), bernstein margin=%.2g"%(ir,orr,recipe,L,M,n,bits,q.passband_end,q.stopband_begin,20*np.log10(pb.max()/pb.min()) if len(pb) else 0,np.abs(pb-1).max() if len(pb) else 0,20*np.log10(sbv+1e-300),20*np.log10(2.0**(1-bits)) if bits else 0,bern))
if __name__=='__main__':
    for a in [(44100,48000,4),(48000,44100,4),(44100,48000,6),(48000,44100,6),(2,1,4),(1,2,4),(3,1,4),(1,3,4),(8,1,4),(44100,48000,1),(44100,48000,2),(44100,48000,3),(96000,44100,6),(5,4,6),(1,8,6),(48000,44100,0x44),(44100,48000,5),(7,3,7)]:
        try: analyse(*a)
        except Exception as e: print(a,"EXC",e)
