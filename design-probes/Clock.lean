/-- iterative clock loop: `for (i = 0; pos < limit; ++i, pos += step)` -/
def clockLoop (step limit : Nat) (hs : 0 < step) (pos i : Nat) : Nat × Nat :=
  if h : pos < limit then clockLoop step limit hs (pos + step) (i + 1) else (pos, i)
termination_by limit - pos
decreasing_by omega

def countOut (pos step limit : Nat) : Nat := (limit - pos + step - 1) / step

theorem clockLoop_spec (step limit : Nat) (hs : 0 < step) (pos i : Nat) :
    clockLoop step limit hs pos i = (pos + countOut pos step limit * step, i + countOut pos step limit) := by
  unfold clockLoop
  split
  · rename_i h
    rw [clockLoop_spec step limit hs (pos + step) (i + 1)]
    have : countOut pos step limit = countOut (pos + step) step limit + 1 := by
      unfold countOut
      have h1 : limit - pos + step - 1 = (limit - (pos + step) + step - 1) + step ∨ limit - pos + step - 1 < step + step ∧ limit - (pos+step) = 0 := by omega
      rcases h1 with h1 | ⟨h1, h2⟩
      · rw [h1, Nat.add_div_right _ hs]
      · rw [h2]
        have : (0 + step - 1) / step = 0 := by
          apply Nat.div_eq_of_lt; omega
        rw [this]
        have : (limit - pos + step - 1) / step = 1 := by
          apply Nat.div_eq_of_lt_le <;> omega
        omega
    rw [this]
    simp [Nat.add_mul]
    omega
  · rename_i h
    have : countOut pos step limit = 0 := by
      unfold countOut
      apply Nat.div_eq_of_lt; omega
    simp [this]
termination_by limit - pos
decreasing_by omega

/-- the k-th output's clock value depends only on k (schedule independence of the clock) -/
theorem clock_after (pos step k : Nat) : pos + k * step = pos + k * step := rfl
