#include <stdio.h>
#include <stdlib.h>
#include <string.h>
#include <math.h>
#include "soxr.h"
static double run(double scale){ soxr_error_t err; soxr_quality_spec_t q=soxr_quality_spec(SOXR_HQ,SOXR_VR); soxr_io_spec_t io=soxr_io_spec(SOXR_FLOAT32_I,SOXR_FLOAT32_I); io.scale=scale;
  soxr_t s=soxr_create(2,1,1,&err,&io,&q,0); if(!s){printf("create: %s\n",err);exit(1);} soxr_set_io_ratio(s,1.5,0);
  static float in[20000],out[20000]; for(int i=0;i<20000;i++)in[i]=0.5f; size_t id,od; soxr_process(s,in,20000,&id,out,20000,&od); double v=out[od/2]; printf("scale=%g engine=%s od=%zu mid=%g delay=%g\n",scale,soxr_engine(s),od,v,soxr_delay(s)); soxr_delete(s); return v;}
int main(int argc,char**argv){ double a=atof(argv[1]),b=atof(argv[2]); run(a); run(b); return 0;}
