#include "soxr.c"
#include <stdio.h>
void _soxr_verif_vr_state(void * p, FILE * f);
static unsigned long long rs=88172645463325252ULL; static unsigned long long rnd(void){rs^=rs<<13;rs^=rs>>7;rs^=rs<<17;return rs;}
int main(int argc,char**argv){ double mx=atof(argv[1]); rs+=atoll(argv[2]); size_t N=atol(argv[3]); int nchg=atoi(argv[4]);
  soxr_quality_spec_t q=soxr_quality_spec(SOXR_HQ,SOXR_VR); soxr_error_t e; soxr_t s=soxr_create(mx,1,1,&e,0,&q,0); if(!s){printf("ERR %s\n",e);return 0;}
  printf("CFG mx=%.17g\n",mx); _soxr_verif_vr_state(s->resamplers[0],stdout);
  static float in[20000],out[20000]; size_t pos=0; int flushed=0; size_t maxc=2+rnd()%(rnd()%2?100:3000);
  for(int g=0;g<100000;g++){
    if(nchg && rnd()%8==0 && !flushed){ double r=mx*pow(2.0,-(double)(rnd()%6000)/1000.0); size_t slew=rnd()%3? rnd()%4000:0; soxr_set_io_ratio(s,r,slew); printf("RATIO r=%.17g slew=%zu\n",r,slew); _soxr_verif_vr_state(s->resamplers[0],stdout); }
    size_t il=rnd()%maxc, ol=rnd()%maxc; if(il>N-pos)il=N-pos; if(il>20000)il=20000; if(ol>20000)ol=20000; size_t id=0,od=0;
    if(pos<N){ soxr_process(s,in,il,&id,out,ol,&od); printf("PROC il=%zu ol=%zu id=%zu od=%zu\n",il,ol,id,od); }
    else { soxr_process(s,0,0,0,out,ol,&od); flushed=1; printf("FLUSH ol=%zu od=%zu\n",ol,od); }
    pos+=id; _soxr_verif_vr_state(s->resamplers[0],stdout);
    if(flushed&&od==0&&ol>0)break; }
  soxr_delete(s); return 0; }
