import Mathlib.Algebra.BigOperators.Finprod
import Mathlib.Analysis.Complex.Basic

open scoped BigOperators

noncomputable section

def resp (g : ℤ → ℤ → ℂ) (x : ℤ → ℂ) (k : ℤ) : ℂ := ∑ᶠ n, g k n * x n

def Cov (g : ℤ → ℤ → ℂ) (L M : ℤ) : Prop := ∀ k n, g (k + L) (n + M) = g k n

theorem tone_step (g : ℤ → ℤ → ℂ) (L M : ℤ) (h : Cov g L M) (z : ℂ) (hz : z ≠ 0) (k : ℤ)
    (hfin : (Function.support fun n => g k n * z ^ n).Finite) :
    resp g (fun n => z ^ n) (k + L) = z ^ M * resp g (fun n => z ^ n) k := by
  unfold resp
  rw [← finsum_comp_equiv (Equiv.addRight M) (f := fun n => g (k + L) n * z ^ n)]
  simp only [Equiv.coe_addRight]
  have e : (fun i => g (k + L) (i + M) * z ^ (i + M)) = fun i => z ^ M * (g k i * z ^ i) := by
    funext n
    rw [h k n, zpow_add₀ hz]
    ring
  rw [e]; exact (mul_finsum _ _).symm

/-- periodic modulation: with `w ^ L = z ^ M`, `c k = y k / w ^ k` is L-periodic -/
theorem modulation_periodic (g : ℤ → ℤ → ℂ) (L M : ℤ) (h : Cov g L M) (z w : ℂ) (hz : z ≠ 0) (hw : w ≠ 0)
    (hwz : w ^ L = z ^ M) (k : ℤ)
    (hfin : (Function.support fun n => g k n * z ^ n).Finite) :
    resp g (fun n => z ^ n) (k + L) / w ^ (k + L) = resp g (fun n => z ^ n) k / w ^ k := by
  rw [tone_step g L M h z hz k hfin, zpow_add₀ hw, hwz]
  have : z ^ M ≠ 0 := zpow_ne_zero _ hz
  have : w ^ k ≠ 0 := zpow_ne_zero _ hw
  field_simp
