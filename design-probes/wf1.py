import re, sys
from fractions import Fraction
from collections import Counter
viol=Counter(); ex={}
def kv(line):
    d={}
    for tok in line.split()[1:]:
        if '=' in tok:
            k,v=tok.split('=',1); d[k]=v
    return d
cfg=None; plan=None; stages=[]
def ispow2(x): return x>=2 and (x&(x-1))==0
def check(cfg,plan,stages):
    simd = cfg['engine'].endswith('s')
    ph=float(cfg['phase'])
    prod=Fraction(1)
    for s in stages:
        k=s['kind']; pre=int(s['pre']); pp=int(s['pre_post']); pl=int(s['preload']); isz=int(s['input_size']); n=int(s['n']); L=int(s['L'])
        atw=int(s['at'].split('/')[0]); stw=int(s['step'].split('/')[0]); ati=atw>>32; sti=stw>>32
        def v(name):
            viol[name]+=1; ex.setdefault(name,(cfg,s))
        if k=='half':
            if not(pre==2*n and pp==4*n and pl==pre): v('half-margins')
            if not pp<isz: v('half-progress')
            prod*=2
        elif k=='cubic':
            if not(pre==1 and pl==1 and pp>=max(3,sti)): v('cubic-margins')
            if not pp<isz: v('cubic-progress')
            prod*=Fraction(stw,1<<32)
        elif k=='poly':
            if not(pre==0 and pp==n-1): v('poly-margins')
            if not pp<isz: v('poly-progress')
            if not sti<=pp: v('poly-stepint<=prepost')
            if not pl<=pp: v('poly-preload<=prepost')
            if int(s['phase_bits'])<=0 and L>=1 and (stw & 0xffffffff)==0: # rational
                prod*=Fraction(sti,L)
                if not ati<L: v('poly0-at<L')
            else:
                prod*=Fraction(stw,(1<<32)*max(L,1))
        elif k=='dft':
            dl=int(s['dft_length']); nt=int(s['num_taps']); po=int(s['post_peak']); bl=int(s['block_len'])
            M=sti
            if not ispow2(dl): v('dft-pow2')
            if bl!=dl-nt+1: v('dft-blocklen')
            if not bl>=L: v('dft-blocklen>=L')
            if pl!=po//L or ati!=po%L: v('dft-latency')
            if isz!=(dl-ati+L-1)//L: v('dft-inputsize')
            if ispow2(L):
                if ati!=0: v('dft-Fdom-at!=0')
                if bl%L!=0: v('dft-Fdom-blocklen%L')
                if (dl//L)<32 and simd: v('dft-Fdom-pffft<32')
                if (dl//L)%32 and simd: v('dft-Fdom-pffft%32')
            if M<0:
                m=-M
                if (dl>>m)<32 and simd: v('dft-FdomM-pffft<32')
                prod*=Fraction(2**m*1,L) if False else Fraction(2*m,L)
            else:
                prod*=Fraction(M,L)
            if ph==50 and nt%2!=1: v('dft-linear-odd-taps')
            if ph==50 and po!=nt//2: v('dft-linear-postpeak')
    ior=Fraction(float(plan['io_ratio']))
    if prod!=ior:
        rel=abs(float(prod/ior)-1)
        if rel>2**-32: viol['rate-product>2^-32']+=1; ex.setdefault('rate-product>2^-32',(cfg,float(prod),float(ior)))
        else: viol['rate-product-inexact(ok)']+=1
    else: viol['rate-product-exact']+=1
for line in open(sys.argv[1]):
    if line.startswith('CFG'):
        if cfg: check(cfg,plan,stages)
        cfg=kv(line); stages=[]
    elif line.startswith('PLAN'): plan=kv(line)
    elif line.startswith(' S'): stages.append(kv(line))
if cfg: check(cfg,plan,stages)
for k,c in viol.most_common(): print(c,k)
for k,e in ex.items(): print('EX',k,e)
