import sys, math, vrm
L=open(sys.argv[1]).read().split('\n'); mx=float(vrm.kvline(L[0])['mx']); v=vrm.VR(mx); apifl=False; i=2; shown=0
while i<len(L) and L[i]:
    l=L[i]; d=vrm.kvline(l)
    if l.startswith('RATIO'): v.set_ratio(float(d['r']),int(d['slew']))
    elif l.startswith('PROC'):
        il=int(d['il']); ol=int(d['ol']); ilen=min(math.ceil(ol*mx),il); v.st[0]['occ']+=ilen
        v.process(ol); n=min(ol,v.oocc); v.oocc-=n
    else:
        ol=int(d['ol'])
        if v.fl==0: v.st[0]['occ']+=v.st[0]['pre']; v.fl+=1
        v.process(ol); n=min(ol,v.oocc); v.oocc-=n
    if (vrm.INT(v.cur.at)<0 or (v.fade and vrm.INT(v.fo.at)<0)) and shown<3:
        shown+=1; print("NEG after line",i,l,"cur.at int",vrm.INT(v.cur.at),"fo.at int",vrm.INT(v.fo.at),"fade",v.fade,"cur.sn",v.cur.sn,"fo.sn",v.fo.sn)
        for k in range(max(2,i-6),i+1,2): print("   ",L[k])
    i+=2
