"""F-PH1 calibration, second part: where does the shortfall end?  phase_response over (25, 50) in steps of 0.5 (+ mirrored)."""
import sys, json
sys.path.insert(0, '/verif'); sys.path.insert(0, '/verif/design-probes/fph1')
import fph1_sweep as S
from checks import phaselib as P
S.PHASES = [x / 2.0 for x in range(51, 100)]
if __name__ == "__main__":
    jobs = [(1, k, prec, 0) for k in (12, 16, 20, 24, 28, 32, 48) for prec in (30, 32, 33)]
    out = P.pool_map(S.job, jobs)
    json.dump(out, open('/verif/work/phase/fph1_sweep2.json', 'w'))
    prof = {}
    for r in out:
        ir, orr, prec, simd = r["cfg"]; spec = -6.0206 * prec
        for p, v in r["sb"].items():
            if p == 50.0: continue
            f = min(p, 100 - p)
            prof.setdefault(prec, {}); prof[prec][f] = max(prof[prec].get(f, -99), v[0] - spec)
    for prec in sorted(prof):
        print(prec, " ".join("%g:%+.1f" % (f, prof[prec][f]) for f in sorted(prof[prec])))
