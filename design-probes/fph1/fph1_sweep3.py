"""F-PH1 calibration, third part: precisions between the recipe values (29, 31, 28.5, 32.5) on the ratios with the largest shortfall."""
import sys, json
sys.path.insert(0, '/verif'); sys.path.insert(0, '/verif/design-probes/fph1')
import fph1_sweep as S
from checks import phaselib as P
if __name__ == "__main__":
    jobs = [(1, k, prec, 0) for k in (12, 16, 20, 24, 28, 40) for prec in (28.5, 29, 31, 32.5)]
    out = P.pool_map(S.job, jobs)
    json.dump(out, open('/verif/work/phase/fph1_sweep3.json', 'w'))
    worst = {}
    for r in out:
        ir, orr, prec, simd = r["cfg"]; spec = -6.0206 * prec
        w = max((v[0] - spec, p) for p, v in r["sb"].items() if p != 50.0)
        if prec not in worst or w[0] > worst[prec][0]:
            worst[prec] = (round(w[0], 2), w[1], "%s->%s" % (ir, orr), r["taps"])
    print(worst)
