"""Calibration sweep for known finding F-PH1: worst stop-band shortfall (dB above 2^-bits) of the measured end-to-end response,
phase_response over (0, 25] in steps of 0.5 and the mirrored settings, precision 28/30/32/33, ratios whose plan has a dft stage with
< 256 taps, both double-precision engines.  Writes work/phase/fph1_sweep.json.  Usage: python3-vt work/phase/fph1_sweep.py"""
import sys, math, json
sys.path.insert(0, '/verif')
import numpy as np
from checks import phaselib as P

RATIOS = [(1, 6), (1, 8), (1, 10), (1, 12), (1, 14), (1, 16), (1, 20), (1, 24), (1, 28), (1, 32), (1, 40), (1, 48), (3, 32), (5, 48)]
PHASES = [x / 2.0 for x in range(1, 51)]


def job(a):
    ir, orr, prec, simd = a
    c0 = P.mkcfg(float(ir), float(orr), 7, 0, simd, prec=prec)
    L, M = P.exact_fraction(c0)
    phases = [50.0] + PHASES + [100 - p for p in PHASES]
    infos = {p: P.run(dict(c0, phase=p))[0] for p in phases}
    taps = min(s["numTaps"] for s in infos[phases[1]]["stages"] if s["kind"] == "dft")
    W = 0
    for p in [50.0] + [x for x in (0.5, 99.5, 5.0, 95.0, 12.5, 87.5, 25.0, 75.0, 25.5, 74.5, 37.5, 62.5) if x in phases]:
        lo, hi = P.support(dict(c0, phase=p), L / M)
        W = max(W, lo, hi)
    W = int(W * 1.15) + 8
    res = {}
    q = infos[50.0]["q"]
    for p in phases:
        pr = P.prototype(dict(c0, phase=p), L, M, infos[p], W, max_phases=64)
        if isinstance(pr, dict):
            return {"cfg": a, "skipped": pr}
        n = len(pr.h); nfft = 1 << int(math.ceil(math.log2(8 * n)))
        H = np.abs(P.spectrum(pr.h, pr.J, nfft)) / L
        nu = 2 * math.pi * np.arange(nfft // 2 + 1) / nfft
        sb = nu >= float(q["sb"]) * math.pi / max(L, M)
        res[p] = [float(20 * math.log10(max(H[sb].max(), 1e-300))), pr.outside]
    return {"cfg": a, "engine": infos[50.0]["engine"], "taps": taps, "plan": P.plan_sig(infos[50.0]), "sb": res}


if __name__ == "__main__":
    jobs = [(ir, orr, prec, simd) for (ir, orr) in RATIOS for prec in (28, 30, 32, 33) for simd in (0, 1)]
    out = P.pool_map(job, jobs)
    json.dump(out, open('/verif/work/phase/fph1_sweep.json', 'w'))
    worst = {}
    for r in out:
        if "sb" not in r:
            print("skipped", r); continue
        ir, orr, prec, simd = r["cfg"]
        spec = -6.0206 * prec
        lin = r["sb"][50.0][0]
        w = max(((v[0] - spec, p) for p, v in r["sb"].items() if p != 50.0))
        outside = max(v[1] for v in r["sb"].values())
        print("%s->%s prec=%d %s taps=%d linear %+.1f dB re spec; worst shortfall %+.2f dB at phase %g (window leak %.2g)" % (ir, orr, prec, r["engine"], r["taps"], lin - spec, w[0], w[1], outside))
        k = prec
        if k not in worst or w[0] > worst[k][0]:
            worst[k] = (round(w[0], 2), w[1], "%s->%s" % (ir, orr), r["engine"], r["taps"])
    print("WORST per precision:", worst)
