"""F-PH1 calibration, fourth part: the L = 16 .. 64 post stages (fewer than 64 taps per output phase; measurable since the F1 repair)."""
import sys, json
sys.path.insert(0, '/verif'); sys.path.insert(0, '/verif/design-probes/fph1')
import fph1_sweep as S
from checks import phaselib as P
S.PHASES = [float(x) for x in range(1, 31)]
if __name__ == "__main__":
    jobs = [(1, k, prec, 0) for k in (64, 96, 128, 256) for prec in (28, 30, 32, 33)]
    out = P.pool_map(S.job, jobs)
    json.dump(out, open('/verif/work/phase/fph1_sweep4.json', 'w'))
    for r in out:
        if "sb" not in r: print(r); continue
        ir, orr, prec, simd = r["cfg"]; spec = -6.0206 * prec
        w = max((v[0] - spec, p) for p, v in r["sb"].items() if p != 50.0)
        w25 = max((v[0] - spec, p) for p, v in r["sb"].items() if p != 50.0 and min(p, 100 - p) > 25)
        print("%s->%s prec=%g taps=%d plan=%s worst %+.2f at %g; beyond 25: %+.2f at %g" % (ir, orr, prec, r["taps"], r["plan"], w[0], w[1], w25[0], w25[1]))
