import subprocess, random, sys, os, cm
random.seed(int(sys.argv[1])); n=int(sys.argv[2])
rates=[8000,11025,16000,22050,32000,44100,48000,88200,96000,176400,192000,65537,44101,1,2,3,4,5,6,7,8,9,10,12,16,32,64,100,128,256,1000,3.14159,2.71828,1.41421356,1.0001,0.99999]
tot=0; badc=0; kinds={}
for t in range(n):
    ir=random.choice(rates); orr=random.choice(rates)
    if ir/orr>3000 or orr/ir>300: continue
    rec=random.choice([0,1,2,3,4,5,6,7,4|0x40,6|0x40]); ph=random.choice([-1,-1,-1,-1,0,25,75,100]) if orr/ir<31 else -1
    fl=random.choice([0,0,8,16,1,2]); N=random.choice([0,1,17,1000,30000,100000])
    env=dict(os.environ); 
    if random.random()<0.4: env['SOXR_USE_SIMD']='0'
    fn='tr_%s.txt'%sys.argv[1]
    with open(fn,'w') as f:
        try: subprocess.run(['./p2',str(ir),str(orr),str(rec),str(ph),str(fl),str(random.randrange(1<<30)),str(N)],stdout=f,timeout=60,env=env)
        except subprocess.TimeoutExpired: print("TIMEOUT",ir,orr,rec,ph,fl,N); continue
    first=open(fn).readline()
    if first.startswith('ERR'): continue
    try: b,c,cfg=cm.run(fn)
    except Exception as e: print("EXC",e,ir,orr,rec,ph,fl,N); badc+=1; continue
    tot+=c
    for l in open(fn):
        if l.startswith(' S'):
            k=cm.kv(l)['kind']+('h' if cm.kv(l).get('hiprec')=='1' else ''); kinds[k+':'+cfg['engine']]=kinds.get(k+':'+cfg['engine'],0)+1
    if b: badc+=1; print("BAD",ir,orr,rec,ph,fl,N,env.get('SOXR_USE_SIMD'),b)
print("seed",sys.argv[1],"calls",tot,"bad configs",badc,kinds)
