#include <stdio.h>
#include <stdlib.h>
#include <string.h>
#include <math.h>
#include "soxr.h"
static unsigned long long rs=88172645463325252ULL; static unsigned long long rnd(void){rs^=rs<<13;rs^=rs>>7;rs^=rs<<17;return rs;}
static size_t resample(double ir,double orr,unsigned ch,soxr_datatype_t it,soxr_datatype_t ot,soxr_quality_spec_t*q,void*in,size_t N,void*out,size_t cap,unsigned threads){
  soxr_io_spec_t io=soxr_io_spec(it,ot); io.flags=SOXR_NO_DITHER; soxr_runtime_spec_t r=soxr_runtime_spec(threads); size_t id,od; soxr_error_t e=soxr_oneshot(ir,orr,ch,in,N,&id,out,cap,&od,&io,q,&r); if(e){printf("err %s\n",e);exit(2);} return od; }
int main(int argc,char**argv){ rs+=atoll(argv[1]); int iters=atoi(argv[2]); int bad=0; double rates[]={1,2,3,4,5,7,8,44100,48000,96000,8000,65537,3.14159};
 for(int it=0;it<iters;it++){ double ir=rates[rnd()%13],orr=rates[rnd()%13]; unsigned ch=2+rnd()%4; size_t N=100+rnd()%5000; unsigned long rec=rnd()%8; soxr_quality_spec_t q=soxr_quality_spec(rec,0);
   size_t cap=(size_t)(N*orr/ir)+10; double*chan[8],*och[8],*mono[8]; for(unsigned c=0;c<ch;c++){chan[c]=malloc(8*N);och[c]=malloc(8*cap);mono[c]=malloc(8*cap);for(size_t i=0;i<N;i++)chan[c][i]=sin(i*0.01*(c+1))*0.9;}
   /* mono refs */ size_t odm=0; for(unsigned c=0;c<ch;c++) odm=resample(ir,orr,1,SOXR_FLOAT64_I,SOXR_FLOAT64_I,&q,chan[c],N,mono[c],cap,1);
   /* split in, split out */ unsigned thr=rnd()%2; size_t od=resample(ir,orr,ch,SOXR_FLOAT64_S,SOXR_FLOAT64_S,&q,chan,N,och,cap,thr);
   if(od!=odm){printf("COUNT split %zu vs %zu\n",od,odm);bad++;} else for(unsigned c=0;c<ch;c++) if(memcmp(och[c],mono[c],8*od)){printf("DIFF split ch%u ir=%g or=%g rec=%lu thr=%u\n",c,ir,orr,rec,thr);bad++;break;}
   /* interleaved in, split out */ double*inter=malloc(8*N*ch),*ointer=malloc(8*cap*ch); for(size_t i=0;i<N;i++)for(unsigned c=0;c<ch;c++)inter[i*ch+c]=chan[c][i];
   od=resample(ir,orr,ch,SOXR_FLOAT64_I,SOXR_FLOAT64_S,&q,inter,N,och,cap,thr); for(unsigned c=0;c<ch&&od==odm;c++) if(memcmp(och[c],mono[c],8*od)){printf("DIFF I->S ch%u\n",c);bad++;break;}
   od=resample(ir,orr,ch,SOXR_FLOAT64_S,SOXR_FLOAT64_I,&q,chan,N,ointer,cap,thr); for(unsigned c=0;c<ch&&od==odm;c++){ for(size_t k=0;k<od;k++) if(ointer[k*ch+c]!=mono[c][k]){printf("DIFF S->I ch%u k=%zu\n",c,k);bad++;c=99;break;} }
   od=resample(ir,orr,ch,SOXR_FLOAT64_I,SOXR_FLOAT64_I,&q,inter,N,ointer,cap,thr); for(unsigned c=0;c<ch&&od==odm;c++){ for(size_t k=0;k<od;k++) if(ointer[k*ch+c]!=mono[c][k]){printf("DIFF I->I ch%u k=%zu\n",c,k);bad++;c=99;break;} }
   for(unsigned c=0;c<ch;c++){free(chan[c]);free(och[c]);free(mono[c]);} free(inter);free(ointer); }
 printf("bad=%d\n",bad); return 0; }
