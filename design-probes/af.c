#define _GNU_SOURCE
#include <stdio.h>
#include <stdlib.h>
#include <string.h>
#include <math.h>
#include <execinfo.h>
#include "soxr.h"
/* allocation failure injection via ld --wrap */
void *__real_malloc(size_t); void *__real_calloc(size_t,size_t); void *__real_realloc(void*,size_t);
static long counter=0, fail_at=-1; static int armed=0; static int report=0;
static int tick(const char*what,size_t sz){ if(!armed) return 0; counter++; if(report){ void*bt[6]; int n=backtrace(bt,6); fprintf(stderr,"ALLOC %ld %s %zu :",counter,what,sz); char**s=backtrace_symbols(bt,n); for(int i=2;i<n&&i<5;i++){ char*p=strchr(s[i],'('); fprintf(stderr," %s",p?p:s[i]); } fprintf(stderr,"\n"); }
  return counter==fail_at; }
void *__wrap_malloc(size_t n){ if(tick("malloc",n)) return 0; return __real_malloc(n); }
void *__wrap_calloc(size_t a,size_t b){ if(tick("calloc",a*b)) return 0; return __real_calloc(a,b); }
void *__wrap_realloc(void*p,size_t n){ if(tick("realloc",n)) return 0; return __real_realloc(p,n); }
int main(int argc,char**argv){ double ir=atof(argv[1]),orr=atof(argv[2]); unsigned long rec=strtoul(argv[3],0,0); double phase=atof(argv[4]); unsigned long fl=strtoul(argv[5],0,0); fail_at=atol(argv[6]); report=argc>7;
  soxr_quality_spec_t q=soxr_quality_spec(rec,fl); if(phase>=0)q.phase_response=phase; soxr_error_t e=0; static float in[30000],out[60000]; for(int i=0;i<30000;i++)in[i]=sinf(i*0.01f);
  armed=1; soxr_t s=soxr_create(ir,orr,2,&e,0,&q,0);
  if(!s){ armed=0; printf("RESULT create-error '%s' allocs=%ld\n",e,counter); return 0; }
  size_t id,od,tot=0; e=soxr_process(s,in,15000,&id,out,30000,&od); tot+=od; if(!e){ e=soxr_process(s,0,0,0,out,30000,&od); tot+=od; }
  if(!e) e=soxr_clear(s); if(!e){ e=soxr_process(s,in,1000,&id,out,30000,&od); }
  soxr_delete(s); armed=0; printf("RESULT %s '%s' allocs=%ld tot=%zu\n",e?"run-error":"ok",e?e:"",counter,tot); return 0; }
