import numpy as np
from num7 import imp
for (ir,orr,rec,p) in ((1,2,4,0),(1,4,6,0),(1,2,6,0),(1,8,4,0),(1,8,4,25),(1,3,4,0),(1,3,4,30)):
    hp,q=imp(ir,orr,rec,p); hq,_=imp(ir,orr,rec,100-p); c=int(2000*orr/ir); best=None
    for s in range(-3*int(orr/ir),3*int(orr/ir)+1):   # axis at c + s/2
        # hq[k] ?= hp[2c+s-k]
        K=1500; ks=np.arange(c-K,c+K); a=hq[ks]; b=hp[2*c+s-ks]; md=np.abs(a-b).max()
        if best is None or md<best[0]: best=(md,s)
    print(ir,orr,rec,p,"best mirror axis offset (half output samples)",best[1],"maxdiff",best[0])
