/-! Prototype: refinement invariant of a clocked windowed sampler (poly-fir0 / poly-fir / cubic pattern).
    Fine clock in units of 1/L input frames; output j reads the window of `n` frames at ⌊A_j/L⌋ with phase A_j % L,
    A_j = clk0 + j*step. Kernel `K phase window` arbitrary. -/
namespace Poly

structure Cfg where
  L : Nat
  step : Nat
  n : Nat          -- window length (taps)
  prePost : Nat
  isz : Nat
  clk0 : Nat
  hL : 0 < L
  hstep : 0 < step
  hmargin : n ≤ prePost + 1            -- margins clause
  hadv : step ≤ (prePost + 1) * L      -- advance clause: the read after the loop succeeds

variable {α : Type}

def canon (c : Cfg) (K : Nat → List α → α) (hist : List α) (j : Nat) : α :=
  K ((c.clk0 + j * c.step) % c.L) ((hist.drop ((c.clk0 + j * c.step) / c.L)).take c.n)

structure St (α : Type) where
  fifo : List α
  clk : Nat          -- fine position relative to the read pointer
  outs : List α      -- ghost: everything produced
  consumed : Nat     -- ghost

def count (c : Cfg) (clk numIn : Nat) : Nat := (numIn * c.L - clk + c.step - 1) / c.step

def stepFn (c : Cfg) (K : Nat → List α → α) (s : St α) : St α :=
  let numIn := min (s.fifo.length - c.prePost) c.isz
  let cnt := count c s.clk numIn
  let clk' := s.clk + cnt * c.step
  { fifo := s.fifo.drop (clk' / c.L)
    clk := clk' % c.L
    outs := s.outs ++ (List.range cnt).map (fun k => K ((s.clk + k * c.step) % c.L) ((s.fifo.drop ((s.clk + k * c.step) / c.L)).take c.n))
    consumed := s.consumed + clk' / c.L }

def feed (s : St α) (xs : List α) : St α := { s with fifo := s.fifo ++ xs }

structure Inv (c : Cfg) (K : Nat → List α → α) (s : St α) (hist : List α) : Prop where
  fifo_eq : s.fifo = hist.drop s.consumed
  cons_le : s.consumed ≤ hist.length
  clock : s.consumed * c.L + s.clk = c.clk0 + s.outs.length * c.step
  outs_eq : s.outs = (List.range s.outs.length).map (canon c K hist)
  safe : ∀ j, j < s.outs.length → (c.clk0 + j * c.step) / c.L + c.n ≤ hist.length

theorem canon_append (c : Cfg) (K : Nat → List α → α) (hist more : List α) (j : Nat)
    (h : (c.clk0 + j * c.step) / c.L + c.n ≤ hist.length) :
    canon c K (hist ++ more) j = canon c K hist j := by
  unfold canon
  rw [List.drop_append_of_le_length (by omega)]
  rw [List.take_append_of_le_length (by simp; omega)]

theorem inv_feed (c : Cfg) (K : Nat → List α → α) (s : St α) (hist xs : List α) (h : Inv c K s hist) :
    Inv c K (feed s xs) (hist ++ xs) := by
  refine ⟨?_, ?_, h.clock, ?_, ?_⟩
  · simp [feed, h.fifo_eq, List.drop_append_of_le_length h.cons_le]
  · show s.consumed ≤ (hist ++ xs).length
    rw [List.length_append]; have := h.cons_le; omega
  · show s.outs = (List.range s.outs.length).map (canon c K (hist ++ xs))
    have e : (List.range s.outs.length).map (canon c K (hist ++ xs)) = (List.range s.outs.length).map (canon c K hist) := by
      apply List.map_congr_left
      intro j hj
      simp only [List.mem_range] at hj
      exact canon_append c K hist xs j (h.safe j hj)
    rw [e]; exact h.outs_eq
  · intro j hj
    have := h.safe j hj
    show _ ≤ (hist ++ xs).length
    rw [List.length_append]; omega

/-- outputs are produced only while the clock is below the limit -/
theorem count_spec (c : Cfg) (clk numIn k : Nat) (hk : k < count c clk numIn) : clk + k * c.step < numIn * c.L := by
  unfold count at hk
  have hs := c.hstep
  by_cases h : clk < numIn * c.L
  · have : (k + 1) * c.step ≤ numIn * c.L - clk + c.step - 1 := by
      have := (Nat.le_div_iff_mul_le hs).mp (Nat.succ_le_of_lt hk)
      simpa [Nat.succ_mul] using this
    rw [Nat.add_mul] at this
    omega
  · have : numIn * c.L - clk + c.step - 1 < c.step := by omega
    rw [Nat.div_eq_of_lt this] at hk
    omega

/-- after the loop the clock is at or beyond the limit (if anything was available) but by less than one step -/
theorem count_end (c : Cfg) (clk numIn : Nat) : clk + count c clk numIn * c.step < numIn * c.L + c.step ∨ numIn * c.L ≤ clk := by
  unfold count
  have hs := c.hstep
  by_cases h : clk < numIn * c.L
  · left
    have := Nat.div_mul_le_self (numIn * c.L - clk + c.step - 1) c.step
    omega
  · right; omega

theorem inv_step (c : Cfg) (K : Nat → List α → α) (s : St α) (hist : List α) (h : Inv c K s hist)
    (hclk : s.clk < c.L) : Inv c K (stepFn c K s) hist := by
  have hlen : s.fifo.length = hist.length - s.consumed := by rw [h.fifo_eq]; simp
  have hL := c.hL
  -- abbreviations
  generalize hnum : min (s.fifo.length - c.prePost) c.isz = numIn
  generalize hcnt : count c s.clk numIn = cnt
  have hnumle : numIn ≤ s.fifo.length - c.prePost := by rw [← hnum]; exact Nat.min_le_left _ _
  -- the read after the loop stays inside the fifo
  have hread : (s.clk + cnt * c.step) / c.L ≤ s.fifo.length := by
    rcases count_end c s.clk numIn with he | he
    · rw [hcnt] at he
      have h1 : s.clk + cnt * c.step < (numIn + (c.prePost + 1)) * c.L := by
        have := c.hadv; rw [Nat.add_mul]; omega
      have h2 := (Nat.div_lt_iff_lt_mul hL).mpr h1
      by_cases hz : numIn = 0
      · -- nothing available: cnt = 0 and clk < L, so the quotient is 0
        have : cnt = 0 := by
          rw [← hcnt]; unfold count; subst hz
          apply Nat.div_eq_of_lt; have := c.hstep; omega
        subst this
        have : s.clk / c.L = 0 := Nat.div_eq_of_lt hclk
        simp [this]
      · omega
    · have : cnt = 0 := by
        rw [← hcnt]; unfold count
        apply Nat.div_eq_of_lt; have := c.hstep; omega
      subst this
      have : s.clk / c.L = 0 := Nat.div_eq_of_lt hclk
      simp [this]
  refine ⟨?_, ?_, ?_, ?_, ?_⟩
  · simp only [stepFn, hcnt, h.fifo_eq, List.drop_drop]
  · simp only [stepFn, hnum, hcnt]; have := h.cons_le; omega
  · simp only [stepFn, hnum, hcnt, List.length_append, List.length_map, List.length_range]
    have := h.clock
    have hdm := Nat.div_add_mod (s.clk + cnt * c.step) c.L
    rw [Nat.add_mul, Nat.add_mul]
    have : (s.clk + cnt * c.step) / c.L * c.L = c.L * ((s.clk + cnt * c.step) / c.L) := Nat.mul_comm _ _
    omega
  · simp only [stepFn, hnum, hcnt, List.length_append, List.length_map, List.length_range]
    rw [List.range_add, List.map_append]
    congr 1
    · exact h.outs_eq
    · rw [List.map_map]
      apply List.map_congr_left
      intro k _
      simp only [Function.comp, canon, h.fifo_eq, List.drop_drop]
      have hc := h.clock
      have e : c.clk0 + (s.outs.length + k) * c.step = s.clk + k * c.step + c.L * s.consumed := by
        rw [Nat.add_mul]; have : s.consumed * c.L = c.L * s.consumed := Nat.mul_comm _ _; omega
      rw [e, Nat.add_mul_mod_self_left, Nat.add_mul_div_left _ _ hL]
      congr 3
      omega
  · intro j hj
    simp only [stepFn, hnum, hcnt, List.length_append, List.length_map, List.length_range] at hj
    by_cases hj' : j < s.outs.length
    · exact h.safe j hj'
    · obtain ⟨k, rfl⟩ : ∃ k, j = s.outs.length + k := ⟨j - s.outs.length, by omega⟩
      have hk : k < cnt := by omega
      have hpos := count_spec c s.clk numIn k (by rw [hcnt]; exact hk)
      have hc := h.clock
      have e : c.clk0 + (s.outs.length + k) * c.step = s.clk + k * c.step + c.L * s.consumed := by
        rw [Nat.add_mul]; have : s.consumed * c.L = c.L * s.consumed := Nat.mul_comm _ _; omega
      rw [e, Nat.add_mul_div_left _ _ hL]
      have h3 : (s.clk + k * c.step) / c.L < numIn := (Nat.div_lt_iff_lt_mul hL).mpr hpos
      generalize (s.clk + k * c.step) / c.L = qk at h3 ⊢
      have := c.hmargin
      have := h.cons_le
      omega
end Poly

#print axioms Poly.inv_step
