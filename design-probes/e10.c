#include <stdio.h>
#include <stdlib.h>
#include <string.h>
#include "soxr.h"
int main(int argc,char**argv){ int stale=atoi(argv[1]); int n=atoi(argv[2]);
  soxr_error_t err; soxr_io_spec_t io=soxr_io_spec(SOXR_FLOAT32_I,SOXR_INT16_I); io.flags=SOXR_NO_DITHER;
  soxr_t s=soxr_create(1,1,1,&err,&io,0,0);
  float in[64]; short out[64]; for(int i=0;i<64;i++)in[i]=0.25f; size_t id,od;
  if(stale){ volatile double big=1e30; short t; __asm__ __volatile__("fistps %0":"=m"(t):"t"(big):"st"); }
  err=soxr_process(s,in,n,&id,out,n,&od);
  printf("stale=%d n=%d od=%zu out0=%d out1=%d clips=%zu\n",stale,n,od,out[0],od>1?out[1]:0,*soxr_num_clips(s));
  soxr_delete(s);return 0;}
