import numpy as np, math
from spec1 import lib, resample
for rec in (1,4,6,7):
    q=lib.soxr_quality_spec(rec,0); lim=2.0**(1-q.precision)
    N=20000; t=np.arange(N)
    for (ir,orr,M,L) in ((5,1,5,1),(8,1,8,1),(7,3,7,3),(16,1,16,1),(1,16,1,16),(44100,48000,147,160),(96000,44100,320,147)):
        fp=q.passband_end*min(1,orr/ir)*0.9; xb=(0.3*np.sin(math.pi*fp*0.7*t)+0.25*np.sin(math.pi*fp*0.33*t+1))
        rx=resample(xb,ir,orr,q); rs=resample(np.concatenate([xb[:M]*0,xb]),ir,orr,q)  # NB: shifted copy of same sinusoid => phase differs; instead shift tone phase
        # proper test: x'(n) = x(n-M) as continuous sinusoid (steady-state), i.e. generate shifted sinusoid
        xs=(0.3*np.sin(math.pi*fp*0.7*(t-M))+0.25*np.sin(math.pi*fp*0.33*(t-M)+1))
        rs=resample(xs,ir,orr,q); m=min(len(rs)-L,len(rx)); a=int(m*0.3); b=int(m*0.7)
        d=np.abs(rs[L+a:L+b]-rx[a:b]).max()
        print("rec",rec,ir,orr,"steady-state shift",M,L,"maxdiff/lim=%.3g"%(d/lim))
