import numpy as np, math, sys
from spec1 import lib, resample
np.random.seed(1)
q=lib.soxr_quality_spec(4,0); lim=2.0**(1-q.precision)
N=6000; x=np.random.uniform(-0.5,0.5,N)
for (ir,orr,M,L) in ((2,1,2,1),(3,1,3,1),(4,1,4,1),(1,2,1,2),(8,1,8,1),(5,1,10,2)):
    rx=resample(x,ir,orr,q); rs=resample(np.concatenate([np.zeros(M),x]),ir,orr,q); m=min(len(rs)-L,len(rx)); d=np.abs(rs[L:L+m]-rx[:m])
    big=np.nonzero(d>10*lim)[0]
    print(ir,orr,"shift",M,L,"max/lim=%.3g"%(d.max()/lim),"n_big",len(big),"first/last big",(big[0],big[-1]) if len(big) else None,"len",m)
