import subprocess, itertools, random, sys
random.seed(1)
rates=[8000,11025,16000,22050,32000,44100,48000,88200,96000,176400,192000,65537,44101,1,2,3,4,5,6,7,8,9,10,12,16,32,64,100,128,256,1000,1024,3.14159,2.71828,1.41421356,1.0001,0.99999]
cfgs=[]
for _ in range(int(sys.argv[1])):
    ir=random.choice(rates); orr=random.choice(rates)
    if ir/orr>30000 or orr/ir>30000: continue
    rec=random.choice([0,1,2,3,4,5,6,7,4|0x40,6|0x40,4|0x10,4|0x30,6|0x30])
    ph=random.choice([-1,-1,-1,0,25,50,75,100,10,90])
    fl=random.choice([0,0,8,16,1,2])
    cfgs.append((ir,orr,rec,ph,fl))
out=open(sys.argv[2],'w')
for c in cfgs:
    try:
        r=subprocess.run(['./p1']+[str(x) for x in c],capture_output=True,text=True,timeout=20)
        out.write(r.stdout)
    except subprocess.TimeoutExpired:
        out.write("TIMEOUT %s\n"%(c,))
