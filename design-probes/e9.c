#include <stdio.h>
#include <stdlib.h>
#include <string.h>
#include <math.h>
#include "soxr.h"
static unsigned long long rs=88172645463325252ULL; static unsigned long long rnd(void){rs^=rs<<13;rs^=rs>>7;rs^=rs<<17;return rs;}
static double rates[]={8000,11025,16000,22050,32000,44100,48000,88200,96000,176400,192000,65537,1,2,3,4,5,6,7,8,9,10,16,64,100,1000,44101,3.14159,2.71828};
int main(int argc,char**argv){ rs+=atoll(argv[1]); int iters=atoi(argv[2]); int bad=0;
 for(int it=0;it<iters;it++){
  double ir=rates[rnd()%29], orr=rates[rnd()%29]; if(ir/orr>2000||orr/ir>300) continue;
  unsigned long recipe=rnd()%8; unsigned long flags=0; if(rnd()%4==0)flags|=SOXR_HI_PREC_CLOCK; int rolloff=rnd()%3; 
  soxr_quality_spec_t q=soxr_quality_spec(recipe|(rnd()%4==0?SOXR_STEEP_FILTER:0),flags);
  size_t N=rnd()%30000; if(rnd()%5==0)N=rnd()%50;
  soxr_io_spec_t io=soxr_io_spec(SOXR_FLOAT64_I,SOXR_FLOAT64_I);
  soxr_error_t err; soxr_t s=soxr_create(ir,orr,1,&err,&io,&q,0); if(!s){printf("create err %s ir=%g or=%g rec=%lu\n",err,ir,orr,recipe);continue;}
  double*in=malloc(8*(N+1)); for(size_t i=0;i<N;i++)in[i]=sin(i*0.01)*0.7;
  double expect=floor(N*orr/ir+.5); size_t cap=(size_t)expect+100; double*o1=malloc(8*cap),*o2=malloc(8*cap); size_t id,od1;
  err=soxr_oneshot(ir,orr,1,in,N,&id,o1,cap,&od1,&io,&q,0);
  if(od1!=(size_t)expect){printf("ONESHOT COUNT ir=%g or=%g rec=%lu N=%zu od=%zu exp=%.0f\n",ir,orr,recipe,N,od1,expect);bad++;}
  size_t pos=0,tot=0; int flushed=0; size_t maxc= 1+rnd()%(rnd()%2?50:9000);
  for(int guard=0;guard<10000000;guard++){
    size_t il=rnd()%maxc, ol=rnd()%maxc; if(il>N-pos)il=N-pos; if(ol>cap-tot)ol=cap-tot; size_t od=0; id=0;
    double d0=soxr_delay(s);
    if(!flushed){ double rem=(double)(N-pos)*orr/ir; double pred=tot+floor(d0+rem+.5); if(fabs(pred-expect)>0.5){printf("DELAY-REL ir=%g or=%g rec=%lu N=%zu pos=%zu tot=%zu d=%g pred=%.0f exp=%.0f\n",ir,orr,recipe,N,pos,tot,d0,pred,expect);bad++;break;} if(d0< -1){printf("DELAY<-1 %g\n",d0);bad++;} }
    else { if(fabs(tot+d0-expect)>1e-9){printf("DELAY-FLUSH ir=%g or=%g rec=%lu N=%zu tot=%zu d=%g exp=%.0f\n",ir,orr,recipe,N,tot,d0,expect);bad++;break;} }
    if(pos<N || rnd()%3){ if(pos==N && rnd()%2==0){ err=soxr_process(s,NULL,0,NULL,o2+tot,ol,&od); flushed=1;} else { int useid=rnd()%2; err=soxr_process(s,in+pos,il,useid?&id:NULL,o2+tot,ol,&od); if(!useid)id=il; } }
    else { err=soxr_process(s,NULL,0,NULL,o2+tot,ol,&od); flushed=1; }
    pos+=id; tot+=od;
    if(!flushed && tot>ceil(pos*orr/ir)){printf("EARLY ir=%g or=%g rec=%lu N=%zu pos=%zu tot=%zu\n",ir,orr,recipe,N,pos,tot);bad++;break;}
    if(flushed && od==0 && ol>0) break;
  }
  if(tot!=(size_t)expect){printf("STREAM COUNT ir=%g or=%g rec=%lu N=%zu tot=%zu exp=%.0f\n",ir,orr,recipe,N,tot,expect);bad++;}
  else if(memcmp(o1,o2,8*tot)){ size_t k=0; while(o1[k]==o2[k])k++; printf("DIFF ir=%g or=%g rec=%lu N=%zu at %zu: %g vs %g\n",ir,orr,recipe,N,k,o1[k],o2[k]);bad++;}
  soxr_delete(s);free(in);free(o1);free(o2);
 }
 printf("bad=%d\n",bad); return bad!=0; }
