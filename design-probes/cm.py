import sys, math, struct
def kv(line):
    d={}
    for tok in line.split()[1:]:
        if '=' in tok:
            k,v=tok.split('=',1); d[k]=v
    return d
def ispow2(x): return x>=2 and (x&(x-1))==0
M32=1<<32
class Eng:
    def __init__(s,plan,stages):
        s.io_ratio=float(plan['io_ratio']); s.k=len(stages); s.st=stages
        s.occ=[int(x['preload']) for x in stages]+[0]
        s.at=[int(x['at'].split('/')[0]) for x in stages]; s.atls=[int(x['at'].split('/')[1]) for x in stages]
        s.step=[int(x['step'].split('/')[0]) for x in stages]; s.stepls=[int(x['step'].split('/')[1]) for x in stages]
        s.remM=[0]*s.k; s.isz=[int(x['input_size']) for x in stages]
        s.sin=0; s.sout=0; s.fl=False; s.fuel=0
    def fn(s,i):
        x=s.st[i]; k=x['kind']; occ=s.occ[i]; pp=int(x['pre_post']); L=int(x['L'])
        if k=='half':
            num_in=min(max(0,occ-pp),s.isz[i]); no=(num_in+1)>>1; s.occ[i+1]+=no; s.occ[i]-=2*no
        elif k=='cubic' or (k in('poly1','poly2','poly3') and not int(x['hiprec'])):
            num_in=min(max(0,occ-pp),s.isz[i]); at=s.at[i]; st=s.step[i]; lim=num_in*M32
            cnt=(lim-at+st-1)//st if at<lim else 0
            at+=cnt*st; s.occ[i+1]+=cnt; ai=at>>32
            if ai<=s.occ[i]: s.occ[i]-=ai
            else: print("FIFO_READ FAIL",i)
            s.at[i]=at&(M32-1)
        elif k in('poly1','poly2','poly3'):
            num_in=min(max(0,occ-pp),s.isz[i]); at=(s.at[i]<<64)|s.atls[i]; st=(s.step[i]<<64)|s.stepls[i]; lim=num_in<<96
            cnt=(lim-at+st-1)//st if at<lim else 0
            at+=cnt*st; s.occ[i+1]+=cnt; ai=at>>96
            if ai<=s.occ[i]: s.occ[i]-=ai
            else: print("FIFO_READ FAIL",i)
            at&=(1<<96)-1; s.at[i]=at>>64; s.atls[i]=at&((1<<64)-1)
        elif k=='poly0':
            num_in=min(max(0,occ-pp),s.isz[i])
            if num_in:
                at=s.at[i]>>32; st=s.step[i]>>32
                no=(num_in*L-at+st-1)//st; at+=no*st; s.occ[i+1]+=no; s.occ[i]-=at//L; s.at[i]=(at%L)<<32
        elif k=='dft':
            dl=int(x['dft_length']); nt=int(x['num_taps']); ov=nt-1; bl=dl-ov; ati=s.at[i]>>32; num_in=max(0,occ); Mm=s.step[i]>>32
            if Mm>=(1<<31): Mm-=1<<32
            if ati+L*num_in>=dl:
                quot,rem=divmod(dl-ov-ati+L-1,L); s.occ[i]-=quot
                if ispow2(L): pass
                elif L==1: pass
                else: ati=L-1-rem
                if Mm>0:
                    if Mm==1: s.occ[i+1]+=bl
                    else:
                        r=s.remM[i]; j=(bl-r+Mm-1)//Mm if r<bl else 0; s.remM[i]=r+j*Mm-bl; s.occ[i+1]+=j
                else:
                    m=-Mm; s.occ[i+1]+=dl-((((1<<m)-1)*dl+ov)>>m)
                s.at[i]=(ati<<32)|(s.at[i]&(M32-1))
            s.isz[i]=(dl-ati+L-1)//L
        else: raise Exception(k)
    def stage_process(s,i):
        done=False
        while not done:
            want=s.isz[i]-s.occ[i]
            if want<=0: break
            s.fuel+=1
            if i==0:
                if s.fl: s.occ[0]+=want
                else: done=True
            else: done=s.stage_process(i-1)
        s.fn(i); s.fuel+=1
        return done and s.occ[i]<s.isz[i]
    def process(s,olen):
        n=min(-s.sout,olen) if s.fl else olen
        done=False
        while not done and s.occ[s.k]<n:
            done = (s.k==0) or s.stage_process(s.k-1)
    def inp(s,n):
        if s.fl: return
        s.sin+=n; s.occ[0]+=n
    def out(s,n0):
        n=min(-s.sout,n0) if s.fl else n0
        n=min(n,s.occ[s.k]); s.sout+=n; s.occ[s.k]-=n; return n
    def flush(s):
        if s.fl: return
        s.sout-=int(s.sin/s.io_ratio+.5); s.sin=0; s.fl=True
    def delay(s): return s.sin/s.io_ratio-s.sout
class Api:
    def __init__(s,eng): s.e=eng; s.flushing=False
    def proc(s,has_in,ilen0,useid,olen):
        fr=False
        if not has_in: fr=True; ilen=ilen0=0
        else: ilen=min(math.ceil(olen*s.e.io_ratio),ilen0) if useid else ilen0
        s.flushing = s.flushing or (ilen==ilen0 and fr)
        idone=0
        if ilen: s.e.inp(ilen); idone=ilen
        if s.flushing: s.e.flush()
        s.e.process(olen); od=s.e.out(olen)
        return idone,od
def run(fn):
    lines=open(fn).read().split('\n'); i=0; bad=0; ncalls=0
    cfg=kv(lines[0]); plan=kv(lines[1]); k=int(plan['nstages']); stages=[kv(l) for l in lines[2:2+k]]; i=2+k
    api=Api(Eng(plan,stages))
    while i<len(lines) and lines[i]:
        l=lines[i]; d=kv(l)
        if l.startswith('PROC'): idn,od=api.proc(True,int(d['il']),int(d['useid']),int(d['ol'])); exp=(int(d['id']),int(d['od']))
        else: idn,od=api.proc(False,0,0,int(d['ol'])); exp=(0,int(d['od']))
        ncalls+=1
        st=kv(lines[i+1]); dl=float(lines[i+2].split()[1]); e=api.e
        got="%d %d %d %s %s %s %s"%(e.sin,e.sout,int(e.fl),','.join(map(str,e.occ))+',',','.join(map(str,e.at))+(',' if e.k else ''),','.join(map(str,e.remM))+(',' if e.k else ''),','.join(map(str,e.isz))+(',' if e.k else ''))
        ref="%s %s %s %s %s %s %s"%(st['in'],st['out'],st['fl'],st['occ'],st.get('at',''),st.get('remM',''),st.get('isz',''))
        if (idn,od)!=exp or got!=ref or abs(e.delay()-dl)>1e-9*max(1,abs(dl)):
            bad+=1
            if bad<3: print("MISMATCH at line",i,l,"\n  model",(idn,od),got,e.delay(),"\n  real ",exp,ref,dl)
        i+=3
    return bad,ncalls,cfg
if __name__=='__main__':
    b,n,cfg=run(sys.argv[1]); print("calls",n,"bad",b)
