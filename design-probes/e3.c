#include <stdio.h>
#include <stdlib.h>
#include <string.h>
#include "soxr.h"
int main(int argc,char**argv){
  size_t olen=argc>1?atol(argv[1]):1; 
  soxr_error_t err; soxr_io_spec_t io=soxr_io_spec(SOXR_INT16_I,SOXR_INT16_I);
  soxr_t s=soxr_create(2,1,1,&err,&io,0,0);
  short*in=malloc(2*100); memset(in,0,200); short*out=malloc(2*olen); size_t id,od;
  err=soxr_process(s,in,100,&id,out,olen,&od);
  printf("id=%zu od=%zu err=%s\n",id,od,err?err:"none");
  soxr_delete(s);free(in);free(out);return 0;}
