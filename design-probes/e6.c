#include <stdio.h>
#include <stdlib.h>
#include <string.h>
#include <math.h>
#include "soxr.h"
int main(int argc,char**argv){
  double ir=atof(argv[1]),orr=atof(argv[2]); unsigned long recipe=strtoul(argv[3],0,0); unsigned mn=atoi(argv[4]), lg=atoi(argv[5]); size_t N=2000;
  soxr_error_t err; soxr_quality_spec_t q=soxr_quality_spec(recipe,0); soxr_runtime_spec_t r=soxr_runtime_spec(1); r.log2_min_dft_size=mn; r.log2_large_dft_size=lg;
  soxr_t s=soxr_create(ir,orr,1,&err,0,&q,&r);
  if(!s){printf("create: %s\n",err);return 0;}
  float*in=calloc(N,4); for(size_t i=0;i<N;i++)in[i]=sinf(i*0.01f); size_t on=(size_t)(N*orr/ir+10); float*out=malloc(4*on); size_t id,od;
  err=soxr_process(s,in,~N,&id,out,on,&od);
  printf("%s id=%zu od=%zu err=%s\n",soxr_engine(s),id,od,err?err:"none");
  soxr_delete(s);free(in);free(out);return 0;}
