#include "soxr.c"
#include <stdio.h>
struct rate; void _soxr_verif_plan(struct rate * p, FILE * f); void _soxr_verif_state(struct rate * p, FILE * f);
static unsigned long long rs=88172645463325252ULL; static unsigned long long rnd(void){rs^=rs<<13;rs^=rs>>7;rs^=rs<<17;return rs;}
int main(int argc,char**argv){ double ir=atof(argv[1]),orr=atof(argv[2]); unsigned long rec=strtoul(argv[3],0,0); double phase=atof(argv[4]); unsigned long fl=strtoul(argv[5],0,0); rs+=atoll(argv[6]); size_t N=atol(argv[7]);
  soxr_quality_spec_t q=soxr_quality_spec(rec,fl); if(phase>=0)q.phase_response=phase; soxr_io_spec_t io=soxr_io_spec(SOXR_FLOAT64_I,SOXR_FLOAT64_I); soxr_error_t e; soxr_t s=soxr_create(ir,orr,1,&e,&io,&q,0); if(!s){printf("ERR %s\n",e);return 0;}
  printf("CFG ir=%s or=%s rec=%lu phase=%g flags=%lu engine=%s\n",argv[1],argv[2],rec,q.phase_response,fl,soxr_engine(s)); _soxr_verif_plan((struct rate*)s->resamplers[0],stdout);
  size_t maxc=2+rnd()%(rnd()%2?60:12000); double*in=calloc(N+1,8); size_t cap=maxc+1; double*out=malloc(8*cap); size_t pos=0; int flushed=0;
  for(int g=0;g<200000;g++){ size_t il=rnd()%maxc, ol=rnd()%maxc; if(il>N-pos)il=N-pos; size_t id=0,od=0; int useid=rnd()%2;
    if(pos<N || rnd()%4){ if(pos==N && rnd()%2==0){ soxr_process(s,NULL,0,NULL,out,ol,&od); flushed=1; printf("FLUSH ol=%zu od=%zu\n",ol,od);} else { soxr_process(s,in+pos,il,useid?&id:NULL,out,ol,&od); if(!useid)id=il; printf("PROC il=%zu ol=%zu useid=%d id=%zu od=%zu\n",il,ol,useid,id,od);} }
    else { soxr_process(s,NULL,0,NULL,out,ol,&od); flushed=1; printf("FLUSH ol=%zu od=%zu\n",ol,od); }
    pos+=id; _soxr_verif_state((struct rate*)s->resamplers[0],stdout); printf("DELAY %.17g\n",soxr_delay(s));
    if(flushed && od==0 && ol>0) break; }
  soxr_delete(s); return 0; }
