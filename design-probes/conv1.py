import ctypes, numpy as np, random, struct
from fractions import Fraction
lib=ctypes.CDLL('/tmp/exp/libsoxr_exp.so')
def rhe(x):  # round half even of Fraction
    f=x.numerator//x.denominator; r=x-f
    if r<Fraction(1,2): return f
    if r>Fraction(1,2): return f+1
    return f if f%2==0 else f+1
def ref(vals,bits):
    mx=(1<<(bits-1))-1; mn=-mx-1; out=[];clips=0
    for v in vals:
        if v!=v: out.append(mn); clips+=1; continue
        if v in (float('inf'),float('-inf')): out.append(mx if v>0 else mn); clips+=1; continue
        r=rhe(Fraction(v))
        if r>mx: out.append(mx);clips+=1
        elif r<mn: out.append(mn);clips+=1
        else: out.append(r)
    return out,clips
def call(fn,dtype_code,vals,ftype,otype,ch=1):
    n=len(vals)//ch
    # src: array of ch pointers to channel arrays
    chans=[np.ascontiguousarray(vals[c::ch],dtype=ftype) for c in range(ch)]
    ptrs=(ctypes.c_void_p*ch)(*[c.ctypes.data for c in chans])
    out=np.zeros(n*ch,dtype=otype); dest=ctypes.c_void_p(out.ctypes.data)
    f=getattr(lib,fn); f.restype=ctypes.c_size_t
    clips=f(ctypes.c_int(dtype_code),ctypes.byref(dest),ptrs,ctypes.c_size_t(n),ctypes.c_uint(ch),None)
    return out,clips
def gen(ftype,bits,N):
    vals=[]
    lim=float(1<<(bits-1))
    specials=[0.0,-0.0,0.5,-0.5,1.5,-1.5,2.5,-2.5,0.49999997,0.50000006,lim-1,lim-0.5,lim-1.5,lim,lim+0.5,-lim,-lim-0.5,-lim+0.5,-lim-1,lim*2,-lim*2,1e30,-1e30,float('inf'),float('-inf'),float('nan'),lim-0.75,lim-0.25,-lim-0.25,-lim-0.75, 1e-40,-1e-40]
    while len(vals)<N:
        c=random.random()
        if c<0.3: vals.append(random.choice(specials))
        elif c<0.6: vals.append(random.uniform(-lim*1.01,lim*1.01))
        elif c<0.8: vals.append(random.randrange(-int(lim)-2,int(lim)+2)+random.choice([0,0.5,-0.5,0.25]))
        else: vals.append(random.uniform(-5,5))
    a=np.array(vals,dtype=ftype)
    return a
random.seed(5); bad=0; tot=0
for fn,ftype in (('_soxr_interleave_f',np.float32),('_soxr_interleave',np.float64)):
    for code,bits,otype in ((2,32,np.int32),(3,16,np.int16)):
        for ch in (1,2,3):
            for n in list(range(0,40))+[100,257]:
                a=gen(ftype,bits,n*ch); 
                out,clips=call(fn,code,a,ftype,otype,ch)
                # expected: interleaved out[j*ch+c] = conv(chan c [j]) where chan c = a[c::ch]
                exp=[];ec=0
                for c in range(ch):
                    o,k=ref([float(v) for v in a[c::ch]],bits); ec+=k
                    exp.append(o)
                ok=True
                for c in range(ch):
                    for j in range(n):
                        tot+=1
                        if int(out[j*ch+c])!=exp[c][j]:
                            ok=False
                            if bad<10: print("MISMATCH",fn,bits,ch,n,"val",repr(float(a[c::ch][j])),"got",int(out[j*ch+c]),"exp",exp[c][j])
                            bad+=1
                if clips!=ec:
                    print("CLIPS",fn,bits,ch,n,clips,ec); bad+=1
print("samples",tot,"bad",bad)
