#include <stdio.h>
#include <stdlib.h>
#include <string.h>
#include <math.h>
#include "soxr.h"
int main(int argc,char**argv){ soxr_error_t e; soxr_quality_spec_t q=soxr_quality_spec(SOXR_HQ,SOXR_VR); soxr_t s=soxr_create(8,1,1,&e,0,&q,0);
  size_t N=200000; float*in=malloc(4*N); for(size_t i=0;i<N;i++)in[i]=(float)(i*(1.0/65536)); float*out=malloc(4*100000); size_t pos=0,tot=0,id,od;
  soxr_set_io_ratio(s,4.0,0);
  #define RUN(n) { size_t want=(n); while(want){ size_t ol=want<50?want:50; soxr_process(s,in+pos,N-pos<400?N-pos:400,&id,out+tot,ol,&od); pos+=id; tot+=od; want-=od; if(!od&&!id)break; } }
  RUN(2000); size_t a=tot;
  soxr_set_io_ratio(s,1.0,5000); RUN(100); size_t b=tot;
  soxr_set_io_ratio(s,3.9,0); RUN(6000);
  printf("tot=%zu pos=%zu\n",tot,pos);
  for(size_t k=a-200;k+100<tot;k+=( k<b+1500?100:500)){ double d=(out[k+100]-out[k])*65536/100; printf("k=%zu ratio~%.3f\n",k,d); }
  soxr_delete(s); free(in); free(out); return 0; }
