#include <stdio.h>
#include <stdlib.h>
#include <string.h>
#include <math.h>
#include "soxr.h"
static unsigned long long rs=88172645463325252ULL; static unsigned long long rnd(void){rs^=rs<<13;rs^=rs>>7;rs^=rs<<17;return rs;}
int main(int argc,char**argv){ rs+=atoll(argv[1]); int iters=atoi(argv[2]); double rates[]={1,2,3,4,5,7,8,16,64,256,1024,4096,8192,44100,48000,96000,8000,65537,3.14159,1.0001};
 for(int it=0;it<iters;it++){ double ir=rates[rnd()%20],orr=rates[rnd()%20]; if(ir/orr>9000||orr/ir>9000)continue; unsigned long rec=rnd()%8; unsigned long qf=(rnd()%4==0?8:0)|(rnd()%4==0?16:0)|(rnd()%3);
   soxr_quality_spec_t q=soxr_quality_spec(rec|(rnd()%5==0?0x40:0),qf); soxr_runtime_spec_t r=soxr_runtime_spec(1); r.log2_min_dft_size=8+rnd()%8; r.log2_large_dft_size=8+rnd()%13; r.coef_size_kbytes=100+rnd()%701; r.flags=(rnd()%4)|((rnd()%2)<<3);
   size_t N=rnd()%3000; if(orr/ir>100)N=rnd()%50; if(ir/orr>100)N=rnd()%200000;
   printf("cfg ir=%g or=%g rec=%lu qf=%lu min=%u large=%u coef=%u rflags=%lu N=%zu\n",ir,orr,rec,qf,r.log2_min_dft_size,r.log2_large_dft_size,r.coef_size_kbytes,r.flags,N); fflush(stdout);
   soxr_error_t e; soxr_t s=soxr_create(ir,orr,1,&e,0,&q,&r); if(!s){printf(" create err: %s\n",e);continue;}
   float*in=calloc(N+1,4); for(size_t i=0;i<N;i++)in[i]=sinf(i*0.01f); size_t cap=(size_t)(N*orr/ir+2); float*out=malloc(4*(cap+1)); size_t id,od; e=soxr_process(s,in,~N,&id,out,cap,&od);
   double ex=floor(N*orr/ir+.5); if(e||od!=(size_t)ex) printf(" RESULT err=%s od=%zu expect=%.0f\n",e?e:"none",od,ex);
   soxr_delete(s);free(in);free(out); }
 return 0; }
