#include <stdio.h>
#include <stdlib.h>
#include <string.h>
#include "soxr.h"
static float buf[4096]; static int calls; static size_t lastreq;
static size_t infn(void*st, soxr_in_t*data, size_t req){ calls++; lastreq=req; *data=buf; return req>100?100:req; }
int main(){ soxr_error_t err; soxr_t s=soxr_create(1,2,1,&err,0,0,0); soxr_set_input_fn(s,infn,0,64);
  float out[5000]; size_t od=soxr_output(s,out,3000); printf("before clear: od=%zu calls=%d lastreq=%zu\n",od,calls,lastreq);
  soxr_clear(s); calls=0; od=soxr_output(s,out,3000); printf("after clear: od=%zu calls=%d lastreq=%zu err=%s\n",od,calls,lastreq,soxr_error(s)?soxr_error(s):"none");
  od=soxr_output(s,out,3000); printf("again: od=%zu calls=%d\n",od,calls);
  soxr_delete(s); return 0; }
