#include <stdio.h>
#include <stdlib.h>
#include <string.h>
#include <math.h>
#include "soxr.h"
static unsigned long long rs=88172645463325252ULL; static unsigned long long rnd(void){rs^=rs<<13;rs^=rs>>7;rs^=rs<<17;return rs;}
/* VR schedule invariance: ratio r0, at output frame S set ratio r1 with slew; vary chunking */
static size_t run(double mx,double r0,double r1,size_t slew,size_t S,float*in,size_t N,float*out,size_t cap,int randomchunks){
  soxr_error_t e; soxr_quality_spec_t q=soxr_quality_spec(SOXR_HQ,SOXR_VR); soxr_t s=soxr_create(mx,1,1,&e,0,&q,0); soxr_set_io_ratio(s,r0,0);
  size_t pos=0,tot=0,id,od; int switched=0; 
  while(1){ size_t ol= randomchunks? 1+rnd()%300 : 1000; if(!switched && tot+ol>S) ol=S-tot; if(!switched && tot==S){ soxr_set_io_ratio(s,r1,slew); switched=1; continue; }
    if(switched && slew && tot<S+slew && tot+ol>S+slew) ol=S+slew-tot;
    size_t il= randomchunks? rnd()%500 : 700; if(il>N-pos)il=N-pos; if(ol>cap-tot)ol=cap-tot;
    if(pos<N) e=soxr_process(s,in+pos,il,&id,out+tot,ol,&od); else { id=0; e=soxr_process(s,0,0,0,out+tot,ol,&od); if(!od)break; }
    pos+=id; tot+=od; if(tot>=cap)break; }
  soxr_delete(s); return tot; }
int main(int argc,char**argv){ double mx=atof(argv[1]),r0=atof(argv[2]),r1=atof(argv[3]); size_t slew=atol(argv[4]); rs+=atoll(argv[5]); size_t N=60000; float*in=malloc(4*N); for(size_t i=0;i<N;i++)in[i]=0.5f*sinf(i*0.05f);
  size_t cap=(size_t)(N/(r0<r1?r0:r1)*1.5)+1000; float*o1=malloc(4*cap),*o2=malloc(4*cap); size_t S=5000;
  size_t t1=run(mx,r0,r1,slew,S,in,N,o1,cap,0), t2=run(mx,r0,r1,slew,S,in,N,o2,cap,1);
  size_t k=0; size_t m=t1<t2?t1:t2; while(k<m&&o1[k]==o2[k])k++; double md=0; for(size_t j=0;j<m;j++){double d=fabs(o1[j]-o2[j]); if(d>md)md=d;}
  printf("mx=%g r0=%g r1=%g slew=%zu: tot %zu vs %zu first diff at %zu of %zu maxdiff=%.3g\n",mx,r0,r1,slew,t1,t2,k,m,md); return 0; }
