import os, numpy as np, random, math, ctypes
from fractions import Fraction
from spec1 import lib, Q, IO, resample
random.seed(3); np.random.seed(3)
def inband(N,ir,orr,q):
    nyq=min(1.0,orr/ir); fp=q.passband_end*nyq*0.95
    t=np.arange(N); x=np.zeros(N)
    for _ in range(5):
        f=random.uniform(0.01,fp); x+=random.uniform(0.05,0.18)*np.sin(math.pi*f*t+random.uniform(0,6.28))
    return x
worst={'lin':0,'shift':0,'eng':0,'phase_mag':0}
cfgs=[(44100,48000),(48000,44100),(2,1),(1,2),(3,2),(2,3),(5,1),(1,5),(8,1),(1,8),(96000,44100),(44100,96000),(7,3),(3.14159,1),(1,3.14159),(16,1),(1,16)]
for (ir,orr) in cfgs:
  for rec in (1,3,4,6,7):
    q=lib.soxr_quality_spec(rec,0); bits=q.precision; lim=2.0**(1-bits)
    N=6000; x=inband(N,ir,orr,q); y=inband(N,ir,orr,q); a,b=0.7,-0.45
    os.environ.pop('SOXR_USE_SIMD',None)
    rx=resample(x,ir,orr,q); ry=resample(y,ir,orr,q); rz=resample(a*x+b*y,ir,orr,q)
    e=np.abs(rz-(a*rx+b*ry)).max()/lim; worst['lin']=max(worst['lin'],e)
    if e>0.5: print("LIN",ir,orr,rec,e)
    fr=Fraction(ir)/Fraction(orr)
    if fr.denominator<=200 and fr.numerator<=400:
        M,L=fr.numerator,fr.denominator
        xs=np.concatenate([np.zeros(M),x]); rs=resample(xs,ir,orr,q)
        m=min(len(rs)-L,len(rx)); e=np.abs(rs[L:L+m]-rx[:m])[:int(m*0.9)].max()/lim; worst['shift']=max(worst['shift'],e)
        if e>0.5: print("SHIFT",ir,orr,rec,L,M,e)
    os.environ['SOXR_USE_SIMD']='0'; r0=resample(x,ir,orr,q); os.environ.pop('SOXR_USE_SIMD')
    if len(r0)!=len(rx): print("ENGLEN",ir,orr,rec,len(r0),len(rx))
    else:
        e=np.abs(r0-rx).max()/lim; worst['eng']=max(worst['eng'],e)
        if e>0.5: print("ENG",ir,orr,rec,e)
print(worst)
