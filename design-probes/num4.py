import numpy as np, math
from spec1 import lib, resample
np.random.seed(1)
for rec in (4,6):
    q=lib.soxr_quality_spec(rec,0); lim=2.0**(1-q.precision)
    N=6000; x=np.random.uniform(-0.5,0.5,N)  # broadband
    for (ir,orr,M,L) in ((5,1,10,2),(5,1,5,1),(8,1,8,1),(44100,48000,147,160),(7,3,7,3),(7,3,14,6),(7,3,28,12)):
        rx=resample(x,ir,orr,q); rs=resample(np.concatenate([np.zeros(M),x]),ir,orr,q); m=min(len(rs)-L,len(rx)); d=np.abs(rs[L:L+m]-rx[:m])[:int(m*.9)].max()
        print("rec",rec,"broadband",ir,orr,"shift",M,L,"maxdiff/lim=%.3g"%(d/lim))
    # smooth in-band
    t=np.arange(N); w=np.ones(N); ramp=1500; w[:ramp]=0.5-0.5*np.cos(np.pi*np.arange(ramp)/ramp); w[-ramp:]=w[:ramp][::-1]
    for (ir,orr,M,L) in ((5,1,5,1),(8,1,8,1),(7,3,7,3),(16,1,16,1),(1,16,1,16)):
        fp=q.passband_end*min(1,orr/ir)*0.9; xb=w*(0.3*np.sin(math.pi*fp*0.7*t)+0.25*np.sin(math.pi*fp*0.33*t+1))
        rx=resample(xb,ir,orr,q); rs=resample(np.concatenate([np.zeros(M),xb]),ir,orr,q); m=min(len(rs)-L,len(rx)); d=np.abs(rs[L:L+m]-rx[:m])[:int(m*.9)].max()
        print("rec",rec,"smooth in-band",ir,orr,"shift",M,L,"maxdiff/lim=%.3g"%(d/lim))
