#include <stdio.h>
#include <stdlib.h>
#include <string.h>
#include <math.h>
#include "soxr.h"
static unsigned long long rs=88172645463325252ULL; static unsigned long long rnd(void){rs^=rs<<13;rs^=rs>>7;rs^=rs<<17;return rs;}
static size_t sz[4]={4,8,4,2};
static void fill(void*buf,int type,size_t i,double v){ switch(type){case 0:((float*)buf)[i]=(float)v;break;case 1:((double*)buf)[i]=v;break;case 2:((int*)buf)[i]=(int)(v*2147483647.0);break;case 3:((short*)buf)[i]=(short)(v*32767.0);break;} }
int main(int argc,char**argv){ rs+=atoll(argv[1]); int iters=atoi(argv[2]); int bad=0; double rates[]={1,2,3,4,5,7,8,44100,48000,96000,8000,3.14159};
 for(int it=0;it<iters;it++){ double ir=rates[rnd()%12],orr=rates[rnd()%12]; if(orr/ir>50||ir/orr>5000)continue; unsigned ch=2+rnd()%3; size_t N=100+rnd()%3000; unsigned long rec=rnd()%8; soxr_quality_spec_t q=soxr_quality_spec(rec,0);
   int ity=rnd()%4, oty=rnd()%4, isplit=rnd()%2, osplit=rnd()%2; unsigned thr=rnd()%2; double gain= rnd()%3==0? 1.7:1.0;
   soxr_io_spec_t io=soxr_io_spec(ity|(isplit?4:0),oty|(osplit?4:0)); io.flags=SOXR_NO_DITHER; io.scale=gain; soxr_runtime_spec_t r=soxr_runtime_spec(thr);
   soxr_io_spec_t iom=soxr_io_spec(ity,oty); iom.flags=SOXR_NO_DITHER; iom.scale=gain; soxr_runtime_spec_t r1=soxr_runtime_spec(1);
   size_t cap=(size_t)(N*orr/ir)+10; char*chan[8],*mono[8]; size_t odm[8]; size_t clipsum=0;
   for(unsigned c=0;c<ch;c++){ chan[c]=malloc(8*N); mono[c]=calloc(cap,8); for(size_t i=0;i<N;i++)fill(chan[c],ity,i,sin(i*0.01*(c+1))*0.95);
     soxr_error_t e; soxr_t s=soxr_create(ir,orr,1,&e,&iom,&q,&r1); size_t id; soxr_process(s,chan[c],~N,&id,mono[c],cap,&odm[c]); clipsum+=*soxr_num_clips(s); soxr_delete(s); }
   /* multi */ char*inter=malloc(8*N*ch); for(size_t i=0;i<N;i++)for(unsigned c=0;c<ch;c++)memcpy(inter+(i*ch+c)*sz[ity],chan[c]+i*sz[ity],sz[ity]);
   char*och[8]; for(unsigned c=0;c<ch;c++)och[c]=calloc(cap,8); char*ointer=calloc(cap*ch,8);
   soxr_error_t e; soxr_t s=soxr_create(ir,orr,ch,&e,&io,&q,&r); size_t id,od; soxr_process(s,isplit?(void*)chan:(void*)inter,~N,&id,osplit?(void*)och:(void*)ointer,cap,&od); size_t clips=*soxr_num_clips(s); soxr_delete(s);
   int ok= od==odm[0]; for(unsigned c=0;c<ch&&ok;c++){ for(size_t k=0;k<od;k++){ const char*a= osplit? och[c]+k*sz[oty] : ointer+(k*ch+c)*sz[oty]; if(memcmp(a,mono[c]+k*sz[oty],sz[oty])){ok=0; printf("DIFF ir=%g or=%g rec=%lu ch=%u ity=%d oty=%d is=%d os=%d thr=%u c=%u k=%zu gain=%g\n",ir,orr,rec,ch,ity,oty,isplit,osplit,thr,c,k,gain); break;} } }
   if(ok && thr==1 && clips!=clipsum){ printf("CLIPS %zu vs %zu ity=%d oty=%d\n",clips,clipsum,ity,oty); ok=0; }
   if(!ok)bad++;
   for(unsigned c=0;c<ch;c++){free(chan[c]);free(mono[c]);free(och[c]);} free(inter);free(ointer); }
 printf("bad=%d\n",bad); return 0; }
