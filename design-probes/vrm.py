import sys, math
H2=120; PD=20; PU=12; M32=1<<32
def kvline(l):
    d={}
    for t in l.split()[1:]:
        if '=' in t: k,v=t.split('=',1); d[k]=v
    return d
def shiftr(x,by): return x<<(-by) if by<0 else x>>by
def shiftl(x,by): return shiftr(x,-by)
def INT(a): return a>>32
def FRAC(a): return a&(M32-1)
def tdiv(a,b):
    q=abs(a)//abs(b); return q if (a<0)==(b<0) else -q
class Stream:
    def __init__(s): s.at=0; s.step=0; s.ss=0; s.len=0; s.sn=0; s.is_d=0; s.mult=0.0
    def copy(s):
        c=Stream(); c.__dict__.update(s.__dict__); return c
class VR:
    def __init__(s,mx):
        x=mx; n=0
        while x>1: x*=.5; n+=1
        s.ns0=n; s.ns=max(n,1); s.st={}
        for i in range(-1,s.ns):
            pre=0 if i<0 else 2*H2 if i==0 else 3*H2//2
            s.st[i]=dict(occ=pre,pre=pre,fast=1,xf=0,mult=2*M32/shiftl(2,i))
        s.oocc=0; s.defr=mx; s.newr=0.0; s.fl=0; s.fade=0; s.slew=0; s.xfade=0; s.inc=0; s.sw=0; s.cur=Stream(); s.fo=Stream()
    def enter(s,occ0):
        c=s.cur; c.len=shiftr(occ0,c.sn); c.mult=s.st[c.sn]['mult']; c.is_d=1 if c.sn>=0 else 0
        if c.is_d: c.mult*=.5
    def set_step(s,st,r): st.step=int(r*st.mult+.5)
    def set_ss(s,st,r,slew):
        t=int(r*st.mult+.5); dif=t-st.step; dif=dif-(slew>>1) if dif<0 else dif+(slew>>1); st.ss=tdiv(dif,slew); return st.ss!=0
    def set_ratio(s,r,slew):
        if slew:
            s.slew=slew
            if not s.set_ss(s.cur,r,slew): s.slew=0; s.newr=0.0; s.fo.ss=0
            else:
                s.newr=r
                if s.fade: s.set_ss(s.fo,r,s.slew)
        else:
            first=s.defr!=0
            if first:
                octv=math.floor(math.log(r)/math.log(2.0)); s.cur.sn=-1 if octv<0 else min(octv,s.ns0-1); s.enter(0)
            elif s.fade: s.set_step(s.fo,r)
            s.set_step(s.cur,r)
            if first: s.cur.at=(INT(s.cur.at)<<32)|(FRAC(s.cur.step)>>1)
            s.defr=0
    def do_input(s,sn,sign,minsn):
        st=s.st[sn]; s1=s.st[sn-sign]
        ln=shiftr(s1['occ']-2*H2,sign); ln-=st['occ']-st['pre']
        if ln<=0: return False
        st['occ']+=ln
        if sn>=0:
            fast=1 if s.inc else 0
            if not st['xf'] and sn==s.sw:
                s.sw=0
                if st['fast']!=fast: st['xf']=1<<9; st['fast']=fast; s.xfade+=1
            if st['xf']:
                n=min(ln,st['xf']); st['xf']-=n
                if not st['xf']: s.xfade-=1
        if s.fl>0: st['occ']+=st['pre']
        return True
    def fir_d(s,st,olen):
        i=0
        while i<olen and INT(st.at)<st.len:
            st.at+=st.step
            if not INT(st.at)<st.len: st.at-=st.step; break
            i+=1; st.at+=st.step; st.step+=st.ss; i+=1
        return i
    def fir_u(s,st,olen):
        i=0
        while i<olen and INT(st.at)<st.len: st.at+=st.step; st.step+=st.ss; i+=1
        return i
    def fade_u(s,st,olen):
        i=0
        while i<olen and INT(st.at)<st.len: st.at+=st.step; st.step+=st.ss; i+=2
        return i
    def process(s,olen0):
        if s.defr!=0: s.set_ratio(s.defr,0)
        s.oocc+=olen0
        mn=mx=s.cur.sn
        if s.fade: mn=min(mn,s.fo.sn); mx=max(mx,s.fo.sn)
        for j in range(min(mn,0),mx+1):
            if j and not s.do_input(j,-1 if j<0 else 1,mn): break
        if s.fl>0: s.fl=-1
        occ0=shiftl(max(0,s.st[mx]['occ']-4*H2),mx)
        s.cur.len=shiftr(occ0,s.cur.sn)
        if s.fade: s.fo.len=shiftr(occ0,s.fo.sn)
        od0=0
        while od0<olen0:
            olen=min(olen0-od0,64)
            if s.slew: olen=min(olen,s.slew)
            elif s.newr!=0: s.set_step(s.cur,s.newr); s.set_step(s.fo,s.newr); s.cur.ss=s.fo.ss=0; s.newr=0.0
            dif=0; c=s.cur
            if not s.fl and not s.fade and not s.xfade:
                if c.is_d:
                    if INT(c.step) and FRAC(c.step): dif=1; mx+=1
                    elif not INT(c.step) and FRAC(c.step)<(1<<31): dif=-1; mn-=1
                elif INT(c.step)>1 and FRAC(c.step): dif=1; mx+=1
            if dif:
                n=c.sn+dif
                if n>=s.ns: mx-=1
                else:
                    s.inc=1 if dif>0 else 0; s.fo=c.copy(); c.sn+=dif
                    if not s.inc: s.sw=c.sn
                    if (c.sn<0 and dif<0) or (c.sn>0 and dif>0):
                        st=s.st[c.sn]; st['occ']=0; st['occ']+=st['pre']; st['fast']=0; s.do_input(c.sn,dif,c.sn)
                    if c.sn>0 and dif<0:
                        idn=INT(c.at); st=s.st[c.sn]; st['occ']=2*H2+idn+(PD>>1); s.do_input(c.sn,1,c.sn)
                    s.enter(occ0)
                    sh=-dif
                    c.at = c.at<<sh if sh>0 else c.at>>-sh
                    sh+=s.fo.is_d-c.is_d
                    c.step = c.step<<sh if sh>0 else c.step>>-sh
                    c.ss = c.ss<<sh if sh>0 else c.ss>>-sh
                    s.fade=1024
            if s.fade:
                olen=min(olen,s.fade>>1); olen2=olen<<1
                if s.cur.is_d and s.fo.is_d: od=s.fir_d(s.cur,olen2); od2=s.fir_d(s.fo,od)
                elif s.cur.is_d: od=s.fir_d(s.cur,olen2); od2=s.fade_u(s.fo,od)
                else: od=s.fir_d(s.fo,olen2); od2=s.fade_u(s.cur,od)
                if od!=od2: print("ASSERT odone!=odone2",od,od2)
                s.fade-=od
                if not s.fade:
                    if s.inc: s.sw=mn; mn+=1
                    else: mx-=1
                od>>=1
            elif s.cur.is_d: od=s.fir_d(s.cur,olen<<1)>>1
            else: od=s.fir_u(s.cur,olen)
            od0+=od
            if s.slew: s.slew-=od
            if od!=olen: break
        fr=max(0,mx); to=min(0,mn); c=s.cur
        idn=shiftr(INT(c.at),fr-c.sn); c.at-=shiftl(idn,fr-c.sn)<<32
        if s.fade: s.fo.at-=shiftl(idn,fr-s.fo.sn)<<32
        i=fr
        while i>=to:
            if idn<=s.st[i]['occ'] and idn>=0: s.st[i]['occ']-=idn
            else: print("FIFO_READ FAIL stage",i,idn,s.st[i]['occ'])
            idn<<=1; i-=1
        s.oocc-=olen0-od0
        return od0
    def dump(s):
        def S(x): return "%d/%d/%d/%d/%d/%d"%(x.at,x.step,x.ss,x.len,x.sn,x.is_d)
        return "ns0=%d ns=%d fl=%d fade=%d slew=%d xfade=%d inc=%d sw=%d oocc=%d occ=%s cur=%s fo=%s"%(s.ns0,s.ns,s.fl,s.fade,s.slew,s.xfade,s.inc,s.sw,s.oocc,''.join("%d/%d/%d,"%(s.st[i]['occ'],s.st[i]['fast'],s.st[i]['xf']) for i in range(-1,s.ns)),S(s.cur),S(s.fo))
def refdump(l):
    d=kvline(l); return "ns0=%s ns=%s fl=%s fade=%s slew=%s xfade=%s inc=%s sw=%s oocc=%s occ=%s cur=%s fo=%s"%(d['ns0'],d['ns'],d['fl'],d['fade'],d['slew'],d['xfade'],d['inc'],d['sw'],d['oocc'],d['occ'],d['cur'],d['fo'])
def run(fn):
    L=open(fn).read().split('\n'); mx=float(kvline(L[0])['mx']); v=VR(mx); apifl=False; bad=0; i=2; calls=0
    while i<len(L) and L[i]:
        l=L[i]; d=kvline(l)
        if l.startswith('RATIO'): v.set_ratio(float(d['r']),int(d['slew'])); exp=None
        elif l.startswith('PROC'):
            il=int(d['il']); ol=int(d['ol']); ilen=min(math.ceil(ol*mx),il); v.st[0]['occ']+=ilen
            if apifl and v.fl==0: v.st[0]['occ']+=v.st[0]['pre']; v.fl+=1
            v.process(ol); n=min(ol,v.oocc); v.oocc-=n; exp=(ilen,n,int(d['id']),int(d['od']))
        else:
            ol=int(d['ol']); apifl=True
            if v.fl==0: v.st[0]['occ']+=v.st[0]['pre']; v.fl+=1
            v.process(ol); n=min(ol,v.oocc); v.oocc-=n; exp=(0,n,0,int(d['od']))
        calls+=1
        got=v.dump(); ref=refdump(L[i+1])
        if got!=ref or (exp and (exp[0],exp[1])!=(exp[2],exp[3])):
            bad+=1
            if bad<3: print("MISMATCH line",i,l,exp,"\n model",got,"\n real ",ref)
        i+=2
        if bad>2: break
    return bad,calls
if __name__=='__main__': print(run(sys.argv[1]))
