#include <stdio.h>
#include <stdlib.h>
#include <string.h>
#include "soxr.h"
int main(int argc,char**argv){
  double ir=atof(argv[1]),orr=atof(argv[2]); unsigned long recipe=strtoul(argv[3],0,0); size_t N=atol(argv[4]), ci=atol(argv[5]), co=atol(argv[6]);
  soxr_error_t err; soxr_quality_spec_t q=soxr_quality_spec(recipe,0);
  soxr_t s=soxr_create(ir,orr,1,&err,0,&q,0);
  if(!s){printf("create: %s\n",err);return 0;}
  float*in=calloc(ci,4); float*out=malloc(4*co); size_t id,od,tot=0,pos=0; int calls=0;
  while(pos<N){ err=soxr_process(s,in,ci,&id,out,co,&od); pos+=id; tot+=od; calls++; if(!id&&!od){printf("stall at pos=%zu\n",pos);break;} }
  printf("pos=%zu tot=%zu calls=%d delay=%g\n",pos,tot,calls,soxr_delay(s)); fflush(stdout);
  do { err=soxr_process(s,0,0,0,out,co,&od); tot+=od;} while(od);
  printf("tot=%zu expect=%.1f\n",tot,pos*orr/ir);
  soxr_delete(s);free(in);free(out);return 0;}
