/* C19 correspondence / falsifier harness: drives the real entry points of soxr-lsr.c (linked from the library built from
 * /repo's working tree) on scripted op sequences and logs, besides every result, every call the API layer of soxr.c makes
 * into the engine.  The engine boundary is observed without touching /repo: struct soxr is visible here because soxr.c is
 * included in this translation unit, and after src_new()/src_callback_new() the object's own copy of the control block is
 * patched with logging wrappers that forward to the original entries.
 *
 * stdin:
 *   seq <label>                         start of a sequence (run in a forked child: a crash ends only that sequence)
 *   new <id> <ch> <errptr>              src_new(id, ch, errptr? &e : 0)
 *   cbnew <id> <ch> <errptr> <fn>       src_callback_new(fn? cb : 0, id, ch, …, script state)
 *   process <ratio-hex> <in> <out> <eoi> <in-null> <out-null> <io-null> <p-null>
 *   read <ratio-hex> <olen> <out-null> <p-null> <supply>    supply: comma list, each the frame count the callback hands over,
 *                                        `N` = callback sets *data = NULL; `-` = empty; exhausted script supplies 0
 *   simple <id> <ch> <ratio-hex> <in> <out> <io-null>
 *   setratio <ratio-hex> <p-null> | reset <p-null> | error <p-null> | delete <p-null>
 *   strerror <code> | name <id> | valid <ratio-hex>
 *   readall <ratio-hex> <olen> <N> <B>   the documented pull idiom: src_callback_read(olen) until it returns 0 (or < 0), the
 *                                        callback handing over N frames in blocks of B and then 0; engine events not logged
 *   pushall <ratio-hex> <N> <ib> <ob>    the documented push idiom: src_process with blocks of ib frames (end_of_input on the
 *                                        last), room for ob, until everything is used and a call generates nothing
 *   end
 * stdout, per op k of the sequence:  `B k`, then `E <event>` lines, then `R <result>` and (live handle) `S <state>`;
 *   after the child has gone:        `X <label> exit <code>` or `X <label> sig <n>`.
 * events: cr:<io_ratio bits>:<ok>  sr:<bits>:<slew>  in:<n>  fl  pr:<olen>  out:<g>  cl  cb:<n>:<null>  */
#include "soxr.c"
#include "soxr-lsr.h"
#include <stdio.h>
#include <stdint.h>
#include <stdlib.h>
#include <string.h>
#include <unistd.h>
#include <sys/wait.h>

#define SENT (-0x5a5a5a5a5a5a5a5bL)

static int quiet;      /* suppress event lines (the idiom ops make thousands of calls) */
static void out(char const * fmt, ...)
{
  char buf[512]; va_list a; int n;
  if (quiet && fmt[0] == 'E') return;
  va_start(a, fmt); n = vsnprintf(buf, sizeof buf - 1, fmt, a); va_end(a);
  if (n < 0) return;
  if (n > (int)sizeof buf - 2) n = sizeof buf - 2;
  buf[n++] = '\n';
  if (write(1, buf, (size_t)n) < 0) _exit(9);
}

static uint64_t dbits(double d) {uint64_t b; memcpy(&b, &d, 8); return b;}
static double bitsd(uint64_t b) {double d; memcpy(&d, &b, 8); return d;}

/* ---- engine boundary */
static fn_t orig[10];
static sample_t * w_input(void * r, sample_t * s, size_t n)
{ out("E in:%zu", n); return (*(sample_t * (*)(void *, sample_t *, size_t))orig[0])(r, s, n); }
static void w_process(void * r, size_t n)
{ out("E pr:%zu", n); (*(void (*)(void *, size_t))orig[1])(r, n); }
static sample_t const * w_output(void * r, sample_t * s, size_t * n)
{ sample_t const * p = (*(sample_t const * (*)(void *, sample_t *, size_t *))orig[2])(r, s, n); out("E out:%zu", *n); return p; }
static void w_flush(void * r)
{ out("E fl"); (*(void (*)(void *))orig[3])(r); }
static void w_close(void * r)
{ out("E cl"); (*(void (*)(void *))orig[4])(r); }
static char const * w_create(void * ch, void * sh, double io, soxr_quality_spec_t * q, soxr_runtime_spec_t * rs, double scale)
{
  char const * e = (*(char const * (*)(void *, void *, double, soxr_quality_spec_t *, soxr_runtime_spec_t *, double))orig[7])(ch, sh, io, q, rs, scale);
  out("E cr:%016llx:%d", (unsigned long long)dbits(io), !e);
  return e;
}
static void w_setratio(void * r, double io, size_t len)
{ out("E sr:%016llx:%zu", (unsigned long long)dbits(io), len); (*(void (*)(void *, double, size_t))orig[8])(r, io, len); }

static void patch(soxr_t p)
{
  memcpy(orig, p->control_block, sizeof orig);
  if (orig[0]) p->control_block[0] = (fn_t)w_input;
  if (orig[1]) p->control_block[1] = (fn_t)w_process;
  if (orig[2]) p->control_block[2] = (fn_t)w_output;
  if (orig[3]) p->control_block[3] = (fn_t)w_flush;
  if (orig[4]) p->control_block[4] = (fn_t)w_close;
  if (orig[7]) p->control_block[7] = (fn_t)w_create;
  if (orig[8]) p->control_block[8] = (fn_t)w_setratio;
}

/* ---- callback with a scripted supply */
#define CB_CAP 70000
static float * cb_buf; static char cb_script[4096]; static char * cb_pos; static unsigned cb_ch = 1;
static int cb_auto; static long cb_left, cb_blk;
static long cb(void * st, float * * data)
{
  long n = 0; int null = 0;
  (void)st;
  if (cb_auto) {
    n = cb_left < cb_blk? cb_left : cb_blk;
    if ((size_t)n * cb_ch > CB_CAP) n = CB_CAP / cb_ch;
    cb_left -= n;
    *data = cb_buf;
    return n;
  }
  while (cb_pos && *cb_pos == ',') ++cb_pos;
  if (cb_pos && *cb_pos && *cb_pos != '-') {
    if (*cb_pos == 'N') null = 1, ++cb_pos;
    else n = strtol(cb_pos, &cb_pos, 10);
  }
  if (n < 0) n = 0;
  if ((size_t)n * cb_ch > CB_CAP) n = CB_CAP / cb_ch;
  *data = null? 0 : cb_buf;
  out("E cb:%ld:%d", n, null);
  return n;
}

static void state(SRC_STATE * s)
{
  soxr_t p = (soxr_t)s;
  if (p) out("S err=%d io=%016llx fl=%d init=%d ch=%u fn=%d mi=%zu", !!p->error, (unsigned long long)dbits(p->io_ratio), !!p->flushing,
      !!p->resamplers, p->num_channels, !!p->input_fn, p->max_ilen);
}

static float * signal_buf(size_t n)
{
  float * b = malloc(sizeof(float) * (n? n : 1)); size_t i;
  for (i = 0; i < n; ++i) b[i] = (float)(((i * 2654435761u) >> 7 & 1023) - 512.) / 1024.f;
  return b;
}

#define MAXOPS 4096
static char * seq_lines[MAXOPS]; static int seq_n;

static void run_sequence(void)
{
  SRC_STATE * cur = 0; unsigned ch = 1; int k = 0, li;
  alarm(60);
  cb_buf = signal_buf(CB_CAP);
  for (li = 0; li < seq_n; ++li) {
    char * line = seq_lines[li];
    char op[32] = ""; char * a = line;
    if (sscanf(line, "%31s", op) != 1) continue;
    a += strcspn(a, " \n");
    out("B %d", k++);
    if (!strcmp(op, "new") || !strcmp(op, "cbnew")) {
      int id = 0, c = 1, ep = 1, fn = 0; SRC_ERROR e = 77;
      if (!strcmp(op, "new")) sscanf(a, "%d %d %d", &id, &c, &ep), cur = src_new((SRC_SRCTYPE)id, c, ep? &e : 0);
      else sscanf(a, "%d %d %d %d", &id, &c, &ep, &fn), cur = src_callback_new(fn? cb : 0, (SRC_SRCTYPE)id, c, ep? &e : 0, 0);
      ch = (unsigned)c; cb_ch = ch;
      if (cur) patch((soxr_t)cur);
      out("R h=%d e=%d", !!cur, ep? e : 77);
      state(cur);
    }
    else if (!strcmp(op, "process")) {
      unsigned long long rb; long in, on; int eoi, din, dout, ion, pn; SRC_DATA d; int rc;
      size_t need_in, need_out; float * ib, * ob;
      sscanf(a, "%llx %ld %ld %d %d %d %d %d", &rb, &in, &on, &eoi, &din, &dout, &ion, &pn);
      memset(&d, 0, sizeof d);
      need_in = (size_t)(in < 0? -in : in) * ch; need_out = (size_t)(on < 0? 0 : on) * ch;
      ib = signal_buf(need_in); ob = malloc(sizeof(float) * (need_out? need_out : 1));
      d.data_in = din? 0 : ib; d.data_out = dout? 0 : ob; d.input_frames = in; d.output_frames = on;
      d.end_of_input = eoi; d.src_ratio = bitsd(rb); d.input_frames_used = SENT; d.output_frames_gen = SENT;
      rc = src_process(pn? 0 : cur, ion? 0 : &d);
      if (d.input_frames_used == SENT && d.output_frames_gen == SENT) out("R rc=%d used=- gen=-", rc);
      else out("R rc=%d used=%ld gen=%ld", rc, d.input_frames_used, d.output_frames_gen);
      state(cur);
      free(ib); free(ob);
    }
    else if (!strcmp(op, "read")) {
      unsigned long long rb; long on, ret; int dout, pn; float * ob; char sup[4096] = "-";
      sscanf(a, "%llx %ld %d %d %4095s", &rb, &on, &dout, &pn, sup);
      strcpy(cb_script, sup); cb_pos = cb_script;
      ob = malloc(sizeof(float) * ((on > 0? (size_t)on : 0) * ch + 1));
      ret = src_callback_read(pn? 0 : cur, bitsd(rb), on, dout? 0 : ob);
      out("R ret=%ld", ret);
      state(cur);
      free(ob);
    }
    else if (!strcmp(op, "readall")) {
      unsigned long long rb; long on, N, B, ret = 0, total = 0, reads = 0; float * ob;
      sscanf(a, "%llx %ld %ld %ld", &rb, &on, &N, &B);
      ob = malloc(sizeof(float) * ((size_t)on * ch + 1));
      cb_auto = 1; cb_left = N; cb_blk = B; quiet = 1;
      while (reads < 2000000 && (ret = src_callback_read(cur, bitsd(rb), on, ob)) > 0) {
        if (ret > on) {total = -1; break;}
        total += ret, ++reads;
      }
      cb_auto = 0; quiet = 0;
      out("R total=%ld reads=%ld last=%ld left=%ld", total, reads, ret, cb_left);
      state(cur);
      free(ob);
    }
    else if (!strcmp(op, "pushall")) {
      unsigned long long rb; long N, ib, on, pos = 0, total = 0, calls = 0; int rc = 0, bad = 0; float * in, * ob; SRC_DATA d;
      sscanf(a, "%llx %ld %ld %ld", &rb, &N, &ib, &on);
      in = signal_buf((size_t)N * ch); ob = malloc(sizeof(float) * ((size_t)on * ch + 1));
      memset(&d, 0, sizeof d); quiet = 1;
      while (calls < 2000000) {
        long left = N - pos;
        d.data_in = in + pos * ch; d.input_frames = left < ib? left : ib; d.end_of_input = left <= ib;
        d.data_out = ob; d.output_frames = on; d.src_ratio = bitsd(rb); d.input_frames_used = SENT; d.output_frames_gen = SENT;
        rc = src_process(cur, &d); ++calls;
        if (rc) break;
        if (d.input_frames_used < 0 || d.input_frames_used > d.input_frames || d.output_frames_gen < 0 || d.output_frames_gen > on) {bad = 1; break;}
        pos += d.input_frames_used; total += d.output_frames_gen;
        if (pos == N && d.end_of_input && !d.output_frames_gen) break;
        if (!d.input_frames_used && !d.output_frames_gen && !d.end_of_input) {bad = 2; break;}   /* no progress */
      }
      quiet = 0;
      out("R total=%ld calls=%ld rc=%d bad=%d used=%ld", total, calls, rc, bad, pos);
      state(cur);
      free(in); free(ob);
    }
    else if (!strcmp(op, "simple")) {
      unsigned long long rb; long in, on; int id, c, ion, rc; SRC_DATA d; float * ib, * ob;
      sscanf(a, "%d %d %llx %ld %ld %d", &id, &c, &rb, &in, &on, &ion);
      memset(&d, 0, sizeof d);
      ib = signal_buf((size_t)(in < 0? 0 : in) * (size_t)(c > 0? c : 1)); ob = malloc(sizeof(float) * ((size_t)(on < 0? 0 : on) * (size_t)(c > 0? c : 1) + 1));
      d.data_in = ib; d.data_out = ob; d.input_frames = in; d.output_frames = on; d.src_ratio = bitsd(rb);
      d.input_frames_used = SENT; d.output_frames_gen = SENT;
      rc = src_simple(ion? 0 : &d, (SRC_SRCTYPE)id, c);
      if (d.input_frames_used == SENT && d.output_frames_gen == SENT) out("R rc=%d refused", rc);
      else out("R rc=%d used=%ld gen=%ld", rc, d.input_frames_used, d.output_frames_gen);
      free(ib); free(ob);
    }
    else if (!strcmp(op, "setratio")) {
      unsigned long long rb; int pn; sscanf(a, "%llx %d", &rb, &pn);
      out("R rc=%d", src_set_ratio(pn? 0 : cur, bitsd(rb))); state(cur);
    }
    else if (!strcmp(op, "reset")) {
      int pn; sscanf(a, "%d", &pn);
      out("R rc=%d", src_reset(pn? 0 : cur)); state(cur);
    }
    else if (!strcmp(op, "error")) {
      int pn; sscanf(a, "%d", &pn);
      out("R rc=%d", src_error(pn? 0 : cur)); state(cur);
    }
    else if (!strcmp(op, "delete")) {
      int pn; SRC_STATE * r; sscanf(a, "%d", &pn);
      r = src_delete(pn? 0 : cur);
      if (!pn) cur = 0;
      out("R ret=%d", !!r); state(cur);
    }
    else if (!strcmp(op, "strerror")) {
      int code; char const * s0, * s; sscanf(a, "%d", &code);
      s = src_strerror(code); s0 = src_strerror(0);
      out("R class=%d", !s? 3 : !strcmp(s, "Placeholder.")? 1 : !strcmp(s, s0)? 0 : 2); state(cur);
    }
    else if (!strcmp(op, "name")) {
      int id; sscanf(a, "%d", &id);
      out("R has=%d same=%d", !!src_get_name((SRC_SRCTYPE)id), src_get_name((SRC_SRCTYPE)id) == src_get_description((SRC_SRCTYPE)id)); state(cur);
    }
    else if (!strcmp(op, "valid")) {
      unsigned long long rb; sscanf(a, "%llx", &rb);
      out("R valid=%d", !!src_is_valid_ratio(bitsd(rb))); state(cur);
    }
    else out("R unknown-op");
  }
  _exit(0);
}

int main(void)
{
  char line[8192];
  unsetenv("SOXR_LSR_NUM_THREADS"); unsetenv("SOXR_LSR_STRICT"); unsetenv("SOXR_NUM_THREADS");
  while (fgets(line, sizeof line, stdin)) {
    char label[64] = ""; pid_t c; int st;
    if (sscanf(line, "seq %63s", label) != 1) continue;
    for (seq_n = 0; fgets(line, sizeof line, stdin) && strncmp(line, "end", 3);)
      if (seq_n < MAXOPS) seq_lines[seq_n++] = strdup(line);
    fflush(stdout);
    c = fork();
    if (!c) run_sequence();
    waitpid(c, &st, 0);
    while (seq_n) free(seq_lines[--seq_n]);
    if (WIFSIGNALED(st)) out("X %s sig %d", label, WTERMSIG(st)); else out("X %s exit %d", label, WEXITSTATUS(st));
  }
  return 0;
}
