/* Signal harness of the numeric checks C01 / C02 / C12.
 *
 * One job per process:   run key=value ...  < raw input frames  > header + raw output frames
 *
 *   ir= or=              input / output rate (doubles)
 *   recipe= qflags=      arguments of soxr_quality_spec();  prec= phase= pb= sb=  override fields of the quality spec
 *   itype= otype=        soxr_datatype_t (0 float32, 1 float64, 2 int32, 3 int16), interleaved on stdin / stdout
 *   split=               bit 0: hand the input to the library as SOXR_SPLIT (one buffer per channel), bit 1: the output likewise
 *                        (the harness (de)interleaves, stdin / stdout stay interleaved)
 *   scale=               io_spec.scale;   ioflags= io_spec.flags (8 = no dither)
 *   rtflags= min= large= kb=   runtime spec;   ch= channels;   block= input frames per soxr_process call
 *   plan=1               print the plan only (no signal is processed)
 *
 * The engine is chosen by the library from the environment (SOXR_USE_SIMD=0/1) exactly as in production.
 * This TU #includes soxr.c so that the private struct (and through it the stage plan) is visible; everything else
 * comes from libsoxr.a built from the same working tree.
 *
 * stdout:  text lines
 *            ENGINE <name>
 *            Q prec=<bits> phase=<..> pb=<..> sb=<..> flags=<..>          the quality spec as used
 *            P stage=<i> kind=<half|dft|poly0|poly1..3|cubic> kernel=<fn> L=<L> M=<M> rational=<0|1> n=<taps> mult=<..> ...
 *                      dftStep=<step.integer of a dft stage: M > 0 time-domain decimation, -log2 M frequency-domain>
 *            R in=<frames> out=<frames> clips=<n> delay_end=<..>
 *            END
 *          followed by the raw output frames (otype, interleaved). */
#include "soxr.c"
#include "cr.h"
#include <stdio.h>
#include <stdint.h>
#include <inttypes.h>

char const * _soxr_verif_stage_kind(stage_t const * s);

static char * kv(int argc, char * * argv, char const * key)
{
  int i; size_t kl = strlen(key);
  for (i = 1; i < argc; ++i) if (!strncmp(argv[i], key, kl) && argv[i][kl] == '=') return argv[i] + kl + 1;
  return 0;
}
static double kvd(int c, char * * v, char const * k, double def) { char * s = kv(c, v, k); return s? strtod(s, 0) : def; }
static unsigned long kvu(int c, char * * v, char const * k, unsigned long def) { char * s = kv(c, v, k); return s? strtoul(s, 0, 0) : def; }

static void print_plan(soxr_t S)
{
  rate_t * p = (rate_t *)S->resamplers[0]; int i;
  printf("PLAN stages=%d io_ratio=%.17g\n", p->num_stages, p->io_ratio);
  for (i = 0; i < p->num_stages; ++i) {
    stage_t * s = &p->stages[i];
    char const * k = _soxr_verif_stage_kind(s), * c = strchr(k, ':');
    char kind[32]; size_t n = c? (size_t)(c - k) : strlen(k);
    int isdft, L = 1, M = 1, rational = 1; dft_filter_t * d;
    if (n > 31) n = 31;
    memcpy(kind, k, n); kind[n] = 0;
    isdft = !strcmp(kind, "dft");
    d = isdft? &s->shared->dft_filter[s->dft_filter_num] : 0;
    if (!strcmp(kind, "half")) L = 1, M = 2;
    else if (isdft) L = s->L, M = s->step.integer > 0? s->step.integer : 1 << -s->step.integer;
    else if (!strcmp(kind, "poly0")) L = s->L, M = s->step.integer;
    else { /* interpolated poly-phase or cubic: 32.32 (or 32.96) clock */
      rational = !s->use_hi_prec_clock && s->step.fraction == 0 && s->at.fraction == 0;
      L = 1, M = rational? s->step.integer : 0;
    }
    printf("P stage=%d kind=%s kernel=%s L=%d M=%d rational=%d n=%d pre=%d prePost=%d preload=%d phaseBits=%d hiprec=%d"
        " stepWhole=%" PRId64 " stepLs=%" PRIu64 " atWhole=%" PRId64 " mult=%.17g phase0=%.17g dftLen=%d numTaps=%d postPeak=%d blockLen=%d dftStep=%d\n",
        i, kind, c? c + 1 : "", L, M, rational, s->n, s->pre, s->pre_post, s->preload, s->phase_bits,
        (int)s->use_hi_prec_clock, (int64_t)s->step.whole, (uint64_t)s->step.fix.ls.all, (int64_t)s->at.whole, s->mult, s->phase0,
        d? d->dft_length : 0, d? d->num_taps : 0, d? d->post_peak : 0, isdft? s->block_len : 0, isdft? s->step.integer : 0);
  }
}

static void * * iptr_at(void * * ptrs, unsigned char * * bufs, unsigned ch, size_t byte_off)
{
  unsigned c;
  for (c = 0; c < ch; ++c) ptrs[c] = bufs[c] + byte_off;
  return ptrs;
}

int main(int argc, char * * argv)
{
  soxr_quality_spec_t q; soxr_io_spec_t io; soxr_runtime_spec_t rt; soxr_error_t err = 0; soxr_t S;
  double irate = kvd(argc, argv, "ir", 1), orate = kvd(argc, argv, "or", 1), v;
  unsigned ch = (unsigned)kvu(argc, argv, "ch", 1);
  int itype = (int)kvu(argc, argv, "itype", SOXR_FLOAT64_I), otype = (int)kvu(argc, argv, "otype", SOXR_FLOAT64_I);
  size_t block = (size_t)kvu(argc, argv, "block", 1 << 16), isz, osz, n_in = 0, cap = 0, pos = 0, n_out = 0, ocap;
  unsigned char * in = 0, * out; char const * eng; int is_cr, split; unsigned c;
  unsigned char * * ich = 0, * * och = 0; void * * iptr = 0, * * optr = 0; size_t is1, os1;

  q = soxr_quality_spec(kvu(argc, argv, "recipe", SOXR_HQ), kvu(argc, argv, "qflags", 0));
  if ((v = kvd(argc, argv, "phase", -1)) >= 0) q.phase_response = v;
  if ((v = kvd(argc, argv, "prec", -1)) >= 0) q.precision = v;
  if ((v = kvd(argc, argv, "pb", -1)) >= 0) q.passband_end = v;
  if ((v = kvd(argc, argv, "sb", -1)) >= 0) q.stopband_begin = v;
  split = (int)kvu(argc, argv, "split", 0);
  io = soxr_io_spec((soxr_datatype_t)(itype | ((split & 1)? SOXR_SPLIT : 0)), (soxr_datatype_t)(otype | ((split & 2)? SOXR_SPLIT : 0)));
  io.scale = kvd(argc, argv, "scale", 1); io.flags = kvu(argc, argv, "ioflags", 0);
  rt = soxr_runtime_spec(1);
  rt.log2_min_dft_size = (unsigned)kvu(argc, argv, "min", rt.log2_min_dft_size);
  rt.log2_large_dft_size = (unsigned)kvu(argc, argv, "large", rt.log2_large_dft_size);
  rt.coef_size_kbytes = (unsigned)kvu(argc, argv, "kb", rt.coef_size_kbytes);
  rt.flags = kvu(argc, argv, "rtflags", 0);

  S = soxr_create(irate, orate, ch, &err, &io, &q, &rt);
  if (!S) { printf("ERROR create %s\nEND\n", err? err : "?"); return 0; }
  S->seed = 1;
  eng = soxr_engine(S);
  is_cr = eng[0] == 'c' && eng[1] == 'r';
  printf("ENGINE %s\n", eng);
  printf("Q prec=%.17g phase=%.17g pb=%.17g sb=%.17g flags=%lu\n", S->q_spec.precision, S->q_spec.phase_response,
      S->q_spec.passband_end, S->q_spec.stopband_begin, S->q_spec.flags);
  if (is_cr) print_plan(S);
  if (kvu(argc, argv, "plan", 0)) { printf("END\n"); soxr_delete(S); return 0; }

  isz = soxr_datatype_size(itype) * ch; osz = soxr_datatype_size(otype) * ch;
  for (;;) { /* slurp stdin */
    size_t got;
    if (cap - n_in < (1u << 20)) { cap = cap? cap * 2 : (1u << 22); in = realloc(in, cap); if (!in) return 2; }
    got = fread(in + n_in, 1, cap - n_in, stdin);
    if (!got) break;
    n_in += got;
  }
  n_in /= isz;
  ocap = (size_t)((double)n_in * orate / irate) + 64;
  out = malloc(ocap * osz + 16);
  if (!out) return 2;

  is1 = isz / ch; os1 = osz / ch;
  if (split & 1) {        /* one buffer per channel */
    size_t i;
    ich = malloc(sizeof(*ich) * ch); iptr = malloc(sizeof(*iptr) * ch);
    for (c = 0; c < ch; ++c) {
      ich[c] = malloc(n_in * is1 + 16);
      for (i = 0; i < n_in; ++i) memcpy(ich[c] + i * is1, in + (i * ch + c) * is1, is1);
    }
  }
  if (split & 2) {
    och = malloc(sizeof(*och) * ch); optr = malloc(sizeof(*optr) * ch);
    for (c = 0; c < ch; ++c) och[c] = malloc(ocap * os1 + 16);
  }
  #define IN_AT(p_)  ((split & 1)? (void *)(iptr_at(iptr, ich, ch, (p_) * is1)) : (void *)(in + (p_) * isz))
  #define OUT_AT(p_) ((split & 2)? (void *)(iptr_at(optr, och, ch, (p_) * os1)) : (void *)(out + (p_) * osz))

  while (pos < n_in) {
    size_t n = n_in - pos < block? n_in - pos : block, idone = 0, odone = 0;
    err = soxr_process(S, IN_AT(pos), n, &idone, OUT_AT(n_out), ocap - n_out, &odone);
    if (err) { printf("ERROR process %s\nEND\n", err); return 0; }
    pos += idone; n_out += odone;
    if (!idone && !odone && n_out >= ocap) break;
  }
  for (;;) { /* end of input: drain */
    size_t odone = 0;
    err = soxr_process(S, 0, 0, 0, OUT_AT(n_out), ocap - n_out, &odone);
    if (err) { printf("ERROR flush %s\nEND\n", err); return 0; }
    n_out += odone;
    if (!odone) break;
  }
  if (split & 2) { size_t i; for (c = 0; c < ch; ++c) for (i = 0; i < n_out; ++i) memcpy(out + (i * ch + c) * os1, och[c] + i * os1, os1); }
  printf("R in=%zu out=%zu clips=%zu\n", n_in, n_out, *soxr_num_clips(S));
  printf("END\n");
  fwrite(out, osz, n_out, stdout);
  fflush(stdout);
  soxr_delete(S);
  free(in); free(out);
  return 0;
}
