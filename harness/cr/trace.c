/* Trace harness for the constant-rate engine and the soxr.c loops.
 *
 * Reads one operation per line on stdin, executes it on the real library (this TU #includes soxr.c so that the
 * private struct is visible; the rest comes from libsoxr.a built from the same working tree) and prints
 *   "> <line>"  the same operation in the Lean driver's protocol (fed to `soxrmodel cr`)
 *   "< <line>"  what the real code did, in the form the driver prints it (diffed against the model's answer)
 *   "P <line>"  the exported plan, one line per stage, with every field PlanWF looks at
 *   "H <line>"  checksums of the delivered output, per channel (falsifiers compare these across schedules)
 * Buffers handed to the library are exactly sized heap blocks so that the sanitizer build sees any overrun. */
#include "soxr.c"
#include "cr.h"
#include <stdio.h>
#include <stdint.h>
#include <inttypes.h>

char const * _soxr_verif_stage_kind(stage_t const * s);

static soxr_t S;
static soxr_error_t create_err;
static unsigned ch = 1;
static int itype, otype;
static double irate, orate;
static soxr_quality_spec_t last_q; static soxr_io_spec_t last_io; static soxr_runtime_spec_t last_rt;   /* specs of the last `create` (op `oneshot`) */
static uint64_t pos;             /* input frames consumed so far (absolute index of the next frame) */
static uint64_t total_out;
static uint64_t hash[64];
static size_t max_ilen_set;
static uint64_t limitN = UINT64_MAX;   /* total number of input frames of the stream (op `limit`) */
static int is_cr;                /* constant-rate engine (plan export possible) */
static uint64_t sig_shift;       /* op `shift d`: the stream is d arbitrary frames followed by the unshifted signal */
static uint64_t win_a, win_n, win_seg; static uint64_t * win_hash; static size_t win_cnt;  /* op `window a n seg` */
static size_t stale_ilen;
static int null_out;            /* op `nullout 1`: a call that asks for 0 output frames passes out == NULL */
static int fast_io;             /* op `fast 1`: very long streams - the input is silence (calloc), the output is counted, not hashed */
static int eoi_style;           /* op `eoistyle k`: how end-of-input is signalled and how the drain calls look (see after_end) */        /* op `stale n`: the ilen passed along with in == NULL (soxr.h puts no requirement on it) */

/* ---------- deterministic input signal: a function of (channel, absolute frame index) only */
static double sig(unsigned c, uint64_t i)
{
  uint64_t z = (i + 0x9E3779B97F4A7C15ull * (c + 1));
  double noise;
  z ^= z >> 30; z *= 0xBF58476D1CE4E5B9ull; z ^= z >> 27; z *= 0x94D049BB133111EBull; z ^= z >> 31;
  noise = (double)(z >> 11) / 9007199254740992. - .5;
  return .45 * sin((double)i * (.0131 + .003 * c)) + .3 * sin((double)i * .41 + c) + .2 * noise;
}

static uint64_t perturb_at = UINT64_MAX; static double perturb_by;   /* op `perturb i d`: input frame i (all channels) is moved by d */
static double sigs(unsigned c, uint64_t i) { return (i < sig_shift? sig(c + 31, i) : sig(c, i - sig_shift)) + (i == perturb_at? perturb_by : 0); }

static size_t tsize(int t) { return soxr_datatype_size((soxr_datatype_t)t); }

static void put_sample(void * buf, int type, size_t idx, double v)
{
  switch (type & 3) {
    case SOXR_FLOAT32: ((float *)buf)[idx] = (float)v; break;
    case SOXR_FLOAT64: ((double *)buf)[idx] = v; break;
    case SOXR_INT32: ((int32_t *)buf)[idx] = (int32_t)floor(v * 2147483647. + .5); break;
    default: ((int16_t *)buf)[idx] = (int16_t)floor(v * 32767. + .5); break;
  }
}

/* builds an exactly-sized input block of n frames starting at absolute frame `pos`; returns what to pass as `in` */
static void * * split_ptrs;
static void * make_input(size_t n, void * * to_free)
{
  size_t sz = tsize(itype), i; unsigned c;
  if (itype & SOXR_SPLIT) {
    split_ptrs = malloc(sizeof(void *) * ch);
    for (c = 0; c < ch; ++c) {
      split_ptrs[c] = malloc(n * sz + !n);
      for (i = 0; i < n; ++i) put_sample(split_ptrs[c], itype, i, sigs(c, pos + i));
    }
    *to_free = 0;
    return split_ptrs;
  } else {
    void * b = fast_io? calloc(n * ch + !(n * ch), sz) : malloc(n * sz * ch + !(n * ch));
    if (!fast_io) for (i = 0; i < n; ++i) for (c = 0; c < ch; ++c) put_sample(b, itype, i * ch + c, sigs(c, pos + i));
    *to_free = b;
    return b;
  }
}
static void free_input(void * in, void * to_free)
{
  unsigned c;
  if (itype & SOXR_SPLIT) { for (c = 0; c < ch; ++c) free(((void * *)in)[c]); free(in); }
  else free(to_free);
}

static void * * osplit;
static void * make_output(size_t n)
{
  size_t sz = tsize(otype); unsigned c;
  if (otype & SOXR_SPLIT) {
    osplit = malloc(sizeof(void *) * ch);
    for (c = 0; c < ch; ++c) osplit[c] = malloc(n * sz + !n);
    return osplit;
  }
  return malloc(n * sz * ch + !(n * ch));
}
static void absorb_output(void * out, size_t n)
{
  size_t sz = tsize(otype), i, b; unsigned c;
  if (fast_io) { total_out += n; return; }
  for (c = 0; c < ch && c < 64; ++c) for (i = 0; i < n; ++i) {
    unsigned char const * p = (otype & SOXR_SPLIT)? (unsigned char *)((void * *)out)[c] + i * sz
                                                   : (unsigned char *)out + (i * ch + c) * sz;
    for (b = 0; b < sz; ++b) hash[c] = (hash[c] ^ p[b]) * 0x100000001B3ull;
    if (win_hash && total_out + i >= win_a && total_out + i - win_a < win_n) {   /* output frames [a, a+n) in segments, all channels */
      uint64_t * w = win_hash + (total_out + i - win_a) / win_seg;
      for (b = 0; b < sz; ++b) *w = (*w ^ p[b]) * 0x100000001B3ull;
    }
  }
  total_out += n;
}
static void free_output(void * out)
{
  unsigned c;
  if (otype & SOXR_SPLIT) { for (c = 0; c < ch; ++c) free(((void * *)out)[c]); }
  free(out);
}

/* ---------- plan / state export */
static void print_u128(unsigned __int128 v)
{
  char buf[48]; int i = 47; buf[i] = 0;
  if (!v) buf[--i] = '0';
  while (v) { buf[--i] = (char)('0' + (int)(v % 10)); v /= 10; }
  fputs(buf + i, stdout);
}

static rate_t * R0(void) { return (S && S->resamplers && is_cr)? (rate_t *)S->resamplers[0] : 0; }

static char kindbuf[32];
static char const * kind_of(stage_t const * s, char const * * kernel)
{
  char const * k = _soxr_verif_stage_kind(s), * c = strchr(k, ':');
  size_t n = c? (size_t)(c - k) : strlen(k);
  memcpy(kindbuf, k, n); kindbuf[n] = 0;
  *kernel = c? c + 1 : "";
  return kindbuf;
}

static void clk_of(stage_t const * s, char const * kind, unsigned __int128 * den, unsigned __int128 * step, unsigned __int128 * clk)
{
  if (!strcmp(kind, "half")) { *den = 1; *step = 1; *clk = 0; }
  else if (!strcmp(kind, "dft")) { *den = 1; *step = 1; *clk = (unsigned)s->at.integer; }
  else if (!strcmp(kind, "poly0")) { *den = (unsigned)s->L; *step = (unsigned)s->step.integer; *clk = (unsigned)s->at.integer; }
  else if (s->use_hi_prec_clock) {
    *den = (unsigned __int128)1 << 96;
    *step = ((unsigned __int128)(uint64_t)s->step.whole << 64) | s->step.fix.ls.all;
    *clk = ((unsigned __int128)(uint64_t)s->at.whole << 64) | s->at.fix.ls.all;
  } else { *den = (unsigned __int128)1 << 32; *step = (uint64_t)s->step.whole; *clk = (uint64_t)s->at.whole; }
}

static void print_plan(void)
{
  rate_t * p = R0(); int i; union {double d; uint64_t u;} r;
  if (!p) { printf("P none\n"); return; }
  r.d = p->io_ratio;
  printf("> cr.plan k=%d ratio=%" PRIu64 "\n", p->num_stages, r.u);
  for (i = 0; i < p->num_stages; ++i) {
    stage_t * s = &p->stages[i]; char const * kernel; char const * kind = kind_of(s, &kernel);
    unsigned __int128 den, step, clk; int isdft = !strcmp(kind, "dft");
    dft_filter_t * d = isdft? &s->shared->dft_filter[s->dft_filter_num] : 0;
    union {double d; uint64_t u;} oir; oir.d = s->out_in_ratio;
    clk_of(s, kind, &den, &step, &clk);
    printf("> cr.stage kind=%s prePost=%d preload=%d isz=%d den=", !strcmp(kind, "half")? "half" : isdft? "dft" : "clocked", s->pre_post, s->preload, s->input_size);
    print_u128(den); printf(" step="); print_u128(step); printf(" clk="); print_u128(clk);
    printf(" poly0=%d taps=%d L=%d dftLen=%d numTaps=%d M=%d remM=%d", !strcmp(kind, "poly0"), !strcmp(kind, "cubic")? 4 : s->n, s->L, d? d->dft_length : 0, d? d->num_taps : 1, isdft? s->step.integer : 1, s->remM);
    { /* integers that only the time-alignment model (Cr/Time.lean) reads.  num_coefs of a poly-phase stage is not kept by the
       * library; it is the value in (n-4, n] consistent with preload and with the parity that phase0 records */
      int nc = 0, j;
      if (!strncmp(kind, "poly", 4)) for (j = 0; j < 4 && !nc; ++j)
        if (s->n - j >= 1 && s->preload == ((s->n - j - 1) >> 1) + j && ((s->n - j) & 1) == (s->phase0 != 0)) nc = s->n - j;
      printf(" pre=%d postPeak=%d nc=%d cubic=%d\n", s->pre, d? d->post_peak : 0, nc, !strcmp(kind, "cubic"));
    }
    printf("P stage=%d kind=%s kernel=%s pre=%d prePost=%d preload=%d isz=%d n=%d L=%d phaseBits=%d hiprec=%d den=", i, kind, kernel,
        s->pre, s->pre_post, s->preload, s->input_size, s->n, s->L, s->phase_bits, (int)s->use_hi_prec_clock);
    print_u128(den); printf(" step="); print_u128(step); printf(" clk="); print_u128(clk);
    printf(" oir=%" PRIu64 " mult=%.17g phase0=%.17g M=%d dftLen=%d numTaps=%d postPeak=%d blockLen=%d\n", oir.u, s->mult, s->phase0,
        isdft? s->step.integer : 0, d? d->dft_length : 0, d? d->num_taps : 0, d? d->post_peak : 0, isdft? s->block_len : 0);
  }
  printf("< ok plan\n");
  /* the decidable well-formedness predicate the theorems assume is evaluated by the Lean driver on this very plan */
  if (p->num_stages) printf("> cr.wf\n< WF 1\n");
}

static void print_state(void)
{
  rate_t * p = R0(); int i;
  if (!p) { printf(" ST none pfl=%d err=%d", S? S->flushing : 0, S && S->error != 0); return; }
  printf(" ST in=%lld out=%lld fl=%d occ=", (long long)p->samples_in, (long long)p->samples_out, p->flushing);
  for (i = 0; i <= p->num_stages; ++i) printf("%d,", fifo_occupancy(&p->stages[i].fifo));
  printf(" clk=");
  for (i = 0; i < p->num_stages; ++i) {
    char const * kernel; char const * kind = kind_of(&p->stages[i], &kernel); unsigned __int128 den, step, clk;
    clk_of(&p->stages[i], kind, &den, &step, &clk); print_u128(clk); putchar(',');
  }
  printf(" remM=");
  for (i = 0; i < p->num_stages; ++i) printf("%d,", p->stages[i].remM);
  printf(" isz=");
  for (i = 0; i < p->num_stages; ++i) printf("%d,", p->stages[i].input_size);
  printf(" pfl=%d err=%d", S->flushing, S->error? 1 : 0);
}

/* ---------- scripted input function */
static char * * script; static int nscript, script_pos, script_base; static int fn_calls;
static char * * gscript; static int ngscript, gpos;   /* op `script`: answers consumed across calls */
static void * fn_buf, * fn_free;
/* run-length encoded logs: requests ("v*count,") and answers actually given (" tok*count") */
typedef struct {char * s; size_t len, cap; char last[40]; size_t run; char const * pre, * post;} rle_t;
static rle_t reqlog = {0, 0, 0, "", 0, "", ","}, usedlog = {0, 0, 0, "", 0, " ", ""};
static void rle_flush(rle_t * r)
{
  if (!r->run) return;
  if (r->len + 96 > r->cap) r->s = realloc(r->s, r->cap = r->cap * 2 + 256);
  if (r->run == 1) r->len += (size_t)sprintf(r->s + r->len, "%s%s%s", r->pre, r->last, r->post);
  else r->len += (size_t)sprintf(r->s + r->len, "%s%s*%zu%s", r->pre, r->last, r->run, r->post);
  r->run = 0;
}
static void rle_add(rle_t * r, char const * tok)
{
  if (r->run && !strcmp(r->last, tok)) { ++r->run; return; }
  rle_flush(r); strncpy(r->last, tok, sizeof(r->last) - 1); r->run = 1;
}
static void rle_reset(rle_t * r) { r->len = 0; r->run = 0; if (!r->s) r->s = calloc(1, r->cap = 256); r->s[0] = 0; }
static char const * rle_str(rle_t * r) { rle_flush(r); r->s[r->len] = 0; return r->s; }

static size_t input_fn(void * state, soxr_in_t * data, size_t req)
{
  /* per-call scripts are patterns (last answer repeats); a stream script (op `script`) ends with end-of-input */
  char const * tok = script_pos < nscript? script[script_pos] : (nscript && script != gscript? script[nscript - 1] : "e");
  size_t n = 0;
  (void)state;
  char tmp[40];
  ++script_pos; ++fn_calls;
  sprintf(tmp, "%zu", req); rle_add(&reqlog, tmp);
  if (fn_buf) { free_input(fn_buf, fn_free); fn_buf = 0; }
  if (tok[0] == 'f') { *data = 0; rle_add(&usedlog, "f"); return 0; }
  if (tok[0] == 'F') {   /* failure reported with a non-zero count (a partial read followed by a stream error): soxr.h makes the NULL
                          * data pointer the failure signal, whatever the count says.  Same answer "f" for the model. */
    n = (size_t)strtoull(tok + 1, 0, 10); if (n > req) n = req;
    *data = 0; rle_add(&usedlog, "f"); return n; }
  if (tok[0] == 'd') { n = (size_t)strtoull(tok + 1, 0, 10); if (n > req) n = req; if (n > limitN - pos) n = (size_t)(limitN - pos); }
  if (!n) { *data = &S; rle_add(&usedlog, "e"); return 0; }
  fn_buf = make_input(n, &fn_free);
  pos += n;     /* everything supplied counts as consumed input */
  *data = fn_buf;
  sprintf(tmp, "d%zu", n); rle_add(&usedlog, tmp);
  return n;
}

/* ---------- op parsing */
static char * kvget(char * * t, int nt, char const * key)
{
  int i; size_t kl = strlen(key);
  for (i = 0; i < nt; ++i) if (!strncmp(t[i], key, kl) && t[i][kl] == '=') return t[i] + kl + 1;
  return 0;
}
static double kvd(char * * t, int nt, char const * key, double def) { char * v = kvget(t, nt, key); return v? strtod(v, 0) : def; }
static unsigned long kvu(char * * t, int nt, char const * key, unsigned long def) { char * v = kvget(t, nt, key); return v? strtoul(v, 0, 0) : def; }

static void do_create(char * * t, int nt)
{
  soxr_quality_spec_t q; soxr_io_spec_t io; soxr_runtime_spec_t rt; double v; char * e;
  irate = kvd(t, nt, "ir", 1); orate = kvd(t, nt, "or", 1); ch = (unsigned)kvu(t, nt, "ch", 1);
  q = soxr_quality_spec(kvu(t, nt, "recipe", SOXR_HQ), kvu(t, nt, "qflags", 0));
  if ((v = kvd(t, nt, "phase", -1)) >= 0) q.phase_response = v;
  if ((v = kvd(t, nt, "prec", -1)) >= 0) q.precision = v;
  if ((v = kvd(t, nt, "pb", -1)) >= 0) q.passband_end = v;
  if ((v = kvd(t, nt, "sb", -1)) >= 0) q.stopband_begin = v;
  itype = (int)kvu(t, nt, "itype", SOXR_FLOAT64_I); otype = (int)kvu(t, nt, "otype", SOXR_FLOAT64_I);
  io = soxr_io_spec((soxr_datatype_t)itype, (soxr_datatype_t)otype);
  io.scale = kvd(t, nt, "scale", 1); io.flags = kvu(t, nt, "ioflags", 0);
  rt = soxr_runtime_spec((unsigned)kvu(t, nt, "threads", 1));
  rt.log2_min_dft_size = (unsigned)kvu(t, nt, "min", rt.log2_min_dft_size);
  rt.log2_large_dft_size = (unsigned)kvu(t, nt, "large", rt.log2_large_dft_size);
  rt.coef_size_kbytes = (unsigned)kvu(t, nt, "kb", rt.coef_size_kbytes);
  rt.flags = kvu(t, nt, "rtflags", 0);
  last_q = q; last_io = io; last_rt = rt;
  if (S) soxr_delete(S);
  S = soxr_create(irate, orate, ch, &create_err, &io, &q, &rt);
  pos = total_out = 0; memset(hash, 0, sizeof(hash)); max_ilen_set = 0; limitN = UINT64_MAX; sig_shift = 0; eoi_style = 0; null_out = 0; fast_io = 0; perturb_at = UINT64_MAX;
  free(win_hash); win_hash = 0;
  if (!S) { printf("< CREATE err %s\n", create_err); return; }
  e = (char *)soxr_engine(S);
  is_cr = e[0] == 'c' && e[1] == 'r';
  S->seed = 1;
  printf("< CREATE ok engine=%s\n", e);
  print_plan();
}

static void run_process(int hasIn, int flushReq, int useIdone, size_t ilen, size_t olen, char * * scr, int nscr, int is_pull)
{
  void * in = 0, * in_free = 0, * out; size_t idone = 0, odone = 0, direct = 0; int i; int err_before = S->error != 0;
  script = scr; nscript = nscr; script_pos = script_base = 0; rle_reset(&reqlog); rle_reset(&usedlog);
  if (!nscr && gscript) { script = gscript; nscript = ngscript; script_pos = script_base = gpos; }
  /* (a NULL array of split channel pointers is dereferenced by the library whatever the length: not done) */
  out = (null_out || eoi_style == 4) && !olen && !(otype & SOXR_SPLIT)? 0 : make_output(olen);
  if (is_pull) odone = soxr_output(S, out, olen);
  else {
    if (hasIn) {
      in = make_input(ilen, &in_free);
      /* frames soxr_process will take directly (same expression as soxr_i_for_o); the input function's
       * supplies follow them in the stream */
      direct = useIdone? min((size_t)ceil((double)olen * S->io_ratio), ilen) : ilen;
      if (err_before) direct = 0;
      pos += direct;
    }
    soxr_process(S, in, flushReq? ~ilen : ilen, useIdone? &idone : 0, out, olen, &odone);
    if (!useIdone) idone = direct;
    else if (idone != direct) printf("W idone=%zu expected=%zu\n", idone, direct);
    if (hasIn) free_input(in, in_free);
  }
  if (fn_buf) { free_input(fn_buf, fn_free); fn_buf = 0; }
  if (odone <= olen && out) absorb_output(out, odone);
  if (out) free_output(out);
  if (is_pull) printf("> cr.pull %zu%s", olen, rle_str(&usedlog));
  else printf("> cr.proc %d %d %d %zu %zu%s", hasIn, flushReq, useIdone, ilen, olen, rle_str(&usedlog));
  /* two more answers than were needed, so that a model that wants to call again can */
  for (i = 0; i < 2; ++i) {
    char const * tok = script_pos + i < nscript? script[script_pos + i] : (nscript && script != gscript? script[nscript - 1] : "e");
    printf(" %s", tok[0] == 'd' && !strtoull(tok + 1, 0, 10)? "e" : tok);
  }
  printf("\n< R id=%zu od=%zu used=%d reqs=%s", idone, odone, script_pos - script_base, rle_str(&reqlog));
  if (script == gscript) gpos = script_pos;
  print_state();
  printf("\n");
}

static void do_eoi(void)
{
  size_t idone = 7, odone = 7;
  soxr_process(S, 0, 0, &idone, 0, 0, &odone);
  printf("> cr.eoi\n< R id=%zu od=%zu used=0 reqs=", idone, odone);
  print_state();
  printf("\n");
}

/* one call once the stream is used up.  eoi_style 0: in == NULL throughout (with the stale ilen);  1: end-of-input by a call with
 * neither buffer, then drains that pass a non-NULL input of 0 frames;  2: end-of-input by in == NULL, then such drains;
 * 3: end-of-input by ilen = ~0 with a non-NULL input, then in == NULL drains;  4: the last block of the stream itself carries the
 * mark (ilen = ~il) and comes with out == NULL / olen == 0, then in == NULL drains.  All say the same thing in soxr.h's terms. */
static void after_end(size_t ol, char * * scr, int nscr)
{
  if (!S->flushing) {
    if (eoi_style == 1) { do_eoi(); return; }
    if (eoi_style == 3) { run_process(1, 1, 0, 0, ol, scr, nscr, 0); return; }
    run_process(0, 0, 0, stale_ilen, ol, scr, nscr, 0);
    return;
  }
  if (eoi_style == 1 || eoi_style == 2) run_process(1, 0, 0, 0, ol, scr, nscr, 0);
  else run_process(0, 0, 0, stale_ilen, ol, scr, nscr, 0);
}

int main(void)
{
  static char line[1 << 20]; char * t[4096]; int nt;
  setvbuf(stdout, 0, _IOFBF, 1 << 16);
  while (fgets(line, sizeof(line), stdin)) {
    char * s = strtok(line, " \t\r\n");
    nt = 0;
    while (s && nt < 4096) { t[nt++] = s; s = strtok(0, " \t\r\n"); }
    if (!nt) continue;
    if (!strcmp(t[0], "create")) do_create(t + 1, nt - 1);
    else if (!S) { printf("< no-resampler\n"); }
    else if (!strcmp(t[0], "setfn")) {
      size_t m = (size_t)strtoull(t[1], 0, 10);
      soxr_set_input_fn(S, input_fn, 0, m); max_ilen_set = m;
      printf("> cr.setfn %zu\n< ok setfn\n", m);
    }
    else if (!strcmp(t[0], "proc") && nt >= 6)
      run_process(atoi(t[1]), atoi(t[2]), atoi(t[3]), (size_t)strtoull(t[4], 0, 10), (size_t)strtoull(t[5], 0, 10), t + 6, nt - 6, 0);
    else if (!strcmp(t[0], "script")) {   /* script tok…: answers of the input function, consumed across the following calls */
      int i; gscript = malloc(sizeof(char *) * (size_t)nt); ngscript = nt - 1; gpos = 0;
      for (i = 1; i < nt; ++i) gscript[i - 1] = strdup(t[i]);
    }
    else if (!strcmp(t[0], "limit") && nt >= 2) limitN = strtoull(t[1], 0, 10);
    else if (!strcmp(t[0], "shift") && nt >= 2) sig_shift = strtoull(t[1], 0, 10);
    else if (!strcmp(t[0], "perturb") && nt >= 3) { perturb_at = strtoull(t[1], 0, 10); perturb_by = strtod(t[2], 0); }
    else if (!strcmp(t[0], "window") && nt >= 4) {   /* window a n seg: separate checksums of output frames [a, a+n), one per `seg` frames */
      win_a = strtoull(t[1], 0, 10); win_n = strtoull(t[2], 0, 10); win_seg = strtoull(t[3], 0, 10); if (!win_seg) win_seg = 1;
      win_cnt = (size_t)((win_n + win_seg - 1) / win_seg);
      free(win_hash); win_hash = calloc(win_cnt + 1, sizeof(*win_hash));
    }
    else if (!strcmp(t[0], "stale") && nt >= 2) stale_ilen = (size_t)strtoull(t[1], 0, 10);
    else if (!strcmp(t[0], "feed") && nt >= 4) {     /* feed il ol useIdone: next block of the stream, or a flush request once it is used up */
      size_t il = (size_t)strtoull(t[1], 0, 10), ol = (size_t)strtoull(t[2], 0, 10);
      /* once end-of-input has been signalled no more input is offered (soxr.h: "no data is available nor shall be available") */
      if (pos < limitN && !S->flushing) {
        if (il > limitN - pos) il = (size_t)(limitN - pos);
        /* eoi_style 4: the block that uses the stream up carries the end-of-input mark (ilen = ~il) and comes without an output buffer */
        if (eoi_style == 4 && il == limitN - pos) run_process(1, 1, 0, il, 0, t + 4, nt - 4, 0);
        /* eoi_style 5: the mark comes with the last block in an ordinary call (the form soxr_oneshot and the libsamplerate wrapper
         * use); with an idone pointer and little output room only part of it is accepted and the next `feed` offers the rest, marked again */
        else if (eoi_style == 5 && il == limitN - pos) run_process(1, 1, atoi(t[3]), il, ol, t + 4, nt - 4, 0);
        else run_process(1, 0, atoi(t[3]), il, ol, t + 4, nt - 4, 0);
      }
      else after_end(ol, t + 4, nt - 4);
    }
    else if (!strcmp(t[0], "drain") && nt >= 2) {    /* drain ol: end of input, then requests of ol frames until one returns nothing, then one more */
      size_t ol = (size_t)strtoull(t[1], 0, 10); int guard = 0, empty = 0;
      if (!S->flushing && eoi_style == 1) do_eoi();
      while (empty < 2 && guard++ < 2000000) {
        uint64_t before = total_out;
        after_end(ol, t + 2, nt - 2);
        if (total_out == before || S->error) ++empty;
      }
    }
    else if (!strcmp(t[0], "pulldrain") && nt >= 2) {  /* pulldrain ol script…: soxr_output requests of ol frames until two return nothing */
      size_t ol = (size_t)strtoull(t[1], 0, 10); int guard = 0, empty = 0;
      while (empty < 2 && guard++ < 2000000) {
        uint64_t before = total_out;
        run_process(0, 0, 0, 0, ol, t + 2, nt - 2, 1);
        if (total_out == before || S->error) ++empty;
      }
    }
    else if (!strcmp(t[0], "ratio") && nt >= 3) {   /* ratio r slew: the idiom of soxr.h, soxr_set_error(p, soxr_set_io_ratio(p, r, slew)) */
      soxr_error_t e = soxr_set_io_ratio(S, strtod(t[1], 0), (size_t)strtoull(t[2], 0, 10));
      soxr_set_error(S, e);
      printf("E ratio %s\n", e? e : "ok");
    }
    else if (!strcmp(t[0], "oneshot") && nt >= 3) {   /* oneshot n olen: the real soxr_oneshot with the specs of the last create, over the first n frames of the signal */
      size_t n = (size_t)strtoull(t[1], 0, 10), ol = (size_t)strtoull(t[2], 0, 10), idone = 0, odone = 0; void * in_free = 0, * in, * out;
      uint64_t save_pos = pos, save_out = total_out, save_hash[64]; unsigned c; soxr_error_t e;
      memcpy(save_hash, hash, sizeof(hash)); memset(hash, 0, sizeof(hash)); pos = 0; total_out = 0;
      in = make_input(n, &in_free); out = make_output(ol);
      /* `oneshot n olen 0`: without an idone pointer (soxr.h: idone may be NULL - then the whole block is the input) */
      e = soxr_oneshot(irate, orate, ch, in, n, nt >= 4 && !atoi(t[3])? 0 : &idone, out, ol, &odone, &last_io, &last_q, &last_rt);
      if (nt >= 4 && !atoi(t[3])) idone = n;
      if (odone <= ol) absorb_output(out, odone);
      printf("H1 out=%" PRIu64 " idone=%zu err=%s", total_out, idone, e? e : "-");
      for (c = 0; c < ch && c < 64; ++c) printf(" %016" PRIx64, hash[c]);
      printf("\n");
      free_input(in, in_free); free_output(out);
      memcpy(hash, save_hash, sizeof(hash)); pos = save_pos; total_out = save_out;
    }
    else if (!strcmp(t[0], "eoi")) do_eoi();     /* end of input signalled by a call with neither an input nor an output buffer */
    else if (!strcmp(t[0], "eoistyle") && nt >= 2) eoi_style = atoi(t[1]);
    else if (!strcmp(t[0], "nullout") && nt >= 2) null_out = atoi(t[1]);
    else if (!strcmp(t[0], "fast") && nt >= 2) fast_io = atoi(t[1]);
    else if (!strcmp(t[0], "pull") && nt >= 2)
      run_process(0, 0, 0, 0, (size_t)strtoull(t[1], 0, 10), t + 2, nt - 2, 1);
    else if (!strcmp(t[0], "delay")) {
      union {double d; uint64_t u;} d; d.d = soxr_delay(S);
      printf("> cr.delay\n< DELAY %" PRIu64 "\n", d.u);
      printf("D delay=%.17g pos=%" PRIu64 " out=%" PRIu64 "\n", d.d, pos, total_out);
    }
    else if (!strcmp(t[0], "clear")) {
      soxr_error_t e = soxr_clear(S);
      /* recipes without RESET_ON_CLEAR (the libsamplerate presets) are re-initialised by the next set_io_ratio, as soxr-lsr.c does */
      if (!e && !S->resamplers) e = soxr_set_io_ratio(S, irate / orate, 0);
      S->seed = 1; pos = total_out = 0; memset(hash, 0, sizeof(hash));
      printf("> cr.clear\n< ok clear\n");
      if (e) printf("E clear %s\n", e);
    }
    else if (!strcmp(t[0], "polyprobe") && nt >= 3) {
      /* polyprobe p N: (fresh constant-rate resampler, 1 channel, float64 in and out, a plan that is ONE non-interpolated poly-phase
       * stage) an impulse at input frame p of an N-frame stream of zeros; prints the plan integers, every output frame and the whole
       * coefficient table as bit patterns.  checks/polyread.py predicts each output frame as ONE table cell - row = clock phase,
       * column = tap index - from the absolute clock (Properties/C04.absolute_clock) and the index macro (Properties/C04Coef). */
      rate_t * p = R0(); size_t pp = (size_t)strtoull(t[1], 0, 10), N = (size_t)strtoull(t[2], 0, 10), idone = 0, odone = 0, k;
      char const * kernel; char const * kind = p && p->num_stages == 1? kind_of(&p->stages[0], &kernel) : "none";
      if (!p || p->num_stages != 1 || strcmp(kind, "poly0") || ch != 1 || itype != SOXR_FLOAT64_I || otype != SOXR_FLOAT64_I || pp >= N)
        printf("Q skip stages=%d kind=%s\n", p? p->num_stages : -1, kind);
      else {
        stage_t * s = &p->stages[0]; int dbl = strstr(soxr_engine(S), "64") != 0;   /* a poly-phase stage does not record its core_flags */
        size_t olen = (size_t)((double)N / p->io_ratio) + 64, cells = (size_t)s->n * (size_t)s->L;
        double * in = calloc(N, sizeof *in), * out = calloc(olen, sizeof *out); soxr_error_t e;
        union {double d; uint64_t u;} b;
        printf("Q plan L=%d step=%d at0=%d preload=%d n=%d pre=%d dbl=%d N=%zu p=%zu\n", s->L, s->step.integer, s->at.integer, s->preload, s->n, s->pre, dbl != 0, N, pp);
        printf("Q table");
        for (k = 0; k < cells; ++k) { b.d = dbl? ((double const *)s->shared->poly_fir_coefs)[k] : (double)((float const *)s->shared->poly_fir_coefs)[k]; printf(" %" PRIx64, b.u); }
        printf("\n");
        in[pp] = 1;
        e = soxr_process(S, in, N, &idone, out, olen, &odone);
        printf("Q out err=%s idone=%zu", e? e : "-", idone);
        for (k = 0; k < odone; ++k) { b.d = out[k]; printf(" %" PRIx64, b.u); }
        printf("\n");
        free(in); free(out);
      }
    }
    else if (!strcmp(t[0], "hash")) {
      unsigned c; printf("H out=%" PRIu64 " pos=%" PRIu64 " clips=%zu err=%s", total_out, pos, *soxr_num_clips(S), S->error? S->error : "-");
      for (c = 0; c < ch && c < 64; ++c) printf(" %016" PRIx64, hash[c]);
      printf("\n");
      if (win_hash) { size_t k; printf("X a=%" PRIu64 " n=%" PRIu64 " seg=%" PRIu64 " h=", win_a, win_n, win_seg);
        for (k = 0; k < win_cnt; ++k) printf("%016" PRIx64 ",", win_hash[k]); printf("\n"); }
    }
    else printf("< bad-op %s\n", t[0]);
    fflush(stdout);
  }
  if (S) soxr_delete(S);
  return 0;
}
