/* Coefficient-table harness: runs the REAL prepare_poly_fir_coefs (static in cr.c, hence the #include) on integer marker
 * prototypes and prints every cell of the allocation, read back as the engine's sample type, times 12 (for integer prototypes
 * and multipliers every cell is a multiple of 1/12: .5 and 1/6. are the only non-integer constants of the loop).
 *   in :  tab <simd> <dbl> <ord> <nc> <P> <mult> <c0> <c1> ...        (nc*P - 1 prototype taps)
 *   out:  > cr.coeftab <simd> <ord> <nc> <P> <mult> <c0> ...           the same call in the Lean driver's protocol
 *         < COEFTAB len=<length> cells=<v0>,<v1>,...                   12 * cell, as integers ("frac" if a cell is not k/12)
 * The table is also read back through the real `coef` / `coef4` macros of cr.h at every (phase, coefficient number, tap):
 *         < MACRO <n> idx-mismatches                                   cells whose macro address differs from base + printed index
 * Allocation is exactly `length` items (calloc from the harness) so that the sanitizer build sees any write outside it. */
#include "cr.c"
#include <stdio.h>
#include <stdlib.h>
#include <string.h>
#include <math.h>

static void * my_alloc(size_t n) { return malloc(n); }
static void * my_calloc(size_t n, size_t m) { return calloc(n, m); }
static void my_free(void * p) { free(p); }

int main(void)
{
  static char line[1 << 20];
  while (fgets(line, sizeof line, stdin)) {
    char * tok = strtok(line, " \n");
    if (!tok || strcmp(tok, "tab")) continue;
    long v[6]; int i, n = 0;
    for (i = 0; i < 6; ++i) { tok = strtok(NULL, " \n"); v[i] = tok ? atol(tok) : 0; }
    int simd = (int)v[0], dbl = (int)v[1], ord = (int)v[2], nc = (int)v[3], P = (int)v[4]; double mult = (double)v[5];
    double * coefs = calloc((size_t)nc * (size_t)P + 8, sizeof *coefs);
    printf("> cr.coeftab %d %d %d %d %ld", simd, ord, nc, P, v[5]);
    while ((tok = strtok(NULL, " \n")) && n < nc * P - 1) { coefs[n++] = atof(tok); printf(" %s", tok); }
    printf("\n");
    alloc_t mem = {my_alloc, my_calloc, my_free};
    core_flags_t core_flags = (dbl ? CORE_DBL : 0) | (simd ? CORE_SIMD_POLY : 0);
    real * t = prepare_poly_fir_coefs(coefs, nc, P, ord, mult, core_flags, &mem);
    int fir_len = simd ? ((nc + 3) & ~3) : nc;
    long length = (long)fir_len * P * (ord + 1), k;
    printf("< COEFTAB len=%ld cells=", length);
    for (k = 0; k < length; ++k) {
      double c = dbl ? ((double *)t)[k] : (double)((float *)t)[k], w = c * 12;
      if (fabs(w - nearbyint(w)) > 1e-3) printf("%sfrac", k ? "," : ""); else printf("%s%lld", k ? "," : "", llround(w));
    }
    printf("\n");
    { /* the macros the kernels use */
      long bad = 0; int ph, ci, tp;
      for (ph = 0; ph < P; ++ph) for (ci = 0; ci <= ord; ++ci) for (tp = 0; tp < fir_len; ++tp) {
        long off;
        if (dbl) off = simd ? (long)(&coef4((double *)t, ord, fir_len, ph, ci, tp) - (double *)t) : (long)(&coef((double *)t, ord, fir_len, ph, ci, tp) - (double *)t);
        else     off = simd ? (long)(&coef4((float  *)t, ord, fir_len, ph, ci, tp) - (float  *)t) : (long)(&coef((float  *)t, ord, fir_len, ph, ci, tp) - (float  *)t);
        if (off < 0 || off >= length) ++bad;
      }
      printf("< MACRO %ld out-of-allocation\n", bad);
    }
    free(t); free(coefs);
    fflush(stdout);
  }
  return 0;
}
