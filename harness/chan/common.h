/* Shared by harness/chan/iso.c (C06) and harness/chan/history.c (C10): one `inst_t` = one soxr_t with its own
 * deterministic input stream, schedule bookkeeping and the record of everything it delivered.
 *
 * The including TU has `#include "soxr.c"` first, so `struct soxr` is visible (the seed is pinned: see inst_create).
 * The input signal of resampler channel k is a function of (chanmap[k], absolute frame index) only — a mono instance
 * with chanmap[0] = c is "a mono resampler fed channel c alone".  Every buffer handed to the library is an exactly
 * sized heap block. */
#include <stdio.h>
#include <stdint.h>
#include <inttypes.h>

#define MAXCH 64

typedef struct {char * s; size_t len, cap;} vec_t;
static void vec_add(vec_t * v, void const * p, size_t n)
{
  if (v->len + n + 1 > v->cap) { v->cap = (v->len + n + 1) * 2 + 256; v->s = realloc(v->s, v->cap); }
  memcpy(v->s + v->len, p, n); v->len += n;
}
static void vec_reset(vec_t * v) { v->len = 0; }
static void vec_free(vec_t * v) { free(v->s); v->s = 0; v->len = v->cap = 0; }

typedef struct inst {
  char name[32];
  soxr_t S;
  soxr_error_t create_err;
  unsigned ch;
  int itype, otype;
  double irate, orate, amp;
  uint64_t sigseed;
  unsigned chanmap[MAXCH];       /* which signal channel feeds resampler channel k */
  uint64_t pos, total_out, limitN;
  uint64_t hash[MAXCH];
  int keep;                      /* keep delivered bytes (iso.c compares them byte by byte) */
  vec_t bytes[MAXCH];            /* delivered bytes per channel */
  vec_t log;                     /* per API call: idone, odone, error flag, delay bits  (uint64 each) */
  size_t max_ilen_set;
  char create_args[1024];
  /* scripted input function */
  char * * script; int nscript, script_pos, script_is_stream;
  char * * gscript; int ngscript, gpos;
  int fn_calls; uint64_t fn_req_hash;
  void * fn_buf, * fn_free;
} inst_t;

/* ---------- deterministic input signal */
static double sig(inst_t const * I, unsigned c, uint64_t i)
{
  uint64_t z = (i + 0x9E3779B97F4A7C15ull * (c + 1) + I->sigseed * 0xD1B54A32D192ED03ull);
  double noise;
  z ^= z >> 30; z *= 0xBF58476D1CE4E5B9ull; z ^= z >> 27; z *= 0x94D049BB133111EBull; z ^= z >> 31;
  noise = (double)(z >> 11) / 9007199254740992. - .5;
  return I->amp * (.45 * sin((double)i * (.0131 + .003 * c)) + .3 * sin((double)i * .41 + c) + .2 * noise);
}

static size_t tsize(int t) { return soxr_datatype_size((soxr_datatype_t)t); }

static void put_sample(void * buf, int type, size_t idx, double v)
{
  switch (type & 3) {
    case SOXR_FLOAT32: ((float *)buf)[idx] = (float)v; break;
    case SOXR_FLOAT64: ((double *)buf)[idx] = v; break;
    case SOXR_INT32: v = floor(v * 2147483647. + .5); ((int32_t *)buf)[idx] = v > 2147483647.? 2147483647 : v < -2147483648.? (-2147483647 - 1) : (int32_t)v; break;
    default: v = floor(v * 32767. + .5); ((int16_t *)buf)[idx] = v > 32767? 32767 : v < -32768? -32768 : (int16_t)v; break;
  }
}

/* exactly-sized input block of n frames starting at absolute frame I->pos; returns what to pass as `in` */
static void * make_input(inst_t * I, size_t n, void * * to_free)
{
  size_t sz = tsize(I->itype), i; unsigned c, ch = I->ch;
  if (I->itype & SOXR_SPLIT) {
    void * * ptrs = malloc(sizeof(void *) * ch);
    for (c = 0; c < ch; ++c) {
      ptrs[c] = malloc(n * sz + !n);
      for (i = 0; i < n; ++i) put_sample(ptrs[c], I->itype, i, sig(I, I->chanmap[c], I->pos + i));
    }
    *to_free = 0;
    return ptrs;
  } else {
    void * b = malloc(n * sz * ch + !(n * ch));
    for (i = 0; i < n; ++i) for (c = 0; c < ch; ++c) put_sample(b, I->itype, i * ch + c, sig(I, I->chanmap[c], I->pos + i));
    *to_free = b;
    return b;
  }
}
static void free_input(inst_t * I, void * in, void * to_free)
{
  unsigned c;
  if (I->itype & SOXR_SPLIT) { for (c = 0; c < I->ch; ++c) free(((void * *)in)[c]); free(in); }
  else free(to_free);
}
static void * make_output(inst_t * I, size_t n)
{
  size_t sz = tsize(I->otype); unsigned c;
  if (I->otype & SOXR_SPLIT) {
    void * * o = malloc(sizeof(void *) * I->ch);
    for (c = 0; c < I->ch; ++c) { o[c] = malloc(n * sz + !n); memset(o[c], 0xEE, n * sz); }
    return o;
  }
  { void * o = malloc(n * sz * I->ch + !(n * I->ch)); memset(o, 0xEE, n * sz * I->ch); return o; }
}
static void absorb_output(inst_t * I, void * out, size_t n)
{
  size_t sz = tsize(I->otype), i, b; unsigned c, ch = I->ch;
  for (c = 0; c < ch && c < MAXCH; ++c) for (i = 0; i < n; ++i) {
    unsigned char const * p = (I->otype & SOXR_SPLIT)? (unsigned char *)((void * *)out)[c] + i * sz
                                                      : (unsigned char *)out + (i * ch + c) * sz;
    for (b = 0; b < sz; ++b) I->hash[c] = (I->hash[c] ^ p[b]) * 0x100000001B3ull;
    if (I->keep) vec_add(&I->bytes[c], p, sz);
  }
  I->total_out += n;
}
static void free_output(inst_t * I, void * out)
{
  unsigned c;
  if (I->otype & SOXR_SPLIT) { for (c = 0; c < I->ch; ++c) free(((void * *)out)[c]); }
  free(out);
}

/* ---------- scripted input function: tokens dN (supply up to N frames), e (end of input), f (failure) */
static size_t input_fn(void * state, soxr_in_t * data, size_t req)
{
  inst_t * I = state;
  char const * tok = I->script_pos < I->nscript? I->script[I->script_pos]
                   : (I->nscript && !I->script_is_stream? I->script[I->nscript - 1] : "e");
  size_t n = 0;
  ++I->script_pos; ++I->fn_calls;
  I->fn_req_hash = (I->fn_req_hash ^ (uint64_t)req) * 0x100000001B3ull;
  if (I->fn_buf) { free_input(I, I->fn_buf, I->fn_free); I->fn_buf = 0; }
  if (tok[0] == 'f') { *data = 0; return 0; }
  if (tok[0] == 'd') { n = (size_t)strtoull(tok + 1, 0, 10); if (n > req) n = req; if (n > I->limitN - I->pos) n = (size_t)(I->limitN - I->pos); }
  if (!n) { *data = &I->S; return 0; }
  I->fn_buf = make_input(I, n, &I->fn_free);
  I->pos += n;
  *data = I->fn_buf;
  return n;
}

/* ---------- key=value parsing */
static char * kvget(char * * t, int nt, char const * key)
{
  int i; size_t kl = strlen(key);
  for (i = 0; i < nt; ++i) if (!strncmp(t[i], key, kl) && t[i][kl] == '=') return t[i] + kl + 1;
  return 0;
}
static double kvd(char * * t, int nt, char const * key, double def) { char * v = kvget(t, nt, key); return v? strtod(v, 0) : def; }
static unsigned long kvu(char * * t, int nt, char const * key, unsigned long def) { char * v = kvget(t, nt, key); return v? strtoul(v, 0, 0) : def; }

static void inst_reset_stats(inst_t * I)
{
  unsigned c;
  I->pos = I->total_out = 0; memset(I->hash, 0, sizeof(I->hash));
  for (c = 0; c < MAXCH; ++c) vec_reset(&I->bytes[c]);
  vec_reset(&I->log);
  I->fn_calls = 0; I->fn_req_hash = 0;
}

/* create k=v…  (same keys as harness/cr/trace.c, plus amp= sigseed= ).  `ch_override` != 0: create with that many
 * channels instead (mono reference runs); `lay_override` >= 0: replace the SPLIT bits of itype/otype (bit 0: input
 * split, bit 1: output split) */
static int inst_create(inst_t * I, char * * t, int nt, unsigned ch_override, int lay_override)
{
  soxr_quality_spec_t q; soxr_io_spec_t io; soxr_runtime_spec_t rt; double v; unsigned c;
  I->irate = kvd(t, nt, "ir", 1); I->orate = kvd(t, nt, "or", 1); I->ch = ch_override? ch_override : (unsigned)kvu(t, nt, "ch", 1);
  if (I->ch > MAXCH) I->ch = MAXCH;
  q = soxr_quality_spec(kvu(t, nt, "recipe", SOXR_HQ), kvu(t, nt, "qflags", 0));
  if ((v = kvd(t, nt, "phase", -1)) >= 0) q.phase_response = v;
  if ((v = kvd(t, nt, "prec", -1)) >= 0) q.precision = v;
  if ((v = kvd(t, nt, "pb", -1)) >= 0) q.passband_end = v;
  if ((v = kvd(t, nt, "sb", -1)) >= 0) q.stopband_begin = v;
  I->itype = (int)kvu(t, nt, "itype", SOXR_FLOAT64_I); I->otype = (int)kvu(t, nt, "otype", SOXR_FLOAT64_I);
  if (lay_override >= 0) {
    I->itype = (I->itype & 3) | ((lay_override & 1)? SOXR_SPLIT : 0);
    I->otype = (I->otype & 3) | ((lay_override & 2)? SOXR_SPLIT : 0);
  }
  io = soxr_io_spec((soxr_datatype_t)I->itype, (soxr_datatype_t)I->otype);
  io.scale = kvd(t, nt, "scale", 1); io.flags = kvu(t, nt, "ioflags", 0);
  rt = soxr_runtime_spec((unsigned)kvu(t, nt, "threads", 1));
  rt.log2_min_dft_size = (unsigned)kvu(t, nt, "min", rt.log2_min_dft_size);
  rt.log2_large_dft_size = (unsigned)kvu(t, nt, "large", rt.log2_large_dft_size);
  rt.coef_size_kbytes = (unsigned)kvu(t, nt, "kb", rt.coef_size_kbytes);
  rt.flags = kvu(t, nt, "rtflags", 0);
  I->amp = kvd(t, nt, "amp", 1); I->sigseed = kvu(t, nt, "sigseed", 0);
  for (c = 0; c < MAXCH; ++c) I->chanmap[c] = c;
  if (I->S) soxr_delete(I->S);
  I->S = soxr_create(I->irate, I->orate, I->ch, &I->create_err, &io, &q, &rt);
  inst_reset_stats(I); I->max_ilen_set = 0; I->limitN = UINT64_MAX;
  I->gscript = 0; I->ngscript = I->gpos = 0;
  if (!I->S) return 0;
  I->S->seed = 1;      /* soxr_create seeds the dither generator from time() and the object's address: pinned */
  return 1;
}

static void inst_delete(inst_t * I)
{
  unsigned c;
  if (I->S) soxr_delete(I->S);
  I->S = 0;
  for (c = 0; c < MAXCH; ++c) vec_free(&I->bytes[c]);
  vec_free(&I->log);
}

static void log_call(inst_t * I, size_t idone, size_t odone)
{
  uint64_t rec[4]; union {double d; uint64_t u;} d;
  d.d = soxr_delay(I->S);
  rec[0] = idone; rec[1] = odone; rec[2] = I->S->error != 0; rec[3] = d.u;
  vec_add(&I->log, rec, sizeof(rec));
}

/* one soxr_process (is_pull = 0) or soxr_output (is_pull = 1) call */
static void run_process(inst_t * I, int hasIn, int flushReq, int useIdone, size_t ilen, size_t olen, char * * scr, int nscr, int is_pull, int null_out)
{
  void * in = 0, * in_free = 0, * out; size_t idone = 0, odone = 0, direct = 0; int err_before = I->S->error != 0;
  I->script = scr; I->nscript = nscr; I->script_pos = 0; I->script_is_stream = 0;
  if (!nscr && I->gscript) { I->script = I->gscript; I->nscript = I->ngscript; I->script_pos = I->gpos; I->script_is_stream = 1; }
  out = null_out? 0 : make_output(I, olen);
  if (is_pull) odone = soxr_output(I->S, out, olen);
  else {
    if (hasIn) {
      in = make_input(I, ilen, &in_free);
      direct = useIdone? min((size_t)ceil((double)olen * I->S->io_ratio), ilen) : ilen;
      if (err_before) direct = 0;
      I->pos += direct;
    }
    soxr_process(I->S, in, flushReq? ~ilen : ilen, useIdone? &idone : 0, out, olen, &odone);
    if (!useIdone) idone = direct;
    if (hasIn) free_input(I, in, in_free);
  }
  if (I->fn_buf) { free_input(I, I->fn_buf, I->fn_free); I->fn_buf = 0; }
  if (out) { if (odone <= olen) absorb_output(I, out, odone); free_output(I, out); }
  if (I->script_is_stream) I->gpos = I->script_pos;
  log_call(I, idone, odone);
}

/* schedule operations shared by both harnesses; t[0] is the op.  Returns 0 if the op is not one of them. */
static int inst_op(inst_t * I, char * * t, int nt)
{
  if (!strcmp(t[0], "setfn") && nt >= 2) {
    size_t m = (size_t)strtoull(t[1], 0, 10);
    soxr_set_input_fn(I->S, input_fn, I, m); I->max_ilen_set = m;
  }
  else if (!strcmp(t[0], "proc") && nt >= 6)
    run_process(I, atoi(t[1]), atoi(t[2]), atoi(t[3]), (size_t)strtoull(t[4], 0, 10), (size_t)strtoull(t[5], 0, 10), t + 6, nt - 6, 0, 0);
  else if (!strcmp(t[0], "script")) {
    int i; I->gscript = malloc(sizeof(char *) * (size_t)nt); I->ngscript = nt - 1; I->gpos = 0;
    for (i = 1; i < nt; ++i) I->gscript[i - 1] = strdup(t[i]);
  }
  else if (!strcmp(t[0], "limit") && nt >= 2) I->limitN = strtoull(t[1], 0, 10);
  else if (!strcmp(t[0], "feed") && nt >= 4) {
    size_t il = (size_t)strtoull(t[1], 0, 10), ol = (size_t)strtoull(t[2], 0, 10);
    if (I->pos < I->limitN && !I->S->flushing) { if (il > I->limitN - I->pos) il = (size_t)(I->limitN - I->pos); run_process(I, 1, 0, atoi(t[3]), il, ol, t + 4, nt - 4, 0, 0); }
    else run_process(I, 0, 0, 0, 0, ol, t + 4, nt - 4, 0, 0);
  }
  else if (!strcmp(t[0], "oneshot") && nt >= 3) {   /* oneshot N olen: the whole stream and the end-of-input marker in one call */
    size_t il = (size_t)strtoull(t[1], 0, 10), ol = (size_t)strtoull(t[2], 0, 10);
    if (il > I->limitN - I->pos) il = (size_t)(I->limitN - I->pos);
    run_process(I, 1, 1, 1, il, ol, 0, 0, 0, 0);
  }
  else if (!strcmp(t[0], "drain") && nt >= 2) {
    size_t ol = (size_t)strtoull(t[1], 0, 10); int guard = 0, empty = 0;
    while (empty < 2 && guard++ < 2000000) {
      uint64_t before = I->total_out;
      run_process(I, 0, 0, 0, 0, ol, t + 2, nt - 2, 0, 0);
      if (I->total_out == before || I->S->error) ++empty;
    }
  }
  else if (!strcmp(t[0], "pulldrain") && nt >= 2) {
    size_t ol = (size_t)strtoull(t[1], 0, 10); int guard = 0, empty = 0;
    while (empty < 2 && guard++ < 2000000) {
      uint64_t before = I->total_out;
      run_process(I, 0, 0, 0, 0, ol, t + 2, nt - 2, 1, 0);
      if (I->total_out == before || I->S->error) ++empty;
    }
  }
  else if (!strcmp(t[0], "pull") && nt >= 2)
    run_process(I, 0, 0, 0, 0, (size_t)strtoull(t[1], 0, 10), t + 2, nt - 2, 1, 0);
  else if (!strcmp(t[0], "nullout") && nt >= 3) {   /* nullout il ol: soxr_process with out == NULL and olen > 0 (not for split-in-and-out) */
    size_t il = (size_t)strtoull(t[1], 0, 10), ol = (size_t)strtoull(t[2], 0, 10);
    if (!(I->itype & I->otype & SOXR_SPLIT)) run_process(I, 1, 0, 0, il, ol, 0, 0, 0, 1);
  }
  else if (!strcmp(t[0], "ratio") && nt >= 3) {      /* ratio r slew_len: soxr_set_io_ratio */
    soxr_error_t e = soxr_set_io_ratio(I->S, strtod(t[1], 0), (size_t)strtoull(t[2], 0, 10));
    if (e) printf("E %s ratio %s\n", I->name, e);
  }
  else return 0;
  return 1;
}

static uint64_t log_hash(inst_t const * I)
{
  uint64_t h = 0xcbf29ce484222325ull; size_t i;
  for (i = 0; i < I->log.len; ++i) h = (h ^ (unsigned char)I->log.s[i]) * 0x100000001B3ull;
  return h;
}
