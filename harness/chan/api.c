/* C06 tie: the REAL API layer (soxr.c) and the REAL (de)interleave / conversion code (data-io.c, rint-clip.h) over a TOY
 * per-channel engine plugged in through `control_block` — the same toy engine the Lean model `soxr_chan` runs
 * (lean/SoxrModel/Chan/Toy.lean).  Samples are integers in units of 1/32768 of full scale, so every datatype conversion
 * is exact and what the caller sees can be compared as integers.
 *
 * stdin (the same lines go to the Lean driver; the `cfg` line has two extra fields here: itype, eng64):
 *   cfg <ch> <isplit> <osplit> <otype> <dither> <m> <l> <scale> <seed> <vr> <itype> <eng64>
 *   proc <hasIn> <ilen0> <flushReq> <wantIdone> <outPresent> <olen> <tagbase> <reply>*
 *   pull <outPresent> <olen> <reply>*          reply: d<N>:<tagbase> | e | f
 *   setfn <maxilen> | ratio <m> <l> <slew> | clear
 *   imap de <ch> <n> <type> <eng64> | imap in <ch> <n> <type> <eng64>
 * one answer line per op (see lean/SoxrModel/Chan/Main.lean). */
#include "soxr.c"
#include <stdio.h>
#include <stdint.h>
#include <inttypes.h>

/* ------------------------------------------------------------------ toy engine */
typedef struct {
  int is64, fl; unsigned m, l; double scale;
  char * inq; size_t in_len, in_cap;
  char * outq; size_t out_len, out_off, out_cap;
} toy_t;
static int g_is64;

static size_t es(toy_t const * t) { return t->is64? sizeof(double) : sizeof(float); }
static double getv(toy_t const * t, char const * q, size_t i) { return t->is64? ((double const *)q)[i] : (double)((float const *)q)[i]; }
static void putv(toy_t const * t, char * q, size_t i, double v) { if (t->is64) ((double *)q)[i] = v; else ((float *)q)[i] = (float)v; }

static void ratio_ml(double r, unsigned * m, unsigned * l)
{
  unsigned L;
  for (L = 1; L < 8 && floor(r * L) != r * L; L *= 2);
  *l = L; *m = (unsigned)(r * L);
}

static void * toy_input(void * p, void * samples, size_t n)
{
  toy_t * t = p; (void)samples;
  if (t->in_len + n + 1 > t->in_cap) { t->in_cap = (t->in_len + n + 1) * 2; t->inq = realloc(t->inq, t->in_cap * es(t)); }
  t->in_len += n;
  return t->inq + (t->in_len - n) * es(t);
}
static void toy_process(void * p, size_t n)
{
  toy_t * t = p; unsigned M = t->m? t->m : 1;
  if (t->out_off) { memmove(t->outq, t->outq + t->out_off * es(t), (t->out_len - t->out_off) * es(t)); t->out_len -= t->out_off; t->out_off = 0; }
  while (t->out_len < n && t->in_len != 0 && (M <= t->in_len || t->fl)) {
    size_t k = M < t->in_len? M : t->in_len, j;
    if (t->out_len + t->l + 1 > t->out_cap) { t->out_cap = (t->out_len + t->l + 1) * 2; t->outq = realloc(t->outq, t->out_cap * es(t)); }
    for (j = 0; j < t->l; ++j) putv(t, t->outq, t->out_len + j, getv(t, t->inq, j % k) * t->scale);
    t->out_len += t->l;
    memmove(t->inq, t->inq + k * es(t), (t->in_len - k) * es(t)); t->in_len -= k;
  }
}
static void const * toy_output(void * p, void * samples, size_t * n)
{
  toy_t * t = p; size_t avail = t->out_len - t->out_off; void const * r; (void)samples;
  if (*n > avail) *n = avail;
  if (!t->outq) { t->out_cap = 4; t->outq = malloc(t->out_cap * es(t)); }
  r = t->outq + t->out_off * es(t);
  t->out_off += *n;
  return r;
}
static void toy_flush(void * p) { ((toy_t *)p)->fl = 1; }
static void toy_close(void * p) { toy_t * t = p; free(t->inq); free(t->outq); t->inq = t->outq = 0; }
static double toy_delay(void * p) { toy_t * t = p; return (double)(t->in_len + (t->out_len - t->out_off)) + (t->fl? 1000 : 0); }  /* the flush latch shows in soxr_delay */
static void toy_sizes(size_t * shared, size_t * channel) { *shared = 8; *channel = sizeof(toy_t); }
static char const * toy_create(void * channel, void * shared, double io_ratio, soxr_quality_spec_t * q, soxr_runtime_spec_t * r, double scale)
{
  toy_t * t = channel; (void)shared; (void)q; (void)r;
  memset(t, 0, sizeof(*t));
  t->is64 = g_is64; t->scale = scale;
  ratio_ml(io_ratio, &t->m, &t->l);
  return 0;
}
static void toy_set_io_ratio(void * p, double io_ratio, size_t len) { toy_t * t = p; (void)len; ratio_ml(io_ratio, &t->m, &t->l); }
static char const * toy_id(void) { return "toy"; }

static fn_t const toy_cb[10] = {
  (fn_t)toy_input, (fn_t)toy_process, (fn_t)toy_output, (fn_t)toy_flush, (fn_t)toy_close, (fn_t)toy_delay,
  (fn_t)toy_sizes, (fn_t)toy_create, (fn_t)toy_set_io_ratio, (fn_t)toy_id};

/* ------------------------------------------------------------------ job state */
static soxr_t S; static unsigned ch; static int isplit, osplit, itype, otype;
static char * * reps; static int nreps, rpos; static void * fn_buf;

static long tagv(unsigned long base, unsigned long f, unsigned long c)
{
  uint32_t x = (uint32_t)(base + f * 7 + c * 1301);
  x *= 2654435761u;
  return (long)(x >> 17) - 16384;
}
static size_t tsz(int t) { return soxr_datatype_size((soxr_datatype_t)t); }
static void put_in(void * buf, int type, size_t idx, long t)
{
  switch (type & 3) {
    case SOXR_FLOAT32: ((float *)buf)[idx] = (float)t / 32768.f; break;
    case SOXR_FLOAT64: ((double *)buf)[idx] = (double)t / 32768.; break;
    case SOXR_INT32: ((int32_t *)buf)[idx] = (int32_t)(t * 65536); break;
    default: ((int16_t *)buf)[idx] = (int16_t)t; break;
  }
}
static long long get_out(void const * buf, int type, size_t idx)
{
  switch (type & 3) {
    case SOXR_FLOAT32: return llround((double)((float const *)buf)[idx] * 32768.);
    case SOXR_FLOAT64: return llround(((double const *)buf)[idx] * 32768.);
    case SOXR_INT32: return ((int32_t const *)buf)[idx];
    default: return ((int16_t const *)buf)[idx];
  }
}
/* exactly sized input block; for split: array of ch exactly sized blocks */
static void * make_in(unsigned long base, size_t n)
{
  size_t sz = tsz(itype), f; unsigned c;
  if (isplit) {
    void * * ptrs = malloc(sizeof(void *) * (ch + !ch));
    for (c = 0; c < ch; ++c) { ptrs[c] = malloc(n * sz + !n); for (f = 0; f < n; ++f) put_in(ptrs[c], itype, f, tagv(base, f, c)); }
    return ptrs;
  } else {
    void * b = malloc(n * ch * sz + !(n * ch));
    for (f = 0; f < n; ++f) for (c = 0; c < ch; ++c) put_in(b, itype, f * ch + c, tagv(base, f, c));
    return b;
  }
}
static void free_in(void * in) { unsigned c; if (!in) return; if (isplit) for (c = 0; c < ch; ++c) free(((void * *)in)[c]); free(in); }
static void * make_out(size_t n)
{
  size_t sz = tsz(otype); unsigned c;
  if (osplit) { void * * o = malloc(sizeof(void *) * (ch + !ch)); for (c = 0; c < ch; ++c) { o[c] = malloc(n * sz + !n); memset(o[c], 0xEE, n * sz); } return o; }
  { void * o = malloc(n * ch * sz + !(n * ch)); memset(o, 0xEE, n * ch * sz); return o; }
}
static void free_out(void * o) { unsigned c; if (!o) return; if (osplit) for (c = 0; c < ch; ++c) free(((void * *)o)[c]); free(o); }

static size_t input_fn(void * state, soxr_in_t * data, size_t req)
{
  static char dummy[8]; char const * tok = rpos < nreps? reps[rpos] : "e"; size_t n = 0; unsigned long base = 0;
  (void)state; ++rpos;
  if (fn_buf) { free_in(fn_buf); fn_buf = 0; }
  if (tok[0] == 'f') { *data = 0; return 0; }
  if (tok[0] == 'd') { char * e; n = (size_t)strtoull(tok + 1, &e, 10); if (*e == ':') base = strtoul(e + 1, 0, 10); if (n > req) n = req; }
  if (!n) { *data = dummy; return 0; }
  fn_buf = make_in(base, n);
  *data = fn_buf;
  return n;
}

static int errcode(soxr_error_t e)
{
  if (!e) return 0;
  if (!strcmp(e, "null input buffer pointer")) return 1;
  if (!strcmp(e, "null output buffer pointer")) return 2;
  if (!strcmp(e, "input function reported failure")) return 3;
  return 9;
}

static void obs(char const * idone, size_t odone, int ret, void * out)
{
  uint64_t h = 0xCBF29CE484222325ull; size_t n = 0, i; unsigned c; char first[256]; first[0] = 0;
  if (out) {
    if (osplit) { for (c = 0; c < ch; ++c) for (i = 0; i < odone; ++i) { long long v = get_out(((void * *)out)[c], otype, i); h = (h ^ (uint64_t)v) * 0x100000001B3ull; if (n < 6) sprintf(first + strlen(first), "%s%lld", n? "," : "", v); ++n; } }
    else for (i = 0; i < odone * ch; ++i) { long long v = get_out(out, otype, i); h = (h ^ (uint64_t)v) * 0x100000001B3ull; if (n < 6) sprintf(first + strlen(first), "%s%lld", n? "," : "", v); ++n; }
  }
  printf("o idone=%s odone=%zu err=%d ret=%d fl=%d delay=%ld clips=%zu seed=%lu n=%zu h=%" PRIu64 " v=%s\n",
      idone, odone, errcode(S->error), ret, S->flushing != 0, (long)soxr_delay(S), S->clips, S->seed, n, h, first);
}

static void imap(char * dir, unsigned c_, size_t n, int type, int is64)
{
  size_t k, f; unsigned c; size_t sz = tsz(type);
  printf("im");
  if (!strcmp(dir, "de")) {
    void * src = malloc(n * c_ * sz + 1); void const * s0 = src; void * * dest = malloc(sizeof(void *) * (c_ + 1));
    for (k = 0; k < n * c_; ++k) switch (type & 3) {
      case SOXR_FLOAT32: ((float *)src)[k] = (float)k; break; case SOXR_FLOAT64: ((double *)src)[k] = (double)k; break;
      case SOXR_INT32: ((int32_t *)src)[k] = (int32_t)k; break; default: ((int16_t *)src)[k] = (int16_t)k; }
    for (c = 0; c < c_; ++c) dest[c] = calloc(n + 1, 8);
    if (is64) _soxr_deinterleave((double * *)dest, (soxr_datatype_t)type, &s0, n, c_);
    else _soxr_deinterleave_f((float * *)dest, (soxr_datatype_t)type, &s0, n, c_);
    for (c = 0; c < c_; ++c) for (f = 0; f < n; ++f) printf(" %ld", is64? (long)((double *)dest[c])[f] : (long)((float *)dest[c])[f]);
    if ((char const *)s0 != (char *)src + n * c_ * sz) printf(" BAD-SRC-ADVANCE");
    for (c = 0; c < c_; ++c) free(dest[c]);
    free(dest); free(src);
  } else {
    void * * src = malloc(sizeof(void *) * (c_ + 1)); void * dst = malloc(n * c_ * sz + 1), * d0 = dst; unsigned long seed = 1; size_t clips;
    for (c = 0; c < c_; ++c) { src[c] = calloc(n + 1, 8); for (f = 0; f < n; ++f) if (is64) ((double *)src[c])[f] = (double)(c * n + f); else ((float *)src[c])[f] = (float)(c * n + f); }
    memset(dst, 0xEE, n * c_ * sz);
    if (is64) clips = _soxr_interleave((soxr_datatype_t)type, &d0, (double const * const *)src, n, c_, 0);
    else clips = _soxr_interleave_f((soxr_datatype_t)type, &d0, (float const * const *)src, n, c_, 0);
    (void)seed;
    for (k = 0; k < n * c_; ++k) switch (type & 3) {
      case SOXR_FLOAT32: printf(" %ld", (long)((float *)dst)[k]); break; case SOXR_FLOAT64: printf(" %ld", (long)((double *)dst)[k]); break;
      case SOXR_INT32: printf(" %ld", (long)((int32_t *)dst)[k]); break; default: printf(" %ld", (long)((int16_t *)dst)[k]); }
    if (clips) printf(" CLIPS=%zu", clips);
    if (n && (char *)d0 != (char *)dst + n * c_ * sz) printf(" BAD-DEST-ADVANCE");
    for (c = 0; c < c_; ++c) free(src[c]);
    free(src); free(dst);
  }
  printf("\n");
}

int main(void)
{
  static char line[1 << 16]; char * t[4096]; int nt;
  setvbuf(stdout, 0, _IOFBF, 1 << 16);
  while (fgets(line, sizeof(line), stdin)) {
    char * s = strtok(line, " \t\r\n");
    nt = 0; while (s && nt < 4096) { t[nt++] = s; s = strtok(0, " \t\r\n"); }
    if (!nt) continue;
    if (!strcmp(t[0], "cfg") && nt >= 13) {
      soxr_io_spec_t io; soxr_quality_spec_t q; soxr_runtime_spec_t rt; soxr_error_t e; unsigned m, l; int vr, eng64;
      if (S) { soxr_delete(S); S = 0; }
      ch = (unsigned)atoi(t[1]); isplit = atoi(t[2]); osplit = atoi(t[3]); otype = atoi(t[4]) | (osplit? SOXR_SPLIT : 0);
      m = (unsigned)atoi(t[6]); l = (unsigned)atoi(t[7]); vr = atoi(t[10]); itype = atoi(t[11]) | (isplit? SOXR_SPLIT : 0); eng64 = atoi(t[12]);
      io = soxr_io_spec((soxr_datatype_t)itype, (soxr_datatype_t)otype);
      io.scale = atof(t[8]); io.flags = atoi(t[5])? 0 : SOXR_NO_DITHER;
      q = soxr_quality_spec(eng64? SOXR_VHQ : SOXR_HQ, vr? SOXR_VR : 0);
      rt = soxr_runtime_spec(1);
      S = soxr_create(0, 0, ch, &e, &io, &q, &rt);
      if (!S) { printf("E create %s\n", e); fflush(stdout); continue; }
      g_is64 = S->deinterleave == (deinterleave_t)_soxr_deinterleave;
      memcpy(S->control_block, toy_cb, sizeof(S->control_block));
      if (!vr) S->control_block[8] = 0;
      e = soxr_set_io_ratio(S, (double)m / l, 0);
      if (e) { printf("E ratio %s\n", e); fflush(stdout); continue; }
      S->seed = strtoul(t[9], 0, 10);
      printf("ok\n");
    }
    else if (!strcmp(t[0], "imap") && nt >= 6) imap(t[1], (unsigned)atoi(t[2]), (size_t)atol(t[3]), atoi(t[4]), atoi(t[5]));
    else if (!S) printf("E no-resampler\n");
    else if (!strcmp(t[0], "proc") && nt >= 8) {
      int hasIn = atoi(t[1]), fr = atoi(t[3]), wi = atoi(t[4]), op = atoi(t[5]); size_t ilen0 = (size_t)atol(t[2]), olen = (size_t)atol(t[6]);
      void * in = hasIn? make_in(strtoul(t[7], 0, 10), ilen0) : 0, * out = op? make_out(olen) : 0; size_t idone = 0, odone = 0; char ib[32];
      soxr_error_t r;
      reps = t + 8; nreps = nt - 8; rpos = 0;
      r = soxr_process(S, in, fr? ~ilen0 : ilen0, wi? &idone : 0, out, olen, &odone);
      if (fn_buf) { free_in(fn_buf); fn_buf = 0; }
      sprintf(ib, "%zu", idone);
      obs(wi? ib : "-", odone, r != 0, out);
      free_in(in); free_out(out);
    }
    else if (!strcmp(t[0], "pull") && nt >= 3) {
      int op = atoi(t[1]); size_t olen = (size_t)atol(t[2]), odone; void * out = op? make_out(olen) : 0;
      reps = t + 3; nreps = nt - 3; rpos = 0;
      odone = soxr_output(S, out, olen);
      if (fn_buf) { free_in(fn_buf); fn_buf = 0; }
      obs("0", odone, 0, out);
      free_out(out);
    }
    else if (!strcmp(t[0], "setfn") && nt >= 2) { soxr_set_input_fn(S, input_fn, 0, (size_t)strtoull(t[1], 0, 10)); obs("0", 0, 0, 0); }
    else if (!strcmp(t[0], "ratio") && nt >= 4) {
      soxr_error_t r = soxr_set_io_ratio(S, atof(t[1]) / atof(t[2]), (size_t)atol(t[3]));
      obs("0", 0, r != 0, 0);
    }
    else if (!strcmp(t[0], "clear")) { soxr_error_t r = soxr_clear(S); obs("0", 0, r != 0, 0); }
    else printf("E bad-line\n");
    fflush(stdout);
  }
  if (S) soxr_delete(S);
  return 0;
}
